(* T12 - the functions REGENERATED from trainer.dedup_batch and self_play.encode_games (gen/BatchGen.v, written
   against the torch / dict semantics of model/TorchLite.v) equal the hand-written model (model/Batch.v) on
   well-shaped batches, and never crash there.

   The generated code keeps the state of dedup_batch the way the Python does: `out` is a dict of N-row tensors of
   zeros that are filled row by row, `ids` maps the masked token tuple to a row number, `counts` is a float vector,
   `next` the number of rows in use; at the end every target is divided by `counts` reshaped to a column and
   everything is cut to `[:next]`.  The hand model keeps a list of slots.  The content of this file is the
   invariant that relates the two (the first `next` rows of every tensor are the slots, the rest is still zero) and
   the bounds reasoning behind it: `idx < N` whenever a row is written (at most one new slot per processed row),
   the mask has the shape of the row it selects from, a written row has the shape of the row it replaces, the
   rows in use have counts >= 1 so the division is finite, the unused rows (0 / 0) are cut off by `[:next]`.
   If the source loses one of these properties the corresponding rewrite below fails. *)
From Coq Require Import ZArith QArith String List Bool Lia.
From TV Require gen.Consts.
From TV Require Import model.Tak model.PySem model.SelfPlay model.Batch model.TorchLite.
From TV Require Import spec.SelfPlaySpec spec.BatchSpec proofs.PySemLemmas proofs.BatchProofs.
From TV Require gen.BatchGen.
Import ListNotations.
Open Scope Z_scope.

(* ====================== the hand model's batch as the dict of tensors ====================== *)
(* a float entry: the rational in lowest terms *)
Definition nq (q : Q) : fl := Fin (Qred q).
Definition to_dict (b : batch) : tdict :=
  [("positions"%string, I2 (map r_tokens b)); ("mask"%string, B2 (map r_mask b));
   ("moves"%string, F2 (map (fun r => map nq (r_policy r)) b));
   ("values"%string, F1 (map (fun r => nq (r_value r)) b));
   ("results"%string, F1 (map (fun r => nq (r_label r)) b))].

(* the shape guard: the tensors are rectangular, positions and mask have one shape *)
Definition rect (W K : nat) (b : batch) : Prop :=
  Forall (fun r => length (r_tokens r) = W /\ length (r_mask r) = W /\ length (r_policy r) = K) b.
Definition well_shaped (b : batch) : Prop := exists W K, rect W K b.

(* ====================== rationals in lowest terms ====================== *)
Lemma fl_add_nq a b : fl_add (nq a) (nq b) = nq (a + b).
Proof. unfold nq, fl_add. f_equal. apply Qred_complete. rewrite !Qred_correct. reflexivity. Qed.

Lemma nq_zero : nq 0 = fl_zero.
Proof. reflexivity. Qed.

Lemma qred_inject n : Qred (inject_Z n) = inject_Z n.
Proof.
  unfold Qred, inject_Z.
  pose proof (Z.ggcd_gcd n 1) as Hg. pose proof (Z.ggcd_correct_divisors n 1) as Hd.
  destruct (Z.ggcd n 1) as (g, (aa, bb)). simpl in *. rewrite Z.gcd_1_r in Hg. subst g.
  destruct Hd as (Ha & Hb). rewrite !Z.mul_1_l in *. subst. reflexivity.
Qed.

Lemma count_succ c : fl_add (Fin (inject_Z c)) (Fin (inject_Z 1)) = Fin (inject_Z (c + 1)).
Proof.
  unfold fl_add. f_equal. rewrite <- (qred_inject (c + 1)). apply Qred_complete.
  unfold Qeq, inject_Z, Qplus. simpl. lia.
Qed.

Lemma fl_div_nq x c : 0 < c -> fl_div (nq x) (Fin (inject_Z c)) = nq (x / inject_Z c).
Proof.
  intros Hc. unfold fl_div, nq.
  assert (E : Qeq_bool (inject_Z c) 0 = false).
  { destruct (Qeq_bool (inject_Z c) 0) eqn:E; [|reflexivity]. apply Qeq_bool_iff in E.
    unfold Qeq, inject_Z in E. simpl in E. lia. }
  rewrite E. f_equal. apply Qred_complete. rewrite Qred_correct. reflexivity.
Qed.

Lemma map2_fl_add_nq : forall a b, length a = length b ->
  map2 fl_add (map nq a) (map nq b) = map nq (vadd a b).
Proof.
  induction a as [|x a IH]; intros [|y b] H; cbn [map map2 vadd length] in *; try lia; [reflexivity|].
  rewrite fl_add_nq, IH by lia. reflexivity.
Qed.

(* ====================== lists: nat indices, padding ====================== *)
Lemma getitem_nat {A} (l : list A) n x : nth_error l n = Some x -> py_getitem l (Z.of_nat n) = Ok x.
Proof.
  intros H. assert (Hn : (n < length l)%nat) by (apply nth_error_Some; congruence).
  unfold py_getitem. rewrite py_index_in by (unfold zlen; lia). rewrite Nat2Z.id, H. reflexivity.
Qed.

Lemma setitem_nat {A} (l : list A) n v : (n < length l)%nat -> py_setitem l (Z.of_nat n) v = Ok (upd l n v).
Proof.
  intros Hn. unfold py_setitem. rewrite py_index_in by (unfold zlen; lia). rewrite Nat2Z.id. reflexivity.
Qed.

Definition pad {A} (z : A) (n : nat) (l : list A) : list A := l ++ repeat z (n - length l).

Lemma pad_length {A} (z : A) n l : (length l <= n)%nat -> length (pad z n l) = n.
Proof. intros H. unfold pad. rewrite app_length, repeat_length. lia. Qed.

Lemma pad_nth_in {A} (z : A) n l j : (j < length l)%nat -> nth_error (pad z n l) j = nth_error l j.
Proof. intros H. unfold pad. apply nth_error_app1. exact H. Qed.

Lemma pad_nth_out {A} (z : A) n l j : (length l <= j < n)%nat -> nth_error (pad z n l) j = Some z.
Proof.
  intros H. unfold pad. rewrite nth_error_app2 by lia. apply nth_error_repeat. lia.
Qed.

Lemma upd_app_l {A} : forall (l1 l2 : list A) j v, (j < length l1)%nat -> upd (l1 ++ l2) j v = upd l1 j v ++ l2.
Proof.
  induction l1 as [|a l1 IH]; intros l2 j v H; simpl in *; [lia|]. destruct j; simpl; [reflexivity|].
  rewrite IH by lia. reflexivity.
Qed.

Lemma upd_length' {A} (l : list A) j v : length (upd l j v) = length l.
Proof. revert j. induction l as [|a l IH]; intros [|j]; simpl; try reflexivity. rewrite IH. reflexivity. Qed.

Lemma pad_upd_in {A} (z : A) n l j v : (j < length l)%nat -> upd (pad z n l) j v = pad z n (upd l j v).
Proof. intros H. unfold pad. rewrite upd_app_l by exact H. rewrite upd_length'. reflexivity. Qed.

Lemma upd_app_here' {A} : forall (l1 : list A) x l2 v, upd (l1 ++ x :: l2) (length l1) v = l1 ++ v :: l2.
Proof. induction l1 as [|a l1 IH]; intros x l2 v; simpl; [reflexivity|]. rewrite IH. reflexivity. Qed.

Lemma pad_upd_next {A} (z : A) n l v : (length l < n)%nat -> upd (pad z n l) (length l) v = pad z n (l ++ [v]).
Proof.
  intros H. unfold pad. rewrite app_length. simpl length.
  replace (n - length l)%nat with (S (n - (length l + 1))) by lia. simpl repeat.
  rewrite upd_app_here', <- app_assoc. reflexivity.
Qed.

(* one more explicit zero entry is the same padded list *)
Lemma pad_snoc_zero {A} (z : A) n l : (length l < n)%nat -> pad z n (l ++ [z]) = pad z n l.
Proof.
  intros H. unfold pad. rewrite app_length. simpl length.
  replace (n - length l)%nat with (S (n - (length l + 1))) by lia. simpl repeat. rewrite <- app_assoc. reflexivity.
Qed.

Lemma map_const_repeat {A B} (z : B) (l : list A) : map (fun _ => z) l = repeat z (length l).
Proof. induction l as [|a l IH]; simpl; [reflexivity|]. rewrite IH. reflexivity. Qed.

Lemma map_repeat' {A B} (f : A -> B) x k : map f (repeat x k) = repeat (f x) k.
Proof. induction k as [|k IH]; simpl; [reflexivity|]. rewrite IH. reflexivity. Qed.

Lemma upd_map {A B} (f : A -> B) : forall l j v, upd (map f l) j (f v) = map f (upd l j v).
Proof. induction l as [|a l IH]; intros [|j] v; simpl; try reflexivity. rewrite IH. reflexivity. Qed.

Lemma upd_nth_error_same {A} : forall (l : list A) j v, (j < length l)%nat -> nth_error (upd l j v) j = Some v.
Proof. induction l as [|a l IH]; intros [|j] v H; simpl in *; try lia; [reflexivity|]. apply IH. lia. Qed.

Lemma upd_same_nth {A} : forall (l : list A) j x, nth_error l j = Some x -> upd l j x = l.
Proof. induction l as [|a l IH]; intros [|j] x H; simpl in *; try discriminate; [congruence|]. rewrite IH by exact H. reflexivity. Qed.

(* ====================== TorchLite inside the bounds ====================== *)
Lemma getrow_F2 m j row : nth_error m j = Some row -> t_getrow (F2 m) (Z.of_nat j) = Ok (F1 row).
Proof. intros H. unfold t_getrow. rewrite (getitem_nat _ _ _ H). reflexivity. Qed.
Lemma getrow_I2 m j row : nth_error m j = Some row -> t_getrow (I2 m) (Z.of_nat j) = Ok (I1 row).
Proof. intros H. unfold t_getrow. rewrite (getitem_nat _ _ _ H). reflexivity. Qed.
Lemma getrow_B2 m j row : nth_error m j = Some row -> t_getrow (B2 m) (Z.of_nat j) = Ok (B1 row).
Proof. intros H. unfold t_getrow. rewrite (getitem_nat _ _ _ H). reflexivity. Qed.
Lemma getrow_F1 v j x : nth_error v j = Some x -> t_getrow (F1 v) (Z.of_nat j) = Ok (F0 x).
Proof. intros H. unfold t_getrow. rewrite (getitem_nat _ _ _ H). reflexivity. Qed.

Lemma same_len_true {A B} (a : list A) (b : list B) : length a = length b -> same_len a b = true.
Proof. intros H. unfold same_len. rewrite H. apply Nat.eqb_refl. Qed.

Lemma setrow_F2 m j old row : nth_error m j = Some old -> length old = length row ->
  t_setrow (F2 m) (Z.of_nat j) (F1 row) = Ok (F2 (upd m j row)).
Proof.
  intros H Hl. assert (Hj : (j < length m)%nat) by (apply nth_error_Some; congruence).
  unfold t_setrow. rewrite (getitem_nat _ _ _ H). cbn [bind]. rewrite (same_len_true _ _ Hl).
  rewrite (setitem_nat _ _ _ Hj). reflexivity.
Qed.
Lemma setrow_I2 m j old row : nth_error m j = Some old -> length old = length row ->
  t_setrow (I2 m) (Z.of_nat j) (I1 row) = Ok (I2 (upd m j row)).
Proof.
  intros H Hl. assert (Hj : (j < length m)%nat) by (apply nth_error_Some; congruence).
  unfold t_setrow. rewrite (getitem_nat _ _ _ H). cbn [bind]. rewrite (same_len_true _ _ Hl).
  rewrite (setitem_nat _ _ _ Hj). reflexivity.
Qed.
Lemma setrow_B2 m j old row : nth_error m j = Some old -> length old = length row ->
  t_setrow (B2 m) (Z.of_nat j) (B1 row) = Ok (B2 (upd m j row)).
Proof.
  intros H Hl. assert (Hj : (j < length m)%nat) by (apply nth_error_Some; congruence).
  unfold t_setrow. rewrite (getitem_nat _ _ _ H). cbn [bind]. rewrite (same_len_true _ _ Hl).
  rewrite (setitem_nat _ _ _ Hj). reflexivity.
Qed.
Lemma setrow_F1 v j x : (j < length v)%nat -> t_setrow (F1 v) (Z.of_nat j) (F0 x) = Ok (F1 (upd v j x)).
Proof. intros Hj. unfold t_setrow. rewrite (setitem_nat _ _ _ Hj). reflexivity. Qed.

Lemma select_masked : forall t m, select t m = masked t m.
Proof. induction t as [|x t IH]; intros [|b m]; simpl; try reflexivity. rewrite IH. reflexivity. Qed.

(* ====================== the five-entry dict ====================== *)
Definition out5 (P M Mo V R : tensor) : tdict :=
  [("positions"%string, P); ("mask"%string, M); ("moves"%string, Mo); ("values"%string, V); ("results"%string, R)].
Lemma get_positions P M Mo V R : d_get (out5 P M Mo V R) "positions" = Ok P. Proof. reflexivity. Qed.
Lemma get_mask P M Mo V R : d_get (out5 P M Mo V R) "mask" = Ok M. Proof. reflexivity. Qed.
Lemma get_moves P M Mo V R : d_get (out5 P M Mo V R) "moves" = Ok Mo. Proof. reflexivity. Qed.
Lemma get_values P M Mo V R : d_get (out5 P M Mo V R) "values" = Ok V. Proof. reflexivity. Qed.
Lemma get_results P M Mo V R : d_get (out5 P M Mo V R) "results" = Ok R. Proof. reflexivity. Qed.
Lemma set_positions P M Mo V R X : d_set (out5 P M Mo V R) "positions" X = out5 X M Mo V R. Proof. reflexivity. Qed.
Lemma set_mask P M Mo V R X : d_set (out5 P M Mo V R) "mask" X = out5 P X Mo V R. Proof. reflexivity. Qed.
Lemma set_moves P M Mo V R X : d_set (out5 P M Mo V R) "moves" X = out5 P M X V R. Proof. reflexivity. Qed.
Lemma set_values P M Mo V R X : d_set (out5 P M Mo V R) "values" X = out5 P M Mo X R. Proof. reflexivity. Qed.
Lemma set_results P M Mo V R X : d_set (out5 P M Mo V R) "results" X = out5 P M Mo V X. Proof. reflexivity. Qed.
Lemma mapM_out5 f P M Mo V R :
  d_mapM f (out5 P M Mo V R) =
  (p <- f "positions"%string P ;; m <- f "mask"%string M ;; mo <- f "moves"%string Mo ;;
   v <- f "values"%string V ;; r <- f "results"%string R ;; ret (out5 p m mo v r)).
Proof.
  unfold out5. cbn [d_mapM].
  destruct (f "positions"%string P); cbn [bind ret]; try reflexivity.
  destruct (f "mask"%string M); cbn [bind ret]; try reflexivity.
  destruct (f "moves"%string Mo); cbn [bind ret]; try reflexivity.
  destruct (f "values"%string V); cbn [bind ret]; try reflexivity.
  destruct (f "results"%string R); cbn [bind ret]; reflexivity.
Qed.
Lemma out5_eq P M Mo V R P' M' Mo' V' R' : P = P' -> M = M' -> Mo = Mo' -> V = V' -> R = R' ->
  out5 P M Mo V R = out5 P' M' Mo' V' R'.
Proof. intros; subst; reflexivity. Qed.
Global Opaque out5.
Ltac dict5 := repeat (progress (cbn [bind ret];
                                rewrite ?set_positions, ?set_mask, ?set_moves, ?set_values, ?set_results,
                                        ?get_positions, ?get_mask, ?get_moves, ?get_values, ?get_results)).

Lemma to_dict_out5 b : to_dict b = out5 (I2 (map r_tokens b)) (B2 (map r_mask b))
  (F2 (map (fun r => map nq (r_policy r)) b)) (F1 (map (fun r => nq (r_value r)) b)) (F1 (map (fun r => nq (r_label r)) b)).
Proof. reflexivity. Qed.

(* ====================== the state of the generated loop as a function of the hand model's slots ====================== *)
Section Dedup.
Variables (W K n : nat).

Definition slot_ok (s : slot) : Prop :=
  length (s_tokens s) = W /\ length (s_mask s) = W /\ length (s_policy s) = K.
Definition row_ok (r : row) : Prop :=
  length (r_tokens r) = W /\ length (r_mask r) = W /\ length (r_policy r) = K.

Definition out_of (slots : list slot) : tdict :=
  out5 (I2 (pad (repeat 0 W) n (map s_tokens slots)))
       (B2 (pad (repeat false W) n (map s_mask slots)))
       (F2 (pad (repeat fl_zero K) n (map (fun s => map nq (s_policy s)) slots)))
       (F1 (pad fl_zero n (map (fun s => nq (s_value s)) slots)))
       (F1 (pad fl_zero n (map (fun s => nq (s_label s)) slots))).
Definition counts_of (slots : list slot) : tensor :=
  F1 (pad fl_zero n (map (fun s => Fin (inject_Z (s_count s))) slots)).
Fixpoint ids_from (o : Z) (slots : list slot) : zdict :=
  match slots with [] => [] | s :: t => (s_key s, o) :: ids_from (o + 1) t end.

(* index of the first slot with a key *)
Fixpoint find_idx (k : list Z) (slots : list slot) : option nat :=
  match slots with
  | [] => None
  | s :: t => if key_eqb (s_key s) k then Some 0%nat else option_map S (find_idx k t)
  end.

Lemma find_idx_some k : forall slots j, find_idx k slots = Some j ->
  exists s, nth_error slots j = Some s /\ (j < length slots)%nat.
Proof.
  induction slots as [|s t IH]; intros j H; simpl in H; [discriminate|].
  destruct (key_eqb (s_key s) k).
  - injection H as <-. exists s. split; [reflexivity|simpl; lia].
  - destruct (find_idx k t) as [j'|] eqn:E; [|discriminate]. injection H as <-.
    destruct (IH j' eq_refl) as (s' & Hs & Hl). exists s'. split; [exact Hs|simpl; lia].
Qed.

Lemma add_row_found r : forall slots j s, find_idx (key_of r) slots = Some j -> nth_error slots j = Some s ->
  add_row r slots = upd slots j (slot_add s r).
Proof.
  induction slots as [|h t IH]; intros j s H Hs; simpl in H; [discriminate|]. simpl.
  destruct (key_eqb (s_key h) (key_of r)).
  - injection H as <-. simpl in Hs. injection Hs as <-. reflexivity.
  - destruct (find_idx (key_of r) t) as [j'|] eqn:E; [|discriminate]. injection H as <-. simpl in Hs.
    simpl. rewrite (IH j' s eq_refl Hs). reflexivity.
Qed.

Lemma add_row_new r : forall slots, find_idx (key_of r) slots = None ->
  add_row r slots = slots ++ [slot_add (new_slot r) r].
Proof.
  induction slots as [|h t IH]; intros H; simpl in H; simpl; [reflexivity|].
  destruct (key_eqb (s_key h) (key_of r)); [discriminate|].
  destruct (find_idx (key_of r) t); [discriminate|]. rewrite IH by reflexivity. reflexivity.
Qed.

Lemma zd_mem_ids k : forall slots o,
  zd_mem k (ids_from o slots) = match find_idx k slots with Some _ => true | None => false end.
Proof.
  intros slots o. change (existsb (fun e => key_eqb (fst e) k) (ids_from o slots) =
                          match find_idx k slots with Some _ => true | None => false end).
  revert o. induction slots as [|s t IH]; intros o; cbn [ids_from existsb find_idx fst]; [reflexivity|].
  destruct (key_eqb (s_key s) k); cbn [orb]; [reflexivity|]. rewrite (IH (o + 1)).
  destruct (find_idx k t); reflexivity.
Qed.

Lemma zd_get_ids k : forall slots o j, find_idx k slots = Some j ->
  zd_get (ids_from o slots) k = Ok (o + Z.of_nat j).
Proof.
  intros slots o j. change (find_idx k slots = Some j -> py_dict_get key_eqb (ids_from o slots) k = Ok (o + Z.of_nat j)).
  revert o j. induction slots as [|s t IH]; intros o j H; cbn [ids_from py_dict_get find_idx] in *; [discriminate|].
  destruct (key_eqb (s_key s) k).
  - injection H as <-. f_equal. lia.
  - destruct (find_idx k t) as [j'|] eqn:E; [|discriminate]. injection H as <-.
    rewrite (IH (o + 1) j' eq_refl). f_equal. lia.
Qed.

Lemma zd_set_ids_new k v : forall slots o, find_idx k slots = None ->
  zd_set (ids_from o slots) k v = ids_from o slots ++ [(k, v)].
Proof.
  intros slots o. change (find_idx k slots = None -> assoc_set key_eqb (ids_from o slots) k v = ids_from o slots ++ [(k, v)]).
  revert o. induction slots as [|s t IH]; intros o H; cbn [ids_from assoc_set find_idx app] in *; [reflexivity|].
  destruct (key_eqb (s_key s) k); [discriminate|].
  destruct (find_idx k t) eqn:E; [discriminate|]. rewrite (IH (o + 1) eq_refl). reflexivity.
Qed.

Lemma ids_from_snoc : forall slots o s,
  ids_from o (slots ++ [s]) = ids_from o slots ++ [(s_key s, o + Z.of_nat (length slots))].
Proof.
  induction slots as [|h t IH]; intros o s; cbn [ids_from app length].
  - change (Z.of_nat 0) with 0. rewrite Z.add_0_r. reflexivity.
  - rewrite IH, Nat2Z.inj_succ. replace (o + 1 + Z.of_nat (length t)) with (o + Z.succ (Z.of_nat (length t))) by lia.
    reflexivity.
Qed.

Lemma ids_from_upd : forall slots o j s s', nth_error slots j = Some s -> s_key s' = s_key s ->
  ids_from o (upd slots j s') = ids_from o slots.
Proof.
  induction slots as [|h t IH]; intros o j s s' Hj Hk; [destruct j; discriminate|].
  destruct j as [|j]; simpl in *.
  - injection Hj as ->. rewrite Hk. reflexivity.
  - rewrite (IH (o + 1) j s s' Hj Hk). reflexivity.
Qed.

(* ---------- the else branch: a new slot takes row `next` ---------- *)
Lemma out_of_new_slot slots r : (length slots < n)%nat -> row_ok r ->
  out_of (slots ++ [new_slot r]) =
  out5 (I2 (upd (pad (repeat 0 W) n (map s_tokens slots)) (length slots) (r_tokens r)))
       (B2 (upd (pad (repeat false W) n (map s_mask slots)) (length slots) (r_mask r)))
       (F2 (pad (repeat fl_zero K) n (map (fun s => map nq (s_policy s)) slots)))
       (F1 (pad fl_zero n (map (fun s => nq (s_value s)) slots)))
       (F1 (pad fl_zero n (map (fun s => nq (s_label s)) slots))).
Proof.
  intros Hn (Ht & Hm & Hp). unfold out_of. rewrite !map_app. cbn [map new_slot s_tokens s_mask s_policy s_value s_label].
  assert (E1 : forall x, upd (pad (repeat 0 W) n (map s_tokens slots)) (length slots) x =
                         pad (repeat 0 W) n (map s_tokens slots ++ [x])).
  { intros x. rewrite <- (map_length s_tokens slots). apply pad_upd_next. rewrite map_length. exact Hn. }
  assert (E2 : forall x, upd (pad (repeat false W) n (map s_mask slots)) (length slots) x =
                         pad (repeat false W) n (map s_mask slots ++ [x])).
  { intros x. rewrite <- (map_length s_mask slots). apply pad_upd_next. rewrite map_length. exact Hn. }
  rewrite E1, E2, Hp.
  replace (map nq (repeat 0%Q K)) with (repeat fl_zero K) by (rewrite map_repeat'; reflexivity).
  rewrite !pad_snoc_zero by (rewrite map_length; exact Hn). reflexivity.
Qed.

Lemma counts_of_new_slot slots r : (length slots < n)%nat ->
  counts_of (slots ++ [new_slot r]) = counts_of slots.
Proof.
  intros Hn. unfold counts_of. rewrite map_app. simpl map.
  rewrite pad_snoc_zero by (rewrite map_length; exact Hn). reflexivity.
Qed.

(* ---------- counts[idx] += 1 ---------- *)
Lemma counts_step slots j s r : (length slots <= n)%nat -> nth_error slots j = Some s ->
  exists c, t_getrow (counts_of slots) (Z.of_nat j) = Ok (F0 c) /\
    exists c', t_iadd (F0 c) (t_of_int 1) = Ok (F0 c') /\
      t_setrow (counts_of slots) (Z.of_nat j) (F0 c') = Ok (counts_of (upd slots j (slot_add s r))).
Proof.
  intros Hn Hs. assert (Hj : (j < length slots)%nat) by (apply nth_error_Some; congruence).
  unfold counts_of. eexists. split.
  - apply getrow_F1. rewrite pad_nth_in by (rewrite map_length; exact Hj).
    apply map_nth_error. exact Hs.
  - eexists. split; [unfold t_iadd, t_of_int; rewrite count_succ; reflexivity|].
    rewrite setrow_F1 by (rewrite pad_length by (rewrite map_length; lia); lia).
    rewrite pad_upd_in by (rewrite map_length; exact Hj).
    change (Fin (inject_Z (s_count s + 1))) with ((fun s0 => Fin (inject_Z (s_count s0))) (slot_add s r)).
    rewrite upd_map. reflexivity.
Qed.

(* ---------- the inner loop: the three targets of row i are added to row idx ---------- *)
Lemma for2_step b i r slots j s : rect W K b -> length b = n -> nth_error b i = Some r ->
  (length slots <= n)%nat -> Forall slot_ok slots -> nth_error slots j = Some s ->
  BatchGen.dedup_batch_for2 (to_dict b) (Z.of_nat i) (Z.of_nat j) (out_of slots) ["moves"; "values"; "results"]%string
  = Ok (out_of (upd slots j (slot_add s r))).
Proof.
  intros Hrect Hlen Hr Hn Hok Hs.
  assert (Hj : (j < length slots)%nat) by (apply nth_error_Some; congruence).
  assert (Hrok : row_ok r) by (apply (proj1 (Forall_forall _ b) Hrect r (nth_error_In _ _ Hr))).
  assert (Hsok : slot_ok s) by (apply (proj1 (Forall_forall _ slots) Hok s (nth_error_In _ _ Hs))).
  destruct Hrok as (Hrt & Hrm & Hrp). destruct Hsok as (Hst & Hsm & Hsp).
  rewrite to_dict_out5. unfold out_of.
  cbn [BatchGen.dedup_batch_for2]. dict5.
  (* moves *)
  rewrite (getrow_F2 _ j (map nq (s_policy s))) by
    (rewrite pad_nth_in by (rewrite map_length; exact Hj); apply (map_nth_error (fun s0 => map nq (s_policy s0))); exact Hs).
  dict5.
  rewrite (getrow_F2 _ i (map nq (r_policy r))) by (apply (map_nth_error (fun r0 => map nq (r_policy r0))); exact Hr).
  cbn [bind]. unfold t_iadd at 1. rewrite same_len_true by (rewrite !map_length; congruence). cbn [bind].
  rewrite map2_fl_add_nq by congruence.
  rewrite (setrow_F2 _ j (map nq (s_policy s))) by
    (try (rewrite pad_nth_in by (rewrite map_length; exact Hj); apply (map_nth_error (fun s0 => map nq (s_policy s0))); exact Hs);
     rewrite !map_length; unfold vadd; rewrite vadd_length; congruence).
  dict5.
  (* values *)
  rewrite (getrow_F1 _ j (nq (s_value s))) by
    (rewrite pad_nth_in by (rewrite map_length; exact Hj); apply (map_nth_error (fun s0 => nq (s_value s0))); exact Hs).
  dict5.
  rewrite (getrow_F1 _ i (nq (r_value r))) by (apply (map_nth_error (fun r0 => nq (r_value r0))); exact Hr).
  cbn [bind]. unfold t_iadd at 1. cbn [bind]. rewrite fl_add_nq.
  rewrite setrow_F1 by (rewrite pad_length by (rewrite map_length; lia); lia).
  dict5.
  (* results *)
  rewrite (getrow_F1 _ j (nq (s_label s))) by
    (rewrite pad_nth_in by (rewrite map_length; exact Hj); apply (map_nth_error (fun s0 => nq (s_label s0))); exact Hs).
  dict5.
  rewrite (getrow_F1 _ i (nq (r_label r))) by (apply (map_nth_error (fun r0 => nq (r_label r0))); exact Hr).
  cbn [bind]. unfold t_iadd at 1. cbn [bind]. rewrite fl_add_nq.
  rewrite setrow_F1 by (rewrite pad_length by (rewrite map_length; lia); lia).
  dict5.
  (* the state is that of the updated slot list *)
  apply f_equal. apply out5_eq.
  - f_equal. rewrite <- (upd_map s_tokens). simpl. rewrite (upd_same_nth _ _ _ (map_nth_error s_tokens _ _ Hs)). reflexivity.
  - f_equal. rewrite <- (upd_map s_mask). simpl. rewrite (upd_same_nth _ _ _ (map_nth_error s_mask _ _ Hs)). reflexivity.
  - f_equal. rewrite pad_upd_in by (rewrite map_length; exact Hj).
    rewrite <- (upd_map (fun s0 => map nq (s_policy s0))). reflexivity.
  - f_equal. rewrite pad_upd_in by (rewrite map_length; exact Hj).
    rewrite <- (upd_map (fun s0 => nq (s_value s0))). reflexivity.
  - f_equal. rewrite pad_upd_in by (rewrite map_length; exact Hj).
    rewrite <- (upd_map (fun s0 => nq (s_label s0))). reflexivity.
Qed.

(* ---------- shapes are kept ---------- *)
Lemma add_row_length r : forall slots, (length (add_row r slots) <= S (length slots))%nat.
Proof.
  induction slots as [|h t IH]; simpl; [lia|]. destruct (key_eqb (s_key h) (key_of r)); simpl; lia.
Qed.

Lemma add_row_ok r : row_ok r -> forall slots, Forall slot_ok slots -> Forall slot_ok (add_row r slots).
Proof.
  intros (Ht & Hm & Hp). induction slots as [|h t IH]; intros Hok; simpl.
  - constructor; [|constructor]. unfold slot_ok. simpl. repeat split; try assumption.
    rewrite vadd_length; rewrite repeat_length; congruence.
  - pose proof (Forall_inv Hok) as (H1 & H2 & H3). pose proof (Forall_inv_tail Hok) as Hok'.
    destruct (key_eqb (s_key h) (key_of r)).
    + constructor; [|exact Hok']. unfold slot_ok. simpl. repeat split; try assumption.
      rewrite vadd_length; congruence.
    + constructor; [exact (Forall_inv Hok)|apply IH; exact Hok'].
Qed.

(* ---------- one iteration of the outer loop ---------- *)
Definition keys3 : list string := ["moves"; "values"; "results"]%string.

Lemma iter_step b ii r slots rest : rect W K b -> length b = n -> nth_error b ii = Some r ->
  (length slots <= ii)%nat -> Forall slot_ok slots ->
  BatchGen.dedup_batch_for1 (to_dict b) keys3 (out_of slots) (ids_from 0 slots) (counts_of slots)
    (Z.of_nat (length slots)) (Z.of_nat ii :: rest) =
  BatchGen.dedup_batch_for1 (to_dict b) keys3 (out_of (add_row r slots)) (ids_from 0 (add_row r slots))
    (counts_of (add_row r slots)) (Z.of_nat (length (add_row r slots))) rest.
Proof.
  intros Hrect Hlen Hr Hle Hok.
  assert (Hii : (ii < n)%nat) by (rewrite <- Hlen; apply nth_error_Some; congruence).
  assert (Hrok : row_ok r) by (apply (proj1 (Forall_forall _ b) Hrect r (nth_error_In _ _ Hr))).
  pose proof Hrok as (Hrt & Hrm & Hrp).
  cbn [BatchGen.dedup_batch_for1]. rewrite to_dict_out5. dict5. rewrite <- to_dict_out5.
  rewrite (getrow_I2 _ ii (r_tokens r)) by (apply map_nth_error; exact Hr). cbn [bind].
  rewrite (getrow_B2 _ ii (r_mask r)) by (apply map_nth_error; exact Hr). cbn [bind].
  unfold t_mask_select at 1. rewrite same_len_true by congruence. cbn [bind t_tolist_int].
  rewrite select_masked. fold (key_of r). rewrite zd_mem_ids.
  destruct (find_idx (key_of r) slots) as [j|] eqn:Ef.
  - (* the key has a slot *)
    destruct (find_idx_some _ _ _ Ef) as (s & Hs & Hj).
    rewrite (zd_get_ids _ _ 0 j Ef). cbn [bind ret]. rewrite Z.add_0_l.
    destruct (counts_step slots j s r ltac:(lia) Hs) as (c & Hc1 & c' & Hc2 & Hc3).
    rewrite Hc1. cbn [bind]. rewrite Hc2. cbn [bind]. rewrite Hc3. cbn [bind].
    fold keys3. unfold keys3 at 1.
    rewrite (for2_step b ii r slots j s Hrect Hlen Hr ltac:(lia) Hok Hs). cbn [bind].
    rewrite (add_row_found r slots j s Ef Hs).
    rewrite (ids_from_upd slots 0 j s (slot_add s r) Hs eq_refl), upd_length'. reflexivity.
  - (* a new key: row `next` is taken *)
    assert (Hn : (length slots < n)%nat) by lia.
    cbn [bind ret].
    assert (Eo : out_of slots = out5 (I2 (pad (repeat 0 W) n (map s_tokens slots)))
       (B2 (pad (repeat false W) n (map s_mask slots)))
       (F2 (pad (repeat fl_zero K) n (map (fun s => map nq (s_policy s)) slots)))
       (F1 (pad fl_zero n (map (fun s => nq (s_value s)) slots)))
       (F1 (pad fl_zero n (map (fun s => nq (s_label s)) slots)))) by reflexivity.
    rewrite Eo. clear Eo.
    (* the two row assignments, in whichever order the source has them *)
    repeat (first
      [ progress dict5
      | rewrite (setrow_I2 _ (length slots) (repeat 0 W)) by
          (try (apply pad_nth_out; rewrite map_length; lia); rewrite repeat_length; congruence)
      | rewrite (setrow_B2 _ (length slots) (repeat false W)) by
          (try (apply pad_nth_out; rewrite map_length; lia); rewrite repeat_length; congruence) ]).
    rewrite <- (out_of_new_slot slots r Hn Hrok).
    rewrite (zd_set_ids_new _ _ slots 0 Ef).
    set (slots1 := slots ++ [new_slot r]).
    assert (Hs1 : nth_error slots1 (length slots) = Some (new_slot r)).
    { unfold slots1. rewrite nth_error_app2 by lia. rewrite Nat.sub_diag. reflexivity. }
    assert (Hok1 : Forall slot_ok slots1).
    { unfold slots1. apply Forall_app. split; [exact Hok|]. constructor; [|constructor].
      unfold slot_ok. simpl. rewrite repeat_length. repeat split; assumption. }
    assert (Hl1 : (length slots1 <= n)%nat) by (unfold slots1; rewrite app_length; simpl; lia).
    rewrite <- (counts_of_new_slot slots r Hn). fold slots1.
    destruct (counts_step slots1 (length slots) (new_slot r) r Hl1 Hs1) as (c & Hc1 & c' & Hc2 & Hc3).
    rewrite Hc1. cbn [bind]. rewrite Hc2. cbn [bind]. rewrite Hc3. cbn [bind].
    fold keys3. unfold keys3 at 1.
    rewrite (for2_step b ii r slots1 (length slots) (new_slot r) Hrect Hlen Hr Hl1 Hok1 Hs1). cbn [bind].
    rewrite (add_row_new r slots Ef).
    assert (Hupd : upd slots1 (length slots) (slot_add (new_slot r) r) = slots ++ [slot_add (new_slot r) r]).
    { unfold slots1. apply upd_app_here'. }
    rewrite Hupd.
    replace (ids_from 0 slots ++ [(key_of r, Z.of_nat (length slots))])
      with (ids_from 0 (slots ++ [slot_add (new_slot r) r])) by (rewrite ids_from_snoc; reflexivity).
    replace (Z.of_nat (length slots) + 1) with (Z.of_nat (length (slots ++ [slot_add (new_slot r) r])))
      by (rewrite app_length; simpl; lia).
    reflexivity.
Qed.

(* ---------- the whole outer loop ---------- *)
Lemma for1_spec b : rect W K b -> length b = n -> forall todo done slots, b = done ++ todo ->
  (length slots <= length done)%nat -> Forall slot_ok slots ->
  BatchGen.dedup_batch_for1 (to_dict b) keys3 (out_of slots) (ids_from 0 slots) (counts_of slots)
    (Z.of_nat (length slots)) (map Z.of_nat (seq (length done) (length todo))) =
  let slots' := fold_left (fun acc r => add_row r acc) todo slots in
  Ok (out_of slots', ids_from 0 slots', counts_of slots', Z.of_nat (length slots')).
Proof.
  intros Hrect Hlen. induction todo as [|r todo IH]; intros done slots Hb Hle Hok.
  - reflexivity.
  - cbn [length seq map fold_left].
    assert (Hr : nth_error b (length done) = Some r).
    { rewrite Hb, nth_error_app2 by lia. rewrite Nat.sub_diag. reflexivity. }
    assert (Hrok : row_ok r) by (apply (proj1 (Forall_forall _ b) Hrect r (nth_error_In _ _ Hr))).
    rewrite (iter_step b (length done) r slots _ Hrect Hlen Hr Hle Hok).
    specialize (IH (done ++ [r]) (add_row r slots)).
    rewrite app_length in IH. simpl length in IH. rewrite Nat.add_1_r in IH. apply IH.
    + rewrite <- app_assoc. exact Hb.
    + pose proof (add_row_length r slots). lia.
    + apply add_row_ok; assumption.
Qed.

(* ---------- the division and the cut ---------- *)
Lemma map2_app {A B C} (f : A -> B -> C) : forall a1 b1 a2 b2, length a1 = length b1 ->
  map2 f (a1 ++ a2) (b1 ++ b2) = map2 f a1 b1 ++ map2 f a2 b2.
Proof.
  induction a1 as [|x a1 IH]; intros [|y b1] a2 b2 H; simpl in *; try lia; [reflexivity|].
  rewrite IH by lia. reflexivity.
Qed.

Lemma map2_map {A B C D} (f : B -> C -> D) (g : A -> B) (h : A -> C) : forall l,
  map2 f (map g l) (map h l) = map (fun x => f (g x) (h x)) l.
Proof. induction l as [|x l IH]; simpl; [reflexivity|]. rewrite IH. reflexivity. Qed.

Lemma div_rows_total : forall m c, length m = length c ->
  div_rows m (map (fun x => [x]) c) = Some (map2 (fun row d => map (fun x => fl_div x d) row) m c).
Proof.
  induction m as [|r m IH]; intros [|d c] H; simpl in *; try lia; [reflexivity|].
  rewrite IH by lia. reflexivity.
Qed.

Lemma reshape_col v m :
  t_reshape (F1 v) ([(-1)] ++ py_tuple_repeat [1] (t_ndim (F2 m) - 1)) = Ok (F2 (map (fun x => [x]) v)).
Proof. reflexivity. Qed.
Lemma reshape_vec v w : t_reshape (F1 v) ([(-1)] ++ py_tuple_repeat [1] (t_ndim (F1 w) - 1)) = Ok (F1 v).
Proof. reflexivity. Qed.

Lemma slice_pad {A} (l junk : list A) k : k = length l -> py_slice (l ++ junk) None (Some (Z.of_nat k)) = l.
Proof.
  intros ->. rewrite py_slice_prefix by lia. rewrite Nat2Z.id, firstn_app, Nat.sub_diag, firstn_all. simpl. apply app_nil_r.
Qed.

(* the rows in use after the division, as a function of the slots *)
Definition div_policy (s : slot) : list fl := map (fun x => fl_div x (Fin (inject_Z (s_count s)))) (map nq (s_policy s)).
Definition div_value (s : slot) : fl := fl_div (nq (s_value s)) (Fin (inject_Z (s_count s))).
Definition div_label (s : slot) : fl := fl_div (nq (s_label s)) (Fin (inject_Z (s_count s))).

Lemma tail_spec slots : (length slots <= n)%nat ->
  (out <- BatchGen.dedup_batch_for3 (counts_of slots) (out_of slots) keys3 ;;
   t' <- d_mapM (fun k v => t <- t_slice_to v (Z.of_nat (length slots)) ;; ret t) out ;; ret t') =
  Ok (out5 (I2 (map s_tokens slots)) (B2 (map s_mask slots)) (F2 (map div_policy slots))
           (F1 (map div_value slots)) (F1 (map div_label slots))).
Proof.
  intros Hn. unfold keys3, out_of, counts_of. cbn [BatchGen.dedup_batch_for3]. dict5.
  (* moves: (n, K) / (n, 1) *)
  rewrite reshape_col. cbn [bind]. unfold t_idiv at 1.
  rewrite div_rows_total by (rewrite !pad_length by (rewrite map_length; lia); reflexivity).
  dict5.
  (* values, results: (n,) / (n,) *)
  rewrite reshape_vec. cbn [bind]. unfold t_idiv at 1.
  rewrite same_len_true by (rewrite !pad_length by (rewrite map_length; lia); reflexivity).
  dict5.
  rewrite reshape_vec. cbn [bind]. unfold t_idiv at 1.
  rewrite same_len_true by (rewrite !pad_length by (rewrite map_length; lia); reflexivity).
  dict5.
  (* the cut *)
  rewrite mapM_out5. unfold pad.
  rewrite !map2_app by (rewrite !map_length; reflexivity). rewrite !map2_map.
  unfold t_slice_to.
  repeat (rewrite slice_pad by (rewrite map_length; reflexivity); cbn [bind ret]).
  reflexivity.
Qed.
End Dedup.

(* ====================== dedup_batch ====================== *)
Lemma zeros_rows {A B} (f : A -> list B) (z : B) W : forall l, Forall (fun r => length (f r) = W) l ->
  map (map (fun _ => z)) (map f l) = repeat (repeat z W) (length l).
Proof.
  induction 1 as [|r l Hr Hl IH]; simpl; [reflexivity|]. rewrite IH, map_const_repeat, Hr. reflexivity.
Qed.

Lemma fold_add_row_length : forall todo slots,
  (length (fold_left (fun acc r => add_row r acc) todo slots) <= length slots + length todo)%nat.
Proof.
  induction todo as [|r todo IH]; intros slots; simpl; [lia|].
  specialize (IH (add_row r slots)). pose proof (add_row_length r slots). lia.
Qed.

Lemma count_pos b s : In s (dedup_slots b) -> 0 < s_count s.
Proof.
  intros Hin. destruct (slot_char b s Hin) as (r & occ & _ & ->).
  destruct (fold_slot_add_frame (r :: occ) (new_slot r)) as (_ & _ & _ & Hc). rewrite Hc. simpl. lia.
Qed.

Lemma gen_dedup_eq b : well_shaped b -> BatchGen.dedup_batch (to_dict b) = Ok (to_dict (dedup b)).
Proof.
  intros (W & K & Hrect). set (n := length b).
  assert (Ht : Forall (fun r => length (r_tokens r) = W) b) by (eapply Forall_impl; [|exact Hrect]; intros r (H1 & _); exact H1).
  assert (Hm : Forall (fun r => length (r_mask r) = W) b) by (eapply Forall_impl; [|exact Hrect]; intros r (_ & H1 & _); exact H1).
  assert (Hp : Forall (fun r => length (r_policy r) = K) b) by (eapply Forall_impl; [|exact Hrect]; intros r (_ & _ & H1); exact H1).
  unfold BatchGen.dedup_batch.
  change (filter (fun k => negb (str_in k ["positions"%string; "mask"%string])) (d_keys (to_dict b))) with keys3.
  rewrite to_dict_out5. dict5. cbn [t_shape0 bind ret]. rewrite mapM_out5. cbn [bind ret t_zeros_like].
  rewrite <- to_dict_out5.
  assert (HN : zlen (map r_tokens b) = Z.of_nat n) by (unfold zlen; rewrite map_length; reflexivity).
  rewrite HN. unfold t_zeros. destruct (Z.of_nat n <? 0) eqn:E; [lia|]. cbn [bind ret].
  unfold py_range. rewrite Nat2Z.id.
  (* the initial state is the state of the empty slot list *)
  assert (E0 : out5 (I2 (map (map (fun _ => 0)) (map r_tokens b))) (B2 (map (map (fun _ => false)) (map r_mask b)))
      (F2 (map (map (fun _ => fl_zero)) (map (fun r => map nq (r_policy r)) b)))
      (F1 (map (fun _ => fl_zero) (map (fun r => nq (r_value r)) b)))
      (F1 (map (fun _ => fl_zero) (map (fun r => nq (r_label r)) b))) = out_of W K n []).
  { unfold out_of, pad. simpl map. simpl length. rewrite !Nat.sub_0_r. simpl app.
    rewrite (zeros_rows r_tokens 0 W b Ht), (zeros_rows r_mask false W b Hm).
    rewrite (zeros_rows (fun r => map nq (r_policy r)) fl_zero K b)
      by (eapply Forall_impl; [|exact Hp]; intros r Hr; rewrite map_length; exact Hr).
    rewrite !map_const_repeat, !map_length. reflexivity. }
  rewrite E0.
  pose proof (for1_spec W K n b Hrect eq_refl b [] [] eq_refl (le_n _) (Forall_nil _)) as Hloop.
  cbv zeta in Hloop. cbn [length ids_from] in Hloop.
  assert (Ec : counts_of n [] = F1 (repeat fl_zero n)) by (unfold counts_of, pad; simpl; rewrite Nat.sub_0_r; reflexivity).
  rewrite Ec in Hloop. change (Z.of_nat 0) with 0 in Hloop. fold n in Hloop.
  rewrite Hloop. clear Hloop Ec. cbn [bind].
  fold (dedup_slots b).
  assert (Hlen : (length (dedup_slots b) <= n)%nat).
  { unfold dedup_slots. pose proof (fold_add_row_length b []). simpl in H. exact H. }
  rewrite (tail_spec W K n (dedup_slots b) Hlen).
  (* the rows in use are the finished slots *)
  apply f_equal. unfold dedup. rewrite to_dict_out5. apply out5_eq; rewrite !map_map; f_equal.
  - apply map_ext_in. intros s Hs. unfold div_policy, finish. simpl r_policy. rewrite !map_map.
    apply map_ext. intros x. apply fl_div_nq. apply (count_pos b s Hs).
  - apply map_ext_in. intros s Hs. unfold div_value, finish. simpl r_value. apply fl_div_nq. apply (count_pos b s Hs).
  - apply map_ext_in. intros s Hs. unfold div_label, finish. simpl r_label. apply fl_div_nq. apply (count_pos b s Hs).
Qed.

Lemma gen_dedup_never_crashes b : well_shaped b -> forall e, BatchGen.dedup_batch (to_dict b) <> Crash e.
Proof. intros H e. rewrite (gen_dedup_eq b H). discriminate. Qed.

(* ====================== encode_games ====================== *)
(* the callees with the behaviour model/Batch.v assumes *)
Definition logits_oracle (tr : transcript) : res tensor :=
  match logits tr with Some rows => Ok (F2 (map (map nq) rows)) | None => Crash Unmodelled end.
Definition results_oracle (tr : transcript) : res (list Q) := Ok (map inject_Z (results tr)).
Definition encode_batch_oracle (enc : position -> list Z) (ps : list position) : res (tensor * tensor) :=
  let encs := map enc ps in
  Ok (I2 (map (pad_tokens (max_len encs)) encs), B2 (map (pad_mask (max_len encs)) encs)).

Lemma zip_rows_cols : forall ts ms ps vs ls k,
  length ts = k -> length ms = k -> length ps = k -> length vs = k -> length ls = k ->
  to_dict (zip_rows ts ms ps vs ls) =
  out5 (I2 ts) (B2 ms) (F2 (map (map nq) ps)) (F1 (map nq vs)) (F1 (map nq ls)).
Proof.
  intros ts ms ps vs ls k Ht Hm Hp Hv Hl. rewrite to_dict_out5. apply out5_eq; f_equal;
    revert ms ps vs ls k Ht Hm Hp Hv Hl;
    (induction ts as [|t ts IH]; intros [|m ms] [|p ps] [|v vs] [|l ls] k Ht Hm Hp Hv Hl; simpl in *; try lia;
     [reflexivity|destruct k; [lia|]; f_equal; apply (IH ms ps vs ls k); lia]).
Qed.

Lemma logits_fill_length t : forall ms ps row0 row, logits_fill t ms ps row0 = Some row -> length row = length row0.
Proof. intros ms ps row0 row H. apply (fill_spec t ms ps row0 row H). Qed.

Lemma logits_rows_width t : forall mss pss rs, logits_rows_t t mss pss = Some rs ->
  Forall (fun r => length r = length zero_row) rs.
Proof.
  induction mss as [|ms mss IH]; intros pss rs H; simpl in H; [injection H as <-; constructor|].
  destruct pss as [|ps pss]; [discriminate|]. destruct (logits_row_t t ms ps) as [r|] eqn:Er; [|discriminate].
  destruct (logits_rows_t t mss pss) as [rs'|] eqn:E; [|discriminate]. injection H as <-.
  constructor; [apply (logits_fill_length t ms ps zero_row r Er)|apply (IH pss rs' E)].
Qed.

Lemma logits_width tr rows : logits tr = Some rows -> Forall (fun r => length r = length zero_row) rows.
Proof. unfold logits, logits_rows. destruct (t_positions tr); [discriminate|]. apply logits_rows_width. Qed.

Lemma mapM_logits : forall logs lgs, Forall2 (fun tr a => logits tr = Some a) logs lgs ->
  py_mapM (fun tr => t <- logits_oracle tr ;; ret t) logs = Ok (map (fun a => F2 (map (map nq) a)) lgs).
Proof.
  induction 1 as [|tr a logs lgs Ha H IH]; cbn [py_mapM map]; [reflexivity|].
  unfold logits_oracle at 1. rewrite Ha. cbn [bind ret]. rewrite IH. reflexivity.
Qed.

Lemma f2_rows_concat : forall lgs, Forall (fun a => a <> []) lgs ->
  f2_rows (map (fun a => F2 (map (map nq) a)) lgs) = Some (map (map nq) (concat lgs)).
Proof.
  induction 1 as [|a lgs Ha H IH]; cbn [map f2_rows concat]; [reflexivity|].
  destruct a as [|r a]; [contradiction|]. cbn [map]. cbn [map] in IH. rewrite IH. cbn [app map]. rewrite map_app. reflexivity.
Qed.

Lemma one_width_ok (w : nat) rows : Forall (fun r => length r = w) rows -> one_width (map (map nq) rows) = true.
Proof.
  intros H. destruct rows as [|r rest]; [reflexivity|]. cbn [map one_width].
  apply forallb_forall. intros r' Hin. apply in_map_iff in Hin. destruct Hin as (r0 & <- & Hr0).
  apply same_len_true. rewrite !map_length. rewrite (Forall_inv H).
  symmetry. apply (proj1 (Forall_forall _ _) (Forall_inv_tail H) r0 Hr0).
Qed.

Lemma mapM_results : forall logs,
  py_mapM (fun tr => t <- results_oracle tr ;; ret t) logs = Ok (map (fun tr => map inject_Z (results tr)) logs).
Proof.
  induction logs as [|tr logs IH]; cbn [py_mapM map]; [reflexivity|].
  unfold results_oracle at 1. cbn [bind ret]. rewrite IH. reflexivity.
Qed.

Lemma concat_results : forall logs : list transcript,
  concat (map (fun tr => map inject_Z (results tr)) logs) = map inject_Z (flat_map results logs).
Proof. induction logs as [|tr logs IH]; simpl; [reflexivity|]. rewrite IH, map_app. reflexivity. Qed.

Lemma gen_encode_games_eq enc logs b : logs <> [] -> Forall wf_transcript logs ->
  Batch.encode_games enc logs = Some b ->
  BatchGen.encode_games logits_oracle results_oracle (encode_batch_oracle enc) logs = Ok (to_dict b).
Proof.
  intros Hne Hwf H. unfold Batch.encode_games in H. destruct (all_logits logs) as [lg|] eqn:El; [|discriminate].
  injection H as <-. destruct (all_logits_spec logs lg El) as (lgs & HF & ->).
  (* column lengths (as in C12_rows_in_order) *)
  assert (Hlg : Forall2 (fun x y => length x = length y) lgs (map t_positions logs)).
  { clear - HF Hwf. induction HF as [|tr a logs lgs Ha HF IH]; simpl; constructor.
    - rewrite (logits_length tr a Ha). apply (Forall_inv Hwf).
    - apply IH. apply (Forall_inv_tail Hwf). }
  assert (Hvs : Forall2 (fun x y => length x = length y) (map t_values logs) (map t_positions logs)).
  { apply Forall2_map_same_length. eapply Forall_impl; [|exact Hwf]. intros tr (_ & _ & Hv). exact Hv. }
  assert (Hrs : Forall2 (fun x y => length x = length y) (map results logs) (map t_positions logs)).
  { apply Forall2_map_same_length. apply Forall_forall. intros tr _. unfold results. apply map_length. }
  assert (Hw : Forall (fun r => length r = length zero_row) (concat lgs)).
  { clear - HF. induction HF as [|tr a logs lgs Ha HF IH]; simpl; [constructor|].
    apply Forall_app. split; [apply (logits_width tr a Ha)|exact IH]. }
  unfold BatchGen.encode_games.
  rewrite (mapM_logits logs lgs HF). cbn [bind ret].
  unfold t_cat. destruct lgs as [|a lgs']; [inversion HF; subst; contradiction|].
  cbn [map].
  change (F2 (map (map nq) a) :: map (fun a0 : list (list Q) => F2 (map (map nq) a0)) lgs')
    with (map (fun a0 : list (list Q) => F2 (map (map nq) a0)) (a :: lgs')).
  assert (Hnz : Forall (fun a0 : list (list Q) => a0 <> []) (a :: lgs')).
  { clear - HF Hwf. revert HF. generalize (a :: lgs'). intros l HF.
    induction HF as [|tr a0 logs0 lgs0 Ha HF IH]; constructor.
    - pose proof (logits_length tr a0 Ha) as Hl. destruct (Forall_inv Hwf) as (Hm & _).
      unfold logits in Ha. destruct (t_positions tr) eqn:Ep; [discriminate|]. intros ->. simpl in *. lia.
    - apply IH. apply (Forall_inv_tail Hwf). }
  rewrite (f2_rows_concat _ Hnz), (one_width_ok _ _ Hw). cbn [bind ret].
  rewrite mapM_results. cbn [bind ret encode_batch_oracle]. unfold py_flat_map, d_of_list, t_tensor.
  set (n := length (flat_map t_positions logs)).
  rewrite (zip_rows_cols _ _ _ _ _ n); rewrite ?map_length; try reflexivity.
  - rewrite concat_results. reflexivity.
  - unfold n. rewrite !flat_map_concat_map. apply (concat_length_eq _ _ Hlg).
  - unfold n. rewrite !flat_map_concat_map. apply (concat_length_eq _ _ Hvs).
  - unfold n. rewrite !flat_map_concat_map. apply (concat_length_eq _ _ Hrs).
Qed.

(* ====================== the C12 theorems, for the generated functions ====================== *)
Lemma gen_dedup_keys b : well_shaped b -> exists o, BatchGen.dedup_batch (to_dict b) = Ok (to_dict o) /\
  map key_of o = first_occ (map key_of b) /\ NoDup (map key_of o) /\
  (forall k, In k (map key_of o) <-> In k (map key_of b)).
Proof. intros H. exists (dedup b). split; [apply gen_dedup_eq; exact H|apply dedup_keys]. Qed.

Lemma gen_dedup_mean b : well_shaped b -> exists o, BatchGen.dedup_batch (to_dict b) = Ok (to_dict o) /\
  forall k r, nth_error o k = Some r ->
    let occ := occurrences (key_of r) b in
    occ <> [] /\ (r_value r == qmean (map r_value occ))%Q /\ (r_label r == qmean (map r_label occ))%Q /\
    forall w, Forall (fun r' => length (r_policy r') = w) occ ->
      length (r_policy r) = w /\
      forall j, (nth j (r_policy r) 0 == qmean (map (fun r' => nth j (r_policy r') 0) occ))%Q.
Proof. intros H. exists (dedup b). split; [apply gen_dedup_eq; exact H|apply dedup_mean]. Qed.

Lemma gen_dedup_nodup_id b : well_shaped b -> NoDup (map key_of b) ->
  exists o, BatchGen.dedup_batch (to_dict b) = Ok (to_dict o) /\ Forall2 row_equiv o b.
Proof. intros H Hnd. exists (dedup b). split; [apply gen_dedup_eq; exact H|apply dedup_nodup_id; exact Hnd]. Qed.

Lemma gen_dedup_mask_positions b : well_shaped b -> exists o, BatchGen.dedup_batch (to_dict b) = Ok (to_dict o) /\
  forall k r, nth_error o k = Some r ->
    exists i r0, first_at b (key_of r) i r0 /\ r_tokens r = r_tokens r0 /\ r_mask r = r_mask r0.
Proof. intros H. exists (dedup b). split; [apply gen_dedup_eq; exact H|apply dedup_mask_positions]. Qed.

Lemma gen_rows_in_order enc logs : logs <> [] -> Forall wf_transcript logs ->
  (forall tr, In tr logs -> logits tr <> None) ->
  exists b, BatchGen.encode_games logits_oracle results_oracle (encode_batch_oracle enc) logs = Ok (to_dict b) /\
    let w := max_len (map enc (flat_map t_positions logs)) in
    length b = length (flat_map t_positions logs) /\
    forall g tr i p, nth_error logs g = Some tr -> nth_error (t_positions tr) i = Some p ->
      exists lg pol v, logits tr = Some lg /\ nth_error lg i = Some pol /\ nth_error (t_values tr) i = Some v /\
        nth_error b (offset logs g + i) =
          Some (mkRow (pad_tokens w (enc p)) (pad_mask w (enc p)) pol v (inject_Z (label (t_result tr) p))).
Proof.
  intros Hne Hwf Hlg.
  assert (Hall : exists lg, all_logits logs = Some lg).
  { clear - Hlg. induction logs as [|tr logs IH]; simpl; [eexists; reflexivity|].
    destruct (logits tr) as [a|] eqn:Ea; [|exfalso; apply (Hlg tr); [left; reflexivity|exact Ea]].
    destruct IH as (lg & ->); [intros tr' Hin; apply Hlg; right; exact Hin|]. eexists; reflexivity. }
  destruct Hall as (lg & Hall).
  assert (Hb : exists b, Batch.encode_games enc logs = Some b) by (unfold Batch.encode_games; rewrite Hall; eexists; reflexivity).
  destruct Hb as (b & Hb). exists b. split; [apply gen_encode_games_eq; assumption|].
  apply (rows_in_order enc logs b Hwf Hb).
Qed.

(* non-vacuity: the example batch of C12 is well shaped and goes through the generated function *)
Example gen_dedup_example :
  well_shaped ex_rows /\
  BatchGen.dedup_batch (to_dict ex_rows) =
    Ok (to_dict [ mkRow [9; 1; 0] [true; true; false] [1 # 4; 3 # 4]%Q 0 0;
                  mkRow [9; 2; 7] [true; true; true] [1; 0]%Q (1 # 4) (-(1)) ]).
Proof.
  split; [exists 3%nat, 2%nat; repeat constructor|]. vm_compute. reflexivity.
Qed.

(* outside the guard the generated function does not follow the hand model: a mask shorter than its row *)
Example gen_dedup_ragged :
  BatchGen.dedup_batch (to_dict [mkRow [1; 2] [true] [1]%Q 0 0]) = Crash IndexError /\
  dedup [mkRow [1; 2] [true] [1]%Q 0 0] <> [].
Proof. split; [vm_compute; reflexivity|discriminate]. Qed.
