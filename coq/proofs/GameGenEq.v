(* T01 - the functions REGENERATED from python/tak/game.py, moves.py, pieces.py
   (gen/GameGen.v, written against the Python semantics of model/PySem.v) equal
   the hand-written model (model/Tak.v, model/Road.v) on the domain the
   properties quantify over, and never crash there.

   The generated code indexes with py_getitem (IndexError outside the range,
   negative indices wrap), slices with Python's clamping, assigns items with
   py_setitem; the hand model uses nth-with-default, firstn/skipn and upd.  The
   content of this file is the bounds reasoning that makes the two agree:
     * `in_bounds` + "the board has size^2 squares" put y*size+x inside the board;
     * `len(stack) >= ndrop >= 1` makes stack[0] an element;
     * every drop >= 1 makes carry[-drop:] the LAST drop pieces (for drop = 0
       Python's l[-0:] is the whole list) and keeps carry non-empty while drops
       remain (loop invariant len(carry) = sum of the remaining drops), so
       carry[0] never raises IndexError.
   If the source loses one of these checks the corresponding `rewrite ... by lia`
   below fails, and the check of T01 reports it. *)
From Coq Require Import ZArith String List Bool Lia.
From TV Require Import model.Tak model.Road model.PySem.
From TV Require Import proofs.MoveRulesUtil proofs.PySemLemmas proofs.MoveRules proofs.Table.
From TV Require model.RoadPy spec.RoadSpec proofs.RoadPyProofs.
From TV Require gen.GameGen.
Import ListNotations.
Open Scope Z_scope.

(* ====================== small functions ====================== *)
(* the only guard most equalities need: the board list has size^2 entries (part of Rules.wf_pos) *)
Definition shape (p : position) : Prop := zlen (board p) = size p * size p.

Lemma gen_to_move_eq p : GameGen.to_move p = to_move p.
Proof.
  unfold GameGen.to_move, to_move. rewrite Zmod_even. destruct (Z.even (ply p)); reflexivity.
Qed.

Lemma gen_in_bounds_eq p x y : GameGen.in_bounds p x y = in_bounds (size p) x y.
Proof. unfold GameGen.in_bounds, in_bounds. bool_lia. Qed.

Lemma gen_is_slide_eq t : GameGen.is_slide t = is_slide t.
Proof. destruct t; reflexivity. Qed.

Lemma gen_direction_eq t : is_slide t = true -> GameGen.direction t = Ok (direction t).
Proof. destruct t; intros H; try discriminate H; reflexivity. Qed.

Lemma gen_flip_eq c : GameGen.flip c = Ok (flip c).
Proof. destruct c; reflexivity. Qed.

Lemma gen_getitem_eq p x y : shape p -> in_bounds (size p) x y = true ->
  GameGen.getitem p (x, y) = Ok (sq p x y).
Proof.
  intros Hs Hb. apply in_bounds_iff in Hb. unfold GameGen.getitem, sq.
  apply py_getitem_ok. unfold shape, stack in *. rewrite Hs. apply idx_range; lia.
Qed.

Lemma gen_small_functions p x y t c :
  GameGen.to_move p = to_move p /\ GameGen.in_bounds p x y = in_bounds (size p) x y /\
  GameGen.is_slide t = is_slide t /\ (is_slide t = true -> GameGen.direction t = Ok (direction t)) /\
  GameGen.flip c = Ok (flip c).
Proof.
  repeat split; [apply gen_to_move_eq|apply gen_in_bounds_eq|apply gen_is_slide_eq|apply gen_direction_eq|apply gen_flip_eq].
Qed.

Lemma idx_range' n x y : 0 <= x < n -> 0 <= y < n -> 0 <= x + y * n < n * n.
Proof. intros. pose proof (idx_range n x y). lia. Qed.

Definition d0 (p : position) : delta := set_d_ply delta_empty (ply p + 1).

Lemma gen_move_place_eq p m : shape p -> in_bounds (size p) (mx m) (my m) = true -> is_slide (mt m) = false ->
  res_map (evolve_position p) (GameGen._move_place p m (d0 p)) = embed (move_place p m).
Proof.
  intros Hs Hb Ht. unfold GameGen._move_place, move_place.
  rewrite (gen_getitem_eq p _ _ Hs Hb). cbn [bind].
  rewrite gen_to_move_eq.
  assert (Hi : 0 <= mx m + my m * size p < zlen (board p)).
  { apply in_bounds_iff in Hb. unfold shape, stack in *. rewrite Hs. apply idx_range'; lia. }
  destruct (mt m); try discriminate Ht; cbn [mtype_eqb mtype_code Z.eqb Pos.eqb negb andb];
  destruct (ply p <? 2) eqn:E; cbn [andb]; try reflexivity.
  all: destruct (sq p (mx m) (my m)) as [|top rest]; cbn [truthy_list]; try reflexivity.
  all: destruct (to_move p); cbn.
  all: match goal with |- context [?a <=? 0] => destruct (a <=? 0) end; [reflexivity|].
  all: py_slices; rewrite py_setitem_ok by exact Hi; reflexivity.
Qed.

(* ====================== the drop loop of _move_slide ====================== *)
Definition st_board (st : list (list piece) * Z * Z * list piece) : list (list piece) := fst (fst (fst st)).

Lemma gen_slide_loop_eq p dx dy : shape p -> forall drops nb x y carry,
  zlen nb = size p * size p -> pos_drops drops -> zlen carry = zsum drops ->
  res_map st_board (GameGen._move_slide_for1 p dx dy nb x y carry drops) =
  embed (slide_go p dx dy x y carry nb drops).
Proof.
  intros Hs. induction drops as [|d ds IH]; intros nb x y carry Hnb Hpos Hc.
  - reflexivity.
  - cbn [GameGen._move_slide_for1 slide_go].
    rewrite gen_in_bounds_eq.
    destruct (in_bounds (size p) (x + dx) (y + dy)) eqn:Hb; cbn [negb]; [|reflexivity].
    assert (Hi : 0 <= x + dx + (y + dy) * size p < size p * size p).
    { apply in_bounds_iff in Hb. apply idx_range'; lia. }
    assert (Hd : 1 <= d) by (inversion Hpos; assumption).
    assert (Hds : pos_drops ds) by (inversion Hpos; assumption).
    pose proof (pos_drops_nonneg ds Hds) as Hds0. rewrite zsum_cons in Hc.
    cbv zeta. unfold shape, stack, len in *. rewrite (py_getitem_ok []) by lia. cbn [bind].
    assert (Hk : 0 <= zlen carry - d <= zlen carry) by lia.
    assert (Hc' : zlen (firstn (Z.to_nat (zlen carry - d)) carry) = zsum ds) by (rewrite zlen_firstn; lia).
    py_slices.
    destruct (getz [] (board p) (x + dx + (y + dy) * size p)) as [|top rest].
    + cbn [zlen length Z.of_nat Z.gtb Z.compare bind ret].
      rewrite py_setitem_ok by lia. cbn [bind].
      apply IH; [rewrite zlen_updz; exact Hnb|exact Hds|exact Hc'].
    + rewrite zlen_cons_gtb, py_getitem_0_cons. cbn [bind ret].
      destruct (pkind top); cbn [kind_eqb bind ret].
      * rewrite py_setitem_ok by lia. cbn [bind].
        apply IH; [rewrite zlen_updz; exact Hnb|exact Hds|exact Hc'].
      * destruct carry as [|c [|c2 carry']].
        -- exfalso. change (zlen (@nil piece)) with 0 in Hc. lia.
        -- rewrite py_getitem_0_cons. cbn [bind]. destruct (kind_eqb (pkind c) Capstone); cbn [negb orb]; [|reflexivity].
           change (zlen [c] =? 1) with true. cbn [negb bind ret].
           py_slices. change (skipn (Z.to_nat 1) (top :: rest)) with rest.
           rewrite py_setitem_ok by lia. cbn [bind app].
           apply IH; [rewrite zlen_updz; exact Hnb|exact Hds|exact Hc'].
        -- rewrite py_getitem_0_cons. cbn [bind]. rewrite zlen_cons2_eqb1. cbn [negb]. rewrite orb_true_r. reflexivity.
      * reflexivity.
Qed.

(* ====================== _move_slide ====================== *)
Lemma evolve_board p b : evolve_position p (set_d_board (d0 p) b) = with_board p b.
Proof. destruct p; reflexivity. Qed.

Lemma gen_move_slide_eq p m drops : shape p -> in_bounds (size p) (mx m) (my m) = true ->
  is_slide (mt m) = true -> mslides m = Some drops ->
  res_map (evolve_position p) (GameGen._move_slide p m (d0 p)) = embed (move_slide p m drops).
Proof.
  intros Hs Hb Ht Hsl. unfold GameGen._move_slide, move_slide.
  destruct (ply p <? 2); [reflexivity|].
  rewrite (gen_getitem_eq p _ _ Hs Hb), Hsl. cbn [bind py_iter_opt].
  destruct (existsb (fun drop => drop <? 1) drops) eqn:Epos; [reflexivity|].
  apply existsb_pos in Epos. cbv zeta. unfold py_sum, len.
  replace (zsum drops >? size p) with (size p <? zsum drops) by (symmetry; apply Z.gtb_ltb).
  destruct ((size p <? zsum drops) || (zlen (sq p (mx m) (my m)) <? zsum drops)) eqn:Elim; [reflexivity|].
  destruct (zsum drops <? 1) eqn:E1; [reflexivity|].
  apply orb_false_iff in Elim. destruct Elim as [El1 El2].
  destruct (sq p (mx m) (my m)) as [|top rest] eqn:Esq.
  { exfalso. change (zlen (@nil piece)) with 0 in El2. lia. }
  rewrite py_getitem_0_cons. cbn [bind]. rewrite gen_to_move_eq.
  destruct (negb (color_eqb (pcolor top) (to_move p))); [reflexivity|].
  rewrite (gen_direction_eq _ Ht). cbn [bind].
  destruct (direction (mt m)) as [dx dy].
  assert (Hi : 0 <= mx m + my m * size p < zlen (board p)).
  { apply in_bounds_iff in Hb. unfold shape, stack in *. rewrite Hs. apply idx_range'; lia. }
  py_slices.
  rewrite py_setitem_ok by exact Hi. cbn [bind].
  pose proof (gen_slide_loop_eq p dx dy Hs drops
                (updz (board p) (mx m + my m * size p) (skipn (Z.to_nat (zsum drops)) (top :: rest)))
                (mx m) (my m) (firstn (Z.to_nat (zsum drops)) (top :: rest))) as HL.
  rewrite zlen_updz in HL. specialize (HL Hs Epos). rewrite zlen_firstn in HL by lia. specialize (HL eq_refl).
  destruct (GameGen._move_slide_for1 _ _ _ _ _ _ _ _) as [[[[nb' x'] y'] c']| |e];
    destruct (slide_go _ _ _ _ _ _ _ _) as [b|]; cbn in HL; try discriminate HL; cbn [bind ret res_map embed].
  - injection HL as ->. rewrite evolve_board. reflexivity.
  - reflexivity.
Qed.

(* ====================== Position.move ====================== *)
(* the domain of moves: a slide carries a tuple (slides = None on a slide is a TypeError in the code, see gen_move_slide_none) *)
Definition slide_has_drops (m : mv) : Prop := is_slide (mt m) = true -> mslides m <> None.

Theorem gen_move_eq p m : shape p -> slide_has_drops m -> GameGen.move p m = embed (move p m).
Proof.
  intros Hs Hd. unfold GameGen.move, move. cbv zeta. fold (d0 p).
  rewrite gen_in_bounds_eq, gen_is_slide_eq.
  destruct (in_bounds (size p) (mx m) (my m)) eqn:Hb; cbn [negb]; [|reflexivity].
  rewrite bind_map.
  destruct (is_slide (mt m)) eqn:Ht.
  - destruct (mslides m) as [drops|] eqn:Hsl; [|exfalso; apply Hd; [exact Ht|exact Hsl]].
    apply gen_move_slide_eq; assumption.
  - apply gen_move_place_eq; assumption.
Qed.

(* a slide whose slides field is None: refused when the square is off the board or on the opening plies
   (those checks come first), otherwise TypeError ("NoneType is not iterable") *)
Theorem gen_move_slide_none p m : shape p -> is_slide (mt m) = true -> mslides m = None ->
  GameGen.move p m = if in_bounds (size p) (mx m) (my m) && (2 <=? ply p) then Crash TypeError else Illegal.
Proof.
  intros Hs Ht Hsl. unfold GameGen.move. cbv zeta.
  rewrite gen_in_bounds_eq, gen_is_slide_eq, Ht.
  destruct (in_bounds (size p) (mx m) (my m)) eqn:Hb; cbn [negb andb]; [|reflexivity].
  unfold GameGen._move_slide.
  replace (2 <=? ply p) with (negb (ply p <? 2)) by bool_lia.
  destruct (ply p <? 2); cbn [negb bind]; [reflexivity|].
  rewrite (gen_getitem_eq p _ _ Hs Hb), Hsl. reflexivity.
Qed.

Theorem gen_move_ok_iff p m p' : shape p -> (GameGen.move p m = Ok p' <-> move p m = Some p').
Proof.
  intros Hs. destruct (is_slide (mt m)) eqn:Ht; [destruct (mslides m) as [drops|] eqn:Hsl|].
  - rewrite gen_move_eq; [apply embed_ok|exact Hs|]. intros _. rewrite Hsl. discriminate.
  - rewrite (gen_move_slide_none p m Hs Ht Hsl). unfold move. rewrite Ht, Hsl.
    destruct (in_bounds _ _ _ && _); destruct (negb _); split; intros H; discriminate H.
  - rewrite gen_move_eq; [apply embed_ok|exact Hs|]. intros H. rewrite H in Ht. discriminate.
Qed.

Theorem gen_move_never_crashes p m : shape p -> slide_has_drops m -> forall e, GameGen.move p m <> Crash e.
Proof. intros Hs Hd e. rewrite gen_move_eq by assumption. apply embed_no_crash. Qed.

(* ====================== Position.is_road / _walk / has_road ====================== *)
(* The translated work-list search against the statement-by-statement hand model of model/RoadPy.v (near-syntactic:
   q.pop() is the last element, `seen` a list used as a set, the early `return True` is the right summand of the loop's
   result), then through proofs/RoadPyProofs.v (the fuel 5*size^2 + len(seeds) + 1 suffices; the work list computes the
   neighbour closure) against model/Road.v. *)
Lemma py_pop_last_eq {A} (q : list A) :
  py_pop_last q = match RoadPy.pop_last q with Some (r, x) => Some (x, r) | None => None end.
Proof.
  induction q as [|a t IH]; [reflexivity|]. cbn [py_pop_last RoadPy.pop_last]. rewrite IH.
  destruct (RoadPy.pop_last t) as [[r x]|]; reflexivity.
Qed.

Lemma gen_kind_is_road k : GameGen.Kind_is_road k = kind_is_road k.
Proof. destruct k; reflexivity. Qed.

Lemma gen_is_road_eq p x y : shape p -> in_bounds (size p) x y = true ->
  GameGen.is_road p x y = Ok (match sq p x y with [] => false | top :: _ => kind_is_road (pkind top) end).
Proof.
  intros Hs Hb. unfold GameGen.is_road. rewrite (gen_getitem_eq p x y Hs Hb). cbn [bind].
  destruct (sq p x y) as [|top rest]; [reflexivity|]. unfold len. rewrite zlen_cons_gtb, py_getitem_0_cons. cbn [bind ret].
  unfold GameGen.Piece_is_road. rewrite gen_kind_is_road. reflexivity.
Qed.

Definition walk_result (r : (list (Z * Z) * list (Z * Z)) + bool) : bool :=
  match r with inl _ => false | inr b => b end.
Definition embed_fuel {A} (r : RoadPy.pyres A) : res A := match r with RoadPy.Done a => Ok a | RoadPy.OutOfFuel => Crash PySem.OutOfFuel end.

Lemma gen_walk_loop_eq p c horiz : shape p -> forall fuel seen q,
  res_map walk_result (GameGen._walk_while1 fuel p c horiz seen q) = embed_fuel (RoadPy.walk_loop fuel p c horiz seen q).
Proof.
  intros Hs. induction fuel as [|fuel IH]; intros seen q; [reflexivity|].
  cbn [GameGen._walk_while1 RoadPy.walk_loop]. unfold py_pop. rewrite py_pop_last_eq. unfold Road.sqr in *.
  destruct q as [|a t]; [reflexivity|]. cbn [truthy_list].
  destruct (RoadPy.pop_last (a :: t)) as [[r j]|] eqn:Ep; [|destruct t; cbn in Ep; [discriminate|destruct (RoadPy.pop_last _) as [[? ?]|]; discriminate]].
  cbn [bind]. change (existsb (pair_eqb Z.eqb Z.eqb j) seen) with (smem j seen).
  destruct (smem j seen); [apply IH|]. cbv zeta. destruct j as [x y].
  rewrite gen_in_bounds_eq. destruct (in_bounds (size p) x y) eqn:Hb; cbn [negb]; [|apply IH].
  rewrite (gen_is_road_eq p x y Hs Hb). cbn [bind].
  destruct (sq p x y) as [|top rest] eqn:Esq; cbn [negb bind ret]; [apply IH|].
  destruct (kind_is_road (pkind top)); cbn [negb orb bind ret]; [|apply IH].
  rewrite (gen_getitem_eq p x y Hs Hb), Esq. cbn [bind]. rewrite py_getitem_0_cons. cbn [bind ret].
  destruct (negb (color_eqb (pcolor top) c)); [apply IH|].
  destruct (horiz && (x =? size p - 1)); [reflexivity|].
  destruct (negb horiz && (y =? size p - 1)); [reflexivity|]. apply IH.
Qed.

Theorem gen_walk_eq p seeds c horiz : shape p ->
  GameGen._walk p seeds c horiz =
  embed_fuel (RoadPy.walk_py (Z.to_nat (5 * size p * size p + zlen seeds + 1)) p seeds c horiz).
Proof.
  intros Hs. unfold GameGen._walk, RoadPy.walk_py. cbv zeta. unfold len.
  generalize (Z.to_nat (5 * size p * size p + zlen seeds + 1)) as f. intros f.
  pose proof (gen_walk_loop_eq p c horiz Hs f [] seeds) as H. unfold Road.sqr in *.
  destruct (GameGen._walk_while1 f p c horiz [] seeds) as [[[s' q']|b]| |e];
    destruct (RoadPy.walk_loop f p c horiz [] seeds) as [b'|]; cbn [res_map walk_result embed_fuel] in H; try discriminate H;
    cbn [bind ret embed_fuel]; exact H.
Qed.

(* Position.has_road: on every position with a size^2 board and size >= 1 the translated work-list search never runs
   out of fuel and answers what the closure model answers *)
Theorem gen_has_road_eq p : RoadSpec.wf_pos p -> GameGen.has_road p = Ok (Road.has_road p).
Proof.
  intros Hwf. pose proof Hwf as (Hn & Hs). unfold GameGen.has_road. cbv zeta.
  change (map (fun i => (0, i)) (py_range (size p))) with (RoadPy.left_seeds p).
  change (map (fun i => (i, 0)) (py_range (size p))) with (RoadPy.top_seeds p).
  rewrite !(gen_walk_eq p _ _ _ Hs). rewrite RoadPyProofs.left_seeds_eq, RoadPyProofs.top_seeds_eq.
  assert (Hf : forall h, (RoadPy.walk_fuel p <= Z.to_nat (5 * size p * size p + zlen (seeds (size p) h) + 1))%nat).
  { intros h. unfold zlen. rewrite RoadPyProofs.seeds_length. unfold RoadPy.walk_fuel. nia. }
  rewrite !RoadPyProofs.walk_py_eq by (try exact Hwf; apply Hf). cbn [embed_fuel bind].
  unfold Road.has_road, color_has_road. cbv zeta.
  destruct (walk p White true), (walk p White false), (walk p Black true), (walk p Black false);
    cbn [bind ret andb orb]; try reflexivity.
  all: unfold GameGen.flip, GameGen.to_move, to_move; rewrite Zmod_even; destruct (Z.even (ply p)); reflexivity.
Qed.

(* a board of size 0: both seed lists are empty, nobody has a road *)
Lemma gen_has_road_eq0 p : size p = 0 -> GameGen.has_road p = Ok (Road.has_road p).
Proof.
  intros H0. unfold GameGen.has_road, GameGen._walk, Road.has_road, color_has_road, walk, seeds, zrange. cbv zeta. rewrite !H0.
  reflexivity.
Qed.

(* the positions has_road is proved on: a size^2 board of size >= 0 *)
Definition road_ok (p : position) : Prop := 0 <= size p /\ shape p.
Lemma gen_has_road_ok p : road_ok p -> GameGen.has_road p = Ok (Road.has_road p).
Proof.
  intros (Hn & Hs). destruct (Z.eq_dec (size p) 0) as [H0|H0]; [apply gen_has_road_eq0; exact H0|].
  apply gen_has_road_eq. split; [lia|exact Hs].
Qed.

(* ====================== flat_counts / winner / ALL_SLIDES / all_moves_for_size ====================== *)
(* ---------- flat_counts, flats_winner, winner: no guard at all ---------- *)
Lemma zlen_filter_cons {A} (f : A -> bool) a l :
  zlen (filter f (a :: l)) = (if f a then 1 else 0) + zlen (filter f l).
Proof. cbn [filter]. destruct (f a); [rewrite zlen_cons|]; lia. Qed.

Lemma gen_flat_counts_loop : forall it w b,
  GameGen.flat_counts_for1 w b it =
  Ok (w + zlen (filter (top_flat_of White) it), b + zlen (filter (top_flat_of Black) it)).
Proof.
  induction it as [|s it IH]; intros w b.
  - cbn. rewrite !Z.add_0_r. reflexivity.
  - cbn [GameGen.flat_counts_for1]. rewrite !zlen_filter_cons. destruct s as [|top rest].
    + cbn [len zlen length Z.of_nat Z.eqb bind ret top_flat_of]. rewrite IH. apply f_equal. apply f_equal2; lia.
    + rewrite len_cons_eqb0, !py_getitem_0_cons. cbn [bind ret top_flat_of].
      destruct (pkind top); cbn [kind_eqb negb andb]; try (rewrite IH; apply f_equal; apply f_equal2; lia).
      destruct (pcolor top); cbn [color_eqb]; rewrite IH; apply f_equal; apply f_equal2; lia.
Qed.

Theorem gen_flat_counts_eq p :
  GameGen.flat_counts p = Ok (flat_count_of p White, flat_count_of p Black).
Proof. unfold GameGen.flat_counts. cbv zeta. cbn [fst snd]. rewrite gen_flat_counts_loop. reflexivity. Qed.

Theorem gen_flats_winner_eq p : GameGen.flats_winner p = Ok (flats_winner p).
Proof.
  unfold GameGen.flats_winner, flats_winner. rewrite gen_flat_counts_eq. cbn [bind]. cbv zeta.
  rewrite Z.gtb_ltb. destruct (_ <? _); [reflexivity|]. destruct (_ <? _); reflexivity.
Qed.

Theorem gen_winner_ok p : road_ok p -> GameGen.winner p = Ok (winner p).
Proof.
  intros Hok. unfold GameGen.winner, winner. rewrite (gen_has_road_ok p Hok). cbn [bind].
  destruct (has_road p) as [c|]; [reflexivity|].
  change (forallb truthy_list (board p)) with (board_full p).
  replace (existsb _ (py_tuple2_list (pos_stones p))) with (out_of_pieces p)
    by (unfold out_of_pieces; cbn; rewrite orb_false_r; reflexivity).
  destruct (board_full p || out_of_pieces p); [|reflexivity].
  rewrite gen_flats_winner_eq. reflexivity.
Qed.

(* Position.winner with the translated has_road: positions with a size^2 board of size >= 1 *)
Theorem gen_winner_eq p : RoadSpec.wf_pos p -> GameGen.winner p = Ok (winner p).
Proof. intros (Hn & Hs). apply gen_winner_ok. split; [lia|exact Hs]. Qed.

(* ---------- ALL_SLIDES ---------- *)
Theorem gen_all_slides_eq : GameGen.ALL_SLIDES = Ok (map all_slides (seq 0 9)).
Proof. vm_compute. reflexivity. Qed.

Lemma all_slides_get n : 0 <= n <= 8 ->
  py_getitem (map all_slides (seq 0 9)) n = Ok (all_slides (Z.to_nat n)).
Proof.
  intros H.
  assert (Hn : n = 0 \/ n = 1 \/ n = 2 \/ n = 3 \/ n = 4 \/ n = 5 \/ n = 6 \/ n = 7 \/ n = 8) by lia.
  repeat (destruct Hn as [->|Hn]; [vm_compute; reflexivity|]). subst n. vm_compute. reflexivity.
Qed.

(* ---------- appending loops are flat_map ---------- *)
Lemma gen_table_for4 x y s : forall dirs out,
  GameGen.all_moves_for_size_for4 x y s out dirs =
  out ++ flat_map (fun dl : mtype * Z => if zlen s <=? snd dl then [mkMove x y (fst dl) (Some s)] else []) dirs.
Proof.
  induction dirs as [|[d l] dirs IH]; intros out.
  - cbn. rewrite app_nil_r. reflexivity.
  - cbn [GameGen.all_moves_for_size_for4 flat_map fst snd]. cbv zeta. rewrite IH, len_zlen.
    destruct (zlen s <=? l); [rewrite <- app_assoc|]; reflexivity.
Qed.

Lemma gen_table_for3 x y dirs : forall sls out,
  GameGen.all_moves_for_size_for3 x y dirs out sls =
  out ++ flat_map (fun s => flat_map (fun dl : mtype * Z =>
                      if zlen s <=? snd dl then [mkMove x y (fst dl) (Some s)] else []) dirs) sls.
Proof.
  induction sls as [|s sls IH]; intros out.
  - cbn. rewrite app_nil_r. reflexivity.
  - cbn [GameGen.all_moves_for_size_for3 flat_map]. cbv zeta. rewrite IH, gen_table_for4, <- app_assoc. reflexivity.
Qed.

Lemma gen_table_for2 n x : 0 <= n <= 8 -> forall it out,
  GameGen.all_moves_for_size_for2 n x out it = Ok (out ++ flat_map (fun y => table_square n x y) it).
Proof.
  intros Hn. induction it as [|y it IH]; intros out.
  - cbn. rewrite app_nil_r. reflexivity.
  - cbn [GameGen.all_moves_for_size_for2 flat_map]. cbv zeta.
    rewrite gen_all_slides_eq. cbn [bind]. rewrite (all_slides_get n Hn). cbn [bind].
    rewrite IH, gen_table_for3. unfold table_square, dirs_for. f_equal.
    rewrite <- !app_assoc. reflexivity.
Qed.

Lemma gen_table_for1 n : 0 <= n <= 8 -> forall it out,
  GameGen.all_moves_for_size_for1 n out it =
  Ok (out ++ flat_map (fun x => flat_map (fun y => table_square n x y) (zrange n)) it).
Proof.
  intros Hn. induction it as [|x it IH]; intros out.
  - cbn. rewrite app_nil_r. reflexivity.
  - cbn [GameGen.all_moves_for_size_for1 flat_map]. rewrite py_range_zrange, (gen_table_for2 n x Hn).
    cbn [bind]. rewrite IH, <- app_assoc. reflexivity.
Qed.

(* all_moves_for_size(n) for every n <= 8 (ALL_SLIDES has nine entries; a negative n gives the empty table) *)
Theorem gen_table_eq n : n <= 8 -> GameGen.all_moves_for_size n = Ok (table n).
Proof.
  intros Hn. unfold GameGen.all_moves_for_size, table. cbv zeta. rewrite py_range_zrange.
  destruct (Z_lt_ge_dec n 0) as [Hneg|Hpos].
  - unfold zrange. replace (Z.to_nat n) with 0%nat by lia. reflexivity.
  - rewrite gen_table_for1 by lia. reflexivity.
Qed.

(* ====================== Position.all_moves ====================== *)
Lemma gen_all_moves_for4 x y (s : list piece) sl : forall dirs out,
  GameGen.all_moves_for4 x y s sl out dirs =
  out ++ flat_map (fun dl : mtype * Z =>
                     if (zlen sl <=? snd dl) && (zlen sl <=? zlen s) then [mkMove x y (fst dl) (Some sl)] else []) dirs.
Proof.
  induction dirs as [|[d l] dirs IH]; intros out.
  - cbn. rewrite app_nil_r. reflexivity.
  - cbn [GameGen.all_moves_for4 flat_map fst snd]. cbv zeta. rewrite IH. unfold len.
    destruct ((zlen sl <=? l) && (zlen sl <=? zlen s)); [rewrite <- app_assoc|]; reflexivity.
Qed.

Lemma gen_all_moves_for3 x y (s : list piece) dirs : forall sls out,
  GameGen.all_moves_for3 x y s dirs out sls =
  out ++ flat_map (fun sl => flat_map (fun dl : mtype * Z =>
                     if (zlen sl <=? snd dl) && (zlen sl <=? zlen s) then [mkMove x y (fst dl) (Some sl)] else []) dirs) sls.
Proof.
  induction sls as [|sl sls IH]; intros out.
  - cbn. rewrite app_nil_r. reflexivity.
  - cbn [GameGen.all_moves_for3 flat_map]. cbv zeta. rewrite IH, gen_all_moves_for4, <- app_assoc. reflexivity.
Qed.

Definition has_cap (p : position) : bool :=
  (match to_move p with White => wcaps p | Black => bcaps p end) >? 0.

Lemma gen_all_moves_for2 p x : shape p -> 0 <= size p <= 8 -> 0 <= x < size p -> forall it out,
  Forall (fun y => 0 <= y < size p) it ->
  GameGen.all_moves_for2 p (to_move p) (has_cap p) x out it =
  Ok (out ++ flat_map (fun y => all_moves_square p x y) it).
Proof.
  intros Hs Hn Hx. induction it as [|y it IH]; intros out Hit.
  - cbn. rewrite app_nil_r. reflexivity.
  - inversion Hit as [|? ? Hy Hit']; subst.
    cbn [GameGen.all_moves_for2 flat_map].
    rewrite (gen_getitem_eq p x y Hs) by (apply in_bounds_iff; lia). cbn [bind].
    unfold all_moves_square at 1. cbv zeta.
    destruct (sq p x y) as [|top rest] eqn:Esq.
    + cbn [len zlen length Z.of_nat Z.eqb]. rewrite IH by exact Hit'. apply f_equal.
      unfold has_cap. rewrite Z.gtb_ltb.
      destruct (0 <? _); rewrite <- !app_assoc; reflexivity.
    + rewrite len_cons_eqb0, py_getitem_0_cons. cbn [bind].
      destruct (negb (color_eqb (pcolor top) (to_move p))).
      * rewrite IH by exact Hit'. reflexivity.
      * rewrite gen_all_slides_eq. cbn [bind]. rewrite (all_slides_get (size p) Hn). cbn [bind].
        rewrite IH by exact Hit'. rewrite gen_all_moves_for3, <- app_assoc. reflexivity.
Qed.

Lemma gen_all_moves_for1 p : shape p -> 0 <= size p <= 8 -> forall it out,
  Forall (fun x => 0 <= x < size p) it ->
  GameGen.all_moves_for1 p (to_move p) (has_cap p) out it =
  Ok (out ++ flat_map (fun x => flat_map (fun y => all_moves_square p x y) (zrange (size p))) it).
Proof.
  intros Hs Hn. induction it as [|x it IH]; intros out Hit.
  - cbn. rewrite app_nil_r. reflexivity.
  - inversion Hit as [|? ? Hx Hit']; subst.
    cbn [GameGen.all_moves_for1 flat_map]. rewrite py_range_zrange.
    rewrite (gen_all_moves_for2 p x Hs Hn Hx) by (apply Forall_forall; intros y Hy; apply in_zrange; exact Hy).
    cbn [bind]. rewrite IH by exact Hit'. rewrite <- app_assoc. reflexivity.
Qed.

(* Position.all_moves: the board has size^2 squares and the size indexes ALL_SLIDES (nine entries; a negative
   size makes both loops empty) *)
Theorem gen_all_moves_eq p : shape p -> size p <= 8 -> GameGen.all_moves p = Ok (all_moves p).
Proof.
  intros Hs Hn. unfold GameGen.all_moves, all_moves. cbv zeta. rewrite gen_to_move_eq, py_range_zrange.
  assert (Hc : py_tuple2_get (pos_stones p) (GameGen.Color_value (to_move p)) =
               Ok (mkSC (match to_move p with White => wstones p | Black => bstones p end)
                        (match to_move p with White => wcaps p | Black => bcaps p end)))
    by (destruct (to_move p); reflexivity).
  rewrite Hc. cbn [bind sc_caps]. fold (has_cap p).
  destruct (Z_lt_ge_dec (size p) 0) as [Hneg|Hpos].
  - unfold zrange. replace (Z.to_nat (size p)) with 0%nat by lia. reflexivity.
  - rewrite (gen_all_moves_for1 p Hs) by (try lia; apply Forall_forall; intros x Hx; apply in_zrange; exact Hx).
    reflexivity.
Qed.

(* ====================== Config.flat_count / capstone_count, Position.from_squares ====================== *)
(* the ValueError("Wrong board size") of from_squares is the hand model's None *)
Definition embed_value {A} (o : option A) : res A :=
  match o with Some v => Ok v | None => Crash ValueError end.

(* DEFAULT_PIECES[size] / DEFAULT_CAPS[size] are read only when no custom count is given; then the size must index
   the nine-entry tables (a negative size would wrap, a size above 8 raises IndexError) *)
Definition config_ok (c : config) : Prop :=
  (cpieces c = None -> 0 <= csize c <= 8) /\ (ccaps c = None -> 0 <= csize c <= 8).

Lemma gen_flat_count_eq c : (cpieces c = None -> 0 <= csize c <= 8) -> GameGen.flat_count c = Ok (flat_count c).
Proof.
  intros H. unfold GameGen.flat_count, flat_count. destruct (cpieces c) as [n|]; [reflexivity|].
  specialize (H eq_refl). rewrite (py_getitem_ok 0); [reflexivity|]. change (zlen GameGen.Config_DEFAULT_PIECES) with 9. lia.
Qed.

Lemma gen_capstone_count_eq c : (ccaps c = None -> 0 <= csize c <= 8) -> GameGen.capstone_count c = Ok (capstone_count c).
Proof.
  intros H. unfold GameGen.capstone_count, capstone_count. destruct (ccaps c) as [n|]; [reflexivity|].
  specialize (H eq_refl). rewrite (py_getitem_ok 0); [reflexivity|]. change (zlen GameGen.Config_DEFAULT_CAPS) with 9. lia.
Qed.

(* the two counting loops: counts = ([white stones, white caps], [black stones, black caps]) *)
Ltac counts_eq :=
  apply f_equal; apply f_equal2; (apply f_equal2; [lia|apply f_equal2; [lia|reflexivity]]).
Lemma gen_from_squares_for2 : forall st w0 w1 b0 b1,
  GameGen.from_squares_for2 ([w0; w1], [b0; b1]) st =
  Ok ([w0 + cs (is_stone_of White) st; w1 + cs (is_cap_of White) st],
      [b0 + cs (is_stone_of Black) st; b1 + cs (is_cap_of Black) st]).
Proof.
  induction st as [|q st IH]; intros w0 w1 b0 b1.
  - cbn. rewrite !Z.add_0_r. reflexivity.
  - cbn [GameGen.from_squares_for2]. rewrite !cs_cons.
    destruct q as [c k]; destruct c, k; cbn -[Z.add cs]; try change (Pos.to_nat 1) with 1%nat; cbn -[Z.add cs];
      rewrite IH; counts_eq.
Qed.

Lemma gen_from_squares_for1 : forall sqs w0 w1 b0 b1,
  GameGen.from_squares_for1 ([w0; w1], [b0; b1]) sqs =
  Ok ([w0 + count_pieces (is_stone_of White) sqs; w1 + count_pieces (is_cap_of White) sqs],
      [b0 + count_pieces (is_stone_of Black) sqs; b1 + count_pieces (is_cap_of Black) sqs]).
Proof.
  induction sqs as [|s sqs IH]; intros w0 w1 b0 b1.
  - cbn [GameGen.from_squares_for1]. rewrite !count_nil, !Z.add_0_r. reflexivity.
  - cbn [GameGen.from_squares_for1]. rewrite gen_from_squares_for2. cbn [bind]. rewrite IH, !count_cons. counts_eq.
Qed.

Theorem gen_from_squares_eq cfg sqs pl : config_ok cfg ->
  GameGen.from_squares cfg sqs pl = embed_value (from_squares cfg sqs pl).
Proof.
  intros (Hp & Hc). unfold GameGen.from_squares, from_squares, len, zlen, stack.
  destruct (Z.of_nat (length sqs) =? csize cfg * csize cfg); cbn [negb]; [|reflexivity].
  cbv zeta. rewrite gen_from_squares_for1. cbn [bind].
  rewrite (gen_flat_count_eq cfg Hp), (gen_capstone_count_eq cfg Hc). cbn. reflexivity.
Qed.

(* ====================== Position.from_config ====================== *)
Lemma map_const_range {A} (x : A) n : map (fun _ => x) (py_range n) = repeat x (Z.to_nat n).
Proof. unfold py_range. rewrite map_map. induction (seq 0 (Z.to_nat n)) as [|a l IH] eqn:E in |- *.
  - rewrite <- (seq_length (Z.to_nat n) 0), E. reflexivity.
  - rewrite <- (seq_length (Z.to_nat n) 0), E. cbn. f_equal.
    clear. induction l as [|b l IH]; cbn; [reflexivity|]. f_equal. exact IH.
Qed.

Theorem gen_from_config_eq cfg : config_ok cfg -> GameGen.from_config cfg = Ok (from_config cfg).
Proof.
  intros (Hp & Hc). unfold GameGen.from_config, from_config. cbv zeta.
  rewrite (gen_flat_count_eq cfg Hp), (gen_capstone_count_eq cfg Hc). cbn [bind ret]. rewrite map_const_range. reflexivity.
Qed.
