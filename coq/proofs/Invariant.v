(* C04: every position reachable by accepted moves from the initial position of
   a configuration is physically consistent.  `Inv cfg p` is the invariant;
   it holds initially (`inv_init`), every accepted move preserves it and
   advances the ply by exactly one (`inv_step`), hence it holds after every
   finite sequence of accepted moves (`inv_reachable`, induction over the
   move list).  `Inv` contains `wf_pos`, so the hypothesis of C01's theorems
   holds along every game (`inv_wf_pos`, `wf_reachable`). *)
From Coq Require Import ZArith List Bool Lia.
From TV Require Import model.Tak model.Run spec.Rules
  proofs.MoveRulesUtil proofs.MoveRulesSlide proofs.MoveRules.
Import ListNotations.
Open Scope Z_scope.

Definition any_piece (q : piece) : bool := true.
Definition is_piece (c : color) (k : kind) (q : piece) : bool := piece_eqb q (mkPiece c k).

Record Inv (cfg : config) (p : position) : Prop := {
  (* the board is the configured one: side in 3..8, size^2 squares *)
  inv_size : size p = csize cfg /\ 3 <= size p <= 8;
  inv_squares : zlen (board p) = size p * size p;
  (* per colour: stones (flats and walls) on the board + stone reserve = configured stones *)
  inv_stones : forall c, count_pieces (is_stone_of c) (board p) + reserve p c false = flat_count cfg;
  (* per colour: capstones on the board + capstone reserve = configured capstones *)
  inv_caps : forall c, count_pieces (is_cap_of c) (board p) + reserve p c true = capstone_count cfg;
  (* reserves are never negative *)
  inv_nonneg : forall c cap, 0 <= reserve p c cap;
  (* only the top piece of a stack may be a wall or a capstone *)
  inv_tops : Forall buried_flat (board p);
  inv_ply : 0 <= ply p;
  (* White is to move exactly on even plies (to_move is computed from ply, as in the code) *)
  inv_turn : to_move p = White <-> Z.even (ply p) = true;
  (* nothing on the board before the first move (needed to make the next two clauses inductive) *)
  inv_ply0 : ply p = 0 -> count_pieces any_piece (board p) = 0;
  (* after the first move the board holds exactly one piece, a black flat *)
  inv_ply1 : ply p = 1 ->
     count_pieces any_piece (board p) = 1 /\ count_pieces (is_piece Black Flat) (board p) = 1;
  (* after the second move: exactly one white flat and one black flat *)
  inv_ply2 : ply p = 2 ->
     count_pieces any_piece (board p) = 2 /\
     count_pieces (is_piece White Flat) (board p) = 1 /\ count_pieces (is_piece Black Flat) (board p) = 1
}.

Lemma inv_wf_pos cfg p : Inv cfg p -> wf_pos p.
Proof. intros H. destruct H. unfold wf_pos. tauto. Qed.

(* ---------- list facts ---------- *)
Lemma Forall_upd {A} (P : A -> Prop) (l : list A) n v : Forall P l -> P v -> Forall P (upd l n v).
Proof.
  intros Hl Hv. revert n. induction Hl as [|a l Ha Hl IH]; intros [|n]; cbn [upd]; constructor; auto.
Qed.

Lemma Forall_getz {A} (P : A -> Prop) (d : A) (l : list A) i : Forall P l -> P d -> P (getz d l i).
Proof.
  intros Hl Hd. unfold getz. destruct (nth_in_or_default (Z.to_nat i) l d) as [Hin| ->]; [|exact Hd].
  rewrite Forall_forall in Hl. apply Hl. exact Hin.
Qed.

Lemma Forall_board (P : stack -> Prop) (n : Z) (b : list stack) : 0 < n -> zlen b = n * n ->
  (forall x y, 0 <= x < n -> 0 <= y < n -> P (getz [] b (y * n + x))) -> Forall P b.
Proof.
  intros Hn Hb H. apply Forall_forall. intros s Hin.
  destruct (In_nth b s [] Hin) as (k & Hk & Hnth).
  set (i := Z.of_nat k).
  assert (Hi : 0 <= i < n * n) by (unfold zlen in Hb; lia).
  assert (Hd : i = (i / n) * n + i mod n) by (rewrite Z.mul_comm; apply Z.div_mod; lia).
  pose proof (Z.mod_pos_bound i n Hn) as Hm.
  assert (0 <= i / n) by (apply Z.div_pos; lia).
  assert (i / n < n) by (apply Z.div_lt_upper_bound; lia).
  specialize (H (i mod n) (i / n) Hm (conj H0 H1)). rewrite <- Hd in H.
  unfold getz, i in H. rewrite Nat2Z.id in H. rewrite <- Hnth. exact H.
Qed.

Lemma Forall_tl {A} (P : A -> Prop) l : Forall P l -> Forall P (tl l).
Proof. intros H. destruct H; [constructor|assumption]. Qed.

Lemma Forall_tl_firstn {A} (P : A -> Prop) n l : Forall P (tl l) -> Forall P (tl (firstn n l)).
Proof.
  intros H. destruct n as [|n]; [constructor|]. destruct l as [|a l]; [constructor|].
  cbn [firstn tl] in *. rewrite <- (firstn_skipn n l) in H. apply Forall_app in H. tauto.
Qed.

Lemma Forall_skipn' {A} (P : A -> Prop) n l : Forall P l -> Forall P (skipn n l).
Proof. intros H. rewrite <- (firstn_skipn n l) in H. apply Forall_app in H. tauto. Qed.

Lemma Forall_tl_skipn {A} (P : A -> Prop) n l : Forall P (tl l) -> Forall P (tl (skipn n l)).
Proof.
  intros H. destruct n as [|n]; [exact H|]. destruct l as [|a l]; [constructor|].
  cbn [skipn tl] in *. apply Forall_tl. apply Forall_skipn'. exact H.
Qed.

Lemma buried_flat_app s1 s2 :
  buried_flat s1 -> Forall (fun q => pkind q = Flat) s2 -> buried_flat (s1 ++ s2).
Proof.
  unfold buried_flat. intros H1 H2. destruct s1 as [|a s1]; cbn [app tl] in *.
  - apply Forall_tl. exact H2.
  - apply Forall_app. tauto.
Qed.

Lemma flattened_all_flat s :
  buried_flat s -> (forall top rest, s = top :: rest -> pkind top <> Capstone) ->
  Forall (fun q => pkind q = Flat) (flattened s).
Proof.
  unfold buried_flat. intros Hb Hnc. destruct s as [|[c k] rest]; [constructor|].
  cbn [tl flattened pkind pcolor] in *. specialize (Hnc _ _ eq_refl). cbn in Hnc.
  destruct k; [constructor; [reflexivity|exact Hb] | constructor; [reflexivity|exact Hb] | congruence].
Qed.

Lemma cs_single f q : cs f [q] = if f q then 1 else 0.
Proof. rewrite cs_cons. change (cs f []) with 0. lia. Qed.

Lemma count_le_all f b : 0 <= count_pieces f b <= count_pieces any_piece b.
Proof.
  split; [apply count_nonneg|].
  pose proof (count_disjoint f (fun _ => false) b) as H.
  assert (Hz : count_pieces (fun _ => false) b = 0).
  { clear. induction b as [|s b IH]; [reflexivity|]. rewrite count_cons, IH.
    assert (cs (fun _ => false) s = 0) by (induction s as [|q s IHs]; [reflexivity|rewrite cs_cons; lia]).
    lia. }
  unfold any_piece. rewrite Hz in H. specialize (H ltac:(intros; discriminate)). lia.
Qed.

(* ---------- the initial position ---------- *)
Theorem inv_init cfg :
  3 <= csize cfg <= 8 -> 0 <= flat_count cfg -> 0 <= capstone_count cfg ->
  Inv cfg (from_config cfg).
Proof.
  intros Hs Hf Hc. unfold from_config.
  constructor; cbn [size board ply wstones wcaps bstones bcaps].
  - lia.
  - unfold zlen. rewrite repeat_length. nia.
  - intros [|]; cbn [reserve wstones bstones]; rewrite count_repeat_nil; lia.
  - intros [|]; cbn [reserve wcaps bcaps]; rewrite count_repeat_nil; lia.
  - intros [|] [|]; cbn; lia.
  - apply Forall_forall. intros s Hin. apply repeat_spec in Hin. subst. constructor.
  - lia.
  - cbn. tauto.
  - intros _. apply count_repeat_nil.
  - intros H; discriminate H.
  - intros H; discriminate H.
Qed.

(* ---------- placements ---------- *)
(* the pointwise rule determines the new board as a single-entry update *)
Lemma place_board p m p' c k :
  wf_pos p -> on_board p (mx m) (my m) ->
  sq p' (mx m) (my m) = [mkPiece c k] ->
  (forall x y, on_board p x y -> (x, y) <> (mx m, my m) -> sq p' x y = sq p x y) ->
  size p' = size p -> zlen (board p') = size p * size p ->
  board p' = updz (board p) (my m * size p + mx m) [mkPiece c k].
Proof.
  intros (Hsz & Hlen & _) (Hx & Hy) Hpl Hfr Hsize Hsh.
  assert (Hidx : 0 <= my m * size p + mx m < zlen (board p)) by (rewrite Hlen; apply idx_range; lia).
  apply (board_ext (size p)); [lia|exact Hsh|rewrite zlen_updz; exact Hlen|].
  intros x y Hx' Hy'.
  assert (E1 : getz [] (board p') (y * size p + x) = sq p' x y) by (unfold sq; rewrite Hsize; reflexivity).
  rewrite E1.
  destruct (Z.eq_dec x (mx m)) as [->|Nx]; [destruct (Z.eq_dec y (my m)) as [->|Ny]|].
  - rewrite Hpl, getz_updz_eq by exact Hidx. reflexivity.
  - rewrite Hfr; [|split; assumption|congruence]. unfold sq. symmetry.
    apply getz_updz_neq; [lia| |].
    + pose proof (idx_range (size p) (mx m) y Hx' Hy'). lia.
    + intros Heq. apply idx_inj in Heq; lia.
  - rewrite Hfr; [|split; assumption|congruence]. unfold sq. symmetry.
    apply getz_updz_neq; [lia| |].
    + pose proof (idx_range (size p) x y Hx' Hy'). lia.
    + intros Heq. apply idx_inj in Heq; lia.
Qed.

(* ---------- slides ---------- *)
Lemma move_slide_inv p m drops p' : move_slide p m drops = Some p' ->
  exists top rest nb',
    sq p (mx m) (my m) = top :: rest /\ pos_drops drops /\
    1 <= zsum drops <= zlen (top :: rest) /\
    slide_go p (fst (direction (mt m))) (snd (direction (mt m))) (mx m) (my m)
      (firstn (Z.to_nat (zsum drops)) (top :: rest))
      (updz (board p) (my m * size p + mx m) (skipn (Z.to_nat (zsum drops)) (top :: rest)))
      drops = Some nb' /\
    p' = with_board p nb'.
Proof.
  intros Hmv. unfold move_slide in Hmv. cbv zeta in Hmv.
  destruct (ply p <? 2) eqn:Eply; [discriminate|].
  destruct (existsb (fun d => d <? 1) drops) eqn:Eex; [discriminate|].
  apply existsb_pos in Eex.
  destruct ((size p <? zsum drops) || (zlen (sq p (mx m) (my m)) <? zsum drops)) eqn:Elim; [discriminate|].
  apply orb_false_iff in Elim. destruct Elim as (El1 & El2).
  destruct (zsum drops <? 1) eqn:E1; [discriminate|].
  destruct (sq p (mx m) (my m)) as [|top rest] eqn:Est; [discriminate|].
  destruct (negb (color_eqb (pcolor top) (to_move p))); [discriminate|].
  destruct (direction (mt m)) as (dx, dy) eqn:Edir.
  replace (mx m + my m * size p) with (my m * size p + mx m) in Hmv by ring.
  match type of Hmv with match ?g with _ => _ end = _ => destruct g as [nb'|] eqn:Ego end; [|discriminate].
  injection Hmv as <-. exists top, rest, nb'. cbn [fst snd].
  split; [reflexivity|]. split; [exact Eex|]. split; [lia|]. split; [exact Ego|reflexivity].
Qed.

(* a slide moves pieces around without creating or destroying any, whatever
   class of pieces is counted, as long as the class does not tell a wall from a flat *)
Lemma slide_count (f : piece -> bool) p m drops p' :
  (forall c, f (mkPiece c Standing) = f (mkPiece c Flat)) ->
  wf_pos p -> on_board p (mx m) (my m) -> is_slide (mt m) = true ->
  move_slide p m drops = Some p' ->
  count_pieces f (board p') = count_pieces f (board p).
Proof.
  intros Hf (Hsz & Hlen & _) (Hx & Hy) Hsl Hmv.
  destruct (move_slide_inv _ _ _ _ Hmv) as (top & rest & nb' & Est & Hpos & Hk & Hgo & ->).
  destruct (direction (mt m)) as (dx, dy) eqn:Edir. cbn [fst snd] in Hgo.
  assert (Hsd : slide_dir (mt m) = Some (dx, dy)) by (apply slide_dir_spec; split; assumption).
  pose proof (slide_dir_unit _ _ _ Hsd) as Hunit.
  set (st := top :: rest) in *. set (k := zsum drops) in *.
  set (oidx := my m * size p + mx m) in *.
  assert (Hoidx : 0 <= oidx < zlen (board p)) by (rewrite Hlen; apply idx_range; lia).
  assert (Hclen : zlen (firstn (Z.to_nat k) st) = zsum drops) by (apply zlen_firstn; fold k; lia).
  cbn [board with_board].
  rewrite (slide_go_count p dx dy Hunit f Hf drops (mx m) (my m) (firstn (Z.to_nat k) st)
             (updz (board p) oidx (skipn (Z.to_nat k) st)) nb' Hpos Hclen
             (eq_trans (zlen_updz _ _ _) Hlen) (conj Hx Hy)); [| |exact Hgo].
  - rewrite count_updz by exact Hoidx.
    unfold sq in Est. fold oidx in Est. rewrite Est.
    pose proof (cs_firstn_skipn f (Z.to_nat k) st). lia.
  - intros i Hi (Hbx & Hby). apply getz_updz_neq; [lia| |].
    + pose proof (idx_range (size p) _ _ Hbx Hby). lia.
    + intros Heq. unfold oidx in Heq. apply idx_inj in Heq; try lia.
      apply (target_not_origin m dx dy i Hunit); [lia|]. unfold target. f_equal; lia.
Qed.

(* well-formedness is preserved by every accepted move (square by square, from the rulebook relation) *)
Theorem wf_step p m p' : wf_pos p -> move p m = Some p' -> wf_pos p'.
Proof.
  intros Hwf Hmv. pose proof (move_sound _ _ _ Hwf Hmv) as Hls.
  destruct Hwf as (Hsz & Hlen & Htops).
  assert (Hshape : size p' = size p /\ zlen (board p') = size p * size p)
    by (destruct Hls; tauto).
  destruct Hshape as (Hsize & Hsh).
  unfold wf_pos. rewrite Hsize. split; [exact Hsz|]. split; [exact Hsh|].
  assert (Hold : forall x0 y0, buried_flat (sq p x0 y0)).
  { intros x0 y0. unfold sq. apply Forall_getz; [exact Htops|constructor]. }
  apply (Forall_board _ (size p)); [lia|exact Hsh|]. intros x y Hx' Hy'.
  assert (E1 : getz [] (board p') (y * size p + x) = sq p' x y) by (unfold sq; rewrite Hsize; reflexivity).
  rewrite E1.
  destruct Hls as [k c Hor Hkind Hop Hno Hemp Hres Hpl Hfr Hcnt _ _ Hply
                  |drops dx dy Hor Hdir Hdr Hno Hpos Hlim Hhei Hown Hpath Hblock Hdrop Hrem Hfr Hcnt _ _ Hply].
  - destruct (Z.eq_dec x (mx m)) as [->|Nx]; [destruct (Z.eq_dec y (my m)) as [->|Ny]|].
    + rewrite Hpl. constructor.
    + rewrite Hfr; [apply Hold|split; assumption|congruence].
    + rewrite Hfr; [apply Hold|split; assumption|congruence].
  - destruct (target_dec m dx dy x y (length drops)) as [(i & Hi & He)|Hnt].
    + unfold target in He. injection He as -> ->.
      pose proof (Hdrop i Hi) as Ha. rewrite target_fst, target_snd in Ha. rewrite Ha.
      apply buried_flat_app.
      * unfold segment, still_carried, buried_flat.
        apply Forall_tl_skipn, Forall_tl_firstn, Forall_tl_firstn. apply Hold.
      * apply flattened_all_flat; [apply Hold|]. intros top0 rest0 Hs.
        specialize (Hblock i top0 rest0 Hi). rewrite target_fst, target_snd in Hblock.
        apply (Hblock Hs).
    + destruct (Z.eq_dec x (mx m)) as [->|Nx]; [destruct (Z.eq_dec y (my m)) as [->|Ny]|].
      * rewrite Hrem. unfold buried_flat. apply Forall_tl_skipn. apply Hold.
      * rewrite Hfr; [apply Hold|split; assumption|congruence|exact Hnt].
      * rewrite Hfr; [apply Hold|split; assumption|congruence|exact Hnt].
Qed.

(* ---------- one step ---------- *)
Lemma mover_even p : Z.even (ply p) = true -> mover p = White.
Proof. unfold mover. intros ->. reflexivity. Qed.
Lemma mover_odd p : Z.even (ply p) = false -> mover p = Black.
Proof. unfold mover. intros ->. reflexivity. Qed.

Theorem inv_step cfg p m p' :
  Inv cfg p -> move p m = Some p' -> Inv cfg p' /\ ply p' = ply p + 1.
Proof.
  intros HI Hmv. pose proof (inv_wf_pos _ _ HI) as Hwf.
  pose proof (move_sound _ _ _ Hwf Hmv) as Hls.
  destruct HI as [(Hcs & Hrange) Hsq Hst Hcp Hnn Htops Hply0 Hturn Hp0 Hp1 Hp2].
  destruct Hls as [k c Hor Hkind Hop Hno Hemp Hres Hpl Hfr Hcnt Hsize Hsh Hply
                  |drops dx dy Hor Hdir Hdr Hno Hpos Hlim Hhei Hown Hpath Hblock Hdrop Hrem Hfr Hcnt Hsize Hsh Hply].
  - (* placement *)
    split; [|exact Hply].
    pose proof (place_board p m p' c k Hwf Hor Hpl Hfr Hsize Hsh) as Hb.
    destruct Hor as (Hx & Hy).
    assert (Hidx : 0 <= my m * size p + mx m < zlen (board p)) by (rewrite Hsq; apply idx_range; lia).
    assert (Hcount : forall f, count_pieces f (board p') =
                               count_pieces f (board p) + (if f (mkPiece c k) then 1 else 0)).
    { intros f. rewrite Hb, count_updz by exact Hidx.
      unfold sq in Hemp. rewrite Hemp, cs_single. change (cs f []) with 0. lia. }
    constructor.
    + rewrite Hsize. split; assumption.
    + rewrite Hsize. exact Hsh.
    + intros c'. rewrite Hcount, Hcnt. specialize (Hst c').
      destruct c', c, k; cbn in *; lia.
    + intros c'. rewrite Hcount, Hcnt. specialize (Hcp c').
      destruct c', c, k; cbn in *; lia.
    + intros c' cap'. rewrite Hcnt. specialize (Hnn c' cap').
      destruct (color_eqb c' c && Bool.eqb cap' (is_capstone k)) eqn:E; [|lia].
      apply andb_true_iff in E. destruct E as (E1 & E2).
      apply color_eqb_eq in E1. apply eqb_prop in E2. subst. lia.
    + rewrite Hb. apply Forall_upd; [exact Htops|]. constructor.
    + lia.
    + unfold to_move. destruct (Z.even (ply p')); split; congruence.
    + intros H0. lia.
    + intros H1. assert (Hz : ply p = 0) by lia.
      destruct (Hop ltac:(lia)) as (-> & ->).
      specialize (Hp0 Hz). pose proof (count_le_all (is_piece Black Flat) (board p)).
      rewrite !Hcount. rewrite mover_even by (rewrite Hz; reflexivity). cbn. lia.
    + intros H2. assert (Hz : ply p = 1) by lia.
      destruct (Hop ltac:(lia)) as (-> & ->).
      destruct (Hp1 Hz) as (Ha & Hbf).
      pose proof (count_le_all (is_piece White Flat) (board p)).
      pose proof (count_disjoint (is_piece White Flat) (is_piece Black Flat) (board p)) as Hd.
      specialize (Hd ltac:(intros [[|] [| |]]; cbn; congruence)).
      fold any_piece in Hd.
      rewrite !Hcount. rewrite mover_odd by (rewrite Hz; reflexivity). cbn. lia.
  - (* slide *)
    split; [|exact Hply].
    apply slide_dir_spec in Hdir. destruct Hdir as (Hsl & Hdirn).
    assert (Hms : move_slide p m drops = Some p').
    { unfold move in Hmv. rewrite (proj2 (in_bounds_iff _ _ _) Hor) in Hmv. cbn [negb] in Hmv.
      rewrite Hsl, Hdr in Hmv. exact Hmv. }
    assert (Hcount : forall f, (forall c, f (mkPiece c Standing) = f (mkPiece c Flat)) ->
                               count_pieces f (board p') = count_pieces f (board p)).
    { intros f Hf. eapply slide_count; eassumption. }
    pose proof (slide_dir_unit _ _ _ (proj2 (slide_dir_spec _ _ _) (conj Hsl Hdirn))) as Hunit.
    constructor.
    + rewrite Hsize. split; assumption.
    + rewrite Hsize. exact Hsh.
    + intros c'. rewrite Hcount, Hcnt; [apply Hst|]. intros c0. destruct c', c0; reflexivity.
    + intros c'. rewrite Hcount, Hcnt; [apply Hcp|]. intros c0. destruct c', c0; reflexivity.
    + intros c' cap'. rewrite Hcnt. apply Hnn.
    + apply (wf_step p m p' Hwf Hmv).
    + lia.
    + unfold to_move. destruct (Z.even (ply p')); split; congruence.
    + intros H0. lia.
    + intros H1. lia.
    + intros H2. lia.
Qed.

(* the side to move alternates, starting with White *)
Theorem to_move_init cfg : to_move (from_config cfg) = White.
Proof. reflexivity. Qed.

Theorem to_move_alternates cfg p m p' :
  Inv cfg p -> move p m = Some p' -> to_move p' = flip (to_move p).
Proof.
  intros HI Hmv. destruct (inv_step _ _ _ _ HI Hmv) as (_ & Hply).
  unfold to_move. rewrite Hply, Z.even_add. destruct (Z.even (ply p)); reflexivity.
Qed.

Theorem to_move_alternation cfg p m p' :
  to_move (from_config cfg) = White /\
  (Inv cfg p -> move p m = Some p' -> to_move p' = flip (to_move p)).
Proof. split; [apply to_move_init|apply to_move_alternates]. Qed.

(* ---------- every finite sequence of accepted moves ---------- *)
Lemma inv_run cfg : forall ms p0 p,
  Inv cfg p0 -> run p0 ms = Some p -> Inv cfg p /\ ply p = ply p0 + Z.of_nat (length ms).
Proof.
  induction ms as [|m ms IH]; intros p0 p HI Hrun; cbn [run] in Hrun.
  - injection Hrun as <-. split; [exact HI|]. cbn [length]. lia.
  - destruct (move p0 m) as [q|] eqn:Em; [|discriminate].
    destruct (inv_step _ _ _ _ HI Em) as (HIq & Hq).
    destruct (IH q p HIq Hrun) as (HIp & Hp). split; [exact HIp|].
    cbn [length]. lia.
Qed.

Theorem inv_reachable cfg ms p :
  3 <= csize cfg <= 8 -> 0 <= flat_count cfg -> 0 <= capstone_count cfg ->
  run (from_config cfg) ms = Some p -> Inv cfg p /\ ply p = Z.of_nat (length ms).
Proof.
  intros Hs Hf Hc Hrun.
  destruct (inv_run cfg ms _ _ (inv_init cfg Hs Hf Hc) Hrun) as (HI & Hp).
  split; [exact HI|]. rewrite Hp. reflexivity.
Qed.

(* C01's hypothesis holds along every game *)
Theorem wf_reachable cfg ms p :
  3 <= csize cfg <= 8 -> 0 <= flat_count cfg -> 0 <= capstone_count cfg ->
  run (from_config cfg) ms = Some p -> wf_pos p.
Proof. intros Hs Hf Hc Hrun. eapply inv_wf_pos. eapply inv_reachable; eassumption. Qed.

(* Position.from_squares: reserves derived from a board satisfy conservation *)
Theorem from_squares_reserves cfg sqs pl p :
  from_squares cfg sqs pl = Some p ->
  (forall c, count_pieces (is_stone_of c) (board p) + reserve p c false = flat_count cfg) /\
  (forall c, count_pieces (is_cap_of c) (board p) + reserve p c true = capstone_count cfg) /\
  board p = sqs /\ ply p = pl /\ size p = csize cfg /\ zlen (board p) = size p * size p.
Proof.
  unfold from_squares. destruct (Z.of_nat (length sqs) =? csize cfg * csize cfg) eqn:E; [|discriminate].
  intros H. injection H as <-. cbn [board size ply].
  split; [intros [|]; cbn; lia|]. split; [intros [|]; cbn; lia|].
  repeat split. unfold zlen. lia.
Qed.

(* ---------- the hypotheses are satisfiable: a concrete game ---------- *)
(* 3x3 with 3 stones and 1 capstone each: a1 (a black flat, placed by White),
   b1 (a white flat, placed by Black), White b2, Black capstone c1, White wall a2,
   Black capstone c1 -> b1 (captures the stack), White b2 -> b3. *)
Definition ex_cfg : config := mkCfg 3 (Some 3) (Some 1).
Definition ex_game : list mv :=
  [mkMove 0 0 PlaceFlat None; mkMove 1 0 PlaceFlat None; mkMove 1 1 PlaceFlat None;
   mkMove 2 0 PlaceCapstone None; mkMove 0 1 PlaceStanding None;
   mkMove 2 0 SlideLeft (Some [1]); mkMove 1 1 SlideUp (Some [1])].

Example inv_reachable_nonvacuous :
  run (from_config ex_cfg) ex_game =
    Some (mkPos 3 0 1 2 0 7
            [[mkPiece Black Flat]; [mkPiece Black Capstone; mkPiece White Flat]; [];
             [mkPiece White Standing]; []; [];
             []; [mkPiece White Flat]; []]) /\
  (forall p, run (from_config ex_cfg) ex_game = Some p -> Inv ex_cfg p /\ ply p = 7) /\
  (* a move the rules refuse (Black has no capstone left) ends the sequence *)
  run (from_config ex_cfg) (ex_game ++ [mkMove 2 2 PlaceCapstone None]) = None.
Proof.
  split; [reflexivity|]. split; [|reflexivity].
  intros p H. apply (inv_reachable ex_cfg ex_game p); [cbn; lia|cbn; lia|cbn; lia|exact H].
Qed.
