(* Helper lemmas for C01/C04: list update read-back with Z indices, sums of
   drop lists, firstn/skipn arithmetic of the carry, the square <-> index
   correspondence, piece counting. *)
From Coq Require Import ZArith List Bool Lia.
From TV Require Import model.Tak.
Import ListNotations.
Open Scope Z_scope.

(* ---------- upd / getz / updz ---------- *)
Lemma upd_length {A} (l : list A) n v : length (upd l n v) = length l.
Proof. revert n; induction l as [|a l IH]; intros [|n]; simpl; auto. Qed.

Lemma nth_upd_eq {A} (l : list A) n v d : (n < length l)%nat -> nth n (upd l n v) d = v.
Proof.
  revert n; induction l as [|a l IH]; intros [|n] H; simpl in *; try lia; auto.
  apply IH. lia.
Qed.

Lemma nth_upd_neq {A} (l : list A) n k v d : n <> k -> nth k (upd l n v) d = nth k l d.
Proof.
  revert n k; induction l as [|a l IH]; intros [|n] [|k] H; simpl; auto; try congruence.
Qed.

Lemma zlen_updz {A} (l : list A) i v : zlen (updz l i v) = zlen l.
Proof. unfold zlen, updz. rewrite upd_length. reflexivity. Qed.

Lemma getz_updz_eq {A} (l : list A) i v d : 0 <= i < zlen l -> getz d (updz l i v) i = v.
Proof. unfold getz, updz, zlen. intros H. apply nth_upd_eq. lia. Qed.

Lemma getz_updz_neq {A} (l : list A) i j v d : 0 <= i -> 0 <= j -> i <> j ->
  getz d (updz l i v) j = getz d l j.
Proof. unfold getz, updz. intros Hi Hj H. apply nth_upd_neq. lia. Qed.

Lemma zlen_nonneg {A} (l : list A) : 0 <= zlen l.
Proof. unfold zlen. lia. Qed.

Lemma zlen_cons {A} (a : A) l : zlen (a :: l) = 1 + zlen l.
Proof. unfold zlen. simpl length. lia. Qed.

Lemma zlen_app {A} (l1 l2 : list A) : zlen (l1 ++ l2) = zlen l1 + zlen l2.
Proof. unfold zlen. rewrite app_length. lia. Qed.

Lemma zlen_firstn {A} (l : list A) k : 0 <= k <= zlen l -> zlen (firstn (Z.to_nat k) l) = k.
Proof. unfold zlen. intros H. rewrite firstn_length. lia. Qed.

Lemma zlen_skipn {A} (l : list A) k : 0 <= k <= zlen l -> zlen (skipn (Z.to_nat k) l) = zlen l - k.
Proof. unfold zlen. intros H. rewrite skipn_length. lia. Qed.

(* two lists of the same length with the same entries are equal *)
Lemma list_ext_getz {A} (d : A) (l1 l2 : list A) :
  zlen l1 = zlen l2 -> (forall i, 0 <= i < zlen l1 -> getz d l1 i = getz d l2 i) -> l1 = l2.
Proof.
  unfold zlen, getz. intros Hl H. apply (nth_ext l1 l2 d d); [lia|].
  intros n Hn. specialize (H (Z.of_nat n)). rewrite Nat2Z.id in H. apply H. lia.
Qed.

(* ---------- sums of drop lists ---------- *)
Lemma zsum_cons d ds : zsum (d :: ds) = d + zsum ds.
Proof. reflexivity. Qed.

Lemma zsum_app l1 l2 : zsum (l1 ++ l2) = zsum l1 + zsum l2.
Proof. induction l1 as [|a l1 IH]; cbn [app]; [reflexivity|]. rewrite !zsum_cons, IH. lia. Qed.

Lemma zsum_firstn_skipn i l : zsum (firstn i l) + zsum (skipn i l) = zsum l.
Proof. rewrite <- zsum_app, firstn_skipn. reflexivity. Qed.

Definition pos_drops (l : list Z) : Prop := Forall (fun d => 1 <= d) l.

Lemma pos_drops_len l : pos_drops l -> zlen l <= zsum l.
Proof.
  induction 1 as [|d l Hd Hl IH]; [reflexivity|]. rewrite zlen_cons, zsum_cons. lia.
Qed.

Lemma pos_drops_nonneg l : pos_drops l -> 0 <= zsum l.
Proof. intros H. apply pos_drops_len in H. pose proof (zlen_nonneg l). lia. Qed.

Lemma pos_drops_firstn i l : pos_drops l -> pos_drops (firstn i l).
Proof.
  intros H. rewrite <- (firstn_skipn i l) in H. apply Forall_app in H. tauto.
Qed.

Lemma pos_drops_skipn i l : pos_drops l -> pos_drops (skipn i l).
Proof.
  intros H. rewrite <- (firstn_skipn i l) in H. apply Forall_app in H. tauto.
Qed.

Lemma dropped_bounds i l : pos_drops l -> 0 <= zsum (firstn i l) <= zsum l.
Proof.
  intros H. pose proof (pos_drops_nonneg _ (pos_drops_firstn i l H)).
  pose proof (pos_drops_nonneg _ (pos_drops_skipn i l H)).
  pose proof (zsum_firstn_skipn i l). lia.
Qed.

(* a list of positive drops that sums to 1 is [1] *)
Lemma pos_drops_sum1 l : pos_drops l -> zsum l = 1 -> l = [1].
Proof.
  intros H Hs. destruct H as [|d l Hd Hl]; [discriminate|].
  rewrite zsum_cons in Hs. pose proof (pos_drops_len _ Hl) as Hlen.
  destruct l as [|e l'].
  - simpl in Hs. f_equal. unfold zsum in Hs. simpl in Hs. lia.
  - rewrite zlen_cons in Hlen. pose proof (zlen_nonneg l'). lia.
Qed.

Lemma dropped_succ i l : (i < length l)%nat ->
  zsum (firstn (S i) l) = zsum (firstn i l) + nth i l 0.
Proof.
  revert i; induction l as [|a l IH]; intros i H; simpl in H; [lia|].
  destruct i as [|i].
  - cbn [firstn nth]. rewrite zsum_cons. change (zsum []) with 0. lia.
  - change (firstn (S (S i)) (a :: l)) with (a :: firstn (S i) l).
    change (firstn (S i) (a :: l)) with (a :: firstn i l).
    rewrite !zsum_cons, IH by lia. cbn [nth]. lia.
Qed.

(* ---------- the carry: firstn of firstn, segments ---------- *)
(* what is still carried after D pieces have been dropped *)
Definition rem {A} (carry : list A) (D : Z) : list A := firstn (Z.to_nat (zlen carry - D)) carry.

Lemma zlen_rem {A} (carry : list A) D : 0 <= D <= zlen carry -> zlen (rem carry D) = zlen carry - D.
Proof. intros H. unfold rem. apply zlen_firstn. lia. Qed.

Lemma rem_rem {A} (carry : list A) D1 D2 : 0 <= D1 -> 0 <= D2 -> D1 + D2 <= zlen carry ->
  rem (rem carry D1) D2 = rem carry (D1 + D2).
Proof.
  intros H1 H2 H. unfold rem at 1. rewrite zlen_rem by lia. unfold rem.
  rewrite firstn_firstn. f_equal. lia.
Qed.

Lemma rem_0 {A} (carry : list A) : rem carry 0 = carry.
Proof. unfold rem. rewrite Z.sub_0_r. unfold zlen. rewrite Nat2Z.id. apply firstn_all. Qed.

(* ---------- squares and board indices ---------- *)
Lemma idx_inj n x y x' y' : 0 <= x < n -> 0 <= y < n -> 0 <= x' < n -> 0 <= y' < n ->
  y * n + x = y' * n + x' -> x = x' /\ y = y'.
Proof. intros. assert (y = y') by nia. subst. lia. Qed.

Lemma idx_range n x y : 0 <= x < n -> 0 <= y < n -> 0 <= y * n + x < n * n.
Proof. intros. nia. Qed.

Lemma in_bounds_iff n x y : in_bounds n x y = true <-> (0 <= x < n /\ 0 <= y < n).
Proof. unfold in_bounds. rewrite !andb_true_iff, !Z.leb_le, !Z.ltb_lt. lia. Qed.

(* boards of side n that agree on every square are equal *)
Lemma board_ext (n : Z) (b1 b2 : list stack) : 0 < n ->
  zlen b1 = n * n -> zlen b2 = n * n ->
  (forall x y, 0 <= x < n -> 0 <= y < n -> getz [] b1 (y * n + x) = getz [] b2 (y * n + x)) ->
  b1 = b2.
Proof.
  intros Hn H1 H2 H. apply (list_ext_getz []);
    [transitivity (n * n); [exact H1|symmetry; exact H2]|]. intros i Hi.
  assert (Hi' : 0 <= i < n * n) by (rewrite <- H1; exact Hi).
  assert (Hd : i = (i / n) * n + i mod n) by (rewrite Z.mul_comm; apply Z.div_mod; lia).
  pose proof (Z.mod_pos_bound i n Hn) as Hm.
  assert (0 <= i / n) by (apply Z.div_pos; lia).
  assert (i / n < n) by (apply Z.div_lt_upper_bound; lia).
  set (yy := i / n) in *. set (xx := i mod n) in *.
  rewrite Hd. apply H; lia.
Qed.

(* ---------- counting pieces ---------- *)
Definition cs (f : piece -> bool) (s : stack) : Z :=
  fold_right (fun q a => if f q then a + 1 else a) 0 s.

Lemma fold_cs (f : piece -> bool) (s : stack) (acc : Z) :
  fold_right (fun q a => if f q then a + 1 else a) acc s = cs f s + acc.
Proof.
  induction s as [|q s IH]; simpl; [reflexivity|]. unfold cs in *. simpl.
  destruct (f q); rewrite IH; lia.
Qed.

Lemma count_nil f : count_pieces f [] = 0.
Proof. reflexivity. Qed.

Lemma count_cons f s b : count_pieces f (s :: b) = cs f s + count_pieces f b.
Proof. unfold count_pieces. simpl. apply fold_cs. Qed.

Lemma cs_cons f q s : cs f (q :: s) = (if f q then 1 else 0) + cs f s.
Proof. unfold cs. simpl. destruct (f q); lia. Qed.

Lemma cs_app f s1 s2 : cs f (s1 ++ s2) = cs f s1 + cs f s2.
Proof.
  induction s1 as [|q s1 IH]; cbn [app]; [reflexivity|]. rewrite !cs_cons, IH. lia.
Qed.

Lemma cs_firstn_skipn f k s : cs f (firstn k s) + cs f (skipn k s) = cs f s.
Proof. rewrite <- cs_app, firstn_skipn. reflexivity. Qed.

Lemma cs_nonneg f s : 0 <= cs f s.
Proof. induction s as [|q s IH]; [reflexivity|]. rewrite cs_cons. destruct (f q); lia. Qed.

Lemma count_nonneg f b : 0 <= count_pieces f b.
Proof.
  induction b as [|s b IH]; [reflexivity|]. rewrite count_cons. pose proof (cs_nonneg f s). lia.
Qed.

Lemma count_upd f b n v : (n < length b)%nat ->
  count_pieces f (upd b n v) = count_pieces f b - cs f (nth n b []) + cs f v.
Proof.
  revert n; induction b as [|s b IH]; intros [|n] H; simpl in H; try lia.
  - cbn [upd nth]. rewrite !count_cons. lia.
  - cbn [upd nth]. rewrite !count_cons, IH by lia. lia.
Qed.

Lemma count_updz f b i v : 0 <= i < zlen b ->
  count_pieces f (updz b i v) = count_pieces f b - cs f (getz [] b i) + cs f v.
Proof. unfold updz, getz, zlen. intros H. apply count_upd. lia. Qed.

Lemma count_repeat_nil f n : count_pieces f (repeat [] n) = 0.
Proof. induction n as [|n IH]; cbn [repeat]; [reflexivity|]. rewrite count_cons, IH. reflexivity. Qed.

(* two disjoint classes of pieces together do not exceed the total *)
Lemma cs_disjoint f g s : (forall q, f q = true -> g q = true -> False) ->
  cs f s + cs g s <= cs (fun _ => true) s.
Proof.
  intros Hd. induction s as [|q s IH]; [reflexivity|]. rewrite !cs_cons.
  specialize (Hd q). destruct (f q), (g q); try lia; exfalso; auto.
Qed.

Lemma count_disjoint f g b : (forall q, f q = true -> g q = true -> False) ->
  count_pieces f b + count_pieces g b <= count_pieces (fun _ => true) b.
Proof.
  intros Hd. induction b as [|s b IH]; [reflexivity|]. rewrite !count_cons.
  pose proof (cs_disjoint f g s Hd). lia.
Qed.
