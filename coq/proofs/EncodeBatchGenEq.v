(* T06B - encoding._encode_batch / encode_batch REGENERATED from the source (gen/EncodeBatchGen.v, written against
   model/TorchLite.v; the per-position `encode` is the translated gen/EncodingGen.v one) equal the hand-written model
   (model/Encoding.v encode_batch_with), for every list of positions and every content of the uninitialised `lens`
   buffer; the batch clauses of C06 are transported.

   The generated code keeps `out` as an N-row tensor that is re-allocated wider (zeros, old columns copied into
   `[:, :old_width]`) whenever an encoding is longer than the current width, writes row i with `out[i, :len] = ...`,
   remembers the lengths in the uninitialised int tensor `lens`, and builds the mask from `lens` afterwards.  The
   content of this file is the invariant (all rows have the current width, i < N, the first i entries of `lens` are
   the lengths written so far) and the bounds reasoning: `[:, :w]` of the new buffer has exactly the shape of the old
   one, `[i, :len]` has exactly len columns because the buffer was widened first, every token is a byte (so the uint8
   tensor holds it), every entry of `lens` is written before it is read. *)
From Coq Require Import ZArith QArith String List Bool Lia.
From TV Require gen.Consts.
From TV Require Import model.Tak model.PySem model.TorchLite model.Encoding spec.EncodingSpec.
From TV Require Import proofs.PySemLemmas proofs.EncodingProofs proofs.EncodingGenEq.
From TV Require gen.EncodingGen gen.EncodeBatchGen.
Import ListNotations.
Open Scope Z_scope.

(* the hand model's result inside the outcome type: None (an encode call raised) is the IndexError of
   Token.RESERVES[n] / Token.CAPSTONES[n] *)
Definition embed_batch (o : option (list (list Z) * list (list bool))) : res (tensor * tensor) :=
  match o with Some (rows, masks) => Ok (I2 rows, B2 masks) | None => Crash IndexError end.

(* the guard: every encoding is shorter than 2^31 (its length is stored in an int32 tensor) *)
Definition small (s : bool) (ps : list position) : Prop :=
  Forall (fun p => forall e, Encoding.encode s p = Some e -> zlen e < 2147483648) ps.

(* ====================== lists ====================== *)
Lemma getitem_nat {A} (l : list A) n x : nth_error l n = Some x -> py_getitem l (Z.of_nat n) = Ok x.
Proof.
  intros H. assert (Hn : (n < length l)%nat) by (apply nth_error_Some; congruence).
  unfold py_getitem. rewrite py_index_in by (unfold zlen; lia). rewrite Nat2Z.id, H. reflexivity.
Qed.

Lemma setitem_nat {A} (l : list A) n v : (n < length l)%nat -> py_setitem l (Z.of_nat n) v = Ok (upd l n v).
Proof.
  intros Hn. unfold py_setitem. rewrite py_index_in by (unfold zlen; lia). rewrite Nat2Z.id. reflexivity.
Qed.

Lemma upd_length_eb {A} (l : list A) j v : length (upd l j v) = length l.
Proof. revert j. induction l as [|a l IH]; intros [|j]; simpl; try reflexivity. rewrite IH. reflexivity. Qed.

Lemma upd_app_here_eb {A} : forall (l1 : list A) x l2 v, upd (l1 ++ x :: l2) (length l1) v = l1 ++ v :: l2.
Proof. induction l1 as [|a l1 IH]; intros x l2 v; simpl; [reflexivity|]. rewrite IH. reflexivity. Qed.

Lemma nth_error_nth_eb {A} (l : list A) n x d : nth_error l n = Some x -> nth n l d = x.
Proof. revert n. induction l as [|a l IH]; intros [|n] H; simpl in *; try discriminate; [congruence|]. apply IH. exact H. Qed.

Lemma Forall_upd_eb {A} (P : A -> Prop) : forall l j v, Forall P l -> P v -> Forall P (upd l j v).
Proof.
  induction l as [|a l IH]; intros [|j] v Hl Hv; simpl; try assumption.
  - constructor; [exact Hv|exact (Forall_inv_tail Hl)].
  - constructor; [exact (Forall_inv Hl)|apply IH; [exact (Forall_inv_tail Hl)|exact Hv]].
Qed.

Lemma skipn_repeat_eb {A} (z : A) : forall k n, skipn k (repeat z n) = repeat z (n - k).
Proof. induction k as [|k IH]; intros [|n]; simpl; try reflexivity. apply IH. Qed.

Lemma map_const_repeat_eb {A B} (z : B) (l : list A) : map (fun _ => z) l = repeat z (length l).
Proof. induction l as [|a l IH]; simpl; [reflexivity|]. rewrite IH. reflexivity. Qed.

(* ====================== TorchLite inside the bounds ====================== *)
Lemma bound_nat n k : py_bound (Z.of_nat n) (Some (Z.of_nat k)) (Z.of_nat n) = Z.of_nat (Nat.min k n).
Proof. unfold py_bound. destruct (Z.of_nat k <? 0) eqn:E; lia. Qed.

(* row[:k] = new when new has exactly min k (len row) entries *)
Lemma set_prefix_row_ok {A} (row new : list A) k : length new = Nat.min k (length row) ->
  set_prefix_row row new (Z.of_nat k) = Some (new ++ skipn (length new) row).
Proof.
  intros H. unfold set_prefix_row, zlen. rewrite bound_nat, H, Z.eqb_refl, Nat2Z.id. reflexivity.
Qed.

(* tmp[:, :w] = out : every row of the old buffer followed by the new zero columns *)
Lemma set_cols_widen (w w' : nat) : (w < w')%nat -> forall R, Forall (fun r => length r = w) R ->
  set_prefix_rows (repeat (repeat 0 w') (length R)) R (Z.of_nat w) = Some (map (widen w') R).
Proof.
  intros Hw. induction 1 as [|r R Hr HR IH]; simpl; [reflexivity|].
  rewrite set_prefix_row_ok by (rewrite repeat_length; lia). rewrite IH.
  unfold widen, pad_value. rewrite skipn_repeat_eb, Hr. reflexivity.
Qed.

Lemma width_rows (w : nat) (R : list (list Z)) r0 : Forall (fun r => length r = w) (r0 :: R) -> width_of (r0 :: R) = Ok (Z.of_nat w).
Proof. intros H. simpl. unfold zlen. rewrite (Forall_inv H). reflexivity. Qed.

Lemma size1_rows (w : nat) (R : list (list Z)) r0 : Forall (fun r => length r = w) (r0 :: R) ->
  t_size (I2 (r0 :: R)) 1 = Ok (Z.of_nat w).
Proof. intros H. unfold t_size. change (1 =? 0) with false. change (1 =? 1) with true. cbv iota. apply width_rows. exact H. Qed.
Lemma size0_rows (R : list (list Z)) : t_size (I2 R) 0 = Ok (zlen R).
Proof. reflexivity. Qed.

(* mask[i, :l] = 1 on a row of zeros *)
Lemma mask_row_seq l : forall k a,
  map (fun j => Nat.ltb j l) (seq a k) = repeat true (Nat.min (l - a) k) ++ repeat false (k - (l - a)).
Proof.
  induction k as [|k IH]; intros a; simpl; [rewrite Nat.min_0_r; reflexivity|].
  rewrite IH. destruct (Nat.ltb a l) eqn:E.
  - apply Nat.ltb_lt in E. replace (l - a)%nat with (S (l - S a)) by lia. simpl. reflexivity.
  - apply Nat.ltb_ge in E. replace (l - a)%nat with 0%nat by lia. replace (l - S a)%nat with 0%nat by lia.
    simpl. rewrite Nat.sub_0_r. reflexivity.
Qed.

Lemma fill_is_mask_row (w l : nat) :
  fill_prefix_row (repeat false w) true (Z.of_nat l) = mask_row w l.
Proof.
  unfold fill_prefix_row, mask_row, zlen. rewrite repeat_length, bound_nat, Nat2Z.id, skipn_repeat_eb.
  rewrite mask_row_seq, Nat.sub_0_r. f_equal. f_equal. lia.
Qed.

(* ====================== the first loop ====================== *)
Section Loop.
Variable s : bool.
Let enc_one : position -> res (list Z) := fun p => t1 <- EncodingGen.encode p s ;; ret t1.

Lemma enc_one_eq p : enc_one p = embed_index (Encoding.encode s p).
Proof. unfold enc_one. rewrite gen_encode_eq. destruct (Encoding.encode s p); reflexivity. Qed.

Lemma bytes_ok p e : Encoding.encode s p = Some e -> forallb (fun x => (0 <=? x) && (x <? 256)) e = true.
Proof.
  intros H. apply forallb_forall. intros x Hx.
  pose proof (proj1 (Forall_forall _ _) (tokens_byte s p e H) x Hx) as Hb. simpl in Hb.
  apply andb_true_iff. split; [apply Z.leb_le|apply Z.ltb_lt]; lia.
Qed.

(* the state of the hand model's loop and of the generated one after the positions `ps`, started at row i *)
Lemma loop1_spec : forall ps (i w : nat) (R : list (list Z)) (Ld Lr : list Z),
  small s ps -> length Ld = i -> length Lr = length ps -> length R = (i + length ps)%nat ->
  Forall (fun r => length r = w) R ->
  EncodeBatchGen._encode_batch_for1 enc_one DUint8 (I1 (Ld ++ Lr)) (I2 R) (py_enumerate_from (Z.of_nat i) ps) =
  match all_some (map (Encoding.encode s) ps) with
  | None => Crash IndexError
  | Some encs =>
    let '(w', R') := batch_go i encs w R in
    Ok (I1 (Ld ++ map (fun e => zlen e) encs), I2 R')
  end /\
  (forall encs, all_some (map (Encoding.encode s) ps) = Some encs ->
     let '(w', R') := batch_go i encs w R in
     length R' = length R /\ Forall (fun r => length r = w') R').
Proof.
  induction ps as [|p ps IH]; intros i w R Ld Lr Hsmall HLd HLr HR Hw.
  - destruct Lr; [|discriminate]. simpl. rewrite app_nil_r. split; [reflexivity|].
    intros encs H. injection H as <-. simpl. split; [reflexivity|exact Hw].
  - destruct Lr as [|l0 Lr]; [discriminate|]. simpl in HLr, HR.
    cbn [py_enumerate_from EncodeBatchGen._encode_batch_for1 map all_some].
    rewrite enc_one_eq.
    destruct (Encoding.encode s p) as [e|] eqn:Ee; cbn [embed_index bind];
      [|split; [reflexivity|intros encs H; discriminate]].
    pose proof (Forall_inv Hsmall e Ee) as Hsm. pose proof (Forall_inv_tail Hsmall) as Hsmall'.
    (* out.size(1) *)
    destruct R as [|r0 R0]; [simpl in HR; lia|].
    rewrite (size1_rows w R0 r0 Hw). cbn [bind].
    set (grow := Nat.ltb w (length e)).
    assert (Hcond : (zlen e >? Z.of_nat w) = grow).
    { unfold grow, zlen. destruct (Nat.ltb w (length e)) eqn:E.
      - apply Nat.ltb_lt in E. apply Z.gtb_lt. lia.
      - apply Nat.ltb_ge in E. destruct (Z.of_nat (length e) >? Z.of_nat w) eqn:E2; [apply Z.gtb_lt in E2; lia|reflexivity]. }
    rewrite Hcond.
    set (w' := if grow then length e else w).
    set (R1 := if grow then map (widen w') (r0 :: R0) else r0 :: R0).
    match goal with |- context [bind (if grow then ?A else ?B) ?K] =>
      assert (Hstep : (if grow then A else B) = Ok (I2 R1)) end.
    { unfold R1, w'. destruct grow eqn:Eg; [|reflexivity].
      apply Nat.ltb_lt in Eg. cbv zeta.
      rewrite size0_rows. cbn [bind].
      unfold t_zeros2. destruct ((zlen (r0 :: R0) <? 0) || (zlen e <? 0)) eqn:Eneg; [unfold zlen in Eneg; lia|].
      cbn [bind]. unfold zlen. rewrite !Nat2Z.id. unfold t_set_cols_prefix.
      rewrite (set_cols_widen w (length e) Eg (r0 :: R0) Hw). reflexivity. }
    rewrite Hstep.
    cbn [bind].
    assert (HR1len : length R1 = S (length R0)).
    { unfold R1. destruct grow; [rewrite map_length|]; reflexivity. }
    assert (HR1w : Forall (fun r => length r = w') R1).
    { unfold R1, w'. destruct grow eqn:Eg.
      - apply Nat.ltb_lt in Eg. apply Forall_forall. intros r Hr. apply in_map_iff in Hr. destruct Hr as (r1 & <- & Hr1).
        unfold widen. rewrite app_length, repeat_length.
        rewrite (proj1 (Forall_forall _ _) Hw r1 Hr1). lia.
      - exact Hw. }
    assert (Hle : (length e <= w')%nat).
    { unfold w'. destruct grow eqn:Eg; [lia|]. apply Nat.ltb_ge in Eg. exact Eg. }
    (* out[i, :len] = tensor(encoded) *)
    unfold t_tensor_ints. rewrite (bytes_ok p e Ee). cbn [bind].
    assert (Hi : (i < length R1)%nat) by (rewrite HR1len; simpl in HR; lia).
    destruct (nth_error R1 i) as [old|] eqn:Eold; [|apply nth_error_None in Eold; lia].
    assert (Hold : length old = w') by (apply (proj1 (Forall_forall _ _) HR1w old (nth_error_In _ _ Eold))).
    unfold t_set_row_prefix. rewrite (getitem_nat _ _ _ Eold). cbn [bind].
    unfold zlen at 1. rewrite set_prefix_row_ok by lia.
    rewrite (setitem_nat _ _ _ Hi). cbn [bind ret].
    (* lens[i] = len *)
    unfold t_set_int.
    assert (Hrange : (-2147483648 <=? zlen e) && (zlen e <? 2147483648) = true).
    { apply andb_true_iff. split; [apply Z.leb_le; unfold zlen; lia|apply Z.ltb_lt; exact Hsm]. }
    rewrite Hrange.
    rewrite (setitem_nat (Ld ++ l0 :: Lr) i (zlen e)) by (rewrite app_length; simpl; lia).
    cbn [bind ret]. rewrite <- HLd, upd_app_here_eb.
    (* the rest of the batch *)
    replace (Z.of_nat (length Ld) + 1) with (Z.of_nat (S (length Ld))) by lia.
    replace (Ld ++ zlen e :: Lr) with ((Ld ++ [zlen e]) ++ Lr) by (rewrite <- app_assoc; reflexivity).
    set (R2 := upd R1 (length Ld) (e ++ skipn (length e) old)).
    assert (HR2w : Forall (fun r => length r = w') R2).
    { unfold R2. apply Forall_upd_eb; [exact HR1w|]. rewrite app_length, skipn_length. lia. }
    destruct (IH (S (length Ld)) w' R2 (Ld ++ [zlen e]) Lr Hsmall') as (IH1 & IH2).
    { rewrite app_length. simpl. lia. }
    { simpl in HLr. lia. }
    { unfold R2. rewrite upd_length_eb, HR1len. simpl in HR. lia. }
    { exact HR2w. }
    rewrite IH1.
    (* the hand model takes the same step *)
    assert (Hgo : forall encs, batch_go (length Ld) (e :: encs) w (r0 :: R0) = batch_go (S (length Ld)) encs w' R2).
    { intros encs. cbn [batch_go]. fold grow. fold w'. fold R1. unfold R2, set_prefix.
      rewrite <- HLd in Eold. rewrite (nth_error_nth_eb _ _ _ [] Eold). reflexivity. }
    split.
    + destruct (all_some (map (Encoding.encode s) ps)) as [encs|]; [|reflexivity].
      rewrite Hgo. destruct (batch_go (S (length Ld)) encs w' R2) as (wf, Rf).
      rewrite <- app_assoc. reflexivity.
    + intros encs0 H0. destruct (all_some (map (Encoding.encode s) ps)) as [encs|] eqn:Ea; [|discriminate].
      injection H0 as <-. rewrite Hgo. specialize (IH2 encs eq_refl).
      destruct (batch_go (S (length Ld)) encs w' R2) as (wf, Rf). destruct IH2 as (Hl & Hf).
      split; [|exact Hf]. rewrite Hl. unfold R2. rewrite upd_length_eb, HR1len. reflexivity.
Qed.
End Loop.

(* ====================== the mask loop ====================== *)
Lemma loop2_spec (w : nat) : forall (ls : list nat) (Md : list (list bool)),
  EncodeBatchGen._encode_batch_for2 (B2 (Md ++ repeat (repeat false w) (length ls)))
    (py_enumerate_from (Z.of_nat (length Md)) (map Z.of_nat ls)) =
  Ok (B2 (Md ++ map (mask_row w) ls)).
Proof.
  induction ls as [|l ls IH]; intros Md; cbn [map py_enumerate_from EncodeBatchGen._encode_batch_for2 length repeat];
    [reflexivity|].
  unfold t_fill_row_prefix.
  assert (Hn : nth_error (Md ++ repeat false w :: repeat (repeat false w) (length ls)) (length Md) = Some (repeat false w)).
  { rewrite nth_error_app2 by lia. rewrite Nat.sub_diag. reflexivity. }
  rewrite (getitem_nat _ _ _ Hn). cbn [bind].
  rewrite setitem_nat by (rewrite app_length; simpl; lia). cbn [bind ret].
  rewrite upd_app_here_eb. change (negb (1 =? 0)) with true. rewrite fill_is_mask_row.
  replace (Z.of_nat (length Md) + 1) with (Z.of_nat (length (Md ++ [mask_row w l]))) by (rewrite app_length; simpl; lia).
  replace (Md ++ mask_row w l :: repeat (repeat false w) (length ls))
    with ((Md ++ [mask_row w l]) ++ repeat (repeat false w) (length ls)) by (rewrite <- app_assoc; reflexivity).
  rewrite IH, <- app_assoc. reflexivity.
Qed.

(* ====================== _encode_batch / encode_batch ====================== *)
Lemma zeros_like_bool (w : nat) R : Forall (fun r : list Z => length r = w) R ->
  t_zeros_like_as (I2 R) DBool = Ok (B2 (repeat (repeat false w) (length R))).
Proof.
  intros H. unfold t_zeros_like_as. f_equal. f_equal.
  induction H as [|r R Hr HR IH]; simpl; [reflexivity|]. rewrite IH, map_const_repeat_eb, Hr. reflexivity.
Qed.

Lemma all_some_length {A} : forall (l : list (option A)) r, all_some l = Some r -> length r = length l.
Proof.
  induction l as [|o l IH]; intros r H; simpl in H; [injection H as <-; reflexivity|].
  destruct o as [a|]; [|discriminate]. destruct (all_some l) as [r'|]; [|discriminate]. injection H as <-.
  simpl. rewrite (IH r' eq_refl). reflexivity.
Qed.

Theorem gen_encode_batch_eq uninit s ps : small s ps ->
  EncodeBatchGen.encode_batch uninit ps s = embed_batch (Encoding.encode_batch_with s ps).
Proof.
  intros Hsmall. unfold EncodeBatchGen.encode_batch, EncodeBatchGen._encode_batch.
  unfold t_empty_int, t_zeros2, zlen. destruct (Z.of_nat (length ps) <? 0) eqn:E; [apply Z.ltb_lt in E; lia|].
  change (0 <? 0) with false. cbn [orb bind ret]. rewrite Nat2Z.id. change (Z.to_nat 0) with 0%nat. cbn [repeat].
  unfold py_enumerate.
  destruct (loop1_spec s ps 0 0 (repeat [] (length ps)) [] (map uninit (seq 0 (length ps))) Hsmall eq_refl)
    as (H1 & H2).
  { rewrite map_length, seq_length. reflexivity. }
  { rewrite repeat_length. reflexivity. }
  { apply Forall_forall. intros r Hr. apply repeat_spec in Hr. subst. reflexivity. }
  cbn [app] in H1. change (Z.of_nat 0) with 0 in H1. rewrite H1. clear H1.
  unfold Encoding.encode_batch_with.
  destruct (all_some (map (Encoding.encode s) ps)) as [encs|] eqn:Ea; [|reflexivity].
  specialize (H2 encs eq_refl).
  assert (Hlen : length encs = length ps) by (rewrite (all_some_length _ _ Ea), map_length; reflexivity).
  rewrite Hlen.
  destruct (batch_go 0 encs 0 (repeat [] (length ps))) as (w, R) eqn:Eg. destruct H2 as (HlR & HwR).
  cbn [bind]. rewrite (zeros_like_bool w R HwR). cbn [bind t_iter_int].
  rewrite HlR, repeat_length.
  pose proof (loop2_spec w (map (@length Z) encs) []) as H3.
  rewrite map_length, map_map in H3. cbn [app length] in H3. change (Z.of_nat 0) with 0 in H3.
  rewrite Hlen in H3.
  unfold zlen. rewrite H3. cbn [bind ret embed_batch]. rewrite map_map. reflexivity.
Qed.

(* ---------- corollaries: C06's batch clauses for the generated function ---------- *)
Theorem gen_batch_rows uninit s ps encs : small s ps -> Forall2 (fun p e => Encoding.encode s p = Some e) ps encs ->
  EncodeBatchGen.encode_batch uninit ps s =
  Ok (I2 (map (padded (max_len encs)) encs), B2 (map (mask_of (max_len encs)) encs)).
Proof. intros Hs H. rewrite (gen_encode_batch_eq uninit s ps Hs), (batch_rows s ps encs H). reflexivity. Qed.

Theorem gen_batch_raises uninit s ps : small s ps ->
  (EncodeBatchGen.encode_batch uninit ps s = Crash IndexError <-> exists p, In p ps /\ Encoding.encode s p = None).
Proof.
  intros Hs. rewrite (gen_encode_batch_eq uninit s ps Hs), <- batch_raises.
  destruct (Encoding.encode_batch_with s ps) as [(rows, masks)|]; simpl; split; intros H; congruence.
Qed.

Theorem gen_batch_outcomes uninit s ps : small s ps ->
  (exists rows masks, EncodeBatchGen.encode_batch uninit ps s = Ok (I2 rows, B2 masks)) \/
  EncodeBatchGen.encode_batch uninit ps s = Crash IndexError.
Proof.
  intros Hs. rewrite (gen_encode_batch_eq uninit s ps Hs).
  destruct (Encoding.encode_batch_with s ps) as [(rows, masks)|]; simpl; [left; eauto|right; reflexivity].
Qed.

(* the content of the uninitialised buffer does not matter *)
Theorem gen_uninit_irrelevant u1 u2 s ps : small s ps ->
  EncodeBatchGen.encode_batch u1 ps s = EncodeBatchGen.encode_batch u2 ps s.
Proof. intros Hs. rewrite !gen_encode_batch_eq by exact Hs. reflexivity. Qed.

(* positions of real games are far below the guard: an encoding has 5 (6) header tokens and one token per square
   and piece *)
Lemma small_of_bound s ps : Forall (fun p => forall e, Encoding.encode s p = Some e -> zlen e < 1000000) ps -> small s ps.
Proof. intros H. eapply Forall_impl; [|exact H]. intros p Hp e He. specialize (Hp e He). lia. Qed.

(* non-vacuity: a mixed batch (3x3 start, 4x4 start, 3x3 start) is small, is widened at the second row, and the
   generated function returns the padded rows and the masks of the real tokens; a position outside the vocabulary
   (reserves 50) makes it raise IndexError *)
Definition ex_p3 : position := from_config (mkCfg 3 None None).
Definition ex_p4 : position := from_config (mkCfg 4 None None).
Definition ex_bad : position := mkPos 3 50 0 10 0 0 (repeat [] 9).
Definition ex_uninit : nat -> Z := fun _ => 77.
Example gen_encode_batch_example :
  small true [ex_p3; ex_p4; ex_p3] /\
  (exists rows masks, EncodeBatchGen.encode_batch ex_uninit [ex_p3; ex_p4; ex_p3] true = Ok (I2 rows, B2 masks) /\
     map (@length Z) rows = [22; 22; 22]%nat /\
     map (fun m => length (filter (fun b : bool => b) m)) masks = [15; 22; 15]%nat) /\
  EncodeBatchGen.encode_batch ex_uninit [ex_p3; ex_bad] true = Crash IndexError.
Proof.
  split; [|split].
  - repeat constructor; intros e H; vm_compute in H; injection H as <-; reflexivity.
  - eexists. eexists. split; [vm_compute; reflexivity|]. split; reflexivity.
  - vm_compute. reflexivity.
Qed.
