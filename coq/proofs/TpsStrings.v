(* C13, part 1: str.split / str.join and the decimal printer / reader of
   model/Tps.v. *)
From Coq Require Import ZArith List Bool Lia.
From TV Require Import model.Tak model.Tps spec.TpsSpec.
Import ListNotations.
Open Scope Z_scope.

(* ---------- split / join ---------- *)

Lemma split_nonnil sep s : split sep s <> [].
Proof.
  destruct s as [|c t]; simpl; [discriminate|].
  destruct (c =? sep); [discriminate|]. destruct (split sep t); discriminate.
Qed.

Lemma split_cons sep c t :
  split sep (c :: t) =
  if c =? sep then [] :: split sep t
  else (c :: hd [] (split sep t)) :: tl (split sep t).
Proof.
  simpl. destruct (c =? sep); [reflexivity|].
  destruct (split sep t) eqn:E; [|reflexivity]. exfalso. exact (split_nonnil _ _ E).
Qed.

Lemma split_nosep sep a : ~ In sep a -> split sep a = [a].
Proof.
  induction a as [|c a IH]; intros Hn; [reflexivity|].
  rewrite split_cons. destruct (c =? sep) eqn:E.
  - exfalso. apply Hn. left. apply Z.eqb_eq in E. assumption.
  - rewrite IH; [reflexivity|]. intro Hin. apply Hn. right. assumption.
Qed.

Lemma split_app_sep sep a b : ~ In sep a -> split sep (a ++ sep :: b) = a :: split sep b.
Proof.
  induction a as [|c a IH]; intros Hn.
  - simpl. rewrite Z.eqb_refl. reflexivity.
  - rewrite <- app_comm_cons. rewrite split_cons. destruct (c =? sep) eqn:E.
    + exfalso. apply Hn. left. apply Z.eqb_eq in E. assumption.
    + rewrite IH; [reflexivity|]. intro Hin. apply Hn. right. assumption.
Qed.

Lemma join_cons2 sep a b t : join sep (a :: b :: t) = a ++ sep ++ join sep (b :: t).
Proof. reflexivity. Qed.

Lemma split_join sep l :
  l <> [] -> Forall (fun a => ~ In sep a) l -> split sep (join [sep] l) = l.
Proof.
  induction l as [|a l IH]; intros Hne Hall; [congruence|].
  inversion Hall as [|? ? Ha Hl]; subst.
  destruct l as [|b l].
  - simpl. apply split_nosep. assumption.
  - rewrite join_cons2. change ([sep] ++ join [sep] (b :: l)) with (sep :: join [sep] (b :: l)).
    rewrite split_app_sep by assumption.
    rewrite IH; [reflexivity|discriminate|assumption].
Qed.

Lemma join_split sep s : join [sep] (split sep s) = s.
Proof.
  induction s as [|c t IH]; [reflexivity|].
  rewrite split_cons. destruct (c =? sep) eqn:E.
  - apply Z.eqb_eq in E. subst c.
    destruct (split sep t) as [|h r] eqn:Es; [exfalso; exact (split_nonnil _ _ Es)|].
    rewrite join_cons2. rewrite IH. reflexivity.
  - destruct (split sep t) as [|h r] eqn:Es; [exfalso; exact (split_nonnil _ _ Es)|].
    simpl hd. simpl tl. destruct r as [|h2 r].
    + simpl in *. rewrite IH. reflexivity.
    + rewrite join_cons2 in *. rewrite <- app_comm_cons. rewrite IH. reflexivity.
Qed.

Lemma split_no_sep sep s a : In a (split sep s) -> ~ In sep a.
Proof.
  revert a. induction s as [|c t IH]; intros a Hin.
  - simpl in Hin. destruct Hin as [<-|[]]. intros [].
  - rewrite split_cons in Hin. destruct (c =? sep) eqn:E.
    + destruct Hin as [<-|Hin]; [intros []|]. apply IH. assumption.
    + destruct (split sep t) as [|h r] eqn:Es; [exfalso; exact (split_nonnil _ _ Es)|].
      simpl in Hin. destruct Hin as [<-|Hin].
      * intros [Hc|Hh]; [apply Z.eqb_neq in E; congruence|].
        apply (IH h); [left; reflexivity|assumption].
      * apply IH. right. assumption.
Qed.

(* ---------- reading numbers ---------- *)

Lemma fold_int_acc s a :
  fold_left (fun a c => 10 * a + (c - ch_0)) s a = a * 10 ^ zlen s + dec_value s.
Proof.
  revert a. induction s as [|c t IH]; intros a.
  - simpl. unfold zlen. simpl. lia.
  - cbn [fold_left]. rewrite IH. cbn [dec_value].
    assert (Hl : zlen (c :: t) = zlen t + 1) by (unfold zlen; simpl length; lia).
    rewrite Hl. rewrite Z.pow_add_r by (unfold zlen; lia). change (10 ^ 1) with 10. ring.
Qed.

Lemma int_of_digits_dec s : int_of_digits s = dec_value s.
Proof. unfold int_of_digits. rewrite fold_int_acc. lia. Qed.

Lemma int_of_digits_snoc l c : int_of_digits (l ++ [c]) = 10 * int_of_digits l + (c - ch_0).
Proof. unfold int_of_digits. rewrite fold_left_app. reflexivity. Qed.

Lemma is_ascii_digit_iff c : is_ascii_digit c = true <-> is_digit_char c.
Proof.
  unfold is_ascii_digit, is_digit_char. rewrite andb_true_iff, !Z.leb_le. tauto.
Qed.

Lemma is_ascii_digits_iff s :
  is_ascii_digits s = true <-> s <> [] /\ forall c, In c s -> is_digit_char c.
Proof.
  unfold is_ascii_digits. destruct s as [|c t].
  - split; [discriminate|]. intros [H _]. congruence.
  - rewrite forallb_forall. split.
    + intros H. split; [discriminate|]. intros x Hx. apply is_ascii_digit_iff. apply H. assumption.
    + intros [_ H] x Hx. apply is_ascii_digit_iff. apply H. assumption.
Qed.

Lemma int_of_digits_nonneg s : (forall c, In c s -> is_digit_char c) -> 0 <= int_of_digits s.
Proof.
  induction s as [|c l IH] using rev_ind; intros H; [unfold int_of_digits; simpl; lia|].
  rewrite int_of_digits_snoc.
  assert (0 <= int_of_digits l) by (apply IH; intros x Hx; apply H; apply in_or_app; left; assumption).
  assert (Hc : is_digit_char c) by (apply H; apply in_or_app; right; left; reflexivity).
  unfold is_digit_char, ch_0, ch_9 in *. lia.
Qed.

(* ---------- printing numbers ---------- *)

Lemma digits_fuel_acc f n acc : digits_fuel f n acc = digits_fuel f n [] ++ acc.
Proof.
  revert n acc. induction f as [|f IH]; intros n acc; [reflexivity|].
  cbn [digits_fuel]. destruct (n <? 10); [reflexivity|].
  rewrite (IH (n / 10) ((ch_0 + n mod 10) :: acc)). rewrite (IH (n / 10) [ch_0 + n mod 10]).
  rewrite <- app_assoc. reflexivity.
Qed.

Lemma digits_fuel_enough f : forall n f' acc,
  0 <= n < 2 ^ Z.of_nat f -> (1 <= f)%nat -> (f <= f')%nat ->
  digits_fuel f n acc = digits_fuel f' n acc.
Proof.
  induction f as [|f IH]; intros n f' acc Hn Hf Hff; [lia|].
  destruct f' as [|f']; [lia|].
  cbn [digits_fuel]. destruct (n <? 10) eqn:E; [reflexivity|].
  apply Z.ltb_ge in E.
  assert (H2 : 2 ^ Z.of_nat (S f) = 2 * 2 ^ Z.of_nat f).
  { rewrite Nat2Z.inj_succ. rewrite Z.pow_succ_r by lia. reflexivity. }
  assert (Hdiv : 0 <= n / 10 < 2 ^ Z.of_nat f).
  { split; [apply Z.div_pos; lia|].
    apply Z.div_lt_upper_bound; [lia|]. lia. }
  apply IH; [assumption| |lia].
  destruct f as [|f]; [|lia]. simpl in H2. lia.
Qed.

Lemma log2_fuel n : 0 <= n -> 0 <= n < 2 ^ Z.of_nat (S (Z.to_nat (Z.log2 n))).
Proof.
  intros Hn. split; [assumption|].
  rewrite Nat2Z.inj_succ. rewrite Z2Nat.id by apply Z.log2_nonneg.
  destruct (Z.eq_dec n 0) as [->|Hz]; [simpl; lia|].
  apply Z.log2_spec. lia.
Qed.

Lemma digits_small n : 0 <= n < 10 -> digits n = [ch_0 + n].
Proof.
  intros H. unfold digits. cbn [digits_fuel].
  destruct (n <? 10) eqn:E; [|apply Z.ltb_ge in E; lia].
  rewrite Z.mod_small by lia. reflexivity.
Qed.

Lemma digits_step n : 10 <= n -> digits n = digits (n / 10) ++ [ch_0 + n mod 10].
Proof.
  intros H. unfold digits at 1. cbn [digits_fuel].
  destruct (n <? 10) eqn:E; [apply Z.ltb_lt in E; lia|].
  rewrite digits_fuel_acc. f_equal.
  unfold digits.
  assert (Hq : 0 <= n / 10) by (apply Z.div_pos; lia).
  assert (Hq1 : 1 <= n / 10) by (apply Z.div_le_lower_bound; lia).
  assert (Hlog : Z.log2 (n / 10) + 1 <= Z.log2 n).
  { rewrite Z.add_1_r. rewrite <- (Z.log2_double (n / 10)) by lia.
    apply Z.log2_le_mono. pose proof (Z.mul_div_le n 10). lia. }
  assert (Hl1 : 1 <= Z.log2 n).
  { change 1 with (Z.log2 2). apply Z.log2_le_mono. lia. }
  pose proof (Z.log2_nonneg (n / 10)) as Hnn.
  destruct (Z.to_nat (Z.log2 n)) as [|k] eqn:Ek; [lia|].
  symmetry. apply digits_fuel_enough.
  - apply log2_fuel. assumption.
  - lia.
  - lia.
Qed.

Lemma digits_spec n : 0 <= n ->
  digits n <> [] /\ (forall c, In c (digits n) -> is_digit_char c) /\ int_of_digits (digits n) = n.
Proof.
  intros Hn. pattern n. apply Wf_Z.Zlt_0_ind; [|assumption].
  clear n Hn. intros n IH Hn.
  destruct (Z_lt_ge_dec n 10) as [Hs|Hb].
  - rewrite digits_small by lia. split; [discriminate|]. split.
    + intros c [<-|[]]. unfold is_digit_char, ch_0, ch_9. lia.
    + unfold int_of_digits, ch_0. cbn [fold_left]. lia.
  - rewrite digits_step by lia.
    assert (Hq : 0 <= n / 10 < n).
    { split; [apply Z.div_pos; lia|apply Z.div_lt; lia]. }
    destruct (IH (n / 10) Hq) as (H1 & H2 & H3).
    split; [intro E; apply app_eq_nil in E; destruct E; discriminate|]. split.
    + intros c Hc. apply in_app_or in Hc. destruct Hc as [Hc|[<-|[]]]; [apply H2; assumption|].
      pose proof (Z.mod_pos_bound n 10). unfold is_digit_char, ch_0, ch_9. lia.
    + rewrite int_of_digits_snoc. rewrite H3. pose proof (Z.div_mod n 10). lia.
Qed.

Lemma int_of_digits_digits n : 0 <= n -> int_of_digits (digits n) = n.
Proof. intros H. apply digits_spec. assumption. Qed.

Lemma digits_no_leading_zero n : 1 <= n -> forall t, digits n <> ch_0 :: t.
Proof.
  intros Hn. assert (H0 : 0 <= n) by lia. revert Hn. pattern n. apply Wf_Z.Zlt_0_ind; [|assumption].
  clear n H0. intros n IH Hn H1.
  destruct (Z_lt_ge_dec n 10) as [Hs|Hb].
  - rewrite digits_small by lia. intros t E. assert (E1 := f_equal (hd 0) E). cbn [hd] in E1. lia.
  - rewrite digits_step by lia. intros t E.
    assert (Hq : 0 <= n / 10 < n) by (split; [apply Z.div_pos; lia|apply Z.div_lt; lia]).
    assert (Hq1 : 1 <= n / 10) by (apply Z.div_le_lower_bound; lia).
    destruct (digits (n / 10)) as [|d r] eqn:Ed.
    + destruct (digits_spec (n / 10)) as (Hne & _); [lia|]. congruence.
    + simpl in E. inversion E. subst d. apply (IH (n / 10) Hq Hq1 r). assumption.
Qed.

(* a numeral without a leading zero is what the printer writes for its value *)
Lemma digits_int_of_digits m :
  m <> [] -> (forall c, In c m -> is_digit_char c) -> (forall t, m <> ch_0 :: t) ->
  digits (int_of_digits m) = m.
Proof.
  induction m as [|c l IH] using rev_ind; intros Hne Hd Hz; [congruence|].
  assert (Hc : is_digit_char c) by (apply Hd; apply in_or_app; right; left; reflexivity).
  assert (Hl : forall x, In x l -> is_digit_char x) by (intros x Hx; apply Hd; apply in_or_app; left; assumption).
  rewrite int_of_digits_snoc.
  destruct l as [|d l'].
  - unfold int_of_digits. cbn [fold_left]. rewrite digits_small by (unfold is_digit_char, ch_0, ch_9 in *; lia).
    cbn [app]. f_equal. lia.
  - assert (Hv : 1 <= int_of_digits (d :: l')).
    { rewrite int_of_digits_dec. cbn [dec_value].
      assert (Hdd : is_digit_char d) by (apply Hl; left; reflexivity).
      assert (d <> ch_0) by (intro E; subst d; apply (Hz (l' ++ [c])); reflexivity).
      assert (0 <= dec_value l').
      { rewrite <- int_of_digits_dec. apply int_of_digits_nonneg. intros x Hx. apply Hl. right. assumption. }
      assert (0 < 10 ^ zlen l') by (apply Z.pow_pos_nonneg; unfold zlen; lia).
      unfold is_digit_char, ch_0, ch_9 in *. nia. }
    unfold is_digit_char, ch_0, ch_9 in Hc.
    rewrite digits_step by (unfold ch_0; lia).
    replace ((10 * int_of_digits (d :: l') + (c - ch_0)) / 10) with (int_of_digits (d :: l'))
      by (unfold ch_0; apply Z.div_unique with (r := c - 48); lia).
    replace ((10 * int_of_digits (d :: l') + (c - ch_0)) mod 10) with (c - ch_0)
      by (unfold ch_0; apply Z.mod_unique with (q := int_of_digits (d :: l')); lia).
    rewrite IH.
    + f_equal. f_equal. unfold ch_0. lia.
    + discriminate.
    + assumption.
    + intros t E. apply (Hz (t ++ [c])). rewrite E. reflexivity.
Qed.

Lemma digits_length_bound k : forall n, 0 <= n < 10 ^ Z.of_nat (S k) -> zlen (digits n) <= Z.of_nat (S k).
Proof.
  induction k as [|k IH]; intros n Hn.
  - change (10 ^ Z.of_nat 1) with 10 in Hn. rewrite digits_small by lia. unfold zlen. simpl. lia.
  - destruct (Z_lt_ge_dec n 10) as [Hs|Hb].
    + rewrite digits_small by lia. unfold zlen. simpl length. lia.
    + rewrite digits_step by lia. unfold zlen. rewrite app_length. simpl length.
      assert (Hq : 0 <= n / 10 < 10 ^ Z.of_nat (S k)).
      { split; [apply Z.div_pos; lia|]. apply Z.div_lt_upper_bound; [lia|].
        rewrite (Nat2Z.inj_succ (S k)) in Hn. rewrite Z.pow_succ_r in Hn by lia. lia. }
      specialize (IH (n / 10) Hq). unfold zlen in IH. lia.
Qed.

Lemma str_of_Z_nonneg n : 0 <= n -> str_of_Z n = digits n.
Proof. intros H. unfold str_of_Z. destruct (n <? 0) eqn:E; [apply Z.ltb_lt in E; lia|reflexivity]. Qed.
