(* C17 - proofs about the batching-server model (model/Server.v). *)
From Coq Require Import ZArith List Bool Lia.
From TV Require gen.Consts gen.ServerIR.
From TV Require Import model.ServerDen model.Server proofs.ListUtil.
Import ListNotations.
Open Scope Z_scope.

(* ---- facts about the regenerated constants (re-checked on every run) *)
Lemma consts_ok : 1 <= threshold /\ threshold <= cap.
Proof. vm_compute. split; intro H; discriminate H. Qed.
(* the hand-out loop of the regenerated protocol gives result row i to request i *)
Lemma pairing_identity : pairing = ServerIR.IdxI.
Proof. vm_compute. reflexivity. Qed.
Lemma cap_pos : 1 <= cap.
Proof. destruct consts_ok; lia. Qed.

Lemma qlen_app {X} (a b : list X) : qlen (a ++ b) = qlen a + qlen b.
Proof. unfold qlen. rewrite app_length. lia. Qed.
Lemma qlen_nonneg {X} (a : list X) : 0 <= qlen a.
Proof. unfold qlen. lia. Qed.
Lemma qlen_nil_iff {X} (a : list X) : qlen a = 0 <-> a = [].
Proof. unfold qlen. destruct a; simpl; split; intro H; try reflexivity; try discriminate; lia. Qed.

(* ---- the loops *)
Lemma inner_spec : forall q b, inner q b = (b ++ q, threshold <=? qlen (b ++ q)).
Proof.
  induction q as [|r q IH]; intro b.
  - cbn [inner]. rewrite app_nil_r. destruct (threshold <=? qlen b); reflexivity.
  - cbn [inner]. rewrite IH. rewrite <- app_assoc. cbn [app].
    destruct (threshold <=? qlen b); reflexivity.
Qed.

Lemma refill_spec : forall n q bl, qlen q + Z.of_nat n <= cap ->
  refill n q bl = (q ++ firstn n bl, skipn n bl).
Proof.
  induction n as [|n IH]; intros q bl Hc.
  - cbn [refill firstn skipn]. rewrite app_nil_r. destruct bl; reflexivity.
  - destruct bl as [|p bl].
    + cbn [refill firstn skipn]. rewrite app_nil_r. reflexivity.
    + cbn [refill firstn skipn].
      destruct (qlen q <? cap) eqn:E; [|apply Z.ltb_ge in E; lia].
      rewrite IH by (rewrite qlen_app; unfold qlen in *; cbn [length]; lia).
      rewrite <- app_assoc. reflexivity.
Qed.

Lemma map_fst_combine {X Y} : forall (a : list X) (b : list Y), length a = length b -> map fst (combine a b) = a.
Proof.
  induction a as [|x a IH]; intros [|y b] H; simpl in *; try reflexivity; try discriminate.
  f_equal. apply IH. lia.
Qed.

Section Proofs.
  Variable A : Type.
  Variable frow : list Z -> list bool -> A.
  Notation state := (state A).
  Notation step := (step A frow).
  Notation resume := (resume A).
  Notation run_from := (run_from A frow).
  Notation run := (run A frow).
  Notation run_model := (run_model A frow).
  Notation f_local := (f_local A frow).

  Lemma run_model_length ps : length (run_model ps) = length ps.
  Proof. unfold Server.run_model. apply map_length. Qed.

  Lemma answered_fst (b : list req) : map fst (combine b (run_model (map rpos b))) = b.
  Proof. apply map_fst_combine. rewrite run_model_length, map_length. reflexivity. Qed.

  (* ---- resume *)
  Lemma resume_nil (st : state) t : queue st = [] -> resume st t = st.
  Proof. intro H. unfold Server.resume. rewrite H. reflexivity. Qed.

  Lemma resume_running (st : state) t b : wk st = Running b -> resume st t = st.
  Proof. intro H. unfold Server.resume. destruct (queue st); [reflexivity|]. rewrite H. reflexivity. Qed.

  Lemma resume_spec (st : state) t :
    queue st <> [] -> qlen (queue st) <= cap -> (forall b, wk st <> Running b) ->
    let B := batch_of st ++ queue st in
    let n := length (queue st) in
    resume st t =
      if threshold <=? qlen B
      then mkSt A (firstn n (blocked st)) (skipn n (blocked st)) (Running B) (started st ++ [(t, B)]) (answers st) (completed st)
      else mkSt A (firstn n (blocked st)) (skipn n (blocked st)) (Gathering B (t + gather_timeout_us)) (started st) (answers st) (completed st).
  Proof.
    intros Hq Hc Hw B n. subst B n. unfold Server.resume, batch_of.
    destruct (queue st) as [|r q] eqn:Eq; [congruence|].
    assert (Hn : qlen (@nil req) + Z.of_nat (length (r :: q)) <= cap) by (unfold qlen in *; cbn [length] in *; lia).
    destruct (wk st) as [|b d|b] eqn:Ew.
    - rewrite inner_spec, (refill_spec _ _ _ Hn). cbn [app]. reflexivity.
    - rewrite inner_spec, (refill_spec _ _ _ Hn). rewrite <- app_assoc. cbn [app]. reflexivity.
    - exfalso. apply (Hw b). reflexivity.
  Qed.

  Lemma resume_log (st : state) t :
    answers (resume st t) = answers st /\ completed (resume st t) = completed st.
  Proof.
    unfold Server.resume. destruct (queue st) as [|r q]; [split; reflexivity|].
    destruct (wk st) as [|b d|b]; try (split; reflexivity).
    - destruct (inner q [r]) as [b' brk]. destruct (refill _ _ _) as [q' bl']. destruct brk; split; reflexivity.
    - destruct (inner q (b ++ [r])) as [b' brk]. destruct (refill _ _ _) as [q' bl']. destruct brk; split; reflexivity.
  Qed.

  (* ---- what one event does to the response log *)
  Lemma step_log (st : state) e :
    (answers (step st e) = answers st /\ completed (step st e) = completed st) \/
    (exists b t, e = ModelDone t /\ wk st = Running b /\
               answers (step st e) = answers st ++ combine b (run_model (map rpos b)) /\
               completed (step st e) = S (completed st)).
  Proof.
    destruct e as [r t|t|t|t]; cbn [Server.step].
    - left. destruct (qlen (queue st) <? cap); split; reflexivity.
    - left. apply resume_log.
    - left. destruct (wk st) as [|b d|b]; try (split; reflexivity).
      destruct (d <=? t); split; reflexivity.
    - destruct (wk st) as [|b d|b] eqn:Ew; try (left; split; reflexivity).
      right. exists b, t. split; [reflexivity|]. split; [reflexivity|].
      rewrite pairing_identity. cbn [pair_results].
      match goal with |- context [resume ?s t] => destruct (resume_log s t) as [H1 H2]; rewrite H1, H2 end.
      split; reflexivity.
  Qed.

  (* ---- the invariant of reachable states; arr = requests that arrived so far, in order *)
  Definition wk_ok (st : state) : Prop :=
    match wk st with
    | Idle => True
    | Gathering b _ => b <> [] /\ qlen b < threshold
    | Running b => b <> []
    end.
  Definition running_batch (st : state) : list req := match wk st with Running b => b | _ => [] end.
  (* a model call: not empty, and at most threshold - 1 requests gathered before the queue (at most cap) was drained *)
  Definition batch_ok (tb : Z * list req) : Prop := snd tb <> [] /\ qlen (snd tb) <= threshold - 1 + cap.

  Record Inv (arr : list req) (st : state) : Prop := {
    inv_order : map fst (answers st) ++ pending st = arr;
    inv_cap : qlen (queue st) <= cap;
    inv_wk : wk_ok st;
    inv_blocked : blocked st <> [] -> qlen (queue st) = cap;
    inv_started : concat (map snd (started st)) = map fst (answers st) ++ running_batch st;
    inv_batches : Forall batch_ok (started st)
  }.

  Lemma Inv_init : Inv [] (init A).
  Proof.
    pose proof cap_pos as Hcp.
    constructor; cbn [init queue blocked wk started answers completed pending batch_of map app concat].
    - reflexivity.
    - replace (qlen (@nil req)) with 0 by reflexivity. lia.
    - exact Logic.I.
    - intro H; congruence.
    - reflexivity.
    - constructor.
  Qed.

  Lemma concat_snoc (l : list (Z * list req)) t b : concat (map snd (l ++ [(t, b)])) = concat (map snd l) ++ b.
  Proof. rewrite map_app, concat_app. cbn. rewrite app_nil_r. reflexivity. Qed.

  Lemma Forall_snoc {X} (P : X -> Prop) l x : Forall P l -> P x -> Forall P (l ++ [x]).
  Proof. intros H1 H2. apply Forall_app. split; [exact H1|constructor; [exact H2|constructor]]. Qed.

  Lemma blocked_nil_of_short (arr : list req) (st : state) : Inv arr st -> qlen (queue st) < cap -> blocked st = [].
  Proof.
    intros I H. destruct (blocked st) as [|p bl] eqn:E; [reflexivity|].
    assert (qlen (queue st) = cap) by (apply (inv_blocked _ _ I); rewrite E; discriminate). lia.
  Qed.

  (* a worker suspended in a get (Idle or Gathering) runs with queue q, blocked bl *)
  Lemma Inv_resume (arr : list req) (st : state) t :
    (forall b, wk st <> Running b) ->
    queue st <> [] -> qlen (queue st) <= cap ->
    (blocked st <> [] -> qlen (queue st) = cap) ->
    (match wk st with Gathering b _ => qlen b < threshold | _ => True end) ->
    map fst (answers st) ++ pending st = arr ->
    concat (map snd (started st)) = map fst (answers st) ->
    Forall batch_ok (started st) ->
    Inv arr (resume st t).
  Proof.
    intros Hw Hq Hc Hb Hg Ho Hs Hf.
    rewrite (resume_spec st t Hq Hc Hw).
    set (n := length (queue st)). set (B := batch_of st ++ queue st).
    assert (HB : B <> []) by (subst B; destruct (batch_of st); cbn; [assumption|discriminate]).
    assert (HBsz : qlen B <= threshold - 1 + cap).
    { subst B. rewrite qlen_app. unfold batch_of. destruct consts_ok as [Ht1 Ht2].
      destruct (wk st) as [|b0 d0|b0] eqn:Ew0.
      - replace (qlen (@nil req)) with 0 by reflexivity. lia.
      - lia.
      - exfalso. apply (Hw b0). reflexivity. }
    assert (Hfs : firstn n (blocked st) ++ skipn n (blocked st) = blocked st) by apply firstn_skipn.
    assert (Hpend : B ++ firstn n (blocked st) ++ skipn n (blocked st) = pending st)
      by (rewrite Hfs; subst B; unfold pending; rewrite <- app_assoc; reflexivity).
    assert (Hcap' : qlen (firstn n (blocked st)) <= cap)
      by (pose proof (firstn_le_length n (blocked st)); unfold qlen in *; subst n; lia).
    assert (Hbl' : skipn n (blocked st) <> [] -> qlen (firstn n (blocked st)) = cap).
    { intro Hne. assert (Hlt : (n < length (blocked st))%nat).
      { destruct (Nat.lt_ge_cases n (length (blocked st))) as [L|L]; [exact L|].
        exfalso. apply Hne. apply skipn_all2. exact L. }
      assert (Hbne : blocked st <> []) by (destruct (blocked st); [cbn in Hlt; lia|discriminate]).
      specialize (Hb Hbne). unfold qlen in *. rewrite firstn_length_le by lia. subst n. exact Hb. }
    destruct (threshold <=? qlen B) eqn:E.
    - constructor; cbn [queue blocked wk started answers completed].
      + unfold pending, batch_of; cbn [queue blocked wk]. rewrite Hpend. exact Ho.
      + exact Hcap'.
      + unfold wk_ok; cbn [wk]. exact HB.
      + exact Hbl'.
      + unfold running_batch; cbn [wk]. rewrite concat_snoc, Hs. reflexivity.
      + apply Forall_snoc; [exact Hf|split; cbn [snd]; assumption].
    - apply Z.leb_gt in E.
      constructor; cbn [queue blocked wk started answers completed].
      + unfold pending, batch_of; cbn [queue blocked wk]. rewrite Hpend. exact Ho.
      + exact Hcap'.
      + unfold wk_ok; cbn [wk]. split; assumption.
      + exact Hbl'.
      + unfold running_batch; cbn [wk]. rewrite Hs, app_nil_r. reflexivity.
      + exact Hf.
  Qed.

  Lemma Inv_step (arr : list req) (st : state) e : Inv arr st -> Inv (arr ++ arrivals [e]) (step st e).
  Proof.
    intro I. pose proof (inv_order _ _ I) as Ho. pose proof (inv_cap _ _ I) as Hc.
    pose proof (inv_wk _ _ I) as Hw. pose proof (inv_blocked _ _ I) as Hb. pose proof (inv_started _ _ I) as Hs.
    pose proof (inv_batches _ _ I) as Hf.
    pose proof cap_pos as Hcp. destruct consts_ok as [Hth1 Hth2].
    destruct e as [r t|t|t|t]; cbn [arrivals Server.step].
    - (* Arrive: put on the queue or block *)
      destruct (qlen (queue st) <? cap) eqn:E.
      + apply Z.ltb_lt in E.
        assert (Hbn : blocked st = []) by (eapply blocked_nil_of_short; eassumption).
        constructor; cbn [queue blocked wk started answers completed].
        * rewrite <- Ho. unfold pending, batch_of; cbn [queue blocked wk]. rewrite Hbn. rewrite !app_nil_r.
          rewrite <- !app_assoc. reflexivity.
        * rewrite qlen_app. unfold qlen at 2. cbn [length]. lia.
        * exact Hw.
        * rewrite Hbn. intro H; congruence.
        * exact Hs.
        * exact Hf.
      + apply Z.ltb_ge in E.
        constructor; cbn [queue blocked wk started answers completed].
        * rewrite <- Ho. unfold pending, batch_of; cbn [queue blocked wk]. rewrite <- !app_assoc. reflexivity.
        * exact Hc.
        * exact Hw.
        * intros _. lia.
        * exact Hs.
        * exact Hf.
    - (* Wake *)
      rewrite app_nil_r.
      destruct (wk st) as [|b d|b] eqn:Ew.
      + destruct (queue st) as [|r q] eqn:Eq; [rewrite resume_nil by exact Eq; exact I|].
        apply Inv_resume; try assumption.
        * intros b. rewrite Ew. discriminate.
        * rewrite Eq. discriminate.
        * rewrite Eq. exact Hc.
        * rewrite Eq. exact Hb.
        * rewrite Ew. exact Logic.I.
        * rewrite Hs. unfold running_batch. rewrite Ew. apply app_nil_r.
      + destruct (queue st) as [|r q] eqn:Eq; [rewrite resume_nil by exact Eq; exact I|].
        unfold wk_ok in Hw; rewrite Ew in Hw. destruct Hw as [Hbne Hlt].
        apply Inv_resume; try assumption.
        * intros b'. rewrite Ew. discriminate.
        * rewrite Eq. discriminate.
        * rewrite Eq. exact Hc.
        * rewrite Eq. exact Hb.
        * rewrite Ew. exact Hlt.
        * rewrite Hs. unfold running_batch. rewrite Ew. apply app_nil_r.
      + rewrite (resume_running st t b Ew). exact I.
    - (* Timer *)
      rewrite app_nil_r.
      destruct (wk st) as [|b d|b] eqn:Ew; try exact I.
      destruct (d <=? t); [|exact I].
      unfold wk_ok in Hw; rewrite Ew in Hw. destruct Hw as (Hbne & Hlt).
      constructor; cbn [queue blocked wk started answers completed].
      + rewrite <- Ho. unfold pending, batch_of; cbn [wk queue blocked]. rewrite ?Ew. reflexivity.
      + exact Hc.
      + unfold wk_ok; cbn [wk]. exact Hbne.
      + exact Hb.
      + unfold running_batch in *; cbn [wk]. rewrite concat_snoc, Hs, ?Ew, app_nil_r. reflexivity.
      + apply Forall_snoc; [exact Hf|split; cbn [snd]; [exact Hbne|lia]].
    - (* ModelDone *)
      rewrite app_nil_r. rewrite pairing_identity. cbn [pair_results].
      destruct (wk st) as [|b d|b] eqn:Ew; try exact I.
      unfold wk_ok in Hw; rewrite Ew in Hw.
      assert (Hs' : concat (map snd (started st)) = map fst (answers st ++ combine b (run_model (map rpos b)))).
      { rewrite Hs. unfold running_batch. rewrite ?Ew, map_app, answered_fst. reflexivity. }
      assert (Ho' : map fst (answers st ++ combine b (run_model (map rpos b))) ++ queue st ++ blocked st = arr).
      { rewrite <- Ho. unfold pending, batch_of. rewrite ?Ew, map_app, answered_fst, <- app_assoc. reflexivity. }
      destruct (queue st) as [|r q] eqn:Eq.
      + rewrite resume_nil by reflexivity.
        constructor; cbn [queue blocked wk started answers completed].
        * unfold pending, batch_of; cbn [wk queue blocked]. exact Ho'.
        * cbn. lia.
        * unfold wk_ok; cbn [wk]. exact Logic.I.
        * exact Hb.
        * unfold running_batch; cbn [wk]. rewrite app_nil_r. exact Hs'.
        * exact Hf.
      + apply Inv_resume; cbn [queue blocked wk started answers completed].
        * intros b'. discriminate.
        * discriminate.
        * exact Hc.
        * exact Hb.
        * exact Logic.I.
        * unfold pending, batch_of; cbn [wk queue blocked]. exact Ho'.
        * exact Hs'.
        * exact Hf.
  Qed.

  Lemma Inv_run_from : forall evs arr st, Inv arr st -> Inv (arr ++ arrivals evs) (run_from st evs).
  Proof.
    induction evs as [|e evs IH]; intros arr st I.
    - cbn. rewrite app_nil_r. exact I.
    - change (run_from st (e :: evs)) with (run_from (step st e) evs).
      replace (arr ++ arrivals (e :: evs)) with ((arr ++ arrivals [e]) ++ arrivals evs).
      + apply IH. apply Inv_step. exact I.
      + rewrite <- app_assoc. f_equal. destruct e; reflexivity.
  Qed.

  Lemma Inv_run evs : Inv (arrivals evs) (run evs).
  Proof. apply (Inv_run_from evs [] (init A)). exact Inv_init. Qed.

  Lemma run_app evs1 evs2 : run (evs1 ++ evs2) = run_from (run evs1) evs2.
  Proof. unfold Server.run, Server.run_from. apply fold_left_app. Qed.

  Lemma arrivals_app evs1 evs2 : arrivals (evs1 ++ evs2) = arrivals evs1 ++ arrivals evs2.
  Proof. induction evs1 as [|e evs1 IH]; [reflexivity|]. destruct e; cbn; rewrite IH; reflexivity. Qed.

  (* ================= the property clauses ================= *)

  (* responses are released in arrival order; what is not answered is, in order,
     in the batch, the queue or among the blocked putters *)
  Theorem service_order evs :
    map fst (answers (run evs)) ++ batch_of (run evs) ++ queue (run evs) ++ blocked (run evs) = arrivals evs.
  Proof. exact (inv_order _ _ (Inv_run evs)). Qed.

  Theorem answered_at_most_once evs :
    NoDup (map rid (arrivals evs)) -> NoDup (map (fun a => rid (fst a)) (answers (run evs))).
  Proof.
    intro H. rewrite <- (service_order evs), map_app in H.
    apply NoDup_app_inv in H. destruct H as [H _].
    rewrite map_map in H. exact H.
  Qed.

  Theorem no_loss evs r : In r (arrivals evs) ->
    In r (map fst (answers (run evs))) \/ In r (batch_of (run evs)) \/ In r (queue (run evs)) \/ In r (blocked (run evs)).
  Proof.
    intro H. rewrite <- (service_order evs) in H.
    apply in_app_or in H. destruct H as [H|H]; [left; exact H|right].
    apply in_app_or in H. destruct H as [H|H]; [left; exact H|right].
    apply in_app_or in H. exact H.
  Qed.

  (* nothing is answered that did not arrive *)
  Theorem no_spurious evs r : In r (map fst (answers (run evs))) -> In r (arrivals evs).
  Proof. intro H. rewrite <- (service_order evs). apply in_or_app. left. exact H. Qed.

  Theorem quiescent_all_answered evs :
    wk (run evs) = Idle -> queue (run evs) = [] -> map fst (answers (run evs)) = arrivals evs.
  Proof.
    intros Hw Hq. pose proof (service_order evs) as Ho. pose proof cap_pos as Hcp.
    assert (Hb : blocked (run evs) = []).
    { eapply blocked_nil_of_short; [apply Inv_run|]. rewrite Hq. cbn. lia. }
    unfold batch_of in Ho. rewrite Hw, Hq, Hb in Ho. cbn [app] in Ho. rewrite app_nil_r in Ho. exact Ho.
  Qed.

  (* the model calls, concatenated in call order, are a prefix of the arrival order *)
  Theorem batch_order_fifo evs :
    concat (map snd (started (run evs))) ++
      (match wk (run evs) with Gathering b _ => b | _ => [] end) ++ queue (run evs) ++ blocked (run evs) = arrivals evs.
  Proof.
    rewrite (inv_started _ _ (Inv_run evs)). rewrite <- (service_order evs).
    unfold running_batch, batch_of. destruct (wk (run evs)); rewrite <- ?app_assoc; cbn [app]; rewrite ?app_nil_r; reflexivity.
  Qed.

  (* every model call holds at least one and at most threshold - 1 + cap requests: at most threshold - 1
     are gathered one wake-up at a time, then a whole queue (at most cap) is drained without suspending *)
  Theorem batch_size_bound evs t b : In (t, b) (started (run evs)) -> b <> [] /\ qlen b <= threshold - 1 + cap.
  Proof.
    intro H. pose proof (inv_batches _ _ (Inv_run evs)) as Hf.
    rewrite Forall_forall in Hf. exact (Hf _ H).
  Qed.

  (* ---- the response a request receives is the network's value on its own position *)
  Hypothesis frow_padding : forall p k,
    frow (p ++ repeat 0 k) (repeat false (length p) ++ repeat true k) = f_local p.

  Lemma run_model_own : forall ps, run_model ps = map f_local ps.
  Proof.
    intro ps. unfold Server.run_model. apply map_ext_in. intros p Hin.
    unfold pad_row, mask_row. apply frow_padding.
  Qed.

  Lemma combine_own (b : list req) r v : In (r, v) (combine b (run_model (map rpos b))) -> v = f_local (rpos r).
  Proof.
    rewrite run_model_own, map_map. induction b as [|x b IH]; cbn; [intros []|].
    intros [H|H]; [inversion H; reflexivity|apply IH; exact H].
  Qed.

  Theorem answer_is_own evs r v : In (r, v) (answers (run evs)) -> v = f_local (rpos r).
  Proof.
    unfold Server.run.
    assert (G : forall evs st, (forall r v, In (r, v) (answers st) -> v = f_local (rpos r)) ->
                forall r v, In (r, v) (answers (run_from st evs)) -> v = f_local (rpos r)).
    { clear evs r v. induction evs as [|e evs IH]; intros st Hst; [exact Hst|].
      change (run_from st (e :: evs)) with (run_from (step st e) evs). apply IH.
      intros r v Hin. destruct (step_log st e) as [[Ha _]|(b & t0 & _ & _ & Ha & _)]; rewrite Ha in Hin.
      - apply (Hst r v Hin).
      - apply in_app_or in Hin. destruct Hin as [Hin|Hin]; [apply (Hst r v Hin)|apply (combine_own b r v Hin)]. }
    apply (G evs (init A)). intros ? ? [].
  Qed.

  (* ---- progress: every completed model call answers at least one request, in arrival order *)
  Lemma progress_count : forall evs arr st, Inv arr st ->
    (completed st <= completed (run_from st evs))%nat /\
    (length (answers st) + (completed (run_from st evs) - completed st) <= length (answers (run_from st evs)))%nat.
  Proof.
    induction evs as [|e evs IH]; intros arr st I.
    - cbn. lia.
    - change (run_from st (e :: evs)) with (run_from (step st e) evs).
      destruct (IH _ _ (Inv_step _ _ e I)) as [IH1 IH2].
      destruct (step_log st e) as [[Ha Hc]|(b & t & _ & Ew & Ha & Hc)].
      + rewrite Ha, Hc in *. lia.
      + pose proof (inv_wk _ _ I) as Hk. unfold wk_ok in Hk. rewrite Ew in Hk.
        rewrite Ha, Hc, app_length, combine_length, run_model_length, map_length, Nat.min_id in *.
        assert (length b <> 0)%nat by (destruct b; [congruence|cbn; lia]). lia.
  Qed.

  (* a request with k requests ahead of it (batch, then queue, then blocked putters)
     has been answered - as answer number |answers| + k, i.e. in its turn - once the
     model has completed k+1 further calls, whatever else happens in between *)
  Theorem fifo_progress evs1 evs2 k r :
    nth_error (pending (run evs1)) k = Some r ->
    (completed (run evs1) + k + 1 <= completed (run (evs1 ++ evs2)))%nat ->
    nth_error (map fst (answers (run (evs1 ++ evs2)))) (length (answers (run evs1)) + k) = Some r.
  Proof.
    intros Hk Hc.
    pose proof (inv_order _ _ (Inv_run evs1)) as O1.
    pose proof (inv_order _ _ (Inv_run (evs1 ++ evs2))) as O2.
    destruct (progress_count evs2 _ _ (Inv_run evs1)) as [_ Hp]. rewrite <- run_app in Hp.
    set (n1 := length (answers (run evs1))) in *.
    assert (H1 : nth_error (arrivals evs1) (n1 + k) = Some r).
    { rewrite <- O1. rewrite nth_error_app2 by (rewrite map_length; fold n1; lia).
      rewrite map_length. fold n1. replace (n1 + k - n1)%nat with k by lia. exact Hk. }
    assert (H2 : nth_error (arrivals (evs1 ++ evs2)) (n1 + k) = Some r).
    { rewrite arrivals_app. rewrite nth_error_app1; [exact H1|]. apply nth_error_Some. rewrite H1. discriminate. }
    rewrite <- O2 in H2. rewrite nth_error_app1 in H2; [exact H2|]. rewrite map_length. lia.
  Qed.

  Corollary no_starvation evs1 evs2 k r :
    nth_error (pending (run evs1)) k = Some r ->
    (completed (run evs1) + k + 1 <= completed (run (evs1 ++ evs2)))%nat ->
    In r (map fst (answers (run (evs1 ++ evs2)))).
  Proof. intros H1 H2. eapply nth_error_In. eapply fifo_progress; eassumption. Qed.

  (* `completed` counts the ModelDone events that found the model running *)
  Definition n_model_done (evs : list event) : nat :=
    length (filter (fun e => match e with ModelDone _ => true | _ => false end) evs).
  Lemma completed_le_model_done : forall evs st, (completed (run_from st evs) <= completed st + n_model_done evs)%nat.
  Proof.
    induction evs as [|e evs IH]; intro st; [cbn; lia|].
    change (run_from st (e :: evs)) with (run_from (step st e) evs).
    specialize (IH (step st e)).
    destruct (step_log st e) as [[_ Hc]|(b & t & -> & _ & _ & Hc)]; rewrite Hc in IH.
    - unfold n_model_done in *. cbn [filter]. destruct e; cbn [length]; lia.
    - unfold n_model_done in *. cbn [filter length]. lia.
  Qed.
End Proofs.

(* ================= the byte codec ================= *)
Ltac Zify.zify_post_hook ::= Z.to_euclidean_division_equations.

Lemma word_roundtrip w : is_word w ->
  w mod 256 + 256 * ((w / 256) mod 256) + 65536 * ((w / 65536) mod 256) + 16777216 * ((w / 16777216) mod 256) = w.
Proof. unfold is_word. intro H. lia. Qed.

Theorem bytes_roundtrip ws : Forall is_word ws -> decode_bytes (encode_words ws) = Some ws.
Proof.
  induction 1 as [|w ws Hw _ IH]; [reflexivity|].
  unfold encode_words in *. cbn [flat_map word_bytes app decode_bytes]. rewrite IH.
  rewrite (word_roundtrip w Hw). reflexivity.
Qed.

Theorem encode_words_shape ws : Forall is_word ws ->
  length (encode_words ws) = (4 * length ws)%nat /\ Forall (fun b => 0 <= b < 256) (encode_words ws).
Proof.
  induction 1 as [|w ws Hw _ [IH1 IH2]]; [split; [reflexivity|constructor]|].
  unfold encode_words in *. cbn [flat_map word_bytes app length]. split; [lia|].
  repeat (constructor; [lia|]). exact IH2.
Qed.

(* ================= the reference row model satisfies the padding hypothesis ================= *)
Lemma ref_hash_padding : forall p k,
  ref_hash (p ++ repeat 0 k) (repeat false (length p) ++ repeat true k) = ref_hash p (repeat false (length p)).
Proof.
  unfold ref_hash. intros p k. generalize 7 as h.
  induction p as [|x p IH]; intro h.
  - cbn [app length repeat combine fold_left]. revert h. induction k as [|k IHk]; intro h; [reflexivity|].
    cbn [repeat combine fold_left snd]. apply IHk.
  - cbn [app length repeat combine fold_left]. apply IH.
Qed.

Lemma ref_frow_padding : forall p k,
  ref_frow (p ++ repeat 0 k) (repeat false (length p) ++ repeat true k) = f_local _ ref_frow p.
Proof. intros p k. unfold f_local, ref_frow. rewrite ref_hash_padding. reflexivity. Qed.

(* ================= examples: the hypotheses of the implication theorems are satisfiable ================= *)
Definition ex_req (i : Z) (p : list Z) := mkReq i p.
Definition AW (i : Z) (p : list Z) (t : Z) : list event := [Arrive (ex_req i p) t; Wake t].
Definition ex_evs1 : list event :=
  AW 0 [1] 100 ++ AW 1 [2;5] 200 ++ AW 2 [3;5;6] 300 ++ AW 3 [4] 400 ++ AW 4 [5;5] 500 ++ AW 5 [6;5;6] 600 ++
  AW 6 [7] 700 ++ AW 7 [8;5] 800 ++ [Arrive (ex_req 8 [9;5;6]) 900; Arrive (ex_req 9 [10]) 1000].
Definition ex_evs2 : list event :=
  [ModelDone 2850; Timer 3850; ModelDone 3850] ++ AW 12 [9] 5000 ++ AW 13 [9;9] 5900 ++ [Timer 6900;
   Arrive (ex_req 14 [3]) 7000; ModelDone 7250; Timer 8250; ModelDone 10300].

(* answer_is_own: the padding hypothesis holds for a concrete row model whose value depends on the tokens *)
Example ex_answer_is_own : forall evs r v,
  In (r, v) (answers (run _ ref_frow evs)) -> v = f_local _ ref_frow (rpos r).
Proof. exact (answer_is_own _ ref_frow ref_frow_padding). Qed.
Example ex_answers_differ :
  f_local _ ref_frow [1] <> f_local _ ref_frow [2;5] /\ length (answers (run _ ref_frow (ex_evs1 ++ ex_evs2))) = 13%nat /\
  timely _ ref_frow [2050; 0; 350; 2050] (ex_evs1 ++ ex_evs2) = true.
Proof. split; [vm_compute; intro H; discriminate H|split; vm_compute; reflexivity]. Qed.

(* answered_at_most_once: distinct request ids *)
Example ex_nodup_ids : NoDup (map rid (arrivals (ex_evs1 ++ ex_evs2))).
Proof. vm_compute. repeat (constructor; [cbn; intuition discriminate|]). constructor. Qed.

(* fifo_progress: request 9 has 9 requests ahead of it (8 in the running batch, 1 in the queue) ... *)
Example ex_progress_hyp :
  nth_error (pending (run _ ref_frow ex_evs1)) 1 = Some (ex_req 1 [2;5]) /\
  nth_error (pending (run _ ref_frow ex_evs1)) 9 = Some (ex_req 9 [10]) /\
  (completed (run _ ref_frow ex_evs1) + 1 + 1 <= completed (run _ ref_frow (ex_evs1 ++ ex_evs2)))%nat.
Proof. vm_compute. repeat split; lia. Qed.

(* quiescent_all_answered: the example schedule ends with an idle worker *)
Example ex_quiescent : wk (run _ ref_frow (ex_evs1 ++ ex_evs2)) = Idle /\ queue (run _ ref_frow (ex_evs1 ++ ex_evs2)) = [].
Proof. vm_compute. split; reflexivity. Qed.

(* batch_size_bound is tight: the worker gathers threshold - 1 = 7 requests one wake-up at a time, then
   cap + 1 = 81 requests arrive inside the gather window before it runs again (80 queued, 1 blocked in put);
   it drains the whole queue without suspending: a model call of 87 = threshold - 1 + cap requests *)
Definition ex_trickle : list event := flat_map (fun i => AW (Z.of_nat i) [Z.of_nat i] (100 * Z.of_nat i)) (seq 1 7).
Definition ex_window : list event := map (fun i => Arrive (ex_req (Z.of_nat i) [Z.of_nat i]) 1000) (seq 8 81).
Example ex_batch_87 :
  map (fun tb => (fst tb, qlen (snd tb))) (started (run _ ref_frow (ex_trickle ++ ex_window ++ [Wake 1000]))) = [(1000, 87)] /\
  qlen (queue (run _ ref_frow (ex_trickle ++ ex_window ++ [Wake 1000]))) = 1 /\
  threshold - 1 + cap = 87.
Proof. vm_compute. repeat split; reflexivity. Qed.

(* bytes_roundtrip: float32 bit patterns are words (0.0, 1.0, a NaN with all bits set) *)
Example ex_words : Forall is_word [0; 1065353216; 4294967295] /\
  encode_words [1065353216] = [0; 0; 128; 63].
Proof. split; [repeat constructor; unfold is_word; lia|vm_compute; reflexivity]. Qed.
