(* C12: encode_games (row order, dense policy target) and dedup (keys, means, identity). *)
From Coq Require Import ZArith QArith List Bool Lia Lqa.
From TV Require gen.Consts.
From TV Require Import model.Tak model.SelfPlay model.Batch spec.SelfPlaySpec spec.BatchSpec.
From TV Require Import proofs.ListUtil proofs.MoveId.
Import ListNotations.
Open Scope Z_scope.

(* ====================================================================== *)
(* generic list facts                                                      *)
(* ====================================================================== *)
Lemma key_eqb_spec a b : key_eqb a b = true <-> a = b.
Proof. unfold key_eqb. apply list_eqb_spec. apply Z.eqb_eq. Qed.

Lemma key_eqb_refl a : key_eqb a a = true.
Proof. apply key_eqb_spec. reflexivity. Qed.

Lemma key_eqb_sym a b : key_eqb a b = key_eqb b a.
Proof.
  destruct (key_eqb a b) eqn:E1, (key_eqb b a) eqn:E2; try reflexivity.
  - apply key_eqb_spec in E1. subst. rewrite key_eqb_refl in E2. discriminate.
  - apply key_eqb_spec in E2. subst. rewrite key_eqb_refl in E1. discriminate.
Qed.

Lemma key_eqb_false a b : key_eqb a b = false <-> a <> b.
Proof.
  split.
  - intros E H. subst. rewrite key_eqb_refl in E. discriminate.
  - intros H. destruct (key_eqb a b) eqn:E; [|reflexivity]. apply key_eqb_spec in E. contradiction.
Qed.

Lemma filter_filter_and {A} (f g : A -> bool) l :
  filter f (filter g l) = filter (fun x => f x && g x) l.
Proof.
  induction l as [|a l IH]; simpl; [reflexivity|].
  destruct (g a); simpl; [destruct (f a); simpl; rewrite IH; reflexivity|].
  rewrite andb_false_r. exact IH.
Qed.

Lemma filter_head {A} (f : A -> bool) : forall l r rest, filter f l = r :: rest ->
  exists i, nth_error l i = Some r /\ f r = true /\
    forall j x, (j < i)%nat -> nth_error l j = Some x -> f x = false.
Proof.
  induction l as [|a l IH]; intros r rest H; simpl in H; [discriminate|].
  destruct (f a) eqn:E.
  - injection H as -> _. exists 0%nat. split; [reflexivity|]. split; [assumption|]. intros j x Hj. lia.
  - destruct (IH r rest H) as (i & Hi & Hf & Hb). exists (S i). split; [exact Hi|]. split; [exact Hf|].
    intros [|j] x Hj Hx; simpl in Hx; [injection Hx as <-; assumption|]. apply (Hb j x); [lia|assumption].
Qed.

Lemma Forall2_nth {A B} (R : A -> B -> Prop) : forall l1 l2, length l1 = length l2 ->
  (forall i a b, nth_error l1 i = Some a -> nth_error l2 i = Some b -> R a b) -> Forall2 R l1 l2.
Proof.
  induction l1 as [|a l1 IH]; intros [|b l2] Hl H; simpl in Hl; try discriminate; constructor.
  - apply (H 0%nat); reflexivity.
  - apply IH; [lia|]. intros i x y Hx Hy. apply (H (S i)); assumption.
Qed.

(* ====================================================================== *)
(* dedup                                                                   *)
(* ====================================================================== *)
Definition find_slot (k : list Z) (slots : list slot) : option slot :=
  find (fun s => key_eqb (s_key s) k) slots.
Definition mem (k : list Z) (l : list (list Z)) : bool := existsb (key_eqb k) l.

Lemma find_add_row k r : forall slots,
  find_slot k (add_row r slots) =
    if key_eqb (key_of r) k
    then Some (slot_add (match find_slot k slots with Some s => s | None => new_slot r end) r)
    else find_slot k slots.
Proof.
  induction slots as [|s t IH]; simpl.
  - destruct (key_eqb (key_of r) k); reflexivity.
  - destruct (key_eqb (s_key s) (key_of r)) eqn:Esr; simpl.
    + apply key_eqb_spec in Esr. rewrite Esr. destruct (key_eqb (key_of r) k); reflexivity.
    + destruct (key_eqb (s_key s) k) eqn:Esk.
      * apply key_eqb_spec in Esk. subst k. rewrite key_eqb_sym, Esr. reflexivity.
      * exact IH.
Qed.

Lemma find_fold k : forall b acc,
  find_slot k (fold_left (fun a r => add_row r a) b acc) =
    match occurrences k b with
    | [] => find_slot k acc
    | r :: occ => Some (fold_left slot_add (r :: occ)
                          (match find_slot k acc with Some s => s | None => new_slot r end))
    end.
Proof.
  induction b as [|r b IH]; intros acc; simpl; [reflexivity|].
  rewrite IH, find_add_row. unfold occurrences. simpl.
  destruct (key_eqb (key_of r) k) eqn:E; [|reflexivity].
  fold (occurrences k b). destruct (occurrences k b); reflexivity.
Qed.

(* order of the slots *)
Fixpoint extend (seen : list (list Z)) (ks : list (list Z)) : list (list Z) :=
  match ks with
  | [] => seen
  | k :: t => extend (if mem k seen then seen else seen ++ [k]) t
  end.

Lemma keys_add_row r : forall slots,
  map s_key (add_row r slots) =
    if mem (key_of r) (map s_key slots) then map s_key slots else map s_key slots ++ [key_of r].
Proof.
  induction slots as [|s t IH]; simpl; [reflexivity|].
  rewrite (key_eqb_sym (key_of r)). destruct (key_eqb (s_key s) (key_of r)); simpl; [reflexivity|].
  rewrite IH. destruct (mem (key_of r) (map s_key t)); reflexivity.
Qed.

Lemma keys_fold : forall b acc,
  map s_key (fold_left (fun a r => add_row r a) b acc) = extend (map s_key acc) (map key_of b).
Proof.
  induction b as [|r b IH]; intros acc; simpl; [reflexivity|].
  rewrite IH, keys_add_row. reflexivity.
Qed.

Lemma mem_app k a b : mem k (a ++ b) = mem k a || mem k b.
Proof. unfold mem. apply existsb_app. Qed.

Lemma extend_spec : forall ks seen,
  extend seen ks = seen ++ filter (fun k => negb (mem k seen)) (first_occ ks).
Proof.
  induction ks as [|k t IH]; intros seen; simpl; [rewrite app_nil_r; reflexivity|].
  rewrite IH. destruct (mem k seen) eqn:Em; simpl.
  - f_equal. rewrite filter_filter_and. apply filter_ext. intros x.
    destruct (mem x seen) eqn:Ex; simpl; [reflexivity|].
    destruct (key_eqb x k) eqn:Exk; [|reflexivity].
    apply key_eqb_spec in Exk. subst. congruence.
  - rewrite <- app_assoc. simpl. f_equal. f_equal. rewrite filter_filter_and. apply filter_ext. intros x.
    rewrite mem_app. simpl. rewrite orb_false_r, negb_orb. reflexivity.
Qed.

Lemma keys_dedup_slots b : map s_key (dedup_slots b) = first_occ (map key_of b).
Proof.
  unfold dedup_slots. rewrite keys_fold, extend_spec. simpl.
  induction (first_occ (map key_of b)) as [|x l IH]; simpl; [reflexivity|]. rewrite IH. reflexivity.
Qed.

Lemma first_occ_In ks k : In k (first_occ ks) <-> In k ks.
Proof.
  induction ks as [|h t IH]; simpl; [tauto|]. rewrite filter_In, IH. split.
  - intros [H|[H _]]; [left|right]; assumption.
  - intros [H|H]; [left; assumption|]. destruct (key_eqb k h) eqn:E.
    + apply key_eqb_spec in E. left. congruence.
    + right. split; [assumption|reflexivity].
Qed.

Lemma first_occ_NoDup ks : NoDup (first_occ ks).
Proof.
  induction ks as [|h t IH]; simpl; constructor.
  - rewrite filter_In. intros [_ H]. rewrite key_eqb_refl in H. discriminate.
  - apply NoDup_filter. assumption.
Qed.

Lemma first_occ_id ks : NoDup ks -> first_occ ks = ks.
Proof.
  induction ks as [|h t IH]; intros Hnd; simpl; [reflexivity|].
  inversion Hnd as [|? ? Hna Hnd']; subst. rewrite (IH Hnd'). f_equal.
  clear IH Hnd Hnd'. induction t as [|x t IH]; simpl; [reflexivity|].
  destruct (key_eqb x h) eqn:E; simpl.
  - apply key_eqb_spec in E. subst. exfalso. apply Hna. left; reflexivity.
  - f_equal. apply IH. intro H. apply Hna. right; assumption.
Qed.

Lemma find_slot_In : forall slots s, NoDup (map s_key slots) -> In s slots ->
  find_slot (s_key s) slots = Some s.
Proof.
  induction slots as [|h t IH]; intros s Hnd Hin; [destruct Hin|]. simpl in *.
  inversion Hnd as [|? ? Hna Hnd']; subst. destruct Hin as [->|Hin].
  - rewrite key_eqb_refl. reflexivity.
  - destruct (key_eqb (s_key h) (s_key s)) eqn:E.
    + apply key_eqb_spec in E. exfalso. apply Hna. rewrite E. apply in_map. assumption.
    + apply IH; assumption.
Qed.

(* every slot is the fold of slot_add over the occurrences of its key, started at the first one *)
Lemma slot_char b s : In s (dedup_slots b) ->
  exists r occ, occurrences (s_key s) b = r :: occ /\ s = fold_left slot_add (r :: occ) (new_slot r).
Proof.
  intros Hin. assert (Hnd : NoDup (map s_key (dedup_slots b))) by (rewrite keys_dedup_slots; apply first_occ_NoDup).
  pose proof (find_slot_In _ _ Hnd Hin) as Hf. unfold dedup_slots in Hf. rewrite find_fold in Hf. simpl in Hf.
  destruct (occurrences (s_key s) b) as [|r occ]; [discriminate|]. exists r, occ. split; [reflexivity|]. injection Hf as <-. reflexivity.
Qed.

Lemma fold_slot_add_frame : forall l s0,
  s_key (fold_left slot_add l s0) = s_key s0 /\ s_tokens (fold_left slot_add l s0) = s_tokens s0 /\
  s_mask (fold_left slot_add l s0) = s_mask s0 /\
  s_count (fold_left slot_add l s0) = s_count s0 + Z.of_nat (length l).
Proof.
  induction l as [|r l IH]; intros s0; simpl; [repeat split; lia|].
  destruct (IH (slot_add s0 r)) as (H1 & H2 & H3 & H4). rewrite H1, H2, H3, H4. simpl. repeat split; lia.
Qed.

Lemma fold_slot_add_value : forall l s0,
  (s_value (fold_left slot_add l s0) == s_value s0 + qsum (map r_value l))%Q /\
  (s_label (fold_left slot_add l s0) == s_label s0 + qsum (map r_label l))%Q.
Proof.
  induction l as [|r l IH]; intros s0; simpl; [split; lra|].
  destruct (IH (slot_add s0 r)) as (H1 & H2). simpl in H1, H2. split; lra.
Qed.

Lemma vadd_length : forall a b, length a = length b -> length (vadd a b) = length a.
Proof. induction a as [|x a IH]; intros [|y b] H; simpl in *; try lia. rewrite IH; lia. Qed.

Lemma vadd_nth : forall a b j, length a = length b ->
  (nth j (vadd a b) 0 == nth j a 0 + nth j b 0)%Q.
Proof.
  induction a as [|x a IH]; intros [|y b] j H; simpl in *; try lia.
  - destruct j; lra.
  - destruct j as [|j]; [lra|]. apply IH. lia.
Qed.

Lemma fold_slot_add_policy w : forall l s0, length (s_policy s0) = w ->
  Forall (fun r => length (r_policy r) = w) l ->
  length (s_policy (fold_left slot_add l s0)) = w /\
  forall j, (nth j (s_policy (fold_left slot_add l s0)) 0 ==
             nth j (s_policy s0) 0 + qsum (map (fun r => nth j (r_policy r) 0) l))%Q.
Proof.
  induction l as [|r l IH]; intros s0 Hw Hall; simpl.
  - split; [assumption|]. intros j. lra.
  - pose proof (Forall_inv Hall) as Hr. pose proof (Forall_inv_tail Hall) as Hall'. simpl in Hr.
    assert (Hlen : length (s_policy s0) = length (r_policy r)) by congruence.
    destruct (IH (slot_add s0 r)) as (H1 & H2); [simpl; rewrite vadd_length; [exact Hw|exact Hlen]|exact Hall'|].
    split; [assumption|]. intros j. rewrite H2. simpl. rewrite (vadd_nth _ _ j Hlen). lra.
Qed.

Lemma nth_repeat0 n j : (nth j (repeat 0%Q n) 0 == 0)%Q.
Proof. revert j. induction n as [|n IH]; intros [|j]; simpl; try reflexivity. apply IH. Qed.

Lemma in_dedup b o : In o (dedup b) -> exists s, In s (dedup_slots b) /\ o = finish s.
Proof. unfold dedup. intros H. apply in_map_iff in H. destruct H as (s & <- & Hs). exists s. split; auto. Qed.

Lemma key_of_finish_slot b s : In s (dedup_slots b) -> key_of (finish s) = s_key s.
Proof.
  intros Hin. destruct (slot_char b s Hin) as (r & occ & Hocc & Heq).
  destruct (fold_slot_add_frame (r :: occ) (new_slot r)) as (Hk & Ht & Hm & _). rewrite <- Heq in Hk, Ht, Hm.
  unfold key_of, finish. simpl. rewrite Ht, Hm, Hk. reflexivity.
Qed.

(* ---------- dedup_keys ---------- *)
Lemma dedup_keys b :
  map key_of (dedup b) = first_occ (map key_of b) /\
  NoDup (map key_of (dedup b)) /\
  (forall k, In k (map key_of (dedup b)) <-> In k (map key_of b)).
Proof.
  assert (H : map key_of (dedup b) = first_occ (map key_of b)).
  { rewrite <- keys_dedup_slots. unfold dedup. rewrite map_map. apply map_ext_in.
    intros s Hs. apply (key_of_finish_slot b s Hs). }
  rewrite H. split; [reflexivity|]. split; [apply first_occ_NoDup|]. intros k. apply first_occ_In.
Qed.

(* first_occ lists the keys by increasing index of first occurrence *)
Lemma first_idx_Some ks k : In k ks -> exists a, first_idx ks k = Some a.
Proof.
  induction ks as [|h t IH]; intros Hin; [destruct Hin|]. simpl.
  destruct (key_eqb h k) eqn:E; [exists 0%nat; reflexivity|].
  destruct Hin as [->|Hin]; [rewrite key_eqb_refl in E; discriminate|].
  destruct (IH Hin) as (a & ->). exists (S a). reflexivity.
Qed.

Lemma filter_nth_order {A} (f : A -> bool) : forall l i j x y, (i < j)%nat ->
  nth_error (filter f l) i = Some x -> nth_error (filter f l) j = Some y ->
  exists i' j', (i' < j')%nat /\ nth_error l i' = Some x /\ nth_error l j' = Some y.
Proof.
  induction l as [|a l IH]; intros i j x y Hij Hi Hj; simpl in *; [destruct i; discriminate|].
  destruct (f a).
  - destruct i as [|i]; simpl in Hi.
    + injection Hi as <-. destruct j as [|j]; [lia|]. simpl in Hj.
      apply nth_error_In in Hj. apply filter_In in Hj. destruct Hj as (Hj & _).
      apply In_nth_error in Hj. destruct Hj as (j' & Hj'). exists 0%nat, (S j'). repeat split; [lia|assumption].
    + destruct j as [|j]; [lia|]. simpl in Hj.
      destruct (IH i j x y) as (i' & j' & Hlt & Hi' & Hj'); [lia|assumption|assumption|].
      exists (S i'), (S j'). repeat split; [lia|assumption|assumption].
  - destruct (IH i j x y Hij Hi Hj) as (i' & j' & Hlt & Hi' & Hj').
    exists (S i'), (S j'). repeat split; [lia|assumption|assumption].
Qed.

Lemma first_occ_sorted : forall ks i j ki kj, (i < j)%nat ->
  nth_error (first_occ ks) i = Some ki -> nth_error (first_occ ks) j = Some kj ->
  exists a c, first_idx ks ki = Some a /\ first_idx ks kj = Some c /\ (a < c)%nat.
Proof.
  induction ks as [|h t IH]; intros i j ki kj Hij Hi Hj; simpl in *; [destruct i; discriminate|].
  destruct j as [|j]; [lia|]. simpl in Hj.
  assert (Hkj : In kj t /\ key_eqb kj h = false).
  { apply nth_error_In in Hj. apply filter_In in Hj. destruct Hj as (Hin & Hne).
    split; [apply first_occ_In; assumption|]. destruct (key_eqb kj h); [discriminate|reflexivity]. }
  destruct Hkj as (Hkjt & Hkjh). rewrite (key_eqb_sym h kj), Hkjh.
  destruct i as [|i]; simpl in Hi.
  - injection Hi as <-. rewrite key_eqb_refl. destruct (first_idx_Some t kj Hkjt) as (c & ->).
    exists 0%nat, (S c). repeat split; lia.
  - assert (Hki : key_eqb ki h = false).
    { apply nth_error_In in Hi. apply filter_In in Hi. destruct Hi as (_ & Hne).
      destruct (key_eqb ki h); [discriminate|reflexivity]. }
    rewrite (key_eqb_sym h ki), Hki.
    destruct (filter_nth_order _ _ i j ki kj ltac:(lia) Hi Hj) as (i' & j' & Hlt & Hi' & Hj').
    destruct (IH i' j' ki kj Hlt Hi' Hj') as (a & c & -> & -> & Hac).
    exists (S a), (S c). repeat split; lia.
Qed.

Lemma dedup_keys_order b i j oi oj : (i < j)%nat ->
  nth_error (dedup b) i = Some oi -> nth_error (dedup b) j = Some oj ->
  exists a c, first_idx (map key_of b) (key_of oi) = Some a /\
              first_idx (map key_of b) (key_of oj) = Some c /\ (a < c)%nat.
Proof.
  intros Hij Hi Hj. destruct (dedup_keys b) as (Hk & _ & _).
  apply (first_occ_sorted (map key_of b) i j); [assumption| |]; rewrite <- Hk; apply map_nth_error; assumption.
Qed.

(* ---------- dedup_mask_positions ---------- *)
Lemma dedup_mask_positions b k o : nth_error (dedup b) k = Some o ->
  exists i r, first_at b (key_of o) i r /\ r_tokens o = r_tokens r /\ r_mask o = r_mask r.
Proof.
  intros Hk. apply nth_error_In in Hk. destruct (in_dedup b o Hk) as (s & Hs & ->).
  rewrite (key_of_finish_slot b s Hs).
  destruct (slot_char b s Hs) as (r & occ & Hocc & Heq).
  destruct (fold_slot_add_frame (r :: occ) (new_slot r)) as (Hkey & Ht & Hm & _). rewrite <- Heq in *.
  destruct (filter_head _ _ _ _ Hocc) as (i & Hi & Hf & Hb). exists i, r.
  simpl in Hkey, Ht, Hm. split; [|split; [exact Ht|exact Hm]].
  split; [exact Hi|]. split; [apply key_eqb_spec; exact Hf|].
  intros j r' Hj Hr'. apply key_eqb_false. apply (Hb j r' Hj Hr').
Qed.

(* ---------- dedup_mean ---------- *)
Lemma occurrences_key k b r : In r (occurrences k b) -> key_of r = k.
Proof. unfold occurrences. rewrite filter_In. intros (_ & H). apply key_eqb_spec. assumption. Qed.

Lemma inject_Z_pos n : (0 < n)%Z -> ~ (inject_Z n == 0)%Q.
Proof. intros Hn H. unfold Qeq in H. simpl in H. lia. Qed.

Lemma dedup_mean b k o : nth_error (dedup b) k = Some o ->
  let occ := occurrences (key_of o) b in
  occ <> [] /\
  (r_value o == qmean (map r_value occ))%Q /\
  (r_label o == qmean (map r_label occ))%Q /\
  forall w, Forall (fun r => length (r_policy r) = w) occ ->
    length (r_policy o) = w /\
    forall j, (nth j (r_policy o) 0 == qmean (map (fun r => nth j (r_policy r) 0) occ))%Q.
Proof.
  intros Hk. apply nth_error_In in Hk. destruct (in_dedup b o Hk) as (s & Hs & ->).
  rewrite (key_of_finish_slot b s Hs).
  destruct (slot_char b s Hs) as (r & occ & Hocc & Heq). cbv zeta. rewrite Hocc.
  destruct (fold_slot_add_frame (r :: occ) (new_slot r)) as (_ & _ & _ & Hc).
  destruct (fold_slot_add_value (r :: occ) (new_slot r)) as (Hv & Hl).
  rewrite <- Heq in Hc, Hv, Hl. simpl s_count in Hc. simpl s_value in Hv. simpl s_label in Hl.
  rewrite Z.add_0_l in Hc.
  split; [discriminate|]. unfold qmean, finish. rewrite !map_length. simpl r_value. simpl r_label. simpl r_policy.
  rewrite Hc. split; [rewrite Hv; field_simplify_eq; [reflexivity|apply inject_Z_pos; simpl length; lia]|].
  split; [rewrite Hl; field_simplify_eq; [reflexivity|apply inject_Z_pos; simpl length; lia]|].
  intros w Hall.
  destruct (fold_slot_add_policy w (r :: occ) (new_slot r)) as (Hlen & Hnth).
  { simpl. rewrite repeat_length. inversion Hall; assumption. }
  { exact Hall. }
  rewrite <- Heq in Hlen, Hnth. split; [rewrite map_length; exact Hlen|].
  intros j. destruct (Nat.lt_ge_cases j (length (s_policy s))) as [Hj|Hj].
  - rewrite (nth_indep _ 0%Q (0 / inject_Z (Z.of_nat (length (r :: occ))))%Q) by (rewrite map_length; exact Hj).
    rewrite (map_nth (fun x => (x / inject_Z (Z.of_nat (length (r :: occ))))%Q)).
    rewrite Hnth. simpl s_policy. rewrite nth_repeat0, map_length. field_simplify_eq; [reflexivity|apply inject_Z_pos; simpl length; lia].
  - rewrite nth_overflow by (rewrite map_length; exact Hj).
    assert (Hz : (qsum (map (fun r0 => nth j (r_policy r0) 0%Q) (r :: occ)) == 0)%Q).
    { clear - Hall Hj Hlen. rewrite Hlen in Hj. induction Hall as [|x l Hx Hall IH]; simpl; [reflexivity|].
      rewrite IH, nth_overflow by lia. reflexivity. }
    rewrite Hz. unfold Qdiv. lra.
Qed.

(* ---------- dedup_nodup_id ---------- *)
Lemma occurrences_nodup : forall b r, NoDup (map key_of b) -> In r b -> occurrences (key_of r) b = [r].
Proof.
  induction b as [|h t IH]; intros r Hnd Hin; [destruct Hin|]. simpl in Hnd.
  inversion Hnd as [|? ? Hna Hnd']; subst. unfold occurrences. simpl. destruct Hin as [->|Hin].
  - rewrite key_eqb_refl. f_equal.
    clear IH Hnd Hnd'. induction t as [|x t IH]; simpl; [reflexivity|].
    destruct (key_eqb (key_of x) (key_of r)) eqn:E.
    + apply key_eqb_spec in E. exfalso. apply Hna. left. assumption.
    + apply IH. intro H. apply Hna. right. assumption.
  - destruct (key_eqb (key_of h) (key_of r)) eqn:E.
    + apply key_eqb_spec in E. exfalso. apply Hna. rewrite E. apply in_map. assumption.
    + apply (IH r Hnd' Hin).
Qed.

Lemma vadd_zero : forall p, Forall2 Qeq (map (fun x => x / inject_Z 1)%Q (vadd (repeat 0%Q (length p)) p)) p.
Proof.
  induction p as [|x p IH]; simpl; constructor; [|exact IH]. unfold Qdiv. change (/ inject_Z 1)%Q with 1%Q. lra.
Qed.

Lemma dedup_nodup_id b : NoDup (map key_of b) -> Forall2 row_equiv (dedup b) b.
Proof.
  intros Hnd. destruct (dedup_keys b) as (Hk & _ & _). rewrite (first_occ_id _ Hnd) in Hk.
  apply Forall2_nth.
  - rewrite <- (map_length key_of (dedup b)), Hk, map_length. reflexivity.
  - intros i o r Ho Hr.
    assert (Hkey : key_of o = key_of r).
    { pose proof (map_nth_error key_of _ _ Ho) as H1. pose proof (map_nth_error key_of _ _ Hr) as H2.
      rewrite Hk in H1. congruence. }
    apply nth_error_In in Ho. destruct (in_dedup b o Ho) as (s & Hs & ->).
    rewrite (key_of_finish_slot b s Hs) in Hkey.
    destruct (slot_char b s Hs) as (r' & occ & Hocc & ->).
    rewrite Hkey, (occurrences_nodup b r Hnd (nth_error_In _ _ Hr)) in Hocc. injection Hocc as <- <-.
    unfold row_equiv, finish. simpl. repeat split; try reflexivity.
    + apply vadd_zero.
    + unfold Qdiv. change (/ inject_Z 1)%Q with 1%Q. lra.
    + unfold Qdiv. change (/ inject_Z 1)%Q with 1%Q. lra.
Qed.

(* ====================================================================== *)
(* Transcript.logits: the dense policy target                              *)
(* ====================================================================== *)
Lemma upd_length {A} : forall (l : list A) n v, length (upd l n v) = length l.
Proof. induction l as [|h t IH]; intros [|n] v; simpl; try reflexivity. rewrite IH. reflexivity. Qed.

Lemma nth_error_upd_eq {A} : forall (l : list A) n v, (n < length l)%nat -> nth_error (upd l n v) n = Some v.
Proof. induction l as [|h t IH]; intros [|n] v H; simpl in *; try lia; [reflexivity|]. apply IH. lia. Qed.

Lemma nth_error_upd_neq {A} : forall (l : list A) n m v, n <> m -> nth_error (upd l n v) m = nth_error l m.
Proof.
  induction l as [|h t IH]; intros [|n] [|m] v H; simpl; try reflexivity; try lia. apply IH. lia.
Qed.

Lemma encode_move_inj n m m' i : encode_move n m = Some i -> encode_move n m' = Some i -> m = m'.
Proof. intros H1 H2. apply encode_decode_move in H1. apply encode_decode_move in H2. congruence. Qed.

Lemma set_at_spec row i v row' : set_at row i v = Some row' ->
  0 <= i < zlen row /\ row' = updz row i v.
Proof.
  unfold set_at. destruct ((0 <=? i) && (i <? zlen row)) eqn:E; [|discriminate].
  intros H. injection H as <-. apply andb_true_iff in E. destruct E as (E1 & E2). split; [lia|reflexivity].
Qed.

Lemma nthz_updz_eq (row : list Q) i v : 0 <= i < zlen row -> nthz (updz row i v) i = Some v.
Proof.
  intros H. unfold nthz, updz, zlen in *. destruct (i <? 0) eqn:E; [lia|]. apply nth_error_upd_eq. lia.
Qed.

Lemma nthz_updz_neq (row : list Q) i j v : 0 <= i -> i <> j -> nthz (updz row i v) j = nthz row j.
Proof.
  intros Hi H. unfold nthz, updz. destruct (j <? 0) eqn:E; [reflexivity|]. apply nth_error_upd_neq. lia.
Qed.

Lemma index_of_inj t m m' i : index_of m t 0 = Some i -> index_of m' t 0 = Some i -> m = m'.
Proof. intros H1 H2. apply index_of_sound in H1. apply index_of_sound in H2. destruct H1, H2. congruence. Qed.

Lemma fill_spec t : forall ms ps row0 row, logits_fill t ms ps row0 = Some row ->
  length row = length row0 /\
  (forall id, (forall m, In m ms -> index_of m t 0 <> Some id) -> nthz row id = nthz row0 id) /\
  (NoDup ms -> forall j m, nth_error ms j = Some m ->
     exists p id, nth_error ps j = Some p /\ index_of m t 0 = Some id /\ 0 <= id < zlen row /\
                  nthz row id = Some p).
Proof.
  induction ms as [|m ms IH]; intros ps row0 row H; simpl in H.
  - injection H as <-. split; [reflexivity|]. split; [reflexivity|]. intros _ [|j] m Hj; discriminate.
  - destruct ps as [|p ps]; [discriminate|]. destruct (index_of m t 0) as [i|] eqn:Ei; [|discriminate].
    destruct (set_at row0 i p) as [row'|] eqn:Es; [|discriminate].
    apply set_at_spec in Es. destruct Es as (Hi & ->).
    destruct (IH ps _ row H) as (Hlen & Hframe & Hhit).
    assert (Hlen' : length row = length row0) by (rewrite Hlen; unfold updz; apply upd_length).
    split; [exact Hlen'|]. split.
    + intros id Hno. rewrite Hframe by (intros m' Hm'; apply Hno; right; assumption).
      apply nthz_updz_neq; [lia|]. intros ->. apply (Hno m); [left; reflexivity|assumption].
    + intros Hnd j m' Hj. inversion Hnd as [|? ? Hna Hnd']; subst. destruct j as [|j]; simpl in Hj.
      * injection Hj as <-. exists p, i. split; [reflexivity|]. split; [assumption|].
        split; [unfold zlen in *; lia|].
        rewrite Hframe; [apply nthz_updz_eq; assumption|].
        intros m' Hm' He. apply Hna. rewrite (index_of_inj t m m' i Ei He). assumption.
      * destruct (Hhit Hnd' j m' Hj) as (p' & id & Hp & He & Hr & Hn). exists p', id. repeat split; assumption || lia.
Qed.

Lemma max_move_id_nonneg : 0 <= Consts.MAX_MOVE_ID.
Proof. vm_compute. discriminate. Qed.

Lemma zero_row_nth id : 0 <= id < Consts.MAX_MOVE_ID -> nthz zero_row id = Some 0%Q.
Proof.
  intros H. unfold nthz, zero_row. destruct (id <? 0) eqn:E; [lia|].
  assert (Hlt : (Z.to_nat id < Z.to_nat Consts.MAX_MOVE_ID)%nat) by lia.
  revert Hlt. generalize (Z.to_nat id) (Z.to_nat Consts.MAX_MOVE_ID). intros a c. revert a.
  induction c as [|c IH]; intros [|a] Hlt; simpl; try lia; [reflexivity|]. apply IH. lia.
Qed.

Lemma dense_target n ms ps row : logits_row n ms ps = Some row -> NoDup ms ->
  zlen row = Consts.MAX_MOVE_ID /\
  (forall j m, nth_error ms j = Some m ->
     exists p id, nth_error ps j = Some p /\ encode_move n m = Some id /\
                  0 <= id < Consts.MAX_MOVE_ID /\ nthz row id = Some p) /\
  (forall id, 0 <= id < Consts.MAX_MOVE_ID -> (forall m, In m ms -> encode_move n m <> Some id) ->
     nthz row id = Some 0%Q).
Proof.
  unfold logits_row, logits_row_t. intros H Hnd.
  destruct (fill_spec (table n) ms ps zero_row row H) as (Hlen & Hframe & Hhit).
  assert (Hz : zlen row = Consts.MAX_MOVE_ID).
  { unfold zlen. rewrite Hlen. unfold zero_row. rewrite repeat_length. pose proof max_move_id_nonneg. lia. }
  split; [exact Hz|]. split.
  - intros j m Hj. destruct (Hhit Hnd j m Hj) as (p & id & Hp & He & Hr & Hn). exists p, id.
    rewrite Hz in Hr. repeat split; assumption || lia.
  - intros id Hid Hno. rewrite (Hframe id Hno). apply zero_row_nth. assumption.
Qed.

(* without NoDup: the value written last wins *)
Lemma dense_target_last_wins n ms1 m ms2 ps row id : logits_row n (ms1 ++ m :: ms2) ps = Some row ->
  encode_move n m = Some id -> (forall m', In m' ms2 -> encode_move n m' <> Some id) ->
  exists p, nth_error ps (length ms1) = Some p /\ nthz row id = Some p.
Proof.
  unfold logits_row, logits_row_t, encode_move. generalize zero_row. generalize (table n). intros t. revert ps.
  induction ms1 as [|a ms1 IH]; intros ps row0 H He Hno; simpl in H.
  - destruct ps as [|p ps]; [discriminate|]. rewrite He in H.
    destruct (set_at row0 id p) as [row'|] eqn:Es; [|discriminate].
    apply set_at_spec in Es. destruct Es as (Hi & ->).
    destruct (fill_spec t ms2 ps _ row H) as (_ & Hframe & _). exists p. split; [reflexivity|].
    rewrite (Hframe id Hno). apply nthz_updz_eq. assumption.
  - destruct ps as [|p ps]; [discriminate|]. destruct (index_of a t 0) as [i|]; [|discriminate].
    destruct (set_at row0 i p) as [row'|]; [|discriminate]. simpl. apply (IH ps row' H He Hno).
Qed.

(* ====================================================================== *)
(* encode_games: rows in game, then ply order                              *)
(* ====================================================================== *)
Lemma concat_nth {A} : forall (ls : list (list A)) g l i x, nth_error ls g = Some l -> nth_error l i = Some x ->
  nth_error (concat ls) (length (concat (firstn g ls)) + i) = Some x.
Proof.
  induction ls as [|l0 ls IH]; intros g l i x Hg Hi; [destruct g; discriminate|].
  destruct g as [|g]; simpl in *.
  - injection Hg as ->. rewrite nth_error_app1; [assumption|]. apply nth_error_Some. congruence.
  - rewrite app_length, nth_error_app2 by lia.
    replace (length l0 + length (concat (firstn g ls)) + i - length l0)%nat
      with (length (concat (firstn g ls)) + i)%nat by lia.
    apply (IH g l i x Hg Hi).
Qed.

Lemma concat_firstn_length {A B} (xs : list (list A)) (ys : list (list B)) :
  Forall2 (fun x y => length x = length y) xs ys ->
  forall g, length (concat (firstn g xs)) = length (concat (firstn g ys)).
Proof.
  induction 1 as [|x y xs ys Hxy H IH]; intros [|g]; simpl; try reflexivity.
  rewrite !app_length, Hxy, (IH g). reflexivity.
Qed.

Lemma concat_length_eq {A B} (xs : list (list A)) (ys : list (list B)) :
  Forall2 (fun x y => length x = length y) xs ys -> length (concat xs) = length (concat ys).
Proof.
  induction 1 as [|x y xs ys Hxy H IH]; simpl; [reflexivity|]. rewrite !app_length, Hxy, IH. reflexivity.
Qed.

Lemma zip_rows_nth : forall k ts ms ps vs ls t m p v l,
  nth_error ts k = Some t -> nth_error ms k = Some m -> nth_error ps k = Some p ->
  nth_error vs k = Some v -> nth_error ls k = Some l ->
  nth_error (zip_rows ts ms ps vs ls) k = Some (mkRow t m p v l).
Proof.
  induction k as [|k IH]; intros [|t0 ts] [|m0 ms] [|p0 ps] [|v0 vs] [|l0 ls] t m p v l Ht Hm Hp Hv Hl;
    simpl in *; try discriminate.
  - congruence.
  - apply IH; assumption.
Qed.

Lemma zip_rows_length : forall ts ms ps vs ls n,
  length ts = n -> length ms = n -> length ps = n -> length vs = n -> length ls = n ->
  length (zip_rows ts ms ps vs ls) = n.
Proof.
  induction ts as [|t0 ts IH]; intros [|m0 ms] [|p0 ps] [|v0 vs] [|l0 ls] n Ht Hm Hp Hv Hl;
    simpl in *; try lia.
  destruct n as [|n]; [lia|]. f_equal. apply IH; lia.
Qed.

Lemma logits_rows_length t : forall mss pss rs, logits_rows_t t mss pss = Some rs -> length rs = length mss.
Proof.
  induction mss as [|ms mss IH]; intros pss rs H; simpl in H; [injection H as <-; reflexivity|].
  destruct pss as [|ps pss]; [discriminate|]. destruct (logits_row_t t ms ps); [|discriminate].
  destruct (logits_rows_t t mss pss) as [rs'|] eqn:E; [|discriminate]. injection H as <-. simpl.
  rewrite (IH pss rs' E). reflexivity.
Qed.

Lemma logits_length tr lg : logits tr = Some lg -> length lg = length (t_moves tr).
Proof. unfold logits, logits_rows. destruct (t_positions tr); [discriminate|]. apply logits_rows_length. Qed.

Lemma all_logits_spec : forall logs lg, all_logits logs = Some lg ->
  exists lgs, Forall2 (fun tr a => logits tr = Some a) logs lgs /\ lg = concat lgs.
Proof.
  induction logs as [|tr logs IH]; intros lg H; simpl in H.
  - injection H as <-. exists []. split; [constructor|reflexivity].
  - destruct (logits tr) as [a|] eqn:Ea; [|discriminate].
    destruct (all_logits logs) as [b|] eqn:Eb; [|discriminate]. injection H as <-.
    destruct (IH b eq_refl) as (lgs & HF & ->). exists (a :: lgs). split; [constructor; assumption|reflexivity].
Qed.

Lemma Forall2_nth_l {A B} (R : A -> B -> Prop) l1 l2 : Forall2 R l1 l2 -> forall g a, nth_error l1 g = Some a ->
  exists b, nth_error l2 g = Some b /\ R a b.
Proof.
  induction 1 as [|x y l1 l2 Hxy H IH]; intros [|g] a Hg; simpl in *; try discriminate.
  - injection Hg as <-. exists y. split; [reflexivity|assumption].
  - apply IH. assumption.
Qed.

Lemma Forall2_map_same_length {A B C} (f : A -> list B) (g : A -> list C) (l : list A) :
  Forall (fun x => length (f x) = length (g x)) l ->
  Forall2 (fun x y => length x = length y) (map f l) (map g l).
Proof. induction 1; simpl; constructor; assumption. Qed.

Section EncodeGames.
Variable enc : position -> list Z.

Lemma rows_in_order logs b : Forall wf_transcript logs -> encode_games enc logs = Some b ->
  let w := max_len (map enc (flat_map t_positions logs)) in
  length b = length (flat_map t_positions logs) /\
  forall g tr i p, nth_error logs g = Some tr -> nth_error (t_positions tr) i = Some p ->
    exists lg pol v, logits tr = Some lg /\ nth_error lg i = Some pol /\ nth_error (t_values tr) i = Some v /\
      nth_error b (offset logs g + i) =
        Some (mkRow (pad_tokens w (enc p)) (pad_mask w (enc p)) pol v (inject_Z (label (t_result tr) p))).
Proof.
  intros Hwf H. unfold encode_games in H. destruct (all_logits logs) as [lg|] eqn:El; [|discriminate].
  injection H as <-. destruct (all_logits_spec logs lg El) as (lgs & HF & ->).
  set (w := max_len (map enc (flat_map t_positions logs))). cbv zeta.
  (* column lengths *)
  assert (Hlg : Forall2 (fun x y => length x = length y) lgs (map t_positions logs)).
  { clear - HF Hwf. induction HF as [|tr a logs lgs Ha HF IH]; simpl; constructor.
    - rewrite (logits_length tr a Ha). apply (Forall_inv Hwf).
    - apply IH. apply (Forall_inv_tail Hwf). }
  assert (Hvs : Forall2 (fun x y => length x = length y) (map t_values logs) (map t_positions logs)).
  { apply Forall2_map_same_length. eapply Forall_impl; [|exact Hwf]. intros tr (_ & _ & Hv). exact Hv. }
  assert (Hrs : Forall2 (fun x y => length x = length y) (map results logs) (map t_positions logs)).
  { apply Forall2_map_same_length. apply Forall_forall. intros tr _. unfold results. apply map_length. }
  rewrite !flat_map_concat_map in *. split.
  - apply zip_rows_length; rewrite ?map_length; try reflexivity.
    + apply (concat_length_eq _ _ Hlg).
    + apply (concat_length_eq _ _ Hvs).
    + apply (concat_length_eq _ _ Hrs).
  - intros g tr i p Hg Hi.
    destruct (Forall2_nth_l _ _ _ HF g tr Hg) as (a & Ha & Hla).
    pose proof (Forall_forall (fun x => wf_transcript x) logs) as Hall.
    destruct (proj1 Hall Hwf tr (nth_error_In _ _ Hg)) as (Hm & Hp & Hv).
    assert (Hil : (i < length (t_positions tr))%nat) by (apply nth_error_Some; congruence).
    destruct (nth_error a i) as [pol|] eqn:Epol;
      [|apply nth_error_None in Epol; rewrite (logits_length tr a Hla) in Epol; lia].
    destruct (nth_error (t_values tr) i) as [v|] eqn:Ev; [|apply nth_error_None in Ev; lia].
    exists a, pol, v. split; [exact Hla|]. split; [exact Epol|]. split; [reflexivity|].
    unfold offset. rewrite flat_map_concat_map, <- firstn_map.
    set (k := (length (concat (firstn g (map t_positions logs))) + i)%nat).
    assert (Hpk : nth_error (concat (map t_positions logs)) k = Some p).
    { apply (concat_nth _ g (t_positions tr)); [apply map_nth_error; exact Hg|exact Hi]. }
    apply zip_rows_nth.
    + rewrite map_map. apply (map_nth_error (fun x => pad_tokens w (enc x)) _ _ Hpk).
    + rewrite map_map. apply (map_nth_error (fun x => pad_mask w (enc x)) _ _ Hpk).
    + unfold k. rewrite <- (concat_firstn_length _ _ Hlg g). apply (concat_nth _ g a); assumption.
    + unfold k. rewrite <- (concat_firstn_length _ _ Hvs g).
      apply (concat_nth _ g (t_values tr)); [apply map_nth_error; exact Hg|exact Ev].
    + unfold k. rewrite <- (concat_firstn_length _ _ Hrs g). apply map_nth_error.
      apply (concat_nth _ g (results tr)); [apply map_nth_error; exact Hg|].
      unfold results. apply map_nth_error. exact Hi.
Qed.
End EncodeGames.

(* padding: every row has the width of the longest encoding; the masked part is the encoding itself *)
Lemma max_len_ge ts t : In t ts -> (length t <= max_len ts)%nat.
Proof.
  induction ts as [|h ts IH]; intros Hin; [destruct Hin|]. simpl. destruct Hin as [->|Hin]; [lia|].
  specialize (IH Hin). lia.
Qed.

Lemma masked_pad : forall t k, masked (t ++ repeat 0 k) (repeat true (length t) ++ repeat false k) = t.
Proof.
  induction t as [|x t IH]; intros k; simpl.
  - induction k as [|k IHk]; simpl; [reflexivity|exact IHk].
  - rewrite IH. reflexivity.
Qed.

Lemma padding_correct ts t : In t ts ->
  length (pad_tokens (max_len ts) t) = max_len ts /\
  length (pad_mask (max_len ts) t) = max_len ts /\
  masked (pad_tokens (max_len ts) t) (pad_mask (max_len ts) t) = t /\
  firstn (length t) (pad_tokens (max_len ts) t) = t /\
  (forall j, (length t <= j < max_len ts)%nat ->
     nth_error (pad_tokens (max_len ts) t) j = Some 0 /\ nth_error (pad_mask (max_len ts) t) j = Some false) /\
  (forall j, (j < length t)%nat -> nth_error (pad_mask (max_len ts) t) j = Some true).
Proof.
  intros Hin. pose proof (max_len_ge ts t Hin) as Hle. unfold pad_tokens, pad_mask.
  split; [rewrite app_length, repeat_length; lia|].
  split; [rewrite app_length, !repeat_length; lia|].
  split; [apply masked_pad|].
  split; [rewrite firstn_app, Nat.sub_diag, firstn_all; simpl; apply app_nil_r|].
  split.
  - intros j Hj. rewrite !nth_error_app2 by (rewrite ?repeat_length; lia). rewrite repeat_length.
    split; (apply nth_error_repeat; lia).
  - intros j Hj. rewrite nth_error_app1 by (rewrite repeat_length; lia). apply nth_error_repeat. lia.
Qed.

(* ---------- concrete instances of the hypotheses ---------- *)
Definition ex_rows : batch :=
  [ mkRow [9; 1; 0] [true; true; false] [1 # 2; 1 # 2]%Q (1 # 2) 1;
    mkRow [9; 2; 7] [true; true; true] [1; 0]%Q (1 # 4) (-(1));
    mkRow [9; 1; 5] [true; true; false] [0; 1]%Q (-(1) # 2) (-(1)) ].

(* rows 0 and 2 share the key [9; 1] (they differ only under the padding) and are averaged *)
Example ex_dedup :
  map key_of ex_rows = [[9; 1]; [9; 2; 7]; [9; 1]] /\
  map key_of (dedup ex_rows) = [[9; 1]; [9; 2; 7]] /\
  Forall2 row_equiv (dedup ex_rows)
    [ mkRow [9; 1; 0] [true; true; false] [1 # 4; 3 # 4]%Q 0 0;
      mkRow [9; 2; 7] [true; true; true] [1; 0]%Q (1 # 4) (-(1)) ].
Proof.
  split; [reflexivity|]. split; [reflexivity|].
  repeat constructor; reflexivity.
Qed.

Example ex_dedup_nodup : NoDup (map key_of (firstn 2 ex_rows)).
Proof. simpl. repeat constructor; simpl; intuition discriminate. Qed.

Example ex_dense :
  let ms := [mkMove 0 0 PlaceFlat None; mkMove 1 1 PlaceFlat None] in
  NoDup ms /\ exists row, logits_row 3 ms [1 # 4; 3 # 4]%Q = Some row /\
    nthz row 0 = Some (1 # 4)%Q /\ nthz row 60 = Some (3 # 4)%Q /\ nthz row 1 = Some 0%Q.
Proof.
  split.
  - repeat constructor; simpl; intuition discriminate.
  - eexists. split; [vm_compute; reflexivity|]. repeat split; reflexivity.
Qed.

(* two games (one ply and two plies) through encode_games with a toy encoding of varying length *)
Definition ex_enc (p : position) : list Z := 9 :: repeat 1 (Z.to_nat (ply p)).
Definition ex_p0 : position := from_config (mkCfg 3 None None).
Definition ex_p1 : position :=
  match move ex_p0 (mkMove 0 0 PlaceFlat None) with Some q => q | None => ex_p0 end.
Definition ex_logs : list transcript :=
  [ mkTr [ex_p0] [[mkMove 0 0 PlaceFlat None]] [[1]]%Q [1 # 2]%Q (Some White);
    mkTr [ex_p0; ex_p1] [[mkMove 1 1 PlaceFlat None; mkMove 0 0 PlaceFlat None]; [mkMove 1 1 PlaceFlat None]]
         [[1 # 4; 3 # 4]; [1]]%Q [0; -(1 # 4)]%Q None ].

Example ex_encode :
  Forall wf_transcript ex_logs /\
  exists b, encode_games ex_enc ex_logs = Some b /\ length b = 3%nat /\ offset ex_logs 1 = 1%nat /\
    map r_tokens b = [[9; 0]; [9; 0]; [9; 1]] /\ map r_mask b = [[true; false]; [true; false]; [true; true]] /\
    map r_label b = [1; 0; 0]%Q /\ map (fun r => nthz (r_policy r) 60) b = [Some 0; Some (1 # 4); Some 1]%Q.
Proof.
  split; [repeat constructor|]. eexists. split; [vm_compute; reflexivity|]. repeat split; reflexivity.
Qed.

(* a duplicated candidate: the later probability is the one stored *)
Example ex_last_wins : exists row,
  logits_row 3 ([mkMove 0 0 PlaceFlat None] ++ mkMove 0 0 PlaceFlat None :: []) [1 # 4; 3 # 4]%Q = Some row /\
  nthz row 0 = Some (3 # 4)%Q.
Proof. eexists. split; [vm_compute; reflexivity|reflexivity]. Qed.
