(* The Python work-list of Position._walk (model/RoadPy.v) computes the same
   answer as the neighbour closure of model/Road.v, with an explicit fuel
   bound; hence has_road_py = Road.has_road and, through proofs/RoadProofs.v,
   the declarative road_verdict. *)
From Coq Require Import ZArith List Bool Lia.
From TV Require Import model.Tak model.Road model.RoadPy model.Lit spec.RoadSpec
                       proofs.Reach proofs.RoadProofs.
Import ListNotations.
Open Scope Z_scope.

(* ---------- q.pop() ---------- *)
Lemma pop_last_snoc {A} (l : list A) x : pop_last (l ++ [x]) = Some (l, x).
Proof. induction l as [|a l IH]; simpl; [reflexivity|]. rewrite IH. reflexivity. Qed.

Lemma pop_last_inv {A} (q : list A) :
  match pop_last q with None => q = [] | Some (r, x) => q = r ++ [x] end.
Proof.
  destruct q as [|a t]; [reflexivity|].
  destruct (exists_last (l := a :: t)) as (r & x & E); [discriminate|].
  rewrite E, pop_last_snoc. reflexivity.
Qed.

Lemma smem_In v W : smem v W = true <-> In v W.
Proof.
  unfold smem. rewrite existsb_exists. split.
  - intros (x & Hx & He). apply sqr_eqb_spec in He. subst. assumption.
  - intros H. exists v. split; [assumption|apply sqr_eqb_spec; reflexivity].
Qed.

Lemma filter_length_le {A} (f g : A -> bool) l :
  (forall x, g x = true -> f x = true) -> (length (filter g l) <= length (filter f l))%nat.
Proof.
  intros Hgf. induction l as [|a l IH]; simpl; [lia|].
  destruct (g a) eqn:Eg.
  - rewrite (Hgf a Eg). simpl. lia.
  - destruct (f a); simpl; lia.
Qed.

Lemma filter_length_all {A} (f : A -> bool) l : (length (filter f l) <= length l)%nat.
Proof. induction l as [|a l IH]; simpl; [lia|]. destruct (f a); simpl; lia. Qed.

Lemma filter_length_lt {A} (f g : A -> bool) l a :
  (forall x, g x = true -> f x = true) -> In a l -> f a = true -> g a = false ->
  (length (filter g l) < length (filter f l))%nat.
Proof.
  intros Hgf. induction l as [|b l IH]; simpl; intros Hin Hf Hg; [contradiction|].
  destruct Hin as [->|Hin].
  - rewrite Hf, Hg. simpl. pose proof (filter_length_le f g l Hgf). lia.
  - specialize (IH Hin Hf Hg). destruct (g b) eqn:Eg.
    + rewrite (Hgf b Eg). simpl. lia.
    + destruct (f b); simpl; lia.
Qed.

(* the four squares pushed after expanding v, in the code's order *)
Definition nbrs (v : sqr) : list sqr :=
  [(fst v + 1, snd v); (fst v - 1, snd v); (fst v, snd v + 1); (fst v, snd v - 1)].

Lemma adjacent_nbrs t v : adjacent t v = true <-> In t (nbrs v).
Proof.
  rewrite adjacent_spec. unfold orth_adjacent, nbrs. destruct t as [a b], v as [x y]. simpl. split.
  - intros H.
    assert ((a, b) = (x + 1, y) \/ (a, b) = (x - 1, y) \/ (a, b) = (x, y + 1) \/ (a, b) = (x, y - 1)) as H'.
    { destruct H as [(-> & [->| ->])|(-> & [->| ->])]; auto. }
    destruct H' as [->|[->|[->| ->]]]; auto.
  - intros [E|[E|[E|[E|[]]]]]; inversion E; subst; lia.
Qed.

Section Walk.
  Variable p : position.
  Variable c : color.
  Variable horiz : bool.
  Variable seeds0 : list sqr.

  Definition ok (v : sqr) : bool := road_sq p c v.
  Definition target (v : sqr) : Prop := coord horiz v = size p - 1.
  (* v is joined to a seed by a chain of road squares of colour c *)
  Definition reach (v : sqr) : Prop := exists u n, In u seeds0 /\ gchain p c u v n.
  Definition reach_target : Prop := exists v, reach v /\ target v.

  (* the work-list invariant *)
  Record Inv (seen q : list sqr) : Prop := {
    inv_no_target : forall s, In s seen -> ok s = true -> ~ target s;
    inv_closed : forall s t, In s seen -> ok s = true -> adjacent t s = true -> In t seen \/ In t q;
    inv_sound : forall t, In t q -> ok t = true -> reach t;
    inv_seeds : forall u, In u seeds0 -> In u seen \/ In u q
  }.

  Definition cnt (seen : list sqr) : nat :=
    length (filter (fun v => ok v && negb (smem v seen)) (all_squares (size p))).

  Lemma cnt_cons_le j seen : (cnt (j :: seen) <= cnt seen)%nat.
  Proof.
    unfold cnt. apply filter_length_le. intros v H. simpl in H.
    apply andb_prop in H. destruct H as (H1 & H2). rewrite H1. simpl.
    destruct (smem v seen); [|reflexivity]. rewrite orb_true_r in H2. discriminate.
  Qed.

  Lemma cnt_cons_lt j seen : ok j = true -> smem j seen = false -> (cnt (j :: seen) < cnt seen)%nat.
  Proof.
    intros Hok Hns. unfold cnt. apply filter_length_lt with (a := j).
    - intros v H. simpl in H. apply andb_prop in H. destruct H as (H1 & H2). rewrite H1. simpl.
      destruct (smem v seen); [|reflexivity]. rewrite orb_true_r in H2. discriminate.
    - apply road_sq_all with (c := c). exact Hok.
    - rewrite Hok, Hns. reflexivity.
    - simpl. replace (sqr_eqb j j) with true by (symmetry; apply sqr_eqb_spec; reflexivity).
      simpl. apply andb_false_r.
  Qed.

  Lemma inv_init : Inv [] seeds0.
  Proof.
    constructor.
    - intros s [].
    - intros s t [].
    - intros t Ht Hok. exists t, 0%nat. split; [assumption|]. constructor. exact Hok.
    - intros u Hu. right. assumption.
  Qed.

  (* j popped and already seen *)
  Lemma inv_skip_seen seen q j : Inv seen (q ++ [j]) -> In j seen -> Inv seen q.
  Proof.
    intros [H1 H2 H3 H4] Hj. constructor.
    - assumption.
    - intros s t Hs Hok Ha. destruct (H2 s t Hs Hok Ha) as [H|H]; [left; assumption|].
      apply in_app_or in H. destruct H as [H|[<-|[]]]; auto.
    - intros t Ht. apply H3. apply in_or_app. left. assumption.
    - intros u Hu. destruct (H4 u Hu) as [H|H]; [left; assumption|].
      apply in_app_or in H. destruct H as [H|[<-|[]]]; auto.
  Qed.

  (* j popped, marked seen and rejected (off the board / no road piece / other colour) *)
  Lemma inv_skip_reject seen q j : Inv seen (q ++ [j]) -> ok j = false -> Inv (j :: seen) q.
  Proof.
    intros [H1 H2 H3 H4] Hj. constructor.
    - intros s [<-|Hs] Hok; [congruence|auto].
    - intros s t [<-|Hs] Hok Ha; [congruence|].
      destruct (H2 s t Hs Hok Ha) as [H|H]; [left; right; assumption|].
      apply in_app_or in H. destruct H as [H|[<-|[]]]; [right; assumption|left; left; reflexivity].
    - intros t Ht. apply H3. apply in_or_app. left. assumption.
    - intros u Hu. destruct (H4 u Hu) as [H|H]; [left; right; assumption|].
      apply in_app_or in H. destruct H as [H|[<-|[]]]; [right; assumption|left; left; reflexivity].
  Qed.

  (* j popped, a road square of the colour, not on the far edge: expanded *)
  Lemma inv_expand seen q j :
    Inv seen (q ++ [j]) -> ok j = true -> ~ target j -> Inv (j :: seen) (q ++ nbrs j).
  Proof.
    intros [H1 H2 H3 H4] Hok Hnt.
    assert (Hrj : reach j) by (apply H3; [apply in_or_app; right; left; reflexivity|assumption]).
    constructor.
    - intros s [<-|Hs] Hoks; [assumption|auto].
    - intros s t [<-|Hs] Hoks Ha.
      + right. apply in_or_app. right. apply adjacent_nbrs. assumption.
      + destruct (H2 s t Hs Hoks Ha) as [H|H]; [left; right; assumption|].
        apply in_app_or in H. destruct H as [H|[<-|[]]]; [|left; left; reflexivity].
        right. apply in_or_app. left. assumption.
    - intros t Ht Hokt. apply in_app_or in Ht. destruct Ht as [Ht|Ht].
      + apply H3; [apply in_or_app; left; assumption|assumption].
      + apply adjacent_nbrs in Ht. destruct Hrj as (u & n & Hu & Hc).
        exists u, (S n). split; [assumption|]. econstructor; eassumption.
    - intros u Hu. destruct (H4 u Hu) as [H|H]; [left; right; assumption|].
      apply in_app_or in H. destruct H as [H|[<-|[]]]; [|left; left; reflexivity].
      right. apply in_or_app. left. assumption.
  Qed.

  Lemma chain_end_ok u v n : gchain p c u v n -> ok v = true.
  Proof. intros H. destruct H; assumption. Qed.

  (* the stack is empty: everything reachable has been seen, and nothing seen is a target *)
  Lemma inv_empty_no_target seen : Inv seen [] -> ~ reach_target.
  Proof.
    intros [H1 H2 H3 H4] (v & (u & n & Hu & Hc) & Ht).
    assert (Hv : In v seen).
    { clear Ht. induction Hc as [v Hok|u w v n Hc IH Hok Ha].
      - destruct (H4 v Hu) as [H|[]]. assumption.
      - specialize (IH Hu).
        destruct (H2 w v IH (chain_end_ok _ _ _ Hc) Ha) as [H|[]]. assumption. }
    apply (H1 v Hv (chain_end_ok _ _ _ Hc) Ht).
  Qed.

  Lemma append4 (q : list sqr) x y :
    append (append (append (append q (x + 1, y)) (x - 1, y)) (x, y + 1)) (x, y - 1) = q ++ nbrs (x, y).
  Proof. unfold append, nbrs. simpl. rewrite <- !app_assoc. reflexivity. Qed.

  Theorem walk_loop_correct : forall fuel seen q,
    Inv seen q -> (length q + 5 * cnt seen < fuel)%nat ->
    exists b, walk_loop fuel p c horiz seen q = Done b /\ (b = true <-> reach_target).
  Proof.
    induction fuel as [|fuel IH]; intros seen q HI Hm; [lia|].
    cbn [walk_loop]. pose proof (pop_last_inv q) as Hq.
    destruct (pop_last q) as [(q', j)|].
    2: { subst q. exists false. split; [reflexivity|]. split; [discriminate|].
         intros HT. exfalso. exact (inv_empty_no_target seen HI HT). }
    subst q. rewrite app_length in Hm. simpl in Hm.
    destruct (smem j seen) eqn:Hseen.
    { apply IH; [apply inv_skip_seen with (j := j); [assumption|apply smem_In; assumption]|lia]. }
    assert (Hrej : ok j = false ->
      exists b, walk_loop fuel p c horiz (j :: seen) q' = Done b /\ (b = true <-> reach_target)).
    { intros Hno. apply IH; [apply inv_skip_reject; assumption|].
      pose proof (cnt_cons_le j seen). lia. }
    destruct j as [x y]. cbv zeta.
    unfold ok, road_sq in Hrej. simpl fst in Hrej. simpl snd in Hrej.
    destruct (in_bounds (size p) x y) eqn:Hb; simpl negb; cbv iota.
    2: { apply Hrej. reflexivity. }
    destruct (sq p x y) as [|top below] eqn:Hsq.
    { apply Hrej. reflexivity. }
    destruct (kind_is_road (pkind top)) eqn:Hk; simpl negb; simpl orb.
    2: { apply Hrej. reflexivity. }
    destruct (color_eqb (pcolor top) c) eqn:Hc; simpl negb; cbv iota.
    2: { apply Hrej. reflexivity. }
    clear Hrej.
    assert (Hok : ok (x, y) = true).
    { unfold ok, road_sq. simpl fst. simpl snd. rewrite Hb, Hsq, Hk, Hc. reflexivity. }
    assert (Hreach : reach (x, y)).
    { apply (inv_sound _ _ HI); [apply in_or_app; right; left; reflexivity|assumption]. }
    assert (Hyes : target (x, y) -> exists b, Done true = Done b /\ (b = true <-> reach_target)).
    { intros Ht. exists true. split; [reflexivity|]. split; [|reflexivity].
      intros _. exists (x, y). split; assumption. }
    assert (Hno : ~ target (x, y) ->
      exists b, walk_loop fuel p c horiz ((x, y) :: seen) (q' ++ nbrs (x, y)) = Done b /\ (b = true <-> reach_target)).
    { intros Hnt. apply IH; [apply inv_expand; assumption|].
      pose proof (cnt_cons_lt (x, y) seen Hok Hseen). rewrite app_length.
      change (length (nbrs (x, y))) with 4%nat. unfold sqr in *. lia. }
    rewrite append4. unfold target, coord in Hyes, Hno. simpl fst in *. simpl snd in *.
    destruct horiz; simpl andb; cbv iota.
    - destruct (Z.eqb_spec x (size p - 1)) as [E|E]; [apply Hyes; assumption|apply Hno; assumption].
    - destruct (Z.eqb_spec y (size p - 1)) as [E|E]; [apply Hyes; assumption|apply Hno; assumption].
  Qed.

  Lemma cnt_bound seen : 0 <= size p -> (cnt seen <= Z.to_nat (size p * size p))%nat.
  Proof.
    intros Hn. unfold cnt. rewrite <- all_squares_length by assumption. apply filter_length_all.
  Qed.

  (* _walk from any seed list: with 5*size^2 + |seeds| + 1 iterations the loop finishes, and it
     answers True exactly when a chain of road squares joins a seed to the far edge *)
  Theorem walk_py_reach fuel : 0 <= size p ->
    (5 * Z.to_nat (size p * size p) + length seeds0 + 1 <= fuel)%nat ->
    exists b, walk_py fuel p seeds0 c horiz = Done b /\ (b = true <-> reach_target).
  Proof.
    intros Hn Hf. unfold walk_py. apply walk_loop_correct; [apply inv_init|].
    pose proof (cnt_bound [] Hn). lia.
  Qed.
End Walk.

(* ---------- Road.walk in terms of chains ---------- *)
Lemma walk_reach p c horiz : 0 <= size p ->
  (walk p c horiz = true <-> reach_target p c horiz (seeds (size p) horiz)).
Proof.
  intros Hn. unfold walk, reach_target, reach, target. cbv zeta. rewrite existsb_exists.
  set (W0 := filter (road_sq p c) (seeds (size p) horiz)).
  assert (HW0 : forall s, In s W0 -> road_sq p c s = true).
  { intros s Hs. apply filter_In in Hs. tauto. }
  split.
  - intros (v & Hv & Hedge). apply closure_reach in Hv; [|assumption|assumption].
    destruct Hv as (u & n & Hu & Hc). exists v. split.
    + exists u, n. split; [|assumption]. apply filter_In in Hu. tauto.
    + destruct horiz; simpl; apply Z.eqb_eq; assumption.
  - intros (v & (u & n & Hu & Hc) & Ht). exists v. split.
    + apply closure_reach; [assumption|assumption|]. exists u, n. split; [|assumption].
      apply filter_In. split; [assumption|].
      clear Ht. induction Hc; [assumption|apply IHHc; assumption].
    + destruct horiz; simpl in *; apply Z.eqb_eq; assumption.
Qed.

Lemma bool_iff_eq (a b : bool) : (a = true <-> b = true) -> a = b.
Proof. destruct a, b; intros (H1 & H2); try reflexivity; [symmetry; auto|auto]. Qed.

Lemma left_seeds_eq p : left_seeds p = seeds (size p) true.
Proof. reflexivity. Qed.
Lemma top_seeds_eq p : top_seeds p = seeds (size p) false.
Proof. reflexivity. Qed.

Lemma seeds_length n horiz : length (seeds n horiz) = Z.to_nat n.
Proof. unfold seeds. rewrite map_length. apply zrange_length. Qed.

Lemma walk_fuel_enough p horiz : 0 <= size p ->
  (5 * Z.to_nat (size p * size p) + length (seeds (size p) horiz) + 1 <= walk_fuel p)%nat.
Proof. intros Hn. rewrite seeds_length. unfold walk_fuel. nia. Qed.

(* _walk on the code's own seed lists, with walk_fuel p = 5*size^2 + size + 1 iterations or more:
   never OutOfFuel, and the answer is Road.walk's *)
Theorem walk_py_eq p c horiz fuel : wf_pos p -> (walk_fuel p <= fuel)%nat ->
  walk_py fuel p (seeds (size p) horiz) c horiz = Done (walk p c horiz).
Proof.
  intros (Hn & _) Hf.
  destruct (walk_py_reach p c horiz (seeds (size p) horiz) fuel ltac:(lia)) as (b & Hb & Hiff).
  { pose proof (walk_fuel_enough p horiz ltac:(lia)). lia. }
  rewrite Hb. f_equal. apply bool_iff_eq. rewrite Hiff. symmetry. apply walk_reach. lia.
Qed.

Theorem has_road_py_eq p fuel : wf_pos p -> (walk_fuel p <= fuel)%nat ->
  has_road_py fuel p = Done (has_road p).
Proof.
  intros Hwf Hf. unfold has_road_py. rewrite left_seeds_eq, top_seeds_eq.
  rewrite !walk_py_eq by assumption. unfold has_road, color_has_road. cbv zeta.
  destruct (walk p White true), (walk p White false), (walk p Black true), (walk p Black false); reflexivity.
Qed.

(* the Python work-list answers the declarative road question *)
Corollary has_road_py_spec p fuel o : wf_pos p -> (walk_fuel p <= fuel)%nat ->
  (road_verdict p o <-> has_road_py fuel p = Done o).
Proof.
  intros Hwf Hf. rewrite has_road_py_eq by assumption. rewrite has_road_spec by assumption.
  split; [intros ->; reflexivity|intros H; inversion H; reflexivity].
Qed.

Corollary walk_py_spec p c horiz fuel : wf_pos p -> (walk_fuel p <= fuel)%nat ->
  (walk_py fuel p (seeds (size p) horiz) c horiz = Done true <-> spans p c horiz).
Proof.
  intros Hwf Hf. rewrite walk_py_eq by assumption. rewrite <- walk_spec by assumption.
  split; [intros H; inversion H; reflexivity|intros ->; reflexivity].
Qed.

(* the fuel bound is meaningful on a concrete board, and is reached within a factor: on ex_road
   (3x3) walk_fuel = 49 *)
Example ex_walk_py : walk_fuel ex_road = 49%nat /\
  walk_py (walk_fuel ex_road) ex_road (left_seeds ex_road) White true = Done true /\
  has_road_py (walk_fuel ex_road) ex_road = Done (Some White) /\
  walk_py 3 ex_road (left_seeds ex_road) White true = OutOfFuel.
Proof. repeat split; vm_compute; reflexivity. Qed.
