(* Tie between the regular expressions of python/tak/ptn/ptn.py and the
   hand-written matchers of model/Ptn.v, through spec/RegexSpec.v:
     text of the regex in the source (gen/Consts.v, regenerated)
       = show <AST term>                       (X_re_text, by computation)
     <AST term> under the declarative semantics
       = the hand-written matcher              (X_matcher, proved)
   so the matchers are no longer trusted to implement the regexes. *)
From Coq Require Import ZArith List Bool Lia.
From TV Require gen.Consts.
From TV Require Import model.Tak model.Ptn spec.PtnSpec spec.RegexSpec proofs.PtnProofs proofs.PtnGame.
Import ListNotations.
Open Scope Z_scope.

(* the class escapes as the model has them (tables checked against the live re on every run) *)
Definition E (k : esc) (c : Z) : bool :=
  match k with
  | EscS => is_space c
  | EscD => is_digit c
  | EscW => match word_class c with Some b => b | None => false end
  end.

(* ------------------------------------------------------------------ *)
(* the seven patterns as terms                                          *)
(* ------------------------------------------------------------------ *)
Definition c_stone := Cls [Single 67; Single 70; Single 83].
Definition c_digit := Cls [Range 49 56].
Definition c_file := Cls [Range 97 104].
Definition c_dir := Cls [Single 60; Single 62; Single 43; Single 45].

(* \A([CFS]?)([1-8]?)([a-h])([1-8])([<>+-]?)([1-8]* )[CFS]?\Z *)
Definition move_re : regex :=
  Seq Bos (Seq (Group 1 (Opt c_stone)) (Seq (Group 2 (Opt c_digit)) (Seq (Group 3 c_file)
  (Seq (Group 4 c_digit) (Seq (Group 5 (Opt c_dir)) (Seq (Group 6 (Star c_digit)) (Seq (Opt c_stone) Eos))))))).

(* \A(0|R|F|1|1/2)-(0|R|F|1|1/2)\Z *)
Definition half_re : regex :=
  Alt (Chr 48) (Alt (Chr 82) (Alt (Chr 70) (Alt (Chr 49) (Seq (Chr 49) (Seq (Chr 47) (Chr 50)))))).
Definition result_re : regex :=
  Seq Bos (Seq (Group 1 half_re) (Seq (Chr 45) (Seq (Group 2 half_re) Eos))).

(* \A\d+\.\Z *)
Definition number_re : regex := Seq Bos (Seq (Plus (Esc EscD)) (Seq (Chr 46) Eos)).

(* ['!?]+$ *)
Definition c_suffix := Cls [Single 39; Single 33; Single 63].
Definition suffix_re : regex := Seq (Plus c_suffix) Eol.

(* {[^}]+} *)
Definition comment_re : regex := Seq (Chr 123) (Seq (Plus (NotCls [Single 125])) (Chr 125)).

(* \s+ *)
Definition space_re : regex := Plus (Esc EscS).

(* ^\[(\w+) Q([^Q]+)Q\]$  with re.M  (Q = the double quote) *)
Definition tag_re : regex :=
  Seq BolM (Seq (Chr 91) (Seq (Group 1 (Plus (Esc EscW))) (Seq (Chr 32) (Seq (Chr 34)
  (Seq (Group 2 (Plus (NotCls [Single 34]))) (Seq (Chr 34) (Seq (Chr 93) EolM))))))).

(* ---- text ties: the regenerated source text is the printed term ---- *)
Lemma tag_re_text : show tag_re = nth 0 Consts.ptn_regexes [] /\ syntax_ok tag_re = true.
Proof. split; reflexivity. Qed.
Lemma comment_re_text : show comment_re = nth 1 Consts.ptn_regexes [] /\ syntax_ok comment_re = true.
Proof. split; reflexivity. Qed.
Lemma space_re_text : show space_re = nth 2 Consts.ptn_regexes [] /\ syntax_ok space_re = true.
Proof. split; reflexivity. Qed.
Lemma result_re_text : show result_re = nth 3 Consts.ptn_regexes [] /\ syntax_ok result_re = true.
Proof. split; reflexivity. Qed.
Lemma number_re_text : show number_re = nth 4 Consts.ptn_regexes [] /\ syntax_ok number_re = true.
Proof. split; reflexivity. Qed.
Lemma suffix_re_text : show suffix_re = nth 5 Consts.ptn_regexes [] /\ syntax_ok suffix_re = true.
Proof. split; reflexivity. Qed.
Lemma move_re_text : show move_re = nth 6 Consts.ptn_regexes [] /\ syntax_ok move_re = true.
Proof. split; reflexivity. Qed.
Lemma regex_count : length Consts.ptn_regexes = 7%nat.
Proof. reflexivity. Qed.

(* ------------------------------------------------------------------ *)
(* inversion / introduction lemmas for the semantics                    *)
(* ------------------------------------------------------------------ *)
Lemma seq_inv r1 r2 pre s post cp :
  matches E (Seq r1 r2) pre s post cp ->
  exists s1 s2 c1 c2, s = s1 ++ s2 /\ cp = c1 ++ c2 /\
    matches E r1 pre s1 (s2 ++ post) c1 /\ matches E r2 (pre ++ s1) s2 post c2.
Proof. intros H. inversion H; subst. do 4 eexists. repeat split; eassumption. Qed.

Lemma group_inv n r pre s post cp :
  matches E (Group n r) pre s post cp -> exists c, cp = c ++ [(n, s)] /\ matches E r pre s post c.
Proof. intros H. inversion H; subst. eexists. split; [reflexivity|eassumption]. Qed.

Lemma chr_inv c pre s post cp : matches E (Chr c) pre s post cp -> s = [c] /\ cp = [].
Proof. intros H. inversion H; subst. split; reflexivity. Qed.

Lemma cls_inv l pre s post cp :
  matches E (Cls l) pre s post cp -> exists c, s = [c] /\ cp = [] /\ in_items c l = true.
Proof. intros H. inversion H; subst. eexists. repeat split. assumption. Qed.

Lemma notcls_inv l pre s post cp :
  matches E (NotCls l) pre s post cp -> exists c, s = [c] /\ cp = [] /\ in_items c l = false.
Proof. intros H. inversion H; subst. eexists. repeat split. assumption. Qed.

Lemma esc_inv k pre s post cp :
  matches E (Esc k) pre s post cp -> exists c, s = [c] /\ cp = [] /\ E k c = true.
Proof. intros H. inversion H; subst. eexists. repeat split. assumption. Qed.

Lemma bos_inv pre s post cp : matches E Bos pre s post cp -> pre = [] /\ s = [] /\ cp = [].
Proof. intros H. inversion H; subst. repeat split. Qed.
Lemma eos_inv pre s post cp : matches E Eos pre s post cp -> post = [] /\ s = [] /\ cp = [].
Proof. intros H. inversion H; subst. repeat split. Qed.
Lemma eol_inv pre s post cp : matches E Eol pre s post cp -> (post = [] \/ post = [10]) /\ s = [] /\ cp = [].
Proof. intros H. inversion H; subst. repeat split. assumption. Qed.

Definition ochar (P : Z -> bool) (o : option Z) : Prop := match o with Some c => P c = true | None => True end.

Lemma opt_cls_inv l pre s post cp :
  matches E (Opt (Cls l)) pre s post cp ->
  cp = [] /\ exists o, s = olist o /\ ochar (fun c => in_items c l) o.
Proof.
  intros H. inversion H; subst.
  - split; [reflexivity|]. exists None. split; [reflexivity|exact I].
  - match goal with H1 : matches E (Cls l) _ _ _ _ |- _ => apply cls_inv in H1; destruct H1 as (c & -> & -> & Hc) end.
    split; [reflexivity|]. exists (Some c). split; [reflexivity|exact Hc].
Qed.
Lemma opt_cls_intro l o pre post :
  ochar (fun c => in_items c l) o -> matches E (Opt (Cls l)) pre (olist o) post [].
Proof.
  destruct o as [c|]; cbn [ochar olist]; intros H.
  - apply MOptSome. apply MCls. exact H.
  - apply MOptNone.
Qed.

(* a starred / plussed one-character matcher: every character satisfies it *)
Definition one_char (r : regex) (P : Z -> bool) : Prop :=
  forall pre s post cp, matches E r pre s post cp <-> exists c, s = [c] /\ cp = [] /\ P c = true.

Lemma one_char_cls l : one_char (Cls l) (fun c => in_items c l).
Proof.
  intros pre s post cp. split; [apply cls_inv|]. intros (c & -> & -> & H). apply MCls. exact H.
Qed.
Lemma one_char_notcls l : one_char (NotCls l) (fun c => negb (in_items c l)).
Proof.
  intros pre s post cp. split.
  - intros H. apply notcls_inv in H. destruct H as (c & -> & -> & H). exists c. rewrite H. repeat split.
  - intros (c & -> & -> & H). apply MNotCls. apply negb_true_iff. exact H.
Qed.
Lemma one_char_esc k : one_char (Esc k) (E k).
Proof.
  intros pre s post cp. split; [apply esc_inv|]. intros (c & -> & -> & H). apply MEsc. exact H.
Qed.

Lemma star_inv r P : one_char r P ->
  forall pre s post cp, matches E (Star r) pre s post cp -> cp = [] /\ Forall (fun c => P c = true) s.
Proof.
  intros Hr pre s post cp H. remember (Star r) as r0 eqn:Er.
  induction H; try discriminate; injection Er as ->.
  - split; [reflexivity|constructor].
  - match goal with H1 : matches E r _ _ _ _ |- _ => apply Hr in H1; destruct H1 as (c & -> & -> & Hc) end.
    destruct (IHmatches2 eq_refl) as [-> Hall]. split; [reflexivity|]. constructor; assumption.
Qed.
Lemma star_intro r P : one_char r P ->
  forall s pre post, Forall (fun c => P c = true) s -> matches E (Star r) pre s post [].
Proof.
  intros Hr s. induction s as [|c s IH]; intros pre post Hs.
  - apply MStarNil.
  - inversion Hs as [|? ? Hc Hs']; subst.
    apply (MStarCons E r pre [c] s post [] []); [discriminate| |apply IH; exact Hs'].
    apply Hr. exists c. repeat split. exact Hc.
Qed.
Lemma plus_inv r P : one_char r P ->
  forall pre s post cp, matches E (Plus r) pre s post cp -> cp = [] /\ s <> [] /\ Forall (fun c => P c = true) s.
Proof.
  intros Hr pre s post cp H. inversion H; subst.
  match goal with H1 : matches E r _ _ _ _ |- _ => apply Hr in H1; destruct H1 as (c & -> & -> & Hc) end.
  match goal with H2 : matches E (Star r) _ _ _ _ |- _ => apply (star_inv r P Hr) in H2; destruct H2 as [-> Hall] end.
  split; [reflexivity|split; [discriminate|constructor; assumption]].
Qed.
Lemma plus_intro r P : one_char r P ->
  forall s pre post, s <> [] -> Forall (fun c => P c = true) s -> matches E (Plus r) pre s post [].
Proof.
  intros Hr s pre post Hne Hs. destruct s as [|c s]; [congruence|].
  inversion Hs as [|? ? Hc Hs']; subst.
  apply (MPlus E r pre [c] s post [] []).
  - apply Hr. exists c. repeat split. exact Hc.
  - apply (star_intro r P Hr). exact Hs'.
Qed.

(* Seq with the equations to be solved separately *)
Lemma seq_intro r1 r2 pre s1 s2 post post1 pre2 s c1 c2 cp :
  matches E r1 pre s1 post1 c1 -> matches E r2 pre2 s2 post c2 ->
  post1 = s2 ++ post -> pre2 = pre ++ s1 -> s = s1 ++ s2 -> cp = c1 ++ c2 ->
  matches E (Seq r1 r2) pre s post cp.
Proof. intros H1 H2 -> -> -> ->. apply MSeq; assumption. Qed.

(* ------------------------------------------------------------------ *)
(* the move regex = match_move                                          *)
(* ------------------------------------------------------------------ *)
Lemma items_stone c : in_items c [Single 67; Single 70; Single 83] = true <-> classify c = KStone.
Proof.
  unfold in_items. cbn [existsb in_item]. rewrite orb_false_r, !orb_true_iff, !Z.eqb_eq, classify_stone.
  unfold stone_letter. tauto.
Qed.
Lemma items_digit c : in_items c [Range 49 56] = true <-> classify c = KDigit.
Proof. unfold in_items. cbn [existsb in_item]. rewrite orb_false_r, b_range, classify_digit. tauto. Qed.
Lemma items_file c : in_items c [Range 97 104] = true <-> classify c = KFile.
Proof. unfold in_items. cbn [existsb in_item]. rewrite orb_false_r, b_range, classify_file. tauto. Qed.
Lemma items_dir c : in_items c [Single 60; Single 62; Single 43; Single 45] = true <-> classify c = KDir.
Proof.
  unfold in_items. cbn [existsb in_item]. rewrite orb_false_r, !orb_true_iff, !Z.eqb_eq, classify_dir. tauto.
Qed.

Lemma ochar_ocls l k o :
  (forall c, in_items c l = true <-> classify c = k) -> (ochar (fun c => in_items c l) o <-> ocls k o).
Proof. intros H. destruct o as [c|]; cbn [ochar ocls]; [apply H|tauto]. Qed.

(* m.groups() *)
Definition caps_of (g : groups) : caps :=
  [(1%nat, olist (g_stone g)); (2%nat, olist (g_pickup g)); (3%nat, [g_file g]); (4%nat, [g_rank g]);
   (5%nat, olist (g_dir g)); (6%nat, g_drops g)].

Lemma move_re_complete g : wf_groups g -> matches E move_re [] (render_groups g) [] (caps_of g).
Proof.
  destruct g as [st pk f r d ds tr]. unfold wf_groups, render_groups, caps_of.
  cbn [g_stone g_pickup g_file g_rank g_dir g_drops g_trail].
  intros (H1 & H2 & H3 & H4 & H5 & H6 & H7). unfold move_re.
  eapply seq_intro; [apply MBos| |reflexivity|reflexivity|reflexivity|reflexivity]. cbn [app].
  eapply seq_intro; [apply MGroup; apply (opt_cls_intro _ st); apply (ochar_ocls _ KStone); [exact items_stone|exact H1]
                    | |reflexivity|reflexivity|reflexivity|reflexivity]. cbn [app].
  eapply seq_intro; [apply MGroup; apply (opt_cls_intro _ pk); apply (ochar_ocls _ KDigit); [exact items_digit|exact H2]
                    | |reflexivity|reflexivity|reflexivity|reflexivity]. cbn [app].
  eapply (seq_intro _ _ _ [f]); [apply MGroup; apply MCls; apply items_file; exact H3
                    | |reflexivity|reflexivity|reflexivity|reflexivity]. cbn [app].
  eapply (seq_intro _ _ _ [r]); [apply MGroup; apply MCls; apply items_digit; exact H4
                    | |reflexivity|reflexivity|reflexivity|reflexivity]. cbn [app].
  eapply seq_intro; [apply MGroup; apply (opt_cls_intro _ d); apply (ochar_ocls _ KDir); [exact items_dir|exact H5]
                    | |reflexivity|reflexivity|reflexivity|reflexivity]. cbn [app].
  eapply (seq_intro _ _ _ ds); [apply MGroup; apply (star_intro _ _ (one_char_cls _));
                                 eapply Forall_impl; [|exact H6]; intros c Hc; apply items_digit; exact Hc
                    | |reflexivity|reflexivity|reflexivity|reflexivity]. cbn [app].
  eapply (seq_intro _ _ _ (olist tr) [] []);
    [apply (opt_cls_intro _ tr); apply (ochar_ocls _ KStone); [exact items_stone|exact H7]
    |apply MEos|reflexivity|reflexivity|rewrite app_nil_r; reflexivity|reflexivity].
Qed.

Lemma move_re_sound text cp :
  search E move_re text cp -> exists g, match_move text = Some g /\ cp = caps_of g.
Proof.
  intros (pre & s & post & -> & H). unfold move_re in H.
  apply seq_inv in H. destruct H as (s0 & t1 & c0 & k1 & -> & -> & H0 & H).
  apply bos_inv in H0. destruct H0 as (-> & -> & ->). cbn [app] in *.
  apply seq_inv in H. destruct H as (s1 & t2 & c1 & k2 & -> & -> & G1 & H).
  apply group_inv in G1. destruct G1 as (c1' & -> & G1). apply opt_cls_inv in G1. destruct G1 as (-> & o1 & -> & O1).
  apply seq_inv in H. destruct H as (s2 & t3 & c2 & k3 & -> & -> & G2 & H).
  apply group_inv in G2. destruct G2 as (c2' & -> & G2). apply opt_cls_inv in G2. destruct G2 as (-> & o2 & -> & O2).
  apply seq_inv in H. destruct H as (s3 & t4 & c3 & k4 & -> & -> & G3 & H).
  apply group_inv in G3. destruct G3 as (c3' & -> & G3). apply cls_inv in G3. destruct G3 as (f & -> & -> & O3).
  apply seq_inv in H. destruct H as (s4 & t5 & c4 & k5 & -> & -> & G4 & H).
  apply group_inv in G4. destruct G4 as (c4' & -> & G4). apply cls_inv in G4. destruct G4 as (r & -> & -> & O4).
  apply seq_inv in H. destruct H as (s5 & t6 & c5 & k6 & -> & -> & G5 & H).
  apply group_inv in G5. destruct G5 as (c5' & -> & G5). apply opt_cls_inv in G5. destruct G5 as (-> & o5 & -> & O5).
  apply seq_inv in H. destruct H as (ds & t7 & c6 & k7 & -> & -> & G6 & H).
  apply group_inv in G6. destruct G6 as (c6' & -> & G6).
  apply (star_inv _ _ (one_char_cls _)) in G6. destruct G6 as (-> & O6).
  apply seq_inv in H. destruct H as (s7 & s8 & c7 & c8 & -> & -> & G7 & H8).
  apply opt_cls_inv in G7. destruct G7 as (-> & o7 & -> & O7).
  apply eos_inv in H8. destruct H8 as (-> & -> & ->).
  exists (mkG o1 o2 f r o5 ds o7). split.
  - assert (Hwf : wf_groups (mkG o1 o2 f r o5 ds o7)).
    { unfold wf_groups. cbn [g_stone g_pickup g_file g_rank g_dir g_drops g_trail].
      split; [apply (ochar_ocls _ KStone o1 items_stone); exact O1|].
      split; [apply (ochar_ocls _ KDigit o2 items_digit); exact O2|].
      split; [apply items_file; exact O3|].
      split; [apply items_digit; exact O4|].
      split; [apply (ochar_ocls _ KDir o5 items_dir); exact O5|].
      split; [eapply Forall_impl; [|exact O6]; intros c Hc; apply items_digit; exact Hc|].
      apply (ochar_ocls _ KStone o7 items_stone); exact O7. }
    rewrite <- (match_move_complete _ Hwf). f_equal.
    unfold render_groups. cbn [g_stone g_pickup g_file g_rank g_dir g_drops g_trail app].
    rewrite !app_nil_r. reflexivity.
  - reflexivity.
Qed.

(* re.search(move regex, s) succeeds with groups g exactly when match_move returns g;
   in particular the regex has at most one match on any subject (no backtracking choice) *)
Lemma move_matcher s cp :
  search E move_re s cp <-> exists g, match_move s = Some g /\ cp = caps_of g.
Proof.
  split; [apply move_re_sound|].
  intros (g & Hg & ->). destruct (match_move_sound s g Hg) as [-> Hwf].
  exists [], (render_groups g), []. split; [rewrite app_nil_r; reflexivity|].
  apply move_re_complete. exact Hwf.
Qed.

(* ------------------------------------------------------------------ *)
(* the result-marker regex = is_result                                  *)
(* ------------------------------------------------------------------ *)
Lemma alt_inv a b pre s post cp :
  matches E (Alt a b) pre s post cp -> matches E a pre s post cp \/ matches E b pre s post cp.
Proof. intros H. inversion H; subst; [left|right]; assumption. Qed.

Lemma half_matches pre s post cp : matches E half_re pre s post cp <-> cp = [] /\ In s result_halves.
Proof.
  unfold half_re, result_halves. split.
  - intros H.
    apply alt_inv in H. destruct H as [H|H]; [apply chr_inv in H; destruct H as [-> ->]; cbn; tauto|].
    apply alt_inv in H. destruct H as [H|H]; [apply chr_inv in H; destruct H as [-> ->]; cbn; tauto|].
    apply alt_inv in H. destruct H as [H|H]; [apply chr_inv in H; destruct H as [-> ->]; cbn; tauto|].
    apply alt_inv in H. destruct H as [H|H]; [apply chr_inv in H; destruct H as [-> ->]; cbn; tauto|].
    apply seq_inv in H. destruct H as (s1 & t & c1 & k & -> & -> & H1 & H).
    apply seq_inv in H. destruct H as (s2 & s3 & c2 & c3 & -> & -> & H2 & H3).
    apply chr_inv in H1. apply chr_inv in H2. apply chr_inv in H3.
    destruct H1 as [-> ->], H2 as [-> ->], H3 as [-> ->]. cbn. tauto.
  - intros [-> H]. cbn [In] in H. destruct H as [<-|[<-|[<-|[<-|[<-|[]]]]]].
    + apply MAltL. apply MChr.
    + apply MAltR, MAltL. apply MChr.
    + apply MAltR, MAltR, MAltL. apply MChr.
    + apply MAltR, MAltR, MAltR, MAltL. apply MChr.
    + apply MAltR, MAltR, MAltR, MAltR.
      eapply (seq_intro _ _ pre [49] [47; 50] post _ _ _ [] []); [apply MChr| |reflexivity|reflexivity|reflexivity|reflexivity].
      eapply (seq_intro _ _ _ [47] [50] post _ _ _ [] []); [apply MChr|apply MChr|reflexivity|reflexivity|reflexivity|reflexivity].
Qed.

(* re.search(result regex, t) succeeds exactly when is_result t; the captured halves are then determined *)
Lemma result_matcher t cp :
  search E result_re t cp <->
  exists a b, In a result_halves /\ In b result_halves /\ t = a ++ 45 :: b /\ cp = [(1%nat, a); (2%nat, b)].
Proof.
  split.
  - intros (pre & s & post & -> & H). unfold result_re in H.
    apply seq_inv in H. destruct H as (s0 & t1 & c0 & k1 & -> & -> & H0 & H).
    apply bos_inv in H0. destruct H0 as (-> & -> & ->). cbn [app] in *.
    apply seq_inv in H. destruct H as (a & t2 & c1 & k2 & -> & -> & G1 & H).
    apply group_inv in G1. destruct G1 as (c1' & -> & G1). apply half_matches in G1. destruct G1 as [-> Ha].
    apply seq_inv in H. destruct H as (m & t3 & c2 & k3 & -> & -> & Hm & H).
    apply chr_inv in Hm. destruct Hm as [-> ->].
    apply seq_inv in H. destruct H as (b & e & c3 & c4 & -> & -> & G2 & He).
    apply group_inv in G2. destruct G2 as (c3' & -> & G2). apply half_matches in G2. destruct G2 as [-> Hb].
    apply eos_inv in He. destruct He as (-> & -> & ->).
    exists a, b. rewrite !app_nil_r. repeat split; assumption.
  - intros (a & b & Ha & Hb & -> & ->). exists [], (a ++ 45 :: b), []. split; [rewrite app_nil_r; reflexivity|].
    unfold result_re.
    eapply seq_intro; [apply MBos| |reflexivity|reflexivity|reflexivity|reflexivity]. cbn [app].
    eapply (seq_intro _ _ _ a); [apply MGroup; apply half_matches; split; [reflexivity|exact Ha]
                                | |reflexivity|reflexivity|reflexivity|reflexivity]. cbn [app].
    eapply (seq_intro _ _ _ [45]); [apply MChr| |reflexivity|reflexivity|reflexivity|reflexivity]. cbn [app].
    eapply (seq_intro _ _ _ b [] []); [apply MGroup; apply half_matches; split; [reflexivity|exact Hb]
                                      |apply MEos|reflexivity|reflexivity|rewrite app_nil_r; reflexivity|reflexivity].
Qed.

Lemma is_result_matcher t : is_result t = true <-> exists cp, search E result_re t cp.
Proof.
  split.
  - intros H. unfold is_result in H. apply existsb_exists in H. destruct H as (a & Ha & H).
    apply existsb_exists in H. destruct H as (b & Hb & H). apply str_eqb_eq in H.
    exists [(1%nat, a); (2%nat, b)]. apply result_matcher. exists a, b. repeat split; assumption.
  - intros (cp & H). apply result_matcher in H. destruct H as (a & b & Ha & Hb & -> & _).
    unfold is_result. apply existsb_exists. exists a. split; [exact Ha|].
    apply existsb_exists. exists b. split; [exact Hb|apply str_eqb_refl].
Qed.

(* ------------------------------------------------------------------ *)
(* the move-number regex = is_move_number                               *)
(* ------------------------------------------------------------------ *)
Lemma digits_then_dot_spec t :
  digits_then_dot t = true <->
  exists ds, ds <> [] /\ Forall (fun c => is_digit c = true) ds /\ t = ds ++ [46].
Proof.
  split.
  - induction t as [|c r IH]; cbn [digits_then_dot]; intros H; [discriminate|].
    apply andb_true_iff in H. destruct H as [Hc H]. apply orb_true_iff in H. destruct H as [H|H].
    + apply str_eqb_eq in H. subst r. exists [c]. split; [discriminate|]. split; [constructor; [exact Hc|constructor]|reflexivity].
    + destruct (IH H) as (ds & Hne & Hd & ->). exists (c :: ds). split; [discriminate|].
      split; [constructor; assumption|reflexivity].
  - intros (ds & Hne & Hd & ->). induction Hd as [|c ds Hc Hd IH]; [congruence|].
    cbn [app digits_then_dot]. rewrite Hc. cbn [andb]. destruct ds as [|c' ds'].
    + reflexivity.
    + rewrite IH by discriminate. apply orb_true_r.
Qed.

Lemma is_move_number_matcher t : is_move_number t = true <-> exists cp, search E number_re t cp.
Proof.
  unfold is_move_number. rewrite digits_then_dot_spec. split.
  - intros (ds & Hne & Hd & ->). exists [], [], (ds ++ [46]), []. split; [rewrite app_nil_r; reflexivity|].
    unfold number_re.
    eapply seq_intro; [apply MBos| |reflexivity|reflexivity|reflexivity|reflexivity]. cbn [app].
    eapply (seq_intro _ _ _ ds); [apply (plus_intro _ _ (one_char_esc EscD)); [exact Hne|exact Hd]
                                 | |reflexivity|reflexivity|reflexivity|reflexivity]. cbn [app].
    eapply (seq_intro _ _ _ [46] [] []); [apply MChr|apply MEos|reflexivity|reflexivity|reflexivity|reflexivity].
  - intros (cp & pre & s & post & -> & H). unfold number_re in H.
    apply seq_inv in H. destruct H as (s0 & t1 & c0 & k1 & -> & -> & H0 & H).
    apply bos_inv in H0. destruct H0 as (-> & -> & ->). cbn [app] in *.
    apply seq_inv in H. destruct H as (ds & t2 & c1 & k2 & -> & -> & Hp & H).
    apply (plus_inv _ _ (one_char_esc EscD)) in Hp. destruct Hp as (-> & Hne & Hd).
    apply seq_inv in H. destruct H as (m & e & c2 & c3 & -> & -> & Hm & He).
    apply chr_inv in Hm. destruct Hm as [-> ->]. apply eos_inv in He. destruct He as (-> & -> & ->).
    exists ds. rewrite !app_nil_r. repeat split; assumption.
Qed.

(* ------------------------------------------------------------------ *)
(* the annotation-suffix regex and re.sub(..., "", t) = strip_suffix    *)
(* ------------------------------------------------------------------ *)
Lemma items_suffix c : in_items c [Single 39; Single 33; Single 63] = is_suffix_char c.
Proof.
  unfold in_items, is_suffix_char. cbn [existsb in_item].
  destruct (c =? 39), (c =? 33), (c =? 63); reflexivity.
Qed.

Lemma suffix_match pre s post cp :
  matches E suffix_re pre s post cp <->
  cp = [] /\ s <> [] /\ Forall (fun c => is_suffix_char c = true) s /\ (post = [] \/ post = [10]).
Proof.
  unfold suffix_re. split.
  - intros H. apply seq_inv in H. destruct H as (s1 & e & c1 & c2 & -> & -> & Hp & He).
    apply (plus_inv _ _ (one_char_cls _)) in Hp. destruct Hp as (-> & Hne & Hs).
    apply eol_inv in He. destruct He as (Hpost & -> & ->). rewrite !app_nil_r. cbn [app].
    repeat split; try assumption.
    eapply Forall_impl; [|exact Hs]. intros c Hc. cbn beta in Hc. rewrite items_suffix in Hc. exact Hc.
  - intros (-> & Hne & Hs & Hpost).
    eapply (seq_intro _ _ pre s [] post _ _ _ [] []); [| |reflexivity|reflexivity|rewrite app_nil_r; reflexivity|reflexivity].
    + apply (plus_intro _ _ (one_char_cls _)); [exact Hne|].
      eapply Forall_impl; [|exact Hs]. intros c Hc. cbn beta. rewrite items_suffix. exact Hc.
    + apply MEol. exact Hpost.
Qed.

(* strip_suffix cuts t into a prefix that is empty or ends in a non-suffix
   character, and the (maximal) run of suffix characters after it *)
Lemma strip_suffix_decomp t :
  exists suf, t = strip_suffix t ++ suf /\ Forall (fun c => is_suffix_char c = true) suf /\
              (strip_suffix t = [] \/ exists p c, strip_suffix t = p ++ [c] /\ is_suffix_char c = false).
Proof.
  induction t as [|c r (suf & Er & Hs & Hlast)]; [exists []; repeat split; [constructor|left; reflexivity]|].
  cbn [strip_suffix]. destruct (strip_suffix r) as [|x r'] eqn:Es.
  - cbn [app] in Er. subst r. destruct (is_suffix_char c) eqn:Ec.
    + exists (c :: suf). split; [reflexivity|]. split; [constructor; assumption|left; reflexivity].
    + exists suf. split; [reflexivity|]. split; [exact Hs|]. right. exists [], c. split; [reflexivity|exact Ec].
  - exists suf. split; [rewrite Er at 1; reflexivity|]. split; [exact Hs|]. right.
    destruct Hlast as [Hl|(p & c' & Hp & Hc')]; [discriminate|].
    exists (c :: p), c'. split; [rewrite Hp; reflexivity|exact Hc'].
Qed.

(* re.sub(suffix regex, "", t) for a token t (no newline inside): if the
   regex matches nowhere, t is unchanged; otherwise the LEFTMOST match starts
   right after strip_suffix t, at that start the match is unique and reaches
   the end of t, so the substitution leaves exactly strip_suffix t.
   (The leftmost-start rule of re is used here; no greedy/priority choice is
   needed because the match at that start is unique.) *)
Lemma strip_suffix_is_sub t :
  ~ In 10 t ->
  exists suf, t = strip_suffix t ++ suf /\
    (suf = [] -> forall pre s post cp, t = pre ++ s ++ post -> ~ matches E suffix_re pre s post cp) /\
    (suf <> [] ->
       matches E suffix_re (strip_suffix t) suf [] [] /\
       (forall pre s post cp, t = pre ++ s ++ post -> matches E suffix_re pre s post cp ->
                              (length (strip_suffix t) <= length pre)%nat) /\
       (forall s post cp, suf = s ++ post -> matches E suffix_re (strip_suffix t) s post cp -> s = suf /\ post = [])).
Proof.
  intros Hnl. destruct (strip_suffix_decomp t) as (suf & Et & Hs & Hlast).
  exists suf. split; [exact Et|].
  (* any match inside t ends at the end of t *)
  assert (Hend : forall pre s post cp, t = pre ++ s ++ post -> matches E suffix_re pre s post cp ->
                                       post = [] /\ s <> [] /\ Forall (fun c => is_suffix_char c = true) s).
  { intros pre s post cp E0 H. apply suffix_match in H. destruct H as (_ & Hne & Hall & [->| ->]).
    - repeat split; assumption.
    - exfalso. apply Hnl. rewrite E0. apply in_or_app. right. apply in_or_app. right. left. reflexivity. }
  (* a match cannot cover a non-suffix character *)
  assert (Hcover : forall pre s p c, pre ++ s = (p ++ [c]) ++ suf -> is_suffix_char c = false ->
                                     Forall (fun c => is_suffix_char c = true) s -> (length (p ++ [c]) <= length pre)%nat).
  { intros pre s p c E0 Hc Hall. apply app_eq_app in E0. destruct E0 as (l & [[E1 E2]|[E1 E2]]).
    - rewrite E1, !app_length. lia.
    - destruct l as [|x l']; [rewrite app_nil_r in E1; rewrite E1; lia|]. exfalso.
      assert (Hin : In c s).
      { rewrite E2. apply in_or_app. left.
        destruct (exists_last (l := x :: l') ltac:(discriminate)) as (l0 & y & El). rewrite El in *.
        rewrite app_assoc in E1. apply app_inj_tail in E1. destruct E1 as [_ ->].
        apply in_or_app. right. left. reflexivity. }
      rewrite Forall_forall in Hall. specialize (Hall c Hin). congruence. }
  split.
  - intros -> pre s post cp E0 H. destruct (Hend pre s post cp E0 H) as (-> & Hne & Hall).
    rewrite app_nil_r in *. destruct Hlast as [Hl|(p & c & Hp & Hc)].
    + rewrite Hl in Et. cbn in Et. rewrite Et in E0. destruct pre; destruct s; try discriminate. congruence.
    + rewrite Hp in Et. rewrite Et in E0. symmetry in E0.
      assert (E0' : pre ++ s = (p ++ [c]) ++ []) by (rewrite app_nil_r; exact E0).
      pose proof (Hcover pre s p c E0' Hc Hall) as Hlen.
      apply (f_equal (@length Z)) in E0. rewrite !app_length in *. cbn [length] in *.
      destruct s; [congruence|]. cbn [length] in *. lia.
  - intros Hne. split; [|split].
    + apply suffix_match. repeat split; try assumption. left; reflexivity.
    + intros pre s post cp E0 H. destruct (Hend pre s post cp E0 H) as (-> & Hne' & Hall).
      rewrite app_nil_r in E0. destruct Hlast as [Hl|(p & c & Hp & Hc)]; [rewrite Hl; cbn; lia|].
      rewrite Hp. apply (Hcover pre s p c); [|exact Hc|exact Hall]. rewrite <- Hp, <- Et, E0. reflexivity.
    + intros s post cp E0 H. apply suffix_match in H. destruct H as (_ & _ & _ & [->| ->]).
      * rewrite app_nil_r in E0. split; [symmetry; exact E0|reflexivity].
      * exfalso. apply Hnl. rewrite Et, E0. apply in_or_app. right. apply in_or_app. right. left. reflexivity.
Qed.

(* ------------------------------------------------------------------ *)
(* the comment regex and re.sub(..., " ", tail) = sub_comments          *)
(* ------------------------------------------------------------------ *)
Lemma comment_match pre mt post cp :
  matches E comment_re pre mt post cp <->
  cp = [] /\ exists body, body <> [] /\ Forall (fun c => c <> 125) body /\ mt = 123 :: body ++ [125].
Proof.
  unfold comment_re. split.
  - intros H. apply seq_inv in H. destruct H as (s1 & t & c1 & k & -> & -> & H1 & H).
    apply chr_inv in H1. destruct H1 as [-> ->].
    apply seq_inv in H. destruct H as (body & s3 & c2 & c3 & -> & -> & H2 & H3).
    apply (plus_inv _ _ (one_char_notcls _)) in H2. destruct H2 as (-> & Hne & Hb).
    apply chr_inv in H3. destruct H3 as [-> ->].
    split; [reflexivity|]. exists body. split; [exact Hne|]. split; [|reflexivity].
    eapply Forall_impl; [|exact Hb]. intros c Hc. cbn beta in Hc. unfold in_items in Hc. cbn [existsb in_item] in Hc.
    intros ->. discriminate.
  - intros (-> & body & Hne & Hb & ->).
    eapply (seq_intro _ _ pre [123] (body ++ [125]) post _ _ _ [] []); [apply MChr| |reflexivity|reflexivity|reflexivity|reflexivity].
    eapply (seq_intro _ _ _ body [125] post _ _ _ [] []); [|apply MChr|reflexivity|reflexivity|reflexivity|reflexivity].
    apply (plus_intro _ _ (one_char_notcls _)); [exact Hne|].
    eapply Forall_impl; [|exact Hb]. intros c Hc. cbn beta in *. unfold in_items. cbn [existsb in_item].
    destruct (Z.eqb_spec c 125); [contradiction|reflexivity].
Qed.

Lemma comment_len_some r : forall seen n,
  comment_len r seen = Some n ->
  exists body rest, r = body ++ 125 :: rest /\ Forall (fun c => c <> 125) body /\
                    n = S (seen + length body) /\ (seen + length body)%nat <> 0%nat.
Proof.
  induction r as [|c r IH]; intros seen n; cbn [comment_len]; [discriminate|].
  destruct (Z.eqb_spec c 125) as [->|Hc].
  - destruct seen as [|k]; [discriminate|]. intros H. injection H as <-.
    exists [], r. cbn [app length]. rewrite Nat.add_0_r. repeat split; [constructor|discriminate].
  - intros H. destruct (IH _ _ H) as (body & rest & -> & Hb & -> & Hnz).
    exists (c :: body), rest. cbn [app length]. rewrite Nat.add_succ_r in *. repeat split; [constructor; assumption|exact Hnz].
Qed.

(* a brace-free run followed by a closing brace is cut in one way only *)
Lemma first_brace_unique b1 r1 b2 r2 :
  Forall (fun c => c <> 125) b1 -> Forall (fun c => c <> 125) b2 ->
  b1 ++ 125 :: r1 = b2 ++ 125 :: r2 -> b1 = b2 /\ r1 = r2.
Proof.
  intros H1. revert b2. induction H1 as [|c b1 Hc H1 IH]; intros b2 H2 E0.
  - destruct H2 as [|c2 b2 Hc2 H2]; cbn [app] in E0; [injection E0 as <-; split; reflexivity|].
    injection E0 as <- _. congruence.
  - destruct H2 as [|c2 b2 Hc2 H2]; cbn [app] in E0.
    + injection E0 as -> _. congruence.
    + injection E0 as <- E0. destruct (IH b2 H2 E0) as [-> ->]. split; reflexivity.
Qed.

(* pushing one unmatched character in front of a finished substitution *)
Lemma resub_cons r rep ctx c s out :
  (forall mt b cp, c :: s = mt ++ b -> ~ matches E r ctx mt b cp) ->
  resub E r rep (ctx ++ [c]) s out -> resub E r rep ctx (c :: s) (c :: out).
Proof.
  intros Hstart H. inversion H as [ctx0 s0 Hnone|ctx0 a mt b cp out' Hne Hm Hleft Huniq Hrest]; subst.
  - apply resub_none. intros a mt b cp E0 Hm. destruct a as [|x a'].
    + rewrite app_nil_r in Hm. exact (Hstart mt b cp E0 Hm).
    + cbn [app] in E0. injection E0 as <- ->. apply (Hnone a' mt b cp eq_refl).
      rewrite <- app_assoc. exact Hm.
  - change (c :: a ++ mt ++ b) with ((c :: a) ++ mt ++ b). change (c :: a ++ rep ++ out') with ((c :: a) ++ rep ++ out').
    apply (resub_hit E r rep ctx (c :: a) mt b cp out' Hne).
    + rewrite <- app_assoc in Hm. exact Hm.
    + intros a' mt' b' c' E0 Hm'. destruct a' as [|x a''].
      * exfalso. rewrite app_nil_r in Hm'. exact (Hstart mt' b' c' E0 Hm').
      * cbn [app] in E0. injection E0 as <- E0. cbn [length]. apply le_n_S.
        apply (Hleft a'' mt' b' c' E0). rewrite <- app_assoc. exact Hm'.
    + intros mt' b' c' E0 Hm'. apply (Huniq mt' b' c' E0). rewrite <- app_assoc. exact Hm'.
    + rewrite <- app_assoc in Hrest. exact Hrest.
Qed.

Lemma sub_comments_is_sub_n n : forall s ctx, (length s <= n)%nat -> resub E comment_re [32] ctx s (sub_comments s 0).
Proof.
  induction n as [|n IH]; intros s ctx Hlen.
  - destruct s; [|cbn [length] in Hlen; lia]. apply resub_none. intros a mt b c E0 Hm.
    apply comment_match in Hm. destruct Hm as (_ & body & _ & _ & ->). destruct a; discriminate.
  - destruct s as [|c r]; [apply (IH [] ctx); cbn; lia|]. cbn [length] in Hlen.
    assert (Hr : (length r <= n)%nat) by lia.
    cbn [sub_comments]. destruct (Z.eqb_spec c 123) as [->|Hc].
    + destruct (comment_len r 0) as [k|] eqn:Ek.
      * destruct (comment_len_some r 0 k Ek) as (body & rest & -> & Hb & -> & Hnz). cbn [Nat.add] in *.
        assert (Hbne : body <> []) by (destruct body; [cbn in Hnz; congruence|discriminate]).
        (* the skip counter jumps to the text after the closing brace *)
        replace (sub_comments (body ++ 125 :: rest) (S (length body))) with (sub_comments rest 0).
        2:{ replace (body ++ 125 :: rest) with ((body ++ [125]) ++ rest) by (rewrite <- app_assoc; reflexivity).
            replace (S (length body)) with (length (body ++ [125])) by (rewrite app_length; cbn [length]; lia).
            symmetry. apply sub_skip. }
        change (123 :: body ++ 125 :: rest) with ([] ++ (123 :: body ++ 125 :: rest)).
        replace (123 :: body ++ 125 :: rest) with ((123 :: body ++ [125]) ++ rest)
          by (cbn [app]; rewrite <- app_assoc; reflexivity).
        change (32 :: sub_comments rest 0) with ([] ++ [32] ++ sub_comments rest 0).
        apply (resub_hit E comment_re [32] ctx [] (123 :: body ++ [125]) rest []).
        -- discriminate.
        -- apply comment_match. split; [reflexivity|]. exists body. repeat split; assumption.
        -- intros a' mt' b' c' _ _. cbn [length]. lia.
        -- intros mt' b' c' E0 Hm. apply comment_match in Hm. destruct Hm as (_ & body' & _ & Hb' & ->).
           cbn [app] in E0. rewrite <- !app_assoc in E0. cbn [app] in E0. injection E0 as E0.
           destruct (first_brace_unique body rest body' b' Hb Hb' E0) as [-> _]. reflexivity.
        -- apply IH. rewrite app_length in Hr. cbn [length] in Hr. lia.
      * apply resub_cons; [|apply IH; exact Hr].
        intros mt b cp E0 Hm. apply comment_match in Hm. destruct Hm as (_ & body & Hne & Hb & ->).
        cbn [app] in E0. rewrite <- app_assoc in E0. cbn [app] in E0. injection E0 as ->.
        rewrite (comment_len_run body b 0 Hb) in Ek. cbn [Nat.add] in Ek.
        destruct body; [congruence|discriminate].
    + apply resub_cons; [|apply IH; exact Hr].
      intros mt b cp E0 Hm. apply comment_match in Hm. destruct Hm as (_ & body & _ & _ & ->).
      cbn [app] in E0. injection E0 as -> _. congruence.
Qed.

(* re.sub(comment regex, " ", tail) = sub_comments tail 0 *)
Lemma sub_comments_is_sub s ctx : resub E comment_re [32] ctx s (sub_comments s 0).
Proof. apply (sub_comments_is_sub_n (length s)). lia. Qed.

(* ------------------------------------------------------------------ *)
(* the split regex: one match = a non-empty run of white space          *)
(* (the splitting function re_split_ws, which needs the greedy-longest   *)
(*  rule at each start, is validated by the correspondence only)         *)
(* ------------------------------------------------------------------ *)
Lemma space_re_match_partial pre s post cp :
  matches E space_re pre s post cp <-> cp = [] /\ s <> [] /\ Forall (fun c => is_space c = true) s.
Proof.
  unfold space_re. split.
  - intros H. apply (plus_inv _ _ (one_char_esc EscS)) in H. exact H.
  - intros (-> & Hne & Hs). apply (plus_intro _ _ (one_char_esc EscS)); assumption.
Qed.

(* ------------------------------------------------------------------ *)
(* the tag regex: one attempt at a line start = try_tag                 *)
(* (the re.findall scan over the head, scan_tags, and dict() are         *)
(*  validated by the correspondence only)                                *)
(* ------------------------------------------------------------------ *)
Lemma escw_word c : E EscW c = true <-> word_class c = Some true.
Proof. cbn [E]. destruct (word_class c) as [[|]|]; split; intros H; try reflexivity; discriminate. Qed.

Lemma take_word_spec s : forall a b,
  take_word s = Some (a, b) -> s = a ++ b /\ Forall (fun c => word_class c = Some true) a.
Proof.
  induction s as [|c r IH]; intros a b; cbn [take_word].
  - intros H. injection H as <- <-. split; [reflexivity|constructor].
  - destruct (word_class c) as [[|]|] eqn:Ec; [|intros H; injection H as <- <-; split; [reflexivity|constructor]|discriminate].
    destruct (take_word r) as [[a' b']|]; [|discriminate]. intros H. injection H as <- <-.
    destruct (IH a' b' eq_refl) as [-> Ha]. split; [reflexivity|constructor; assumption].
Qed.
Lemma take_nonquote_spec s : forall a b,
  take_nonquote s = (a, b) -> s = a ++ b /\ Forall (fun c => c <> 34) a.
Proof.
  induction s as [|c r IH]; intros a b; cbn [take_nonquote].
  - intros H. injection H as <- <-. split; [reflexivity|constructor].
  - destruct (Z.eqb_spec c 34) as [->|Hc]; [intros H; injection H as <- <-; split; [reflexivity|constructor]|].
    destruct (take_nonquote r) as [a' b']. intros H. injection H as <- <-.
    destruct (IH a' b' eq_refl) as [-> Ha]. split; [reflexivity|constructor; assumption].
Qed.

Definition line_start (pre : list Z) : Prop := pre = [] \/ exists p, pre = p ++ [10].

Lemma tag_re_intro pre k v post :
  line_start pre -> k <> [] -> Forall (fun c => word_class c = Some true) k ->
  v <> [] -> Forall (fun c => c <> 34) v -> at_eol post = true ->
  matches E tag_re pre (91 :: k ++ 32 :: 34 :: v ++ [34; 93]) post [(1%nat, k); (2%nat, v)].
Proof.
  intros Hpre Hk0 Hk Hv0 Hv Hpost. unfold tag_re.
  eapply (seq_intro _ _ pre [] _ post _ _ _ [] _); [apply MBolM; exact Hpre| |reflexivity|reflexivity|reflexivity|reflexivity].
  eapply (seq_intro _ _ _ [91] _ post _ _ _ [] _); [apply MChr| |reflexivity|reflexivity|reflexivity|reflexivity].
  eapply (seq_intro _ _ _ k _ post _ _ _ [(1%nat, k)] _);
    [apply (MGroup E 1 _ _ k _ []); apply (plus_intro _ _ (one_char_esc EscW)); [exact Hk0|];
     eapply Forall_impl; [|exact Hk]; intros c Hc; apply escw_word; exact Hc
    | |reflexivity|reflexivity|reflexivity|reflexivity].
  eapply (seq_intro _ _ _ [32] _ post _ _ _ [] _); [apply MChr| |reflexivity|reflexivity|reflexivity|reflexivity].
  eapply (seq_intro _ _ _ [34] _ post _ _ _ [] _); [apply MChr| |reflexivity|reflexivity|reflexivity|reflexivity].
  eapply (seq_intro _ _ _ v [34; 93] post _ _ _ [(2%nat, v)] []);
    [apply (MGroup E 2 _ _ v _ []); apply (plus_intro _ _ (one_char_notcls _)); [exact Hv0|];
     eapply Forall_impl; [|exact Hv]; intros c Hc; cbn beta in *; unfold in_items; cbn [existsb in_item];
     destruct (Z.eqb_spec c 34); [contradiction|reflexivity]
    | |reflexivity|reflexivity|reflexivity|reflexivity].
  eapply (seq_intro _ _ _ [34] [93] post _ _ _ [] []); [apply MChr| |reflexivity|reflexivity|reflexivity|reflexivity].
  eapply (seq_intro _ _ _ [93] [] post _ _ _ [] []); [apply MChr| |reflexivity|reflexivity|reflexivity|reflexivity].
  apply MEolM. destruct post as [|c q]; [left; reflexivity|right]. cbn [at_eol] in Hpost. apply Z.eqb_eq in Hpost. subst c.
  exists q. reflexivity.
Qed.

Lemma bolm_inv pre s post cp : matches E BolM pre s post cp -> line_start pre /\ s = [] /\ cp = [].
Proof. intros H. inversion H; subst. repeat split. assumption. Qed.
Lemma eolm_inv pre s post cp :
  matches E EolM pre s post cp -> (post = [] \/ exists q, post = 10 :: q) /\ s = [] /\ cp = [].
Proof. intros H. inversion H; subst. repeat split. assumption. Qed.

(* an accepted attempt of try_tag is a match of the tag regex with these two groups ... *)
Lemma try_tag_matches text k v n :
  try_tag text = TagOk k v n ->
  exists s post, text = s ++ post /\ n = length s /\
                 forall pre, line_start pre -> matches E tag_re pre s post [(1%nat, k); (2%nat, v)].
Proof.
  destruct text as [|c0 r1]; cbn [try_tag]; [discriminate|].
  destruct (Z.eqb_spec c0 91) as [->|]; cbn [negb]; [|discriminate].
  destruct (take_word r1) as [[key r2]|] eqn:Ew; [|discriminate].
  destruct key as [|k0 key']; cbn [nonempty negb]; [discriminate|].
  destruct r2 as [|sp [|q r3]]; try discriminate.
  destruct (Z.eqb_spec sp 32) as [->|]; cbn [andb negb]; [|discriminate].
  destruct (Z.eqb_spec q 34) as [->|]; cbn [andb negb]; [|discriminate].
  destruct (take_nonquote r3) as [val r4] eqn:Ev.
  destruct r4 as [|q2 [|b r5]]; try discriminate.
  destruct (Z.eqb_spec q2 34) as [->|]; cbn [andb negb]; [|discriminate].
  destruct (Z.eqb_spec b 93) as [->|]; cbn [andb negb]; [|discriminate].
  destruct (at_eol r5) eqn:Eeol; cbn [negb]; [|discriminate].
  destruct val as [|v0 val']; cbn [nonempty]; [discriminate|].
  intros H. injection H as <- <- <-.
  apply take_word_spec in Ew. destruct Ew as [-> Hk].
  apply take_nonquote_spec in Ev. destruct Ev as [-> Hv].
  exists (91 :: (k0 :: key') ++ 32 :: 34 :: (v0 :: val') ++ [34; 93]), r5. split; [|split].
  - cbn [app]. f_equal. f_equal. rewrite <- !app_assoc. cbn [app]. f_equal. f_equal. f_equal. f_equal.
    rewrite <- app_assoc. reflexivity.
  - cbn [length app]. rewrite !app_length. cbn [length]. rewrite app_length. cbn [length]. lia.
  - intros pre Hpre. apply tag_re_intro; try assumption; discriminate.
Qed.

(* ... and a match of the tag regex at a line start is what try_tag accepts (so the match there is unique) *)
Lemma matches_try_tag pre s post cp :
  matches E tag_re pre s post cp ->
  exists k v, cp = [(1%nat, k); (2%nat, v)] /\ try_tag (s ++ post) = TagOk k v (length s).
Proof.
  unfold tag_re. intros H.
  apply seq_inv in H. destruct H as (s0 & t1 & c0 & k1 & -> & -> & H0 & H). apply bolm_inv in H0. destruct H0 as (_ & -> & ->). cbn [app] in *.
  apply seq_inv in H. destruct H as (s1 & t2 & c1 & k2 & -> & -> & H1 & H). apply chr_inv in H1. destruct H1 as [-> ->].
  apply seq_inv in H. destruct H as (k & t3 & c2 & k3 & -> & -> & H2 & H).
  apply group_inv in H2. destruct H2 as (c2' & -> & H2).
  apply (plus_inv _ _ (one_char_esc EscW)) in H2. destruct H2 as (-> & Hk0 & Hk).
  apply seq_inv in H. destruct H as (s3 & t4 & c3 & k4 & -> & -> & H3 & H). apply chr_inv in H3. destruct H3 as [-> ->].
  apply seq_inv in H. destruct H as (s4 & t5 & c4 & k5 & -> & -> & H4 & H). apply chr_inv in H4. destruct H4 as [-> ->].
  apply seq_inv in H. destruct H as (v & t6 & c5 & k6 & -> & -> & H5 & H).
  apply group_inv in H5. destruct H5 as (c5' & -> & H5).
  apply (plus_inv _ _ (one_char_notcls _)) in H5. destruct H5 as (-> & Hv0 & Hv).
  apply seq_inv in H. destruct H as (s6 & t7 & c6 & k7 & -> & -> & H6 & H). apply chr_inv in H6. destruct H6 as [-> ->].
  apply seq_inv in H. destruct H as (s7 & s8 & c7 & c8 & -> & -> & H7 & H8). apply chr_inv in H7. destruct H7 as [-> ->].
  apply eolm_inv in H8. destruct H8 as (Hpost & -> & ->).
  exists k, v. split; [reflexivity|].
  assert (Hkw : Forall (fun c => word_class c = Some true) k).
  { eapply Forall_impl; [|exact Hk]. intros c Hc. apply escw_word. exact Hc. }
  assert (Hvq : Forall (fun c => c <> 34) v).
  { eapply Forall_impl; [|exact Hv]. intros c Hc. cbn beta in Hc. unfold in_items in Hc. cbn [existsb in_item] in Hc.
    intros ->. discriminate. }
  cbn [app]. rewrite <- !app_assoc. cbn [app]. cbn [try_tag]. change (91 =? 91) with true. cbn [negb].
  rewrite take_word_run; [|exact Hkw|exists 32; eexists; split; reflexivity].
  destruct k as [|k0 k']; [congruence|]. cbn [nonempty negb].
  change (32 =? 32) with true. change (34 =? 34) with true. cbn [andb negb].
  rewrite <- app_assoc. cbn [app].
  rewrite take_nonquote_run by exact Hvq.
  change (93 =? 93) with true.
  assert (Heol : at_eol post = true).
  { destruct Hpost as [->|(q & ->)]; [reflexivity|cbn [at_eol]; reflexivity]. }
  rewrite Heol. cbn [andb negb]. destruct v as [|v0 v']; [congruence|]. cbn [nonempty].
  change (34 =? 34) with true. cbn [andb negb]. f_equal. cbn [length]. rewrite !app_length. cbn [length]. rewrite app_length. cbn [length]. lia.
Qed.

(* one attempt of the tag regex at a line start = try_tag, both directions;
   partial: the findall scan (scan_tags) and dict() are not tied to a regex semantics *)
Lemma tag_attempt_partial :
  (forall text k v n, try_tag text = TagOk k v n ->
     exists s post, text = s ++ post /\ n = length s /\
                    forall pre, line_start pre -> matches E tag_re pre s post [(1%nat, k); (2%nat, v)]) /\
  (forall pre s post cp, matches E tag_re pre s post cp ->
     exists k v, cp = [(1%nat, k); (2%nat, v)] /\ try_tag (s ++ post) = TagOk k v (length s)).
Proof. split; [exact try_tag_matches|exact matches_try_tag]. Qed.

(* all seven text ties together *)
Lemma regex_ast_text :
  length Consts.ptn_regexes = 7%nat /\
  show tag_re = nth 0 Consts.ptn_regexes [] /\ show comment_re = nth 1 Consts.ptn_regexes [] /\
  show space_re = nth 2 Consts.ptn_regexes [] /\ show result_re = nth 3 Consts.ptn_regexes [] /\
  show number_re = nth 4 Consts.ptn_regexes [] /\ show suffix_re = nth 5 Consts.ptn_regexes [] /\
  show move_re = nth 6 Consts.ptn_regexes [] /\
  forallb syntax_ok [tag_re; comment_re; space_re; result_re; number_re; suffix_re; move_re] = true.
Proof.
  split; [exact regex_count|].
  split; [exact (proj1 tag_re_text)|]. split; [exact (proj1 comment_re_text)|].
  split; [exact (proj1 space_re_text)|]. split; [exact (proj1 result_re_text)|].
  split; [exact (proj1 number_re_text)|]. split; [exact (proj1 suffix_re_text)|].
  split; [exact (proj1 move_re_text)|reflexivity].
Qed.

(* ------------------------------------------------------------------ *)
(* re.split(\s+, s) = re_split_ws s                                     *)
(* ------------------------------------------------------------------ *)
Definition nospace (c : Z) : Prop := is_space c = false.
Definition isspace (c : Z) : Prop := is_space c = true.

Lemma split_ws_run w b :
  w <> [] -> Forall isspace w -> head_is_space b = false -> split_ws (w ++ b) = ([], re_split_ws b).
Proof.
  intros Hne Hw Hb. induction Hw as [|c w Hc Hw IH]; [congruence|].
  cbn [app split_ws]. unfold isspace in Hc. rewrite Hc. destruct w as [|c' w'].
  - cbn [app]. rewrite Hb. unfold re_split_ws. destruct (split_ws b); reflexivity.
  - rewrite IH by discriminate. inversion Hw as [|? ? Hc' _]; subst. unfold isspace in Hc'.
    cbn [app head_is_space]. rewrite Hc'. reflexivity.
Qed.

Lemma re_split_ws_nospace s : Forall nospace s -> re_split_ws s = [s].
Proof.
  intros H. unfold re_split_ws. rewrite <- (app_nil_r s) at 1. rewrite (split_ws_token s [] H).
  cbn [split_ws fst snd]. rewrite app_nil_r. reflexivity.
Qed.

Lemma re_split_ws_cut a w b :
  Forall nospace a -> w <> [] -> Forall isspace w -> head_is_space b = false ->
  re_split_ws (a ++ w ++ b) = a :: re_split_ws b.
Proof.
  intros Ha Hne Hw Hb. unfold re_split_ws at 1. rewrite (split_ws_token a (w ++ b) Ha).
  rewrite (split_ws_run w b Hne Hw Hb). cbn [fst snd]. rewrite app_nil_r. reflexivity.
Qed.

Lemma ws_decomp s :
  Forall nospace s \/
  exists a w b, s = a ++ w ++ b /\ Forall nospace a /\ w <> [] /\ Forall isspace w /\ head_is_space b = false.
Proof.
  induction s as [|c r IH]; [left; constructor|].
  destruct (is_space c) eqn:Ec.
  - right. destruct IH as [Hr|(a & w & b & -> & Ha & Hne & Hw & Hb)].
    + exists [], [c], r. split; [reflexivity|]. split; [constructor|]. split; [discriminate|].
      split; [constructor; [exact Ec|constructor]|].
      destruct Hr as [|x r' Hx _]; [reflexivity|exact Hx].
    + destruct a as [|x a'].
      * exists [], (c :: w), b. split; [reflexivity|]. split; [constructor|]. split; [discriminate|].
        split; [constructor; [exact Ec|exact Hw]|exact Hb].
      * exists [], [c], ((x :: a') ++ w ++ b). split; [reflexivity|]. split; [constructor|]. split; [discriminate|].
        split; [constructor; [exact Ec|constructor]|].
        inversion Ha as [|? ? Hx _]; subst. exact Hx.
  - destruct IH as [Hr|(a & w & b & -> & Ha & Hne & Hw & Hb)].
    + left. constructor; assumption.
    + right. exists (c :: a), w, b. split; [reflexivity|]. split; [constructor; assumption|].
      split; [exact Hne|]. split; [exact Hw|exact Hb].
Qed.

Lemma resplit_space_n n : forall s ctx, (length s <= n)%nat -> resplit E space_re ctx s (re_split_ws s).
Proof.
  induction n as [|n IH]; intros s ctx Hlen.
  - destruct s; [|cbn [length] in Hlen; lia]. apply resplit_none. intros a mt b c E0 Hm.
    apply space_re_match_partial in Hm. destruct Hm as (_ & Hne & _). destruct a, mt; try discriminate. congruence.
  - destruct (ws_decomp s) as [Hs|(a & w & b & -> & Ha & Hne & Hw & Hb)].
    + rewrite (re_split_ws_nospace s Hs). apply resplit_none. intros a mt b c -> Hm.
      apply space_re_match_partial in Hm. destruct Hm as (_ & Hne & Hsp).
      destruct mt as [|x mt']; [congruence|]. inversion Hsp as [|? ? Hx _]; subst.
      rewrite Forall_forall in Hs. assert (Hin : In x (a ++ (x :: mt') ++ b)) by (apply in_or_app; right; left; reflexivity).
      specialize (Hs x Hin). unfold nospace in Hs. congruence.
    + rewrite (re_split_ws_cut a w b Ha Hne Hw Hb).
      apply (resplit_hit E space_re ctx a w b []).
      * exact Hne.
      * apply space_re_match_partial. repeat split; assumption.
      * intros a' mt' b' c' E0 Hm. apply space_re_match_partial in Hm. destruct Hm as (_ & Hne' & Hsp').
        apply app_eq_app in E0. destruct E0 as (l & [[E1 E2]|[E1 E2]]).
        -- destruct l as [|x l']; [rewrite app_nil_r in E1; subst; lia|]. exfalso.
           destruct mt' as [|y mt'']; [congruence|]. cbn [app] in E2. injection E2 as <- _.
           inversion Hsp' as [|? ? Hy _]; subst. rewrite Forall_forall in Ha.
           assert (Hin : In y (a' ++ y :: l')) by (apply in_or_app; right; left; reflexivity).
           specialize (Ha y Hin). unfold nospace in Ha. congruence.
        -- rewrite E1, app_length. lia.
      * intros mt' b' c' E0 Hm. apply space_re_match_partial in Hm. destruct Hm as (_ & _ & Hsp').
        apply app_eq_app in E0. destruct E0 as (l & [[E1 E2]|[E1 E2]]).
        -- rewrite E1, app_length. lia.
        -- destruct l as [|x l']; [rewrite app_nil_r in E1; subst; lia|]. exfalso.
           rewrite E2 in Hb. cbn [app head_is_space] in Hb. rewrite Forall_forall in Hsp'.
           assert (Hin : In x mt') by (rewrite E1; apply in_or_app; right; left; reflexivity).
           specialize (Hsp' x Hin). cbn beta in Hsp'. congruence.
      * apply IH. rewrite !app_length in Hlen. destruct w; [congruence|]. cbn [length] in Hlen. lia.
Qed.

(* re.split(split regex, s) = re_split_ws s: cut at the leftmost, longest white-space runs *)
Lemma re_split_ws_is_split s ctx : resplit E space_re ctx s (re_split_ws s).
Proof. apply (resplit_space_n (length s)). lia. Qed.

(* ------------------------------------------------------------------ *)
(* re.findall(tag regex, head, re.M) = scan_tags head                   *)
(* ------------------------------------------------------------------ *)
Lemma try_tag_shape text k v n :
  try_tag text = TagOk k v n ->
  exists post, text = (91 :: k ++ 32 :: 34 :: v ++ [34; 93]) ++ post /\
               n = length (91 :: k ++ 32 :: 34 :: v ++ [34; 93]) /\ at_eol post = true /\
               k <> [] /\ Forall (fun c => word_class c = Some true) k /\ v <> [] /\ Forall (fun c => c <> 34) v.
Proof.
  destruct text as [|c0 r1]; cbn [try_tag]; [discriminate|].
  destruct (Z.eqb_spec c0 91) as [->|]; cbn [negb]; [|discriminate].
  destruct (take_word r1) as [[key r2]|] eqn:Ew; [|discriminate].
  destruct key as [|k0 key']; cbn [nonempty negb]; [discriminate|].
  destruct r2 as [|sp [|q r3]]; try discriminate.
  destruct (Z.eqb_spec sp 32) as [->|]; cbn [andb negb]; [|discriminate].
  destruct (Z.eqb_spec q 34) as [->|]; cbn [andb negb]; [|discriminate].
  destruct (take_nonquote r3) as [val r4] eqn:Ev.
  destruct r4 as [|q2 [|b r5]]; try discriminate.
  destruct (Z.eqb_spec q2 34) as [->|]; cbn [andb negb]; [|discriminate].
  destruct (Z.eqb_spec b 93) as [->|]; cbn [andb negb]; [|discriminate].
  destruct (at_eol r5) eqn:Eeol; cbn [negb]; [|discriminate].
  destruct val as [|v0 val']; cbn [nonempty]; [discriminate|].
  intros H. injection H as <- <- <-.
  apply take_word_spec in Ew. destruct Ew as [-> Hk].
  apply take_nonquote_spec in Ev. destruct Ev as [-> Hv].
  exists r5. split; [|split; [|split; [exact Eeol|split; [discriminate|split; [exact Hk|split; [discriminate|exact Hv]]]]]].
  - cbn [app]. f_equal. f_equal. rewrite <- !app_assoc. cbn [app]. f_equal. f_equal. f_equal. f_equal.
    rewrite <- app_assoc. reflexivity.
  - cbn [length app]. rewrite !app_length. cbn [length]. rewrite app_length. cbn [length]. lia.
Qed.

Lemma line_start_snoc ctx c : line_start (ctx ++ [c]) <-> c = 10.
Proof.
  unfold line_start. split.
  - intros [H|(p & H)]; [destruct ctx; discriminate|]. apply app_inj_tail in H. tauto.
  - intros ->. right. exists ctx. reflexivity.
Qed.

Lemma app_same_length {A} (a a' b b' : list A) : a ++ b = a' ++ b' -> length a = length a' -> a = a'.
Proof.
  revert a'. induction a as [|x a IH]; intros [|y a'] E0 Hl; try discriminate; [reflexivity|].
  cbn [app length] in *. injection E0 as -> E0. f_equal. apply IH; [exact E0|lia].
Qed.

Lemma tag_match_line_start ctx mt b cp : matches E tag_re ctx mt b cp -> line_start ctx.
Proof.
  unfold tag_re. intros H. apply seq_inv in H. destruct H as (s0 & t & c0 & k & _ & _ & H0 & _).
  apply bolm_inv in H0. tauto.
Qed.

(* pushing one character at which no match starts in front of a finished findall *)
Lemma refindall2_cons r ctx c s out :
  (forall mt b cp, c :: s = mt ++ b -> ~ matches E r ctx mt b cp) ->
  refindall2 E r (ctx ++ [c]) s out -> refindall2 E r ctx (c :: s) out.
Proof.
  intros Hstart H. inversion H as [ctx0 s0 Hnone|ctx0 a mt b g1 g2 out' Hne Hm Hleft Huniq Hrest]; subst.
  - apply refindall2_none. intros a mt b cp E0 Hm. destruct a as [|x a'].
    + rewrite app_nil_r in Hm. exact (Hstart mt b cp E0 Hm).
    + cbn [app] in E0. injection E0 as <- ->. apply (Hnone a' mt b cp eq_refl). rewrite <- app_assoc. exact Hm.
  - change (c :: a ++ mt ++ b) with ((c :: a) ++ mt ++ b).
    apply (refindall2_hit E r ctx (c :: a) mt b g1 g2 out' Hne).
    + rewrite <- app_assoc in Hm. exact Hm.
    + intros a' mt' b' c' E0 Hm'. destruct a' as [|x a''].
      * exfalso. rewrite app_nil_r in Hm'. exact (Hstart mt' b' c' E0 Hm').
      * cbn [app] in E0. injection E0 as <- E0. cbn [length]. apply le_n_S.
        apply (Hleft a'' mt' b' c' E0). rewrite <- app_assoc. exact Hm'.
    + intros mt' b' c' E0 Hm'. apply (Huniq mt' b' c' E0). rewrite <- app_assoc. exact Hm'.
    + rewrite <- app_assoc in Hrest. exact Hrest.
Qed.

Lemma scan_tags_is_findall_n n : forall s ctx bol l,
  (length s <= n)%nat -> (bol = true <-> line_start ctx) -> scan_tags s bol 0 = Some l ->
  refindall2 E tag_re ctx s l.
Proof.
  induction n as [|n IH]; intros s ctx bol l Hlen Hbol Hscan.
  - destruct s; [|cbn [length] in Hlen; lia]. cbn in Hscan. injection Hscan as <-.
    apply refindall2_none. intros a mt b c E0 Hm. apply matches_try_tag in Hm. destruct Hm as (k & v & _ & Ht).
    destruct a, mt; try discriminate. destruct b; [|discriminate]. cbn in Ht. discriminate.
  - destruct s as [|c r]; [cbn in Hscan; injection Hscan as <-; apply (IH [] ctx bol); [cbn; lia|exact Hbol|reflexivity]|].
    cbn [length] in Hlen. assert (Hr : (length r <= n)%nat) by lia.
    assert (Hnext : forall l', scan_tags r (c =? 10) 0 = Some l' ->
                               (forall mt b cp, c :: r = mt ++ b -> ~ matches E tag_re ctx mt b cp) ->
                               refindall2 E tag_re ctx (c :: r) l').
    { intros l' Hs Hno. apply refindall2_cons; [exact Hno|]. apply (IH r (ctx ++ [c]) (c =? 10) l' Hr); [|exact Hs].
      rewrite line_start_snoc. apply Z.eqb_eq. }
    cbn [scan_tags] in Hscan. destruct bol.
    + assert (Hls : line_start ctx) by (apply Hbol; reflexivity).
      destruct (try_tag (c :: r)) as [k v m| |] eqn:Etry; [| |discriminate].
      * destruct (try_tag_shape _ _ _ _ Etry) as (post & E0 & -> & Heol & Hk0 & Hk & Hv0 & Hv).
        set (body := k ++ 32 :: 34 :: v ++ [34; 93]) in *.
        cbn [app] in E0. injection E0 as -> ->. cbn [length] in Hscan.
        replace (S (length body) - 1)%nat with (length body) in Hscan by lia.
        rewrite scan_skip in Hscan by (unfold body; destruct k; discriminate).
        destruct (scan_tags post false 0) as [l'|] eqn:Epost; [|discriminate]. injection Hscan as <-.
        change (91 :: body ++ post) with ([] ++ (91 :: body) ++ post).
        apply (refindall2_hit E tag_re ctx [] (91 :: body) post k v l').
        -- discriminate.
        -- rewrite app_nil_r. unfold body. apply tag_re_intro; assumption.
        -- intros a' mt' b' c' _ _. cbn [length]. lia.
        -- intros mt' b' c' E0 Hm. rewrite app_nil_r in Hm. apply matches_try_tag in Hm.
           destruct Hm as (k' & v' & _ & Ht). rewrite <- E0 in Ht. cbn [app] in Ht. rewrite Etry in Ht.
           injection Ht as _ _ Hl. apply (app_same_length _ _ b' post); [symmetry; exact E0|]. cbn [length]. lia.
        -- apply (IH post (ctx ++ [] ++ 91 :: body) false l'); [|split; [discriminate|]|exact Epost].
           ++ rewrite app_length in Hr. lia.
           ++ intros [H|(p & H)]; [destruct ctx; discriminate|]. exfalso.
              unfold body in H. cbn [app] in H.
              replace (ctx ++ 91 :: k ++ 32 :: 34 :: v ++ [34; 93]) with ((ctx ++ 91 :: k ++ 32 :: 34 :: v ++ [34]) ++ [93]) in H
                by (rewrite <- !app_assoc; cbn [app]; rewrite <- !app_assoc; cbn [app]; rewrite <- app_assoc; reflexivity).
              apply app_inj_tail in H. destruct H as [_ H]. discriminate.
      * apply Hnext; [exact Hscan|]. intros mt b cp E0 Hm. apply matches_try_tag in Hm.
        destruct Hm as (k & v & _ & Ht). rewrite <- E0, Etry in Ht. discriminate.
    + apply Hnext; [exact Hscan|]. intros mt b cp _ Hm. apply tag_match_line_start in Hm.
      apply Hbol in Hm. discriminate.
Qed.

(* re.findall(tag regex, head, re.M) = scan_tags head true 0 wherever the model's \w table applies
   (scan_tags answers None when it meets a code point of unknown class in key position or a tag line with an
   empty value): leftmost, non-overlapping matches, each the only one at its start *)
Lemma scan_tags_is_findall head l : scan_tags head true 0 = Some l -> refindall2 E tag_re [] head l.
Proof.
  intros H. apply (scan_tags_is_findall_n (length head) head [] true l); [lia| |exact H].
  split; [intros _; left; reflexivity|reflexivity].
Qed.
