(* C18 - invariant of the protocol model model/Workers.v (used by proofs/WorkersProofs.v) *)
From Coq Require Import ZArith List Bool Lia Permutation Arith.
From TV Require Import model.Workers.
Import ListNotations.
Open Scope Z_scope.

(* ------------------------------------------------------------------------- *)
(* lists                                                                        *)
(* ------------------------------------------------------------------------- *)
Lemma upd_split {A} (l : list A) (n : nat) (x : A) :
  nth_error l n = Some x ->
  exists l1 l2, l = l1 ++ x :: l2 /\ forall y, upd n y l = l1 ++ y :: l2.
Proof.
  revert n. induction l as [|h t IH]; intros [|n] H; simpl in H; try discriminate.
  - inversion H; subst. exists [], t. split; [reflexivity|]. intros y. reflexivity.
  - destruct (IH n H) as (l1 & l2 & E & U). exists (h :: l1), l2. split.
    + simpl. rewrite <- E. reflexivity.
    + intros y. simpl. rewrite U. reflexivity.
Qed.

Lemma upd_length {A} (l : list A) n x : length (upd n x l) = length l.
Proof. revert n. induction l as [|h t IH]; intros [|n]; simpl; auto. Qed.

Lemma nth_error_upd {A} (l : list A) n m x :
  nth_error (upd n x l) m =
  if Nat.eqb n m then match nth_error l m with Some _ => Some x | None => None end else nth_error l m.
Proof.
  revert n m. induction l as [|h t IH]; intros [|n] [|m]; simpl; auto.
  - destruct (Nat.eqb n m); reflexivity.
Qed.

Lemma flat_map_nil_length {A B} (f : A -> list B) l : length (flat_map f l) = 0%nat -> flat_map f l = [].
Proof. intros H. apply length_zero_iff_nil. exact H. Qed.

(* ------------------------------------------------------------------------- *)
(* reachability                                                                 *)
(* ------------------------------------------------------------------------- *)
Inductive reachable (cfg : config) : state -> Prop :=
| reach_init : forall n, reachable cfg (init n)
| reach_step : forall s e s', reachable cfg s -> step cfg e s = Some s' -> reachable cfg s'.

Lemma reachable_run cfg tr : forall s s', reachable cfg s -> run cfg tr s = Some s' -> reachable cfg s'.
Proof.
  induction tr as [|e tr IH]; intros s s' R H; simpl in H.
  - inversion H; subst; assumption.
  - destruct (step cfg e s) as [s1|] eqn:E; [|discriminate].
    eapply IH; [|exact H]. eapply reach_step; eauto.
Qed.

Lemma run_app cfg tr1 : forall tr2 s,
  run cfg (tr1 ++ tr2) s = match run cfg tr1 s with Some s1 => run cfg tr2 s1 | None => None end.
Proof.
  induction tr1 as [|e tr1 IH]; intros tr2 s; simpl; [reflexivity|].
  destruct (step cfg e s); [apply IH|reflexivity].
Qed.

(* case analysis of one step: every guard becomes an equation, the successor an explicit record *)
Ltac inv_step H :=
  unfold step in H;
  repeat match type of H with
         | context [match ?x with _ => _ end] => destruct x eqn:?; try discriminate H
         | context [if ?x then _ else _] => destruct x eqn:?; try discriminate H
         end;
  inversion H; subst; clear H.

Ltac split_ws :=
  repeat match goal with
         | Hn : nth_error (ws ?s) ?w = Some ?st |- _ =>
             let l1 := fresh "l1" in let l2 := fresh "l2" in
             let Hws := fresh "Hws" in let Hupd := fresh "Hupd" in
             destruct (upd_split _ _ _ Hn) as (l1 & l2 & Hws & Hupd); clear Hn;
             try rewrite !Hupd; rewrite Hws in *
         end.

(* ------------------------------------------------------------------------- *)
(* the invariant                                                                *)
(* ------------------------------------------------------------------------- *)
Definition cnt (i : Z) (s : state) : nat := count_occ Z.eq_dec (all_ids s) i.
Definition lo (s : state) : Z := next_id (par s) - Z.of_nat (target (par s) - todo (par s)).
Definition in_request (c : pc_t) : Prop := c = PFilling \/ c = PWaiting \/ c = PStuck.

Record Inv (s : state) : Prop := {
  inv_cnt : forall i, (cnt i s <= 1)%nat;
  inv_rng : forall i, (cnt i s >= 1)%nat -> lo s <= i < next_id (par s);
  inv_len : (length (all_ids s) + todo (par s) <= target (par s))%nat;
  inv_run : outcome (par s) = ORunning <-> in_request (pc (par s));
  inv_short : outcome (par s) = ORunning -> (length (collected (par s)) < target (par s))%nat;
  inv_ret : outcome (par s) = OReturned -> length (collected (par s)) = target (par s);
  inv_none : outcome (par s) = ONone -> target (par s) = 0%nat;
  inv_nonone : (pc (par s) = PBetween \/ in_request (pc (par s))) -> Forall (fun m => m <> None) (cmd s)
}.

Lemma playing_kill l :
  flat_map (fun st => match st with Playing i => [i] | _ => [] end) (map kill_one l) = [].
Proof.
  induction l as [|st l IH]; simpl; [reflexivity|]. rewrite IH.
  destruct st; reflexivity.
Qed.

Ltac norm :=
  unfold cnt, lo, all_ids, cmd_ids, game_ids, playing_ids in *; simpl in *;
  repeat rewrite ?flat_map_app, ?count_occ_app, ?app_length, ?playing_kill in *; simpl in *.

Ltac inreq := unfold in_request in *;
  repeat match goal with
         | H : _ \/ _ |- _ => destruct H
         | H : _ /\ _ |- _ => destruct H
         end; try congruence.

Lemma inv_init n : Inv (init n).
Proof.
  assert (P : flat_map (fun st => match st with Playing i => [i] | _ => [] end) (repeat Starting n) = []).
  { induction n; simpl; auto. }
  split; unfold init; norm; rewrite ?P; simpl; intros; try lia; try congruence; auto.
  - split; intros; inreq.
Qed.

Ltac deq := repeat match goal with
  | |- context [Z.eq_dec ?a ?b] => destruct (Z.eq_dec a b)
  | H : context [Z.eq_dec ?a ?b] |- _ => destruct (Z.eq_dec a b)
  end.

Ltac eqs := repeat match goal with
  | H : (_ =? _)%nat = true |- _ => apply Nat.eqb_eq in H
  | H : (_ =? _)%nat = false |- _ => apply Nat.eqb_neq in H
  | H : (_ <? _)%nat = true |- _ => apply Nat.ltb_lt in H
  | H : (_ <? _)%nat = false |- _ => apply Nat.ltb_ge in H
  | H : games ?s = _ |- _ => rewrite H in *; clear H
  | H : cmd ?s = _ |- _ => rewrite H in *; clear H
  | H : todo (par ?s) = _ |- _ => rewrite H in *; clear H
  | H : pc (par ?s) = _ |- _ => rewrite H in *; clear H
  | H : outcome (par ?s) = _ |- _ => rewrite H in *; clear H
  end.

Ltac nonone := intros; inreq;
  repeat match goal with
  | H : ?P -> Forall _ _ |- _ => let X := fresh in assert (X : P) by (unfold in_request; auto); specialize (H X)
  end;
  repeat match goal with
  | |- Forall _ (_ ++ _) => apply Forall_app; split
  | |- Forall _ [_] => constructor; [congruence|constructor]
  | H : Forall _ (_ :: _) |- _ => inversion H; subst; clear H
  end; auto.

Ltac inst s Ic Ir i :=
  pose proof (Ic i) as Ci; pose proof (Ir i) as Ri;
  pose proof (Ic (next_id (par s))) as Cn; pose proof (Ir (next_id (par s))) as Rn; clear Ic Ir.

Ltac crunch := unfold cnt, lo, all_ids, cmd_ids, game_ids, playing_ids in *; simpl in *;
  split_ws; eqs; norm; deq; subst; norm; deq; norm; try lia.

(* between two requests (and before the first) nothing is in flight *)
Lemma inv_clean s : Inv s -> outcome (par s) = ONone \/ outcome (par s) = OReturned ->
  game_ids s = [] /\ playing_ids s = [] /\ cmd_ids s = [] /\ todo (par s) = 0%nat.
Proof.
  intros [Ic Ir Il Irun Ish Iret Inone Inn] O.
  unfold all_ids in Il. rewrite !app_length in Il.
  assert (L : length (collected (par s)) = target (par s)).
  { destruct O as [O|O]; [|auto]. specialize (Inone O). lia. }
  repeat split; try apply length_zero_iff_nil; lia.
Qed.

Lemma inv_preserved cfg e s s' : Inv s -> step cfg e s = Some s' -> Inv s'.
Proof.
  intros I H. destruct e; inv_step H.
  1-4: destruct (inv_clean s I) as (G0 & P0 & C0 & T0); [rewrite Heqo; auto|].
  1-4: destruct I as [Ic Ir Il Irun Ish Iret Inone Inn]; unfold set_par; split;
       unfold cnt, lo, all_ids, game_ids, playing_ids, cmd_ids in *; simpl in *;
       rewrite ?G0, ?P0, ?C0 in *; simpl in *; intros; try lia; try congruence;
       try solve [unfold in_request; intuition congruence];
       try solve [apply Inn; left; assumption].
  all: destruct I as [Ic Ir Il Irun Ish Iret Inone Inn].
  all: unfold set_par, set_pc, set_w in *.
  all: split.
  all: try solve [intros i; inst s Ic Ir i; crunch].
  all: try solve [clear Ic Ir; crunch].
  all: try solve [clear Ic Ir; eqs; unfold in_request in *; simpl in *; intuition congruence].
  all: try solve [clear Ic Ir; eqs; simpl in *; intros; try congruence; try lia; crunch].
  all: try solve [clear Ic Ir; eqs; simpl in *; nonone].
Qed.

Lemma inv_reachable cfg s : reachable cfg s -> Inv s.
Proof.
  induction 1 as [n|s e s' R IH H]; [apply inv_init|eapply inv_preserved; eauto].
Qed.
