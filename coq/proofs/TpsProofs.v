(* C13, part 4: the property theorems about model/Tps.v.
     parse_format            writer then reader is the identity on well-formed positions
     format_parse_canonical  reader then writer is the identity on canonical texts
     parse_meaning           an accepted text means what the TPS standard says, square by square
     parse_reserves          the reserves are those of the standard piece set
     parse_refuses           every must-refuse class is rejected
     never_unspecified       the parser never answers Unspecified (no error other than IllegalTPS)
     canonical_format        what the writer produces is canonical *)
From Coq Require Import ZArith List Bool Lia.
From TV Require gen.Consts.
From TV Require Import model.Tak model.Lit model.Tps spec.TpsSpec proofs.TpsStrings proofs.TpsCells proofs.TpsRows.
Import ListNotations.
Open Scope Z_scope.

(* ---------- list helpers ---------- *)

Lemma Forall2_in_l {A B} (R : A -> B -> Prop) l l' a :
  Forall2 R l l' -> In a l -> exists b, In b l' /\ R a b.
Proof.
  induction 1 as [|x y l l' Hxy HF IH]; intros Hin; [destruct Hin|].
  destruct Hin as [<-|Hin].
  - exists y. split; [left; reflexivity|assumption].
  - destruct (IH Hin) as (b & Hb & HR). exists b. split; [right; assumption|assumption].
Qed.

Lemma Forall2_in_r {A B} (R : A -> B -> Prop) l l' b :
  Forall2 R l l' -> In b l' -> exists a, In a l /\ R a b.
Proof.
  induction 1 as [|x y l l' Hxy HF IH]; intros Hin; [destruct Hin|].
  destruct Hin as [<-|Hin].
  - exists x. split; [left; reflexivity|assumption].
  - destruct (IH Hin) as (a & Ha & HR). exists a. split; [right; assumption|assumption].
Qed.

Lemma Forall2_nth {A B} (R : A -> B -> Prop) l l' da db :
  Forall2 R l l' -> forall i, (i < length l)%nat -> R (nth i l da) (nth i l' db).
Proof.
  induction 1 as [|x y l l' Hxy HF IH]; intros i Hi; [simpl in Hi; lia|].
  destruct i as [|i]; [assumption|]. simpl. apply IH. simpl in Hi. lia.
Qed.

Lemma Forall2_length {A B} (R : A -> B -> Prop) l l' : Forall2 R l l' -> length l = length l'.
Proof. induction 1; simpl; congruence. Qed.

Lemma Forall2_map_both {A B C} (R : B -> C -> Prop) (f : A -> B) (g : A -> C) l :
  (forall a, In a l -> R (f a) (g a)) -> Forall2 R (map f l) (map g l).
Proof.
  induction l as [|a l IH]; intros H; [constructor|].
  simpl. constructor; [apply H; left; reflexivity|]. apply IH. intros x Hx. apply H. right. assumption.
Qed.

Lemma concat_length_uniform {A} (ls : list (list A)) k :
  Forall (fun l => length l = k) ls -> length (concat ls) = (length ls * k)%nat.
Proof.
  induction 1 as [|l ls Hl HF IH]; [reflexivity|]. simpl. rewrite app_length. rewrite IH, Hl. reflexivity.
Qed.

Lemma nth_concat_uniform {A} (ls : list (list A)) k d :
  Forall (fun l => length l = k) ls ->
  forall i j, (i < length ls)%nat -> (j < k)%nat ->
  nth (i * k + j) (concat ls) d = nth j (nth i ls []) d.
Proof.
  induction 1 as [|l ls Hl HF IH]; intros i j Hi Hj; [simpl in Hi; lia|].
  destruct i as [|i]; simpl.
  - apply app_nth1. lia.
  - rewrite app_nth2 by lia. replace (k + i * k + j - length l)%nat with (i * k + j)%nat by lia.
    apply IH; [simpl in Hi; lia|assumption].
Qed.

Lemma skipn_add {A} a b (l : list A) : skipn (a + b) l = skipn b (skipn a l).
Proof.
  revert l. induction a as [|a IH]; intros l; [reflexivity|].
  destruct l; simpl; [rewrite skipn_nil; reflexivity|apply IH].
Qed.

(* cutting a concatenation of k-blocks back into the blocks, as format_tps does *)
Lemma slices_of_concat {A} (ls : list (list A)) k :
  Forall (fun l => length l = k) ls ->
  map (fun r => firstn k (skipn (r * k) (concat ls))) (seq 0 (length ls)) = ls.
Proof.
  induction 1 as [|l ls Hl HF IH]; [reflexivity|].
  simpl length. simpl seq. rewrite <- seq_shift. simpl map. rewrite map_map. f_equal.
  - simpl. rewrite firstn_app. rewrite Hl. rewrite Nat.sub_diag. simpl. rewrite app_nil_r.
    rewrite <- Hl. apply firstn_all.
  - rewrite <- IH at 2. apply map_ext. intros r. simpl concat.
    assert (Hsk : skipn k (l ++ concat ls) = concat ls).
    { rewrite skipn_app. rewrite skipn_all2 by lia. rewrite Hl, Nat.sub_diag. reflexivity. }
    change (S r * k)%nat with (k + r * k)%nat. rewrite skipn_add. rewrite Hsk. reflexivity.
Qed.

Lemma concat_of_slices {A} k : forall n (b : list A),
  length b = (n * k)%nat ->
  concat (map (fun r => firstn k (skipn (r * k) b)) (seq 0 n)) = b.
Proof.
  induction n as [|n IH]; intros b Hb.
  - destruct b; [reflexivity|simpl in Hb; lia].
  - simpl seq. rewrite <- seq_shift. simpl map. rewrite map_map. simpl concat.
    transitivity (firstn k b ++ skipn k b); [|apply firstn_skipn]. f_equal.
    rewrite <- (IH (skipn k b)).
    + f_equal. apply map_ext. intros r. change (S r * k)%nat with (k + r * k)%nat.
      rewrite skipn_add. reflexivity.
    + rewrite skipn_length. simpl in Hb. lia.
Qed.

Lemma In_removelast {A} (l : list A) x : In x (removelast l) -> In x l.
Proof.
  induction l as [|a l IH]; [intros []|]. simpl. destruct l as [|b l]; [intros []|].
  intros [<-|H]; [left; reflexivity|right; apply IH; assumption].
Qed.

Lemma zlen_rev {A} (l : list A) : zlen (rev l) = zlen l.
Proof. unfold zlen. rewrite rev_length. reflexivity. Qed.

(* ---------- parse_rows ---------- *)

Definition row_ok (n : Z) (r : str) (rsq : list stack) : Prop := parse_row r = Some rsq /\ zlen rsq = n.

Lemma parse_rows_iff rrows n : forall acc sq,
  parse_rows rrows n acc = Some sq <->
  exists rsqs, Forall2 (row_ok n) rrows rsqs /\ sq = acc ++ concat rsqs.
Proof.
  induction rrows as [|r t IH]; intros acc sq.
  - simpl. split.
    + intros H. inversion H. exists []. split; [constructor|]. simpl. rewrite app_nil_r. reflexivity.
    + intros (rsqs & HF & ->). inversion HF. simpl. rewrite app_nil_r. reflexivity.
  - simpl. split.
    + destruct (parse_row r) as [rsq|] eqn:Er; [|discriminate].
      destruct (zlen rsq =? n) eqn:En; [|discriminate].
      intros H. apply IH in H. destruct H as (rsqs & HF & ->).
      exists (rsq :: rsqs). split.
      * constructor; [|assumption]. split; [assumption|]. apply Z.eqb_eq. assumption.
      * simpl. rewrite app_assoc. reflexivity.
    + intros (rsqs & HF & ->). inversion HF as [|? rsq ? rsqs' [Hr Hn] HF']; subst.
      rewrite Hr. rewrite Z.eqb_refl. apply IH. exists rsqs'. split; [assumption|].
      simpl. rewrite app_assoc. reflexivity.
Qed.

Lemma rows_total_length n rrows rsqs :
  0 <= n -> Forall2 (row_ok n) rrows rsqs -> zlen (concat rsqs) = zlen rrows * n.
Proof.
  intros Hn HF. induction HF as [|r rsq rrows rsqs [_ Hl] HF IH].
  - reflexivity.
  - simpl concat. unfold zlen in *. rewrite app_length. simpl length. lia.
Qed.

(* ---------- what acceptance means, field by field ---------- *)

Record parsed (s : str) (p : position) : Prop := mkParsed {
  pa_fields : fields s = [board_field s; who_field s; move_field s];
  pa_who : who_field s = [ch_1] \/ who_field s = [ch_2];
  pa_digits : is_ascii_digits (move_field s) = true;
  pa_len : zlen (move_field s) <= max_str_digits;
  pa_move : 1 <= int_of_digits (move_field s);
  pa_size : 3 <= text_size s <= 8;
  pa_rows : exists rsqs,
      Forall2 (row_ok (text_size s)) (rev (groups s)) rsqs /\
      from_squares (mkCfg (text_size s) None None) (concat rsqs)
                   (2 * (int_of_digits (move_field s) - 1) + int_of_digits (who_field s) - 1) = Some p
}.

Lemma fields_three s b w m :
  split ch_space s = [b; w; m] ->
  fields s = [board_field s; who_field s; move_field s] /\ board_field s = b /\ who_field s = w /\ move_field s = m.
Proof.
  intros H. unfold board_field, who_field, move_field, fields. rewrite H. simpl. auto.
Qed.

Lemma str_eqb_eq a b : str_eqb a b = true <-> a = b.
Proof.
  unfold str_eqb. revert b. induction a as [|x a IH]; intros [|y b]; simpl; split; try discriminate; try reflexivity.
  - intros H. apply andb_true_iff in H. destruct H as [H1 H2]. apply Z.eqb_eq in H1. apply IH in H2. congruence.
  - intros H. inversion H. subst. rewrite Z.eqb_refl. apply IH. reflexivity.
Qed.

Lemma who_ok_iff w : (str_eqb w [ch_1] || str_eqb w [ch_2]) = true <-> w = [ch_1] \/ w = [ch_2].
Proof. rewrite orb_true_iff, !str_eqb_eq. tauto. Qed.

Lemma parse_tps_three s b w m :
  split ch_space s = [b; w; m] ->
  parse_tps s =
    if negb (str_eqb w [ch_1] || str_eqb w [ch_2]) then Reject else
    if negb (is_ascii_digits m) then Reject else
    if max_str_digits <? zlen m then Reject else
    if int_of_digits m <? 1 then Reject else
    if (zlen (split ch_slash b) <? 3) || (8 <? zlen (split ch_slash b)) then Reject else
    match parse_rows (rev (split ch_slash b)) (zlen (split ch_slash b)) [] with
    | None => Reject
    | Some squares =>
      match from_squares (mkCfg (zlen (split ch_slash b)) None None) squares
                         (2 * (int_of_digits m - 1) + int_of_digits w - 1) with
      | Some p => Accept p
      | None => Unspecified
      end
    end.
Proof. intros H. unfold parse_tps. rewrite H. reflexivity. Qed.

Lemma parse_tps_not_three s : length (fields s) <> 3%nat -> parse_tps s = Reject.
Proof.
  unfold fields, parse_tps. intros H.
  destruct (split ch_space s) as [|a [|b [|c [|d l]]]]; try reflexivity. simpl in H. lia.
Qed.

Lemma fields_cases s :
  length (fields s) <> 3%nat \/ exists b w m, split ch_space s = [b; w; m].
Proof.
  unfold fields. destruct (split ch_space s) as [|a [|b [|c [|d l]]]]; simpl; try (left; lia).
  right. exists a, b, c. reflexivity.
Qed.

Theorem parse_accept_iff s p : parse_tps s = Accept p <-> parsed s p.
Proof.
  split.
  - intros H. destruct (fields_cases s) as [Hn|(b & w & m & Hs)].
    + rewrite parse_tps_not_three in H by assumption. discriminate.
    + rewrite (parse_tps_three s b w m Hs) in H.
      destruct (fields_three s b w m Hs) as (Hf & Hb & Hw & Hm).
      destruct (str_eqb w [ch_1] || str_eqb w [ch_2]) eqn:Ew; [|discriminate]. cbn [negb] in H.
      destruct (is_ascii_digits m) eqn:Ed; [|discriminate]. cbn [negb] in H.
      destruct (max_str_digits <? zlen m) eqn:El; [discriminate|].
      destruct (int_of_digits m <? 1) eqn:Ev; [discriminate|].
      destruct ((zlen (split ch_slash b) <? 3) || (8 <? zlen (split ch_slash b))) eqn:Es; [discriminate|].
      destruct (parse_rows (rev (split ch_slash b)) (zlen (split ch_slash b)) []) as [squares|] eqn:Er; [|discriminate].
      destruct (from_squares (mkCfg (zlen (split ch_slash b)) None None) squares
                             (2 * (int_of_digits m - 1) + int_of_digits w - 1)) as [q|] eqn:Eq; [|discriminate].
      inversion H. subst q. clear H.
      apply parse_rows_iff in Er. destruct Er as (rsqs & HF & ->). rewrite app_nil_l in Eq.
      apply orb_false_iff in Es. destruct Es as [Es1 Es2].
      apply Z.ltb_ge in Es1. apply Z.ltb_ge in Es2. apply Z.ltb_ge in El. apply Z.ltb_ge in Ev.
      apply who_ok_iff in Ew. subst b w m.
      constructor; unfold text_size, groups; try assumption; try lia.
      exists rsqs. split; assumption.
  - intros [Hf Hw Hd Hl Hv Hsz (rsqs & HF & Hp)].
    unfold fields in Hf. rewrite (parse_tps_three s _ _ _ Hf).
    apply who_ok_iff in Hw. rewrite Hw. cbn [negb]. rewrite Hd. cbn [negb].
    replace (max_str_digits <? zlen (move_field s)) with false by (symmetry; apply Z.ltb_ge; assumption).
    replace (int_of_digits (move_field s) <? 1) with false by (symmetry; apply Z.ltb_ge; lia).
    unfold text_size, groups in *.
    replace ((zlen (split ch_slash (board_field s)) <? 3) || (8 <? zlen (split ch_slash (board_field s)))) with false
      by (symmetry; apply orb_false_iff; split; apply Z.ltb_ge; lia).
    rewrite (proj2 (parse_rows_iff _ _ [] (concat rsqs))) by (exists rsqs; split; [assumption|reflexivity]).
    rewrite Hp. reflexivity.
Qed.

Lemma parsed_position s p rsqs :
  Forall2 (row_ok (text_size s)) (rev (groups s)) rsqs ->
  from_squares (mkCfg (text_size s) None None) (concat rsqs)
               (2 * (int_of_digits (move_field s) - 1) + int_of_digits (who_field s) - 1) = Some p ->
  size p = text_size s /\ board p = concat rsqs /\
  ply p = 2 * (int_of_digits (move_field s) - 1) + int_of_digits (who_field s) - 1 /\
  standard_reserves p.
Proof.
  intros HF Hp. unfold from_squares in Hp.
  destruct (Z.of_nat (length (concat rsqs)) =? csize (mkCfg (text_size s) None None) * csize (mkCfg (text_size s) None None));
    [|discriminate].
  inversion Hp. subst p. clear Hp. unfold standard_reserves. cbn [size board ply wstones wcaps bstones bcaps].
  repeat split; reflexivity.
Qed.

(* ---------- no outcome other than Accept / Reject ---------- *)

Theorem never_unspecified s : parse_tps s <> Unspecified.
Proof.
  intros H. destruct (fields_cases s) as [Hn|(b & w & m & Hs)].
  - rewrite parse_tps_not_three in H by assumption. discriminate.
  - rewrite (parse_tps_three s b w m Hs) in H.
    destruct (str_eqb w [ch_1] || str_eqb w [ch_2]); [|discriminate]. cbn [negb] in H.
    destruct (is_ascii_digits m); [|discriminate]. cbn [negb] in H.
    destruct (max_str_digits <? zlen m); [discriminate|].
    destruct (int_of_digits m <? 1); [discriminate|].
    destruct ((zlen (split ch_slash b) <? 3) || (8 <? zlen (split ch_slash b))); [discriminate|].
    destruct (parse_rows (rev (split ch_slash b)) (zlen (split ch_slash b)) []) as [squares|] eqn:Er; [|discriminate].
    apply parse_rows_iff in Er. destruct Er as (rsqs & HF & ->). simpl app in H.
    unfold from_squares in H. cbn [csize] in H.
    assert (Hlen : zlen (concat rsqs) = zlen (rev (split ch_slash b)) * zlen (split ch_slash b)).
    { apply rows_total_length; [unfold zlen; lia|assumption]. }
    rewrite zlen_rev in Hlen. unfold zlen in Hlen at 1. rewrite Hlen in H. rewrite Z.eqb_refl in H. discriminate.
Qed.

(* the over-limit class in particular is refused *)
Lemma over_int_limit_refused s : over_int_limit s -> parse_tps s = Reject.
Proof.
  intros (Hl & Hw & Hne & Hdig & Hlen).
  unfold fields in Hl. destruct (split ch_space s) as [|b [|w [|m [|d l]]]] eqn:Hs; simpl in Hl; try lia.
  destruct (fields_three s b w m Hs) as (_ & _ & Ew & Em). rewrite Ew in Hw. rewrite Em in *.
  rewrite (parse_tps_three s b w m Hs).
  apply who_ok_iff in Hw. rewrite Hw. cbn [negb].
  rewrite (proj2 (is_ascii_digits_iff m)) by (split; assumption). cbn [negb].
  replace (max_str_digits <? zlen m) with true by (symmetry; apply Z.ltb_lt; assumption). reflexivity.
Qed.

(* ---------- meaning ---------- *)

Theorem parse_meaning s p : parse_tps s = Accept p ->
  size p = text_size s /\
  zlen (board p) = size p * size p /\
  (forall x y, 0 <= x < size p -> 0 <= y < size p -> sq p x y = stack_of_text (cell_text s x y)) /\
  ply p = 2 * (dec_value (move_field s) - 1) + dec_value (who_field s) - 1.
Proof.
  intros H. apply parse_accept_iff in H. destruct H as [Hf Hw Hd Hl Hv Hsz (rsqs & HF & Hp)].
  destruct (parsed_position s p rsqs HF Hp) as (Hsize & Hboard & Hply & _).
  pose proof (Forall2_length _ _ _ HF) as Hlen. rewrite rev_length in Hlen.
  set (N := length (groups s)) in *.
  assert (HN : text_size s = Z.of_nat N) by reflexivity.
  assert (Hall : Forall (fun l : list stack => length l = N) rsqs).
  { apply Forall_forall. intros l Hin.
    destruct (Forall2_in_r _ _ _ _ HF Hin) as (r & _ & (_ & Hz)). unfold zlen in Hz. lia. }
  split; [assumption|]. split.
  { rewrite Hboard, Hsize. unfold zlen. rewrite (concat_length_uniform rsqs N Hall). rewrite <- Hlen. lia. }
  split.
  - intros x y Hx Hy. unfold sq, getz. rewrite Hboard, Hsize, HN in *.
    replace (Z.to_nat (y * Z.of_nat N + x)) with (Z.to_nat y * N + Z.to_nat x)%nat by nia.
    rewrite (nth_concat_uniform rsqs N [] Hall) by lia.
    assert (Hrow := Forall2_nth _ _ _ [] [] HF (Z.to_nat y)). rewrite rev_length in Hrow.
    destruct (Hrow ltac:(fold N; lia)) as [Hpr _].
    rewrite (parse_row_meaning _ _ Hpr).
    change (@nil piece) with (stack_of_text []). rewrite map_nth. f_equal.
    unfold cell_text. f_equal. f_equal.
    rewrite rev_nth by (fold N; lia). fold N. f_equal. rewrite HN. lia.
  - rewrite Hply. rewrite !int_of_digits_dec. reflexivity.
Qed.

Theorem parse_reserves s p : parse_tps s = Accept p -> standard_reserves p.
Proof.
  intros H. apply parse_accept_iff in H. destruct H as [Hf Hw Hd Hl Hv Hsz (rsqs & HF & Hp)].
  apply (parsed_position s p rsqs HF Hp).
Qed.

(* ---------- refusals ---------- *)

Lemma cell_shape_cases b sqs : cell_shape b sqs ->
  b = [ch_x] \/ (exists d, b = [ch_x; d] /\ ch_1 <= d <= ch_8) \/ (exists cols k, cols <> [] /\ b = cell_of cols k).
Proof.
  intros H. destruct H as [|d Hd|cols k Hne]; [left; reflexivity| |].
  - right. left. exists d. auto.
  - right. right. exists cols, k. auto.
Qed.

Lemma parsed_group s p g : parsed s p -> In g (groups s) -> exists rsq, row_ok (text_size s) g rsq.
Proof.
  intros [_ _ _ _ _ _ (rsqs & HF & _)] Hin.
  apply in_rev in Hin. destruct (Forall2_in_l _ _ _ _ HF Hin) as (rsq & _ & Hok). exists rsq. assumption.
Qed.

Lemma parsed_cell s p c : parsed s p -> has_cell s c -> exists sqs, cell_shape c sqs.
Proof.
  intros Hp (g & Hg & Hc). destruct (parsed_group s p g Hp Hg) as (rsq & Hr & _).
  unfold parse_row in Hr. apply parse_cells_iff in Hr. destruct Hr as (sqss & HF & _).
  destruct (Forall2_in_l _ _ _ _ HF Hc) as (sqs & _ & Hs). exists sqs. assumption.
Qed.

Lemma cell_of_chars cols k c : In c (cell_of cols k) -> is_piece_char c \/ is_mark_char c.
Proof.
  unfold cell_of. intros H. apply in_app_or in H. destruct H as [H|H].
  - apply in_map_iff in H. destruct H as (col & <- & _). left. destruct col; [left|right]; reflexivity.
  - right. destruct k; simpl in H.
    + destruct H.
    + destruct H as [<-|[]]. left. reflexivity.
    + destruct H as [<-|[]]. right. reflexivity.
Qed.

Lemma cell_of_inner_chars cols k c : In c (removelast (cell_of cols k)) -> is_piece_char c.
Proof.
  unfold cell_of. intros H.
  assert (Hin : In c (map color_char cols)).
  { destruct k; simpl mark_str in H.
    - rewrite app_nil_r in H. apply In_removelast. assumption.
    - rewrite removelast_snoc in H. assumption.
    - rewrite removelast_snoc in H. assumption. }
  apply in_map_iff in Hin. destruct Hin as (col & <- & _). destruct col; [left|right]; reflexivity.
Qed.

Lemma mark_not_x m : is_mark_char m -> m <> ch_x /\ ~ is_piece_char m /\ ~ (ch_1 <= m <= ch_8).
Proof. unfold is_mark_char, is_piece_char, ch_S, ch_C, ch_x, ch_1, ch_2, ch_8. lia. Qed.

Lemma parsed_not_must_refuse s p : parsed s p -> must_refuse s -> False.
Proof.
  intros Hp Hm. pose proof Hp as [Hf Hw Hdg Hl Hv Hsz Hrows].
  destruct Hm as [Hn|Hw1 Hw2|Hm|c Hc Hnd|Hlt|Hlong|Hrow|Hcell|rest Hcell Hne Hbad|m post Hcell Hmk
                  |pre m c post Hcell Hmk|cell c Hcell Hnx Hc Hnp Hnm|g Hg Hrag|Hs].
  - rewrite Hf in Hn. simpl in Hn. lia.
  - destruct Hw; contradiction.
  - rewrite Hm in Hdg. discriminate.
  - apply is_ascii_digits_iff in Hdg. destruct Hdg as [_ Hdg]. apply Hnd. apply Hdg. assumption.
  - rewrite <- int_of_digits_dec in Hlt. lia.
  - lia.
  - destruct (parsed_group s p [] Hp Hrow) as (rsq & Hr & _). discriminate.
  - destruct (parsed_cell s p [] Hp Hcell) as (sqs & Hs).
    destruct (cell_shape_cases _ _ Hs) as [E|[(d & E & _)|(cols & k & Hne & E)]]; try discriminate.
    destruct (cell_of_head cols k Hne) as (c & t & E' & _). congruence.
  - destruct (parsed_cell s p _ Hp Hcell) as (sqs & Hs).
    destruct (cell_shape_cases _ _ Hs) as [E|[(d & E & Hd)|(cols & k & Hnn & E)]].
    + inversion E. congruence.
    + inversion E. subst rest. apply (Hbad d eq_refl). assumption.
    + destruct (cell_of_head cols k Hnn) as (c & t & E' & Hc). rewrite E' in E. inversion E.
      unfold ch_x, ch_1, ch_2 in *. lia.
  - destruct (parsed_cell s p _ Hp Hcell) as (sqs & Hs). destruct (mark_not_x m Hmk) as (Hx & Hpc & _).
    destruct (cell_shape_cases _ _ Hs) as [E|[(d & E & Hd)|(cols & k & Hnn & E)]].
    + inversion E. congruence.
    + inversion E. congruence.
    + destruct (cell_of_head cols k Hnn) as (c & t & E' & Hc). rewrite E' in E. inversion E. subst c.
      apply Hpc. exact Hc.
  - destruct (parsed_cell s p _ Hp Hcell) as (sqs & Hs). destruct (mark_not_x m Hmk) as (Hx & Hpc & _).
    destruct (cell_shape_cases _ _ Hs) as [E|[(d & E & Hd)|(cols & k & Hnn & E)]].
    + apply (f_equal (@length Z)) in E. rewrite app_length in E. simpl in E. lia.
    + destruct pre as [|a pre].
      * inversion E. congruence.
      * apply (f_equal (@length Z)) in E. simpl in E. rewrite app_length in E. simpl in E. lia.
    + apply Hpc. apply (cell_of_inner_chars cols k). rewrite <- E.
      rewrite removelast_app by discriminate. apply in_or_app. right. simpl. left. reflexivity.
  - destruct (parsed_cell s p _ Hp Hcell) as (sqs & Hs).
    destruct (cell_shape_cases _ _ Hs) as [E|[(d & E & Hd)|(cols & k & Hnn & E)]].
    + apply (Hnx [] E).
    + apply (Hnx [d] E).
    + subst cell. destruct (cell_of_chars cols k c Hc); contradiction.
  - destruct (parsed_group s p g Hp Hg) as (rsq & Hr & Hz).
    apply Hrag. rewrite <- Hz. symmetry. apply parse_row_width. assumption.
  - lia.
Qed.

Theorem parse_refuses s : must_refuse s -> parse_tps s = Reject.
Proof.
  intros Hm. destruct (parse_tps s) as [p| |] eqn:E.
  - exfalso. apply parse_accept_iff in E. exact (parsed_not_must_refuse s p E Hm).
  - reflexivity.
  - exfalso. exact (never_unspecified s E).
Qed.

(* ---------- reader then writer on canonical texts ---------- *)

Lemma format_rows_back n rr rsqs :
  Forall2 (row_ok n) rr rsqs -> (forall r, In r rr -> canonical_cells (split ch_comma r) = true) ->
  map format_row rsqs = rr.
Proof.
  induction 1 as [|r rsq rr rsqs [Hr _] HF IH]; intros Hcan; [reflexivity|].
  simpl. f_equal.
  - apply format_row_parse_row; [assumption|]. apply Hcan. left. reflexivity.
  - apply IH. intros x Hx. apply Hcan. right. assumption.
Qed.

Lemma who_text w : w = 1 \/ w = 2 -> str_of_Z w = [ch_0 + w].
Proof. intros [-> | ->]; reflexivity. Qed.

Theorem format_parse_canonical s p : parse_tps s = Accept p -> canonical s -> format_tps p = s.
Proof.
  intros H [Hcan Hnz]. apply parse_accept_iff in H. destruct H as [Hf Hw Hd Hl Hv Hsz (rsqs & HF & Hp)].
  destruct (parsed_position s p rsqs HF Hp) as (Hsize & Hboard & Hply & _).
  pose proof (Forall2_length _ _ _ HF) as Hlen. rewrite rev_length in Hlen.
  set (N := length (groups s)) in *.
  assert (HN : text_size s = Z.of_nat N) by reflexivity.
  assert (Hall : Forall (fun l : list stack => length l = N) rsqs).
  { apply Forall_forall. intros l Hin.
    destruct (Forall2_in_r _ _ _ _ HF Hin) as (r & _ & (_ & Hz)). unfold zlen in Hz. lia. }
  unfold format_tps. rewrite Hsize, Hboard, HN, Nat2Z.id.
  (* the board field *)
  assert (Hrows : map (fun r => format_row (firstn N (skipn (r * N) (concat rsqs)))) (seq 0 N) = rev (groups s)).
  { rewrite <- (format_rows_back _ _ _ HF) by (intros r Hr; apply Hcan; apply in_rev; assumption).
    transitivity (map format_row (map (fun r => firstn N (skipn (r * N) (concat rsqs))) (seq 0 (length rsqs)))).
    - rewrite map_map. rewrite <- Hlen. reflexivity.
    - rewrite (slices_of_concat rsqs N Hall). reflexivity. }
  rewrite Hrows. rewrite rev_involutive. unfold groups at 1. rewrite join_split.
  (* player and move number *)
  apply is_ascii_digits_iff in Hd. destruct Hd as [Hne Hdig].
  set (mv := int_of_digits (move_field s)) in *.
  assert (Hwv : int_of_digits (who_field s) = 1 \/ int_of_digits (who_field s) = 2)
    by (destruct Hw as [-> | ->]; [left|right]; reflexivity).
  assert (Hmod : ply p mod 2 + 1 = int_of_digits (who_field s)).
  { rewrite Hply. destruct Hwv as [-> | ->].
    - replace (2 * (mv - 1) + 1 - 1) with (0 + (mv - 1) * 2) by lia. rewrite Z.mod_add by lia. reflexivity.
    - replace (2 * (mv - 1) + 2 - 1) with (1 + (mv - 1) * 2) by lia. rewrite Z.mod_add by lia. reflexivity. }
  assert (Hdiv : ply p / 2 + 1 = mv).
  { rewrite Hply. destruct Hwv as [-> | ->].
    - replace (2 * (mv - 1) + 1 - 1) with (0 + (mv - 1) * 2) by lia. rewrite Z.div_add by lia. change (0 / 2) with 0. lia.
    - replace (2 * (mv - 1) + 2 - 1) with (1 + (mv - 1) * 2) by lia. rewrite Z.div_add by lia. change (1 / 2) with 0. lia. }
  rewrite Hmod, Hdiv.
  rewrite (who_text _ Hwv).
  replace [ch_0 + int_of_digits (who_field s)] with (who_field s) by (destruct Hw as [-> | ->]; reflexivity).
  rewrite str_of_Z_nonneg by lia. unfold mv. rewrite digits_int_of_digits by assumption.
  rewrite <- Hf. unfold fields. apply join_split.
Qed.

(* ---------- writer then reader ---------- *)

Lemma digits_len_max n : 0 <= n < 10 ^ max_str_digits -> zlen (digits n) <= max_str_digits.
Proof.
  intros H. change max_str_digits with (Z.of_nat (S 4299)) in *. apply digits_length_bound. assumption.
Qed.

Lemma slice_facts (b : list stack) N r :
  length b = (N * N)%nat -> (r < N)%nat -> Forall wf_stack b ->
  length (firstn N (skipn (r * N) b)) = N /\ Forall wf_stack (firstn N (skipn (r * N) b)).
Proof.
  intros Hb Hr Hwf. split.
  - rewrite firstn_length, skipn_length. nia.
  - apply Forall_forall. intros x Hx.
    assert (Hx' : In x (skipn (r * N) b)).
    { rewrite <- (firstn_skipn N (skipn (r * N) b)). apply in_or_app. left. assumption. }
    assert (Hin : In x b).
    { rewrite <- (firstn_skipn (r * N) b). apply in_or_app. right. assumption. }
    rewrite Forall_forall in Hwf. apply Hwf. assumption.
Qed.

Theorem parse_format p : wf p -> standard_reserves p -> parse_tps (format_tps p) = Accept p.
Proof.
  intros (Hsz & Hlen & Hst & Hply & Hmax) Hres.
  set (N := Z.to_nat (size p)).
  assert (HN : size p = Z.of_nat N) by (unfold N; lia).
  assert (Hb : length (board p) = (N * N)%nat) by (unfold zlen in Hlen; nia).
  set (slice := fun r : nat => firstn N (skipn (r * N) (board p))).
  set (rows := map (fun r => format_row (slice r)) (seq 0 N)).
  set (B := join [ch_slash] (rev rows)).
  set (W := str_of_Z (ply p mod 2 + 1)).
  set (M := str_of_Z (ply p / 2 + 1)).
  assert (Hfmt : format_tps p = join [ch_space] [B; W; M]) by reflexivity.
  (* the three fields *)
  assert (Hmn : 1 <= ply p / 2 + 1) by (pose proof (Z.div_pos (ply p) 2); lia).
  assert (HM : M = digits (ply p / 2 + 1)) by (apply str_of_Z_nonneg; lia).
  destruct (digits_spec (ply p / 2 + 1)) as (HMne & HMd & HMv); [lia|].
  assert (Hmod : ply p mod 2 = 0 \/ ply p mod 2 = 1) by (pose proof (Z.mod_pos_bound (ply p) 2); lia).
  assert (HW : (W = [ch_1] /\ ply p mod 2 = 0) \/ (W = [ch_2] /\ ply p mod 2 = 1)).
  { unfold W. destruct Hmod as [-> | ->]; [left|right]; split; reflexivity. }
  assert (Hrowchars : forall row c, In row rows -> In c row -> cell_char c \/ c = ch_comma).
  { intros row c Hrow Hc. unfold rows in Hrow. apply in_map_iff in Hrow. destruct Hrow as (r & <- & _).
    apply (format_row_chars (slice r)). assumption. }
  assert (HBchars : forall c, In c B -> c <> ch_space).
  { intros c Hc. unfold B in Hc. apply join_chars in Hc. destruct Hc as [[<-|[]]|(row & Hrow & Hc)]; [discriminate|].
    apply in_rev in Hrow. destruct (Hrowchars row c Hrow Hc) as [Hcc| ->]; [|discriminate].
    apply cell_char_not_sep in Hcc. tauto. }
  assert (Hsplit : split ch_space (format_tps p) = [B; W; M]).
  { rewrite Hfmt. apply split_join; [discriminate|]. repeat constructor.
    - intros Hin. apply (HBchars _ Hin). reflexivity.
    - destruct HW as [[-> _]|[-> _]]; intros [E|[]]; discriminate.
    - intros Hin. rewrite HM in Hin. apply HMd in Hin. unfold is_digit_char, ch_space, ch_0, ch_9 in Hin. lia. }
  destruct (fields_three _ _ _ _ Hsplit) as (Hf & EB & EW & EM).
  assert (Hrowslen : length rows = N) by (unfold rows; rewrite map_length, seq_length; reflexivity).
  assert (Hgroups : groups (format_tps p) = rev rows).
  { unfold groups. rewrite EB. unfold B. apply split_join.
    - intro E. apply (f_equal (@length str)) in E. rewrite rev_length, Hrowslen in E. simpl in E. lia.
    - apply Forall_forall. intros row Hrow Hin. apply in_rev in Hrow.
      destruct (Hrowchars row _ Hrow Hin) as [Hcc|E]; [|discriminate].
      apply cell_char_not_sep in Hcc. destruct Hcc as (_ & Hc & _). apply Hc. reflexivity. }
  assert (Hts : text_size (format_tps p) = size p).
  { unfold text_size, zlen. rewrite Hgroups, rev_length, Hrowslen. lia. }
  apply parse_accept_iff. constructor.
  - assumption.
  - rewrite EW. destruct HW as [[-> _]|[-> _]]; auto.
  - rewrite EM. apply is_ascii_digits_iff. rewrite HM. split; assumption.
  - rewrite EM, HM. apply digits_len_max. lia.
  - rewrite EM, HM, HMv. lia.
  - rewrite Hts. assumption.
  - exists (map slice (seq 0 N)). split.
    + rewrite Hgroups, rev_involutive, Hts. unfold rows. apply Forall2_map_both.
      intros r Hr. apply in_seq in Hr.
      destruct (slice_facts (board p) N r Hb ltac:(lia) Hst) as (Hsl & Hswf). fold (slice r) in Hsl, Hswf.
      split.
      * apply parse_row_format_row; [lia|assumption].
      * unfold zlen. lia.
    + unfold slice. rewrite (concat_of_slices N N (board p) Hb).
      rewrite Hts, EM, EW, HM, HMv.
      assert (Hpl : 2 * (ply p / 2 + 1 - 1) + int_of_digits W - 1 = ply p).
      { pose proof (Z.div_mod (ply p) 2). destruct HW as [[-> Hm]|[-> Hm]].
        - change (int_of_digits [ch_1]) with 1. lia.
        - change (int_of_digits [ch_2]) with 2. lia. }
      rewrite Hpl. unfold from_squares. cbn [csize].
      fold (zlen (board p)). rewrite Hlen. rewrite Z.eqb_refl.
      destruct Hres as (R1 & R2 & R3 & R4). destruct p as [psz pws pwc pbs pbc ppl pbd]. simpl in *.
      rewrite <- R1, <- R2, <- R3, <- R4. reflexivity.
Qed.

(* ---------- the writer produces canonical text ---------- *)

Theorem canonical_format p : wf p -> canonical (format_tps p).
Proof.
  intros Hwf. destruct Hwf as (Hsz & Hlen & Hst & Hply & Hmax).
  set (N := Z.to_nat (size p)).
  assert (Hb : length (board p) = (N * N)%nat) by (unfold zlen in Hlen; nia).
  set (slice := fun r : nat => firstn N (skipn (r * N) (board p))).
  set (rows := map (fun r => format_row (slice r)) (seq 0 N)).
  set (B := join [ch_slash] (rev rows)).
  set (W := str_of_Z (ply p mod 2 + 1)).
  set (M := str_of_Z (ply p / 2 + 1)).
  assert (Hfmt : format_tps p = join [ch_space] [B; W; M]) by reflexivity.
  assert (Hmn : 1 <= ply p / 2 + 1) by (pose proof (Z.div_pos (ply p) 2); lia).
  assert (HM : M = digits (ply p / 2 + 1)) by (apply str_of_Z_nonneg; lia).
  destruct (digits_spec (ply p / 2 + 1)) as (HMne & HMd & HMv); [lia|].
  assert (Hmod : ply p mod 2 = 0 \/ ply p mod 2 = 1) by (pose proof (Z.mod_pos_bound (ply p) 2); lia).
  assert (HW : W = [ch_1] \/ W = [ch_2]).
  { unfold W. destruct Hmod as [-> | ->]; [left|right]; reflexivity. }
  assert (Hrowchars : forall row c, In row rows -> In c row -> cell_char c \/ c = ch_comma).
  { intros row c Hrow Hc. unfold rows in Hrow. apply in_map_iff in Hrow. destruct Hrow as (r & <- & _).
    apply (format_row_chars (slice r)). assumption. }
  assert (Hsplit : split ch_space (format_tps p) = [B; W; M]).
  { rewrite Hfmt. apply split_join; [discriminate|]. repeat constructor.
    - intros Hc. unfold B in Hc. apply join_chars in Hc. destruct Hc as [[E|[]]|(row & Hrow & Hc)]; [discriminate|].
      apply in_rev in Hrow. destruct (Hrowchars row _ Hrow Hc) as [Hcc|E]; [|discriminate].
      apply cell_char_not_sep in Hcc. destruct Hcc as (_ & _ & Hcc). apply Hcc. reflexivity.
    - destruct HW as [-> | ->]; intros [E|[]]; discriminate.
    - intros Hin. rewrite HM in Hin. apply HMd in Hin. unfold is_digit_char, ch_space, ch_0, ch_9 in Hin. lia. }
  destruct (fields_three _ _ _ _ Hsplit) as (Hf & EB & EW & EM).
  assert (Hrowslen : length rows = N) by (unfold rows; rewrite map_length, seq_length; reflexivity).
  assert (Hgroups : groups (format_tps p) = rev rows).
  { unfold groups. rewrite EB. unfold B. apply split_join.
    - intro E. apply (f_equal (@length str)) in E. rewrite rev_length, Hrowslen in E. simpl in E. lia.
    - apply Forall_forall. intros row Hrow Hin. apply in_rev in Hrow.
      destruct (Hrowchars row _ Hrow Hin) as [Hcc|E]; [|discriminate].
      apply cell_char_not_sep in Hcc. destruct Hcc as (_ & Hc & _). apply Hc. reflexivity. }
  split.
  - intros g Hg. rewrite Hgroups in Hg. apply in_rev in Hg. unfold rows in Hg.
    apply in_map_iff in Hg. destruct Hg as (r & <- & Hr). apply in_seq in Hr.
    destruct (slice_facts (board p) N r Hb ltac:(lia) Hst) as (Hsl & _). fold (slice r) in Hsl.
    unfold format_row. rewrite split_join.
    + apply format_cells_are_canonical. lia.
    + destruct (slice r) as [|sq rest] eqn:Es; [simpl in Hsl; lia|]. simpl length. apply format_cells_nonempty.
    + apply Forall_forall. intros cell Hcell Hin.
      destruct (cell_char_not_sep ch_comma) as (Hx & _); [|congruence].
      eapply format_cells_chars; eassumption.
  - intros t. rewrite EM, HM. apply digits_no_leading_zero. lia.
Qed.

(* ---------- canonical texts are not the lenient spellings ---------- *)

Lemma canonical_not_lenient s : canonical s -> ~ lenient s.
Proof.
  intros [Hcan Hnz] [(t & Ht)|(g & Hg & Hc)].
  - exact (Hnz t Ht).
  - specialize (Hcan g Hg). revert Hc Hcan. generalize (split ch_comma g). intros l.
    induction l as [|c l IH]; [intros []|].
    intros [->|Hin] Hcan; cbn [canonical_cells] in Hcan.
    + change (str_eqb [ch_x; ch_1] [ch_x; ch_1]) with true in Hcan. discriminate.
    + apply andb_true_iff in Hcan. destruct Hcan as [_ Hcan]. apply IH; assumption.
Qed.

(* ---------- the primitives the spec is written with ---------- *)

Lemma split_characterised sep :
  (forall s, join [sep] (split sep s) = s) /\
  (forall s a, In a (split sep s) -> ~ In sep a) /\
  (forall l, l <> [] -> Forall (fun a => ~ In sep a) l -> split sep (join [sep] l) = l).
Proof. exact (conj (join_split sep) (conj (split_no_sep sep) (split_join sep))). Qed.

Lemma decimal_round_trip :
  (forall n, 0 <= n -> int_of_digits (digits n) = n) /\
  (forall m, m <> [] -> (forall c, In c m -> is_digit_char c) -> (forall t, m <> ch_0 :: t) ->
             digits (int_of_digits m) = m).
Proof. exact (conj int_of_digits_digits digits_int_of_digits). Qed.

(* ---------- tie: the default piece sets are the repository's ---------- *)

Lemma defaults_tie :
  Consts.default_pieces = Tak.default_pieces /\ Consts.default_caps = Tak.default_caps.
Proof. split; reflexivity. Qed.

(* ---------- Examples: the hypotheses are satisfiable by non-trivial values ---------- *)

(* "2,x,1/x3/21C,x,12S 2 12" *)
Definition ex_text : str :=
  [50;44;120;44;49; 47; 120;51; 47; 50;49;67;44;120;44;49;50;83; 32; 50; 32; 49;50].
Definition ex_pos : position :=
  P 3 8 (-1) 7 0 23 [[WC; BF]; []; [BS; WF]; []; []; []; [BF]; []; [WF]].

Example ex_parse : parse_tps ex_text = Accept ex_pos.
Proof. vm_compute. reflexivity. Qed.
Example ex_format : format_tps ex_pos = ex_text.
Proof. vm_compute. reflexivity. Qed.
Example ex_wf : wf ex_pos.
Proof.
  unfold wf. split; [vm_compute; split; discriminate|]. split; [reflexivity|]. split.
  - repeat constructor; intros q Hq; simpl in Hq; repeat (destruct Hq as [<-|Hq]; [reflexivity|]); destruct Hq.
  - split; [vm_compute; discriminate|].
    change (ply ex_pos / 2 + 1) with 12. unfold max_str_digits.
    apply Z.lt_le_trans with (10 ^ 2); [reflexivity|]. apply Z.pow_le_mono_r; lia.
Qed.
Example ex_standard : standard_reserves ex_pos.
Proof. vm_compute. repeat split; reflexivity. Qed.
Example ex_canonical : canonical ex_text.
Proof.
  split.
  - intros g Hg. vm_compute in Hg. repeat (destruct Hg as [<-|Hg]; [vm_compute; reflexivity|]). destruct Hg.
  - intros t. vm_compute. discriminate.
Qed.
(* the square a1 (x = 0, y = 0) is the first cell of the LAST group, c1 its third cell *)
Example ex_meaning :
  cell_text ex_text 0 0 = [50;49;67] /\ stack_of_text [50;49;67] = [WC; BF] /\
  cell_text ex_text 2 0 = [49;50;83] /\ cell_text ex_text 1 1 = [120] /\ cell_text ex_text 0 2 = [50].
Proof. vm_compute. repeat split; reflexivity. Qed.

(* must-refuse texts: "x3/x3/xa,x 1 1" (x followed by a letter), "1S2,x2/x3/x3 1 1" (buried wall) *)
Definition ex_bad_x : str := [120;51;47;120;51;47;120;97;44;120; 32;49;32;49].
Example ex_bad_x_refused : must_refuse ex_bad_x /\ parse_tps ex_bad_x = Reject.
Proof.
  split.
  - apply (mr_bad_empty_run ex_bad_x [97]).
    + exists [120;97;44;120]. split; vm_compute; auto.
    + discriminate.
    + intros d E. inversion E. unfold ch_1, ch_8. lia.
  - vm_compute. reflexivity.
Qed.
Definition ex_buried : str := [49;83;50;44;120;50;47;120;51;47;120;51; 32;49;32;49].
Example ex_buried_refused : must_refuse ex_buried /\ parse_tps ex_buried = Reject.
Proof.
  split.
  - apply (mr_mark_not_last ex_buried [49] 83 50 []).
    + exists [49;83;50;44;120;50]. split; vm_compute; auto.
    + left. reflexivity.
  - vm_compute. reflexivity.
Qed.
(* the lenient spellings are accepted and read as one would expect: "x1,x2/x3/x3 1 01" *)
Definition ex_lenient : str := [120;49;44;120;50;47;120;51;47;120;51; 32;49;32;48;49].
Example ex_lenient_accepted :
  lenient_x1 ex_lenient /\ lenient_leading_zero ex_lenient /\
  parse_tps ex_lenient = Accept (P 3 10 0 10 0 0 [[];[];[];[];[];[];[];[];[]]).
Proof.
  split; [|split].
  - exists [120;49;44;120;50]. split; vm_compute; auto.
  - exists [49]. reflexivity.
  - vm_compute. reflexivity.
Qed.
(* over the interpreter's limit (refused before the board is looked at): the shape only, the 4301 digits are not written out *)
Example ex_over_limit m :
  m <> [] -> (forall c, In c m -> is_digit_char c) -> max_str_digits < zlen m -> ~ In ch_space m ->
  parse_tps ([120;51;47;120;51;47;120;97] ++ [32;49;32] ++ m) = Reject.
Proof.
  intros Hne Hd Hl Hsp. apply over_int_limit_refused.
  assert (Hs : split ch_space ([120;51;47;120;51;47;120;97] ++ [32;49;32] ++ m) = [[120;51;47;120;51;47;120;97]; [49]; m]).
  { change ([120;51;47;120;51;47;120;97] ++ [32;49;32] ++ m) with ([120;51;47;120;51;47;120;97] ++ ch_space :: ([49] ++ ch_space :: m)).
    rewrite split_app_sep by (vm_compute; intuition discriminate).
    rewrite split_app_sep by (vm_compute; intuition discriminate).
    rewrite split_nosep by assumption. reflexivity. }
  destruct (fields_three _ _ _ _ Hs) as (Hf & _ & Hw & Hm).
  unfold over_int_limit. rewrite Hf, Hw, Hm. simpl length. auto.
Qed.
