(* C10 - float-level facts about the binary32 mirror `native32` of
   model/Solver.v, proved through Flocq's IEEE754.BinarySingleNaN: the
   SpecFloat operations the mirror uses are the images under B2SF of Flocq's
   Bplus / Bminus / Bmult / Bdiv (round to nearest even), whose correctness
   theorems relate them to rounding of real numbers.

   Because B2R lives in Coq's Reals, `Print Assumptions` of these theorems
   lists the three standard Reals axioms (ClassicalDedekindReals.sig_forall_dec,
   sig_not_dec, FunctionalExtensionality.functional_extensionality_dep) and
   nothing else. *)
From Coq Require Import ZArith Reals Psatz List Bool Lia.
From Coq Require Import Floats.SpecFloat.
From Flocq Require Import Core BinarySingleNaN Relative Plus_error.
From TV Require Import model.Solver.
Import ListNotations.

(* ------------------------------------------------------------------ *)
(* 1. SpecFloat operations = B2SF images of Flocq's operations         *)
(*    (the proofs follow Flocq's IEEE754/PrimFloat.v, generic in the   *)
(*    format instead of binary64)                                      *)
(* ------------------------------------------------------------------ *)
Section Bridge.
Variable prec emax : Z.
Context (Hp : Prec_gt_0 prec) (Hm : Prec_lt_emax prec emax).

Lemma round_nearest_even_equiv : forall s m l,
  round_nearest_even m l = choice_mode mode_NE s m l.
Proof.
  intros s m l. case l; [reflexivity | intro c].
  case c; [| reflexivity ..].
  now simpl; unfold Round.cond_incr; case Z.even.
Qed.

Lemma binary_round_aux_equiv : forall sx mx ex lx,
  SpecFloat.binary_round_aux prec emax sx mx ex lx = binary_round_aux prec emax mode_NE sx mx ex lx.
Proof.
  intros sx mx ex lx. unfold SpecFloat.binary_round_aux, binary_round_aux.
  set (mrse' := shr_fexp _ _ _ _ _). case mrse'; intros mrs' e'; simpl.
  now rewrite (round_nearest_even_equiv sx).
Qed.

Lemma binary_round_equiv : forall s m e,
  SpecFloat.binary_round prec emax s m e = binary_round prec emax mode_NE s m e.
Proof.
  intros s m e. unfold SpecFloat.binary_round, binary_round, shl_align_fexp.
  set (mez := shl_align _ _ _); case mez as [mz ez]. apply binary_round_aux_equiv.
Qed.

Lemma binary_normalize_equiv : forall m e szero,
  SpecFloat.binary_normalize prec emax m e szero
  = B2SF (binary_normalize prec emax Hp Hm mode_NE m e szero).
Proof.
  intros m e szero. case m as [| p | p].
  - now simpl.
  - simpl; rewrite B2SF_SF2B; apply binary_round_equiv.
  - simpl; rewrite B2SF_SF2B; apply binary_round_equiv.
Qed.

Lemma SFmul_B : forall x y : binary_float prec emax,
  SFmul prec emax (B2SF x) (B2SF y) = B2SF (Bmult mode_NE x y).
Proof.
  intros [sx | sx | | sx mx ex Bx] [sy | sy | | sy my ey By]; try reflexivity.
  simpl. rewrite B2SF_SF2B. apply binary_round_aux_equiv.
Qed.

Lemma SFadd_B : forall x y : binary_float prec emax,
  SFadd prec emax (B2SF x) (B2SF y) = B2SF (Bplus mode_NE x y).
Proof.
  intros [sx | sx | | sx mx ex Bx] [sy | sy | | sy my ey By];
    try reflexivity; try (simpl; now case Bool.eqb).
  apply binary_normalize_equiv.
Qed.

Lemma SFsub_B : forall x y : binary_float prec emax,
  SFsub prec emax (B2SF x) (B2SF y) = B2SF (Bminus mode_NE x y).
Proof.
  intros [sx | sx | | sx mx ex Bx] [sy | sy | | sy my ey By];
    try reflexivity; try (simpl; now case Bool.eqb).
  simpl. unfold Zminus. rewrite <- cond_Zopp_negb. apply binary_normalize_equiv.
Qed.

Lemma SFdiv_B : forall x y : binary_float prec emax,
  SFdiv prec emax (B2SF x) (B2SF y) = B2SF (Bdiv mode_NE x y).
Proof.
  intros [sx | sx | | sx mx ex Bx] [sy | sy | | sy my ey By]; try reflexivity.
  simpl. rewrite B2SF_SF2B.
  set (melz := SFdiv_core_binary _ _ _ _ _ _). case melz as [[mz ez] lz].
  apply binary_round_aux_equiv.
Qed.
End Bridge.

(* ------------------------------------------------------------------ *)
(* 2. homomorphisms of arithmetic structures                           *)
(* ------------------------------------------------------------------ *)
Section Hom.
Context {T1 T2 : Type} (h : T1 -> T2) (A1 : arith T1) (A2 : arith T2).

Record arith_hom : Prop := {
  h_zero : h (a_zero A1) = a_zero A2;
  h_add : forall x y, h (a_add A1 x y) = a_add A2 (h x) (h y);
  h_sub : forall x y, h (a_sub A1 x y) = a_sub A2 (h x) (h y);
  h_mul : forall x y, h (a_mul A1 x y) = a_mul A2 (h x) (h y);
  h_div : forall x y, h (a_div A1 x y) = a_div A2 (h x) (h y);
  h_half : forall x, h (a_half A1 x) = a_half A2 (h x);
  h_ltb : forall x y, a_ltb A1 x y = a_ltb A2 (h x) (h y);
  h_max_init : option_map h (a_max_init A1) = a_max_init A2
}.

Hypothesis H : arith_hom.

Lemma hom_term : forall lam alpha pq,
  h (term A1 lam alpha pq) = term A2 (h lam) (h alpha) (h (fst pq), h (snd pq)).
Proof.
  intros. unfold term. cbn [fst snd]. now rewrite (h_div H), (h_mul H), (h_sub H).
Qed.

Lemma combine_map : forall (p q : list T1),
  combine (map h p) (map h q) = map (fun pq => (h (fst pq), h (snd pq))) (combine p q).
Proof.
  induction p as [| a p IH]; intros [| b q]; cbn; try reflexivity. now rewrite IH.
Qed.

Lemma hom_weights : forall lam p q alpha,
  map h (weights A1 lam p q alpha) = weights A2 (h lam) (map h p) (map h q) (h alpha).
Proof.
  intros. unfold weights. rewrite combine_map, !map_map.
  apply map_ext. intros pq. apply hom_term.
Qed.

Lemma hom_sigma : forall lam p q alpha,
  h (sigma A1 lam p q alpha) = sigma A2 (h lam) (map h p) (map h q) (h alpha).
Proof.
  intros. unfold sigma. rewrite combine_map. rewrite <- (h_zero H).
  generalize (a_zero A1). induction (combine p q) as [| pq l IH]; intro acc; cbn [fold_left map].
  - reflexivity.
  - rewrite IH. now rewrite (h_add H), hom_term.
Qed.

Lemma hom_amax : forall x y, h (amax A1 x y) = amax A2 (h x) (h y).
Proof. intros. unfold amax. rewrite <- (h_ltb H). now destruct (a_ltb A1 x y). Qed.

Lemma hom_fold_amax : forall l s,
  h (fold_left (amax A1) l s) = fold_left (amax A2) (map h l) (h s).
Proof.
  induction l as [| x l IH]; intro s; cbn [fold_left map]; [reflexivity |].
  now rewrite IH, hom_amax.
Qed.

Lemma hom_mid : forall a b, h (mid A1 a b) = mid A2 (h a) (h b).
Proof. intros. unfold mid. now rewrite (h_half H), (h_add H). Qed.
End Hom.

(* ------------------------------------------------------------------ *)
(* 3. a loop invariant, for any arithmetic and any exit rule           *)
(* ------------------------------------------------------------------ *)
Section LoopInv.
Context {T : Type} (A : arith T) (X : exit_rule T).
Variables (lam : T) (pi q : list T).
Variable Inv : T -> T -> T -> Prop.       (* lo hi alpha *)
Hypothesis step_up : forall lo hi alpha,
  Inv lo hi alpha -> a_ltb A (a_one A) (sigma A lam pi q alpha) = true ->
  Inv alpha hi (mid A alpha hi).
Hypothesis step_down : forall lo hi alpha,
  Inv lo hi alpha -> a_ltb A (a_one A) (sigma A lam pi q alpha) = false ->
  Inv lo alpha (mid A alpha lo).

Lemma loop_inv : forall fuel n mem lo hi alpha k a w,
  Inv lo hi alpha ->
  loop A X lam pi q fuel n mem lo hi alpha = Returned k a w ->
  exists mem' mem'' lo' hi' alpha',
    Inv lo' hi' alpha' /\
    x_test X mem' lo' hi' alpha' (sigma A lam pi q alpha') = (Some a, mem'') /\
    w = weights A lam pi q a.
Proof.
  induction fuel as [| fuel IH]; intros n mem lo hi alpha k a w I R; [discriminate |].
  cbn [loop] in R.
  destruct (x_test X mem lo hi alpha (sigma A lam pi q alpha)) as [[a' |] mem'] eqn:E.
  - injection R as <- <- <-. exists mem, mem', lo, hi, alpha. repeat split; assumption.
  - destruct (a_ltb A (a_one A) (sigma A lam pi q alpha)) eqn:C.
    + eapply IH; [| exact R]. eapply step_up; eassumption.
    + eapply IH; [| exact R]. eapply step_down; eassumption.
Qed.
End LoopInv.

(* ------------------------------------------------------------------ *)
(* 4. binary32 in Flocq's representation; B2SF is a homomorphism onto  *)
(*    the arithmetic B32 the mirror uses                               *)
(* ------------------------------------------------------------------ *)
#[global] Instance P24 : Prec_gt_0 24. Proof. now compute. Qed.
#[global] Instance E128 : Prec_lt_emax 24 128. Proof. now compute. Qed.
Notation b32 := (binary_float 24 128).

Definition btwo : b32 := @SF2B 24 128 (sf_of_Z 24 128 2) eq_refl.
Definition bone : b32 := @SF2B 24 128 (sf_of_Z 24 128 1) eq_refl.

Definition BA : arith b32 :=
  {| a_zero := B754_zero false; a_one := bone;
     a_add := Bplus mode_NE; a_sub := Bminus mode_NE; a_mul := Bmult mode_NE; a_div := Bdiv mode_NE;
     a_half := fun x => Bdiv mode_NE x btwo;
     a_abs := Babs; a_ltb := Bltb; a_leb := Bleb; a_eqb := Beqb;
     a_finite := is_finite;
     a_max_init := Some (B754_infinity true) |}.

Lemma BA_hom : arith_hom (@B2SF 24 128) BA B32.
Proof.
  constructor; cbn [a_zero a_add a_sub a_mul a_div a_half a_ltb a_max_init BA B32 option_map B2SF].
  - reflexivity.
  - intros; symmetry; apply SFadd_B.
  - intros; symmetry; apply SFsub_B.
  - intros; symmetry; apply SFmul_B.
  - intros; symmetry; apply SFdiv_B.
  - intros x. rewrite <- SFdiv_B. unfold btwo. now rewrite B2SF_SF2B.
  - reflexivity.
  - reflexivity.
Qed.

Lemma B2SF_one : B2SF bone = a_one B32.
Proof. unfold bone. now rewrite B2SF_SF2B. Qed.

(* ------------------------------------------------------------------ *)
(* 5. real-number facts about the B operations                         *)
(* ------------------------------------------------------------------ *)
Local Open Scope R_scope.
Notation fx := (SpecFloat.fexp 24 128).
Notation format := (generic_format radix2 fx).
#[global] Instance fx_valid : Valid_exp fx := fexp_correct 24 128 P24.
#[global] Instance fx_mono : Monotone_exp fx := fexp_monotone 24 128.
Definition RN (x : R) : R := round radix2 fx (round_mode mode_NE) x.
Notation v := (@B2R 24 128).
Notation fin b := (is_finite b = true).

Lemma RN_le : forall x y, x <= y -> RN x <= RN y.
Proof. intros x y H. apply round_le; auto with typeclass_instances. Qed.

Lemma RN_format : forall x, format x -> RN x = x.
Proof. intros. apply round_generic; auto with typeclass_instances. Qed.

Lemma format_v : forall b : b32, format (v b).
Proof. intros. apply generic_format_B2R. Qed.

Lemma RN_v : forall b : b32, RN (v b) = v b.
Proof. intros. apply RN_format, format_v. Qed.

Lemma format_bpow : forall k, (-149 <= k <= 127)%Z -> format (bpow radix2 k).
Proof.
  intros k Hk. apply generic_format_bpow. unfold fx, SpecFloat.fexp, SpecFloat.emin. lia.
Qed.

Lemma RN_bpow : forall k, (-149 <= k <= 127)%Z -> RN (bpow radix2 k) = bpow radix2 k.
Proof. intros. now apply RN_format, format_bpow. Qed.

Lemma RN_abs_le : forall x k, (-149 <= k <= 127)%Z -> Rabs x <= bpow radix2 k -> Rabs (RN x) <= bpow radix2 k.
Proof.
  intros x k Hk H. apply abs_round_le_generic; auto with typeclass_instances. now apply format_bpow.
Qed.

Lemma no_overflow : forall x k, (-149 <= k <= 127)%Z -> Rabs x <= bpow radix2 k ->
  Rlt_bool (Rabs (RN x)) (bpow radix2 128) = true.
Proof.
  intros x k Hk H. apply Rlt_bool_true. apply Rle_lt_trans with (bpow radix2 k).
  - now apply RN_abs_le.
  - apply bpow_lt. lia.
Qed.

Lemma format_double : forall x, format x -> Rabs x <= bpow radix2 126 -> format (2 * x).
Proof.
  intros x Fx Hx. apply generic_format_FLT.
  assert (Fx' : FLT_format radix2 (-149) 24 x) by (apply FLT_format_generic; [now compute | exact Fx]).
  destruct Fx' as [f E1 E2 E3].
  exists (Float radix2 (Fnum f) (Fexp f + 1)).
  - rewrite E1. unfold F2R. cbn [Fnum Fexp]. rewrite bpow_plus. change (bpow radix2 1) with 2. ring.
  - exact E2.
  - simpl. unfold SpecFloat.emin. lia.
Qed.

(* signs *)
Lemma sign_pos : forall b : b32, fin b -> 0 < v b -> Bsign b = false.
Proof.
  intros [s | s | | s m e H] F P; cbn in *; try lra; try discriminate.
  destruct s; [| reflexivity]. exfalso.
  assert (F2R (Float radix2 (cond_Zopp true (Z.pos m)) e) < 0) by (apply F2R_lt_0; cbn; lia). lra.
Qed.

Lemma sign_neg : forall b : b32, fin b -> v b < 0 -> Bsign b = true.
Proof.
  intros [s | s | | s m e H] F P; cbn in *; try lra; try discriminate.
  destruct s; [reflexivity |]. exfalso.
  assert (0 < F2R (Float radix2 (cond_Zopp false (Z.pos m)) e)) by (apply F2R_gt_0; cbn; lia). lra.
Qed.

Lemma nonneg_of_sign : forall b : b32, fin b -> Bsign b = false -> 0 <= v b.
Proof.
  intros b F S. destruct (Rle_or_lt 0 (v b)) as [L | L]; [exact L |].
  rewrite (sign_neg b F L) in S. discriminate.
Qed.

Lemma zero_of_val : forall b : b32, fin b -> v b = 0 -> b = B754_zero (Bsign b).
Proof.
  intros [s | s | | s m e H] F P; cbn in *; try reflexivity; try discriminate.
  exfalso. destruct s.
  - assert (F2R (Float radix2 (cond_Zopp true (Z.pos m)) e) < 0) by (apply F2R_lt_0; cbn; lia). lra.
  - assert (0 < F2R (Float radix2 (cond_Zopp false (Z.pos m)) e)) by (apply F2R_gt_0; cbn; lia). lra.
Qed.

Lemma finite_of_val : forall b : b32, fin b -> v b <> 0 -> exists m e H, b = B754_finite (Bsign b) m e H.
Proof.
  intros [s | s | | s m e H] F P; cbn in *; try lra; try discriminate. now exists m, e, H.
Qed.

Lemma v_one : v bone = 1.
Proof. unfold bone. rewrite B2R_SF2B. vm_compute SF2R. unfold F2R. cbn. lra. Qed.
Lemma v_two : v btwo = 2.
Proof. unfold btwo. rewrite B2R_SF2B. vm_compute SF2R. unfold F2R. cbn. lra. Qed.
Lemma fin_two : fin btwo. Proof. reflexivity. Qed.
Lemma sign_two : Bsign btwo = false. Proof. reflexivity. Qed.

(* operations under a magnitude bound (no overflow) *)
Lemma Bplus_ok : forall (x y : b32) k, (-149 <= k <= 127)%Z -> fin x -> fin y ->
  Rabs (v x + v y) <= bpow radix2 k ->
  fin (Bplus mode_NE x y) /\ v (Bplus mode_NE x y) = RN (v x + v y) /\
  Bsign (Bplus mode_NE x y) =
    match Rcompare (v x + v y) 0 with Eq => andb (Bsign x) (Bsign y) | Lt => true | Gt => false end.
Proof.
  intros x y k Hk Fx Fy B. generalize (Bplus_correct 24 128 _ _ mode_NE x y Fx Fy).
  fold (RN (v x + v y)). rewrite (no_overflow _ k Hk B). tauto.
Qed.

Lemma Bminus_ok : forall (x y : b32) k, (-149 <= k <= 127)%Z -> fin x -> fin y ->
  Rabs (v x - v y) <= bpow radix2 k ->
  fin (Bminus mode_NE x y) /\ v (Bminus mode_NE x y) = RN (v x - v y) /\
  Bsign (Bminus mode_NE x y) =
    match Rcompare (v x - v y) 0 with Eq => andb (Bsign x) (negb (Bsign y)) | Lt => true | Gt => false end.
Proof.
  intros x y k Hk Fx Fy B. generalize (Bminus_correct 24 128 _ _ mode_NE x y Fx Fy).
  fold (RN (v x - v y)). rewrite (no_overflow _ k Hk B). tauto.
Qed.

Lemma Bmult_ok : forall (x y : b32) k, (-149 <= k <= 127)%Z -> fin x -> fin y ->
  Rabs (v x * v y) <= bpow radix2 k ->
  fin (Bmult mode_NE x y) /\ v (Bmult mode_NE x y) = RN (v x * v y).
Proof.
  intros x y k Hk Fx Fy B. generalize (Bmult_correct 24 128 _ _ mode_NE x y).
  fold (RN (v x * v y)). rewrite (no_overflow _ k Hk B). rewrite Fx, Fy. cbn [andb]. tauto.
Qed.

Lemma Bhalf_ok : forall (x : b32), fin x -> Rabs (v x) <= bpow radix2 127 ->
  fin (Bdiv mode_NE x btwo) /\ v (Bdiv mode_NE x btwo) = RN (v x / 2) /\
  Bsign (Bdiv mode_NE x btwo) = Bsign x.
Proof.
  intros x Fx B.
  assert (NZ : v btwo <> 0) by (rewrite v_two; lra).
  generalize (Bdiv_correct 24 128 _ _ mode_NE x btwo NZ). rewrite v_two.
  fold (RN (v x / 2)).
  assert (B' : Rabs (v x / 2) <= bpow radix2 127).
  { unfold Rdiv. rewrite Rabs_mult. rewrite (Rabs_pos_eq (/ 2)) by lra.
    assert (0 <= Rabs (v x)) by apply Rabs_pos. lra. }
  rewrite (no_overflow _ 127 ltac:(lia) B'). intros (E & F & S). repeat split; try assumption.
  - now rewrite F.
  - rewrite S; [now rewrite sign_two, xorb_false_r |].
    destruct (Bdiv mode_NE x btwo); try reflexivity. rewrite Fx in F. discriminate.
Qed.

Lemma RN_0 : RN 0 = 0.
Proof. unfold RN. apply round_0; auto with typeclass_instances. Qed.

Lemma bpow_le_12_127 : forall x k, (k <= 127)%Z -> Rabs x <= bpow radix2 k -> Rabs x <= bpow radix2 127.
Proof. intros x k Hk H. apply Rle_trans with (1 := H). apply bpow_le. lia. Qed.

(* ------------------------------------------------------------------ *)
(* 6. the midpoint (a + b) / 2 lies between a and b                     *)
(* ------------------------------------------------------------------ *)
Lemma mid_facts : forall x y : b32, fin x -> fin y ->
  Rabs (v x) <= bpow radix2 12 -> Rabs (v y) <= bpow radix2 12 ->
  let m := mid BA x y in
  fin m /\
  (forall z, format z -> - bpow radix2 12 <= z -> z <= v x -> z <= v y -> z <= v m) /\
  (forall z, format z -> z <= bpow radix2 12 -> v x <= z -> v y <= z -> v m <= z) /\
  (Bsign m = true -> v x + v y < 0 \/ (Bsign x = true /\ Bsign y = true)).
Proof.
  intros x y Fx Fy Bx By m.
  assert (B13 : bpow radix2 13 = 2 * bpow radix2 12).
  { change 13%Z with (1 + 12)%Z. rewrite bpow_plus. reflexivity. }
  assert (B126 : bpow radix2 12 <= bpow radix2 126) by (apply bpow_le; lia).
  assert (Bs : Rabs (v x + v y) <= bpow radix2 13).
  { rewrite B13. eapply Rle_trans; [apply Rabs_triang | lra]. }
  destruct (Bplus_ok x y 13 ltac:(lia) Fx Fy Bs) as (Fs & Vs & Ss).
  set (s := Bplus mode_NE x y) in *.
  assert (Bs' : Rabs (v s) <= bpow radix2 127).
  { rewrite Vs. apply bpow_le_12_127 with 13%Z; [lia |]. apply RN_abs_le; [lia | exact Bs]. }
  destruct (Bhalf_ok s Fs Bs') as (Fm & Vm & Sm).
  change (Bdiv mode_NE s btwo) with m in Fm, Vm, Sm.
  split; [exact Fm |]. split; [| split].
  - intros z Fz Lz Zx Zy.
    assert (F2z : format (2 * z)).
    { apply format_double; [exact Fz |]. apply Rabs_le. apply Rabs_le_inv in Bx. lra. }
    assert (2 * z <= v s).
    { rewrite Vs. rewrite <- (RN_format (2 * z) F2z). apply RN_le. lra. }
    rewrite Vm. rewrite <- (RN_format z Fz). apply RN_le. lra.
  - intros z Fz Lz Zx Zy.
    assert (F2z : format (2 * z)).
    { apply format_double; [exact Fz |]. apply Rabs_le. apply Rabs_le_inv in Bx. lra. }
    assert (v s <= 2 * z).
    { rewrite Vs. rewrite <- (RN_format (2 * z) F2z). apply RN_le. lra. }
    rewrite Vm. rewrite <- (RN_format z Fz). apply RN_le. lra.
  - intros St. rewrite Sm, Ss in St. destruct (Rcompare_spec (v x + v y) 0) as [L | E | G].
    + left; exact L.
    + right. now apply andb_true_iff in St.
    + discriminate.
Qed.

(* ------------------------------------------------------------------ *)
(* 7. "non-negative or +infinity", terms and sums                      *)
(* ------------------------------------------------------------------ *)
Definition pinf : b32 := B754_infinity false.
Definition nn (b : b32) : Prop := b = pinf \/ (fin b /\ Bsign b = false).

Lemma overflow_pinf : forall t : b32, B2SF t = binary_overflow 24 128 mode_NE false -> t = pinf.
Proof. intros t E. apply B2SF_inj. rewrite E. reflexivity. Qed.

Lemma nn_add : forall x y, nn x -> nn y ->
  nn (Bplus mode_NE x y) /\ ((x = pinf \/ y = pinf) -> Bplus mode_NE x y = pinf).
Proof.
  intros x y [-> | [Fx Sx]] [-> | [Fy Sy]].
  - split; [left |]; reflexivity.
  - destruct y; try discriminate; (split; [left |]; reflexivity).
  - destruct x; try discriminate; (split; [left |]; reflexivity).
  - split.
    + generalize (Bplus_correct 24 128 _ _ mode_NE x y Fx Fy).
      destruct (Rlt_bool _ _).
      * intros (E & F & S). right. split; [exact F |]. rewrite S.
        pose proof (nonneg_of_sign x Fx Sx). pose proof (nonneg_of_sign y Fy Sy).
        destruct (Rcompare_spec (v x + v y) 0); [lra | now rewrite Sx | reflexivity].
      * intros (E & _). left. apply overflow_pinf. now rewrite E, Sx.
    + intros [-> | ->]; discriminate.
Qed.

Lemma term_nn : forall c a qi : b32,
  fin c -> 0 < v c -> fin a -> fin qi -> v qi <= v a ->
  Rabs (v a) <= bpow radix2 12 -> Rabs (v qi) <= bpow radix2 12 ->
  (Bsign a = true -> v qi < 0) ->
  let t := Bdiv mode_NE c (Bminus mode_NE a qi) in
  nn t /\ (v qi = v a -> t = pinf) /\ (v qi < v a -> 0 < v (Bminus mode_NE a qi)).
Proof.
  intros c a qi Fc Pc Fa Fq Le Ba Bq Sg t.
  assert (B13 : bpow radix2 13 = 2 * bpow radix2 12).
  { change 13%Z with (1 + 12)%Z. rewrite bpow_plus. reflexivity. }
  assert (Bd : Rabs (v a - v qi) <= bpow radix2 13).
  { rewrite B13. unfold Rminus. eapply Rle_trans; [apply Rabs_triang |]. rewrite Rabs_Ropp. lra. }
  destruct (Bminus_ok a qi 13 ltac:(lia) Fa Fq Bd) as (Fd & Vd & Sd).
  set (d := Bminus mode_NE a qi) in *.
  assert (Sd' : Bsign d = false).
  { rewrite Sd. destruct (Rcompare_spec (v a - v qi) 0) as [L | E | G]; [lra | | reflexivity].
    destruct (Bsign a) eqn:Sa; [| reflexivity]. rewrite (sign_neg qi Fq (Sg eq_refl)). reflexivity. }
  assert (Pd : 0 <= v d) by (rewrite Vd, <- RN_0; apply RN_le; lra).
  assert (Sc : Bsign c = false) by (apply sign_pos; assumption).
  assert (Strict : v qi < v a -> 0 < v d).
  { intros Lt. destruct Pd as [Pd | Pd]; [exact Pd | exfalso].
    assert (NZ : v a + - v qi <> 0) by lra.
    pose proof (round_plus_neq_0 radix2 fx (round_mode mode_NE) (v a) (- v qi) (format_v a)
                  (generic_format_opp _ _ _ (format_v qi)) NZ) as NR.
    apply NR. fold (RN (v a + - v qi)). unfold Rminus in Vd. now rewrite <- Vd. }
  destruct (Req_dec (v d) 0) as [Z | NZ].
  - (* division by +0 *)
    assert (Ed : d = B754_zero false) by (rewrite (zero_of_val d Fd Z), Sd'; reflexivity).
    destruct (finite_of_val c Fc ltac:(lra)) as (m & e & H & Ec).
    assert (Et : t = pinf).
    { unfold t. fold d. rewrite Ed, Ec, Sc. reflexivity. }
    split; [left; exact Et |]. split; [intros _; exact Et |]. intros Lt. specialize (Strict Lt). lra.
  - split; [| split].
    + generalize (Bdiv_correct 24 128 _ _ mode_NE c d NZ). fold t. destruct (Rlt_bool _ _).
      * intros (E & F & S). right. rewrite Fc in F. split; [exact F |].
        rewrite S; [now rewrite Sc, Sd' |]. destruct t; try reflexivity; discriminate.
      * intros E. left. apply overflow_pinf. now rewrite E, Sc, Sd'.
    + intros E. exfalso. apply NZ. rewrite Vd. replace (v a - v qi) with 0 by lra. apply RN_0.
    + exact Strict.
Qed.

Lemma fold_nn : forall (f : b32 * b32 -> b32) (l : list (b32 * b32)) (acc : b32),
  (forall pq, In pq l -> nn (f pq)) -> nn acc ->
  let r := fold_left (fun s pq => Bplus mode_NE s (f pq)) l acc in
  nn r /\ ((acc = pinf \/ exists pq, In pq l /\ f pq = pinf) -> r = pinf).
Proof.
  intros f l. induction l as [| x l IH]; intros acc Hl Ha; cbn [fold_left].
  - split; [exact Ha |]. intros [E | (pq & [] & _)]. exact E.
  - assert (Hx : nn (f x)) by (apply Hl; left; reflexivity).
    destruct (nn_add acc (f x) Ha Hx) as [N I].
    destruct (IH (Bplus mode_NE acc (f x)) (fun pq H => Hl pq (or_intror H)) N) as [N' I'].
    split; [exact N' |]. intros [E | (pq & [<- | In'] & E)].
    + apply I'. left. apply I. left; exact E.
    + apply I'. left. apply I. right; exact E.
    + apply I'. right. exists pq. split; assumption.
Qed.

(* ------------------------------------------------------------------ *)
(* 8. more homomorphism lemmas: the bracket                            *)
(* ------------------------------------------------------------------ *)
Section Hom2.
Context {T1 T2 : Type} (h : T1 -> T2) (A1 : arith T1) (A2 : arith T2).
Hypothesis H : arith_hom h A1 A2.

Lemma hom_lo_terms : forall lam p q,
  map h (lo_terms A1 lam p q) = lo_terms A2 (h lam) (map h p) (map h q).
Proof.
  intros. unfold lo_terms. rewrite (combine_map h), !map_map. apply map_ext. intros pq. cbn [fst snd].
  now rewrite (h_add _ _ _ H), (h_mul _ _ _ H).
Qed.
Lemma hom_hi_terms : forall lam p q,
  map h (hi_terms A1 lam p q) = hi_terms A2 (h lam) (map h p) (map h q).
Proof.
  intros. unfold hi_terms. rewrite (combine_map h), !map_map. apply map_ext. intros pq. cbn [fst snd].
  now rewrite (h_add _ _ _ H).
Qed.
Lemma hom_run_max : forall l, h (run_max A1 l) = run_max A2 (map h l).
Proof.
  intros l. unfold run_max. rewrite <- (h_max_init _ _ _ H).
  destruct (a_max_init A1) as [s |]; cbn [option_map].
  - apply (hom_fold_amax h A1 A2 H).
  - destruct l as [| x t]; cbn [map]; [apply (h_zero _ _ _ H) | apply (hom_fold_amax h A1 A2 H)].
Qed.
Lemma hom_bracket : forall lam p q,
  bracket A2 (h lam) (map h p) (map h q) = (h (fst (bracket A1 lam p q)), h (snd (bracket A1 lam p q))).
Proof.
  intros. unfold bracket. cbn [fst snd]. now rewrite !hom_run_max, hom_lo_terms, hom_hi_terms.
Qed.
End Hom2.

(* ------------------------------------------------------------------ *)
(* 9. the solver on admissible inputs (Flocq representation)           *)
(* ------------------------------------------------------------------ *)
Lemma in_combine_snd : forall (A B : Type) (p : list A) (q : list B) y,
  length p = length q -> In y q -> exists x, In (x, y) (combine p q).
Proof.
  induction p as [| a p IH]; intros [| b q] y L I; cbn in *; try discriminate; try contradiction.
  destruct I as [<- | I].
  - exists a. left; reflexivity.
  - destruct (IH q y ltac:(lia) I) as [x Hx]. exists x. right; exact Hx.
Qed.

Section Native.
Variables (bl : b32) (bpi bq : list b32).
Hypothesis Hl : fin bl /\ bpow radix2 (-14) <= v bl <= bpow radix2 10.
Hypothesis Hpi : Forall (fun p => fin p /\ bpow radix2 (-20) <= v p <= 1) bpi.
Hypothesis Hq : Forall (fun x => fin x /\ -1 <= v x <= 1) bq.
Hypothesis Hlen : length bpi = length bq.
Hypothesis Hne : bpi <> [].

Let l := combine bpi bq.

Lemma l_pi : forall pq, In pq l -> fin (fst pq) /\ bpow radix2 (-20) <= v (fst pq) <= 1.
Proof.
  intros [p x] I. apply in_combine_l in I. rewrite Forall_forall in Hpi. exact (Hpi p I).
Qed.
Lemma l_q : forall pq, In pq l -> fin (snd pq) /\ -1 <= v (snd pq) <= 1.
Proof.
  intros [p x] I. apply in_combine_r in I. rewrite Forall_forall in Hq. exact (Hq x I).
Qed.
Lemma q_in_l : forall x, In x bq -> exists p, In (p, x) l.
Proof. intros x I. apply in_combine_snd; assumption. Qed.
Lemma bq_ne : exists x, In x bq.
Proof.
  destruct bpi as [| p t]; [congruence |]. destruct bq as [| x u]; [discriminate |]. exists x. left; reflexivity.
Qed.

Lemma bp10 : bpow radix2 10 = 1024. Proof. cbn. lra. Qed.
Lemma bp11 : bpow radix2 11 = 2048. Proof. cbn. lra. Qed.
Lemma bp12 : bpow radix2 12 = 4096. Proof. cbn. lra. Qed.
Lemma bpm34 : bpow radix2 (-14) * bpow radix2 (-20) = bpow radix2 (-34).
Proof. rewrite <- bpow_plus. reflexivity. Qed.

(* c_i = the rounded product lambda x pi_i *)
Lemma c_facts : forall pq, In pq l ->
  let c := Bmult mode_NE bl (fst pq) in
  fin c /\ bpow radix2 (-34) <= v c <= bpow radix2 10.
Proof.
  intros pq I c. destruct (l_pi pq I) as (Fp & Lp & Up). destruct Hl as (Fl & Ll & Ul).
  assert (P14 : 0 < bpow radix2 (-14)) by apply bpow_gt_0.
  assert (P20 : 0 < bpow radix2 (-20)) by apply bpow_gt_0.
  assert (Lo : bpow radix2 (-34) <= v bl * v (fst pq)).
  { rewrite <- bpm34. apply Rmult_le_compat; lra. }
  assert (Up' : v bl * v (fst pq) <= bpow radix2 10).
  { rewrite <- (Rmult_1_r (bpow radix2 10)). apply Rmult_le_compat; lra. }
  assert (P34 : 0 < bpow radix2 (-34)) by apply bpow_gt_0.
  assert (B : Rabs (v bl * v (fst pq)) <= bpow radix2 10) by (apply Rabs_le; lra).
  destruct (Bmult_ok bl (fst pq) 10 ltac:(lia) Fl Fp B) as (Fc & Vc).
  split; [exact Fc |]. fold c in Vc. rewrite Vc. split.
  - rewrite <- (RN_bpow (-34)) by lia. now apply RN_le.
  - rewrite <- (RN_bpow 10) by lia. now apply RN_le.
Qed.

Lemma c_pos : forall pq, In pq l -> 0 < v (Bmult mode_NE bl (fst pq)).
Proof.
  intros pq I. destruct (c_facts pq I) as (_ & L & _).
  assert (0 < bpow radix2 (-34)) by apply bpow_gt_0. lra.
Qed.

(* admissible probe: finite, above every q, bounded, and -0 only when every q is negative *)
Definition adm (x : b32) : Prop :=
  fin x /\ (forall qi, In qi bq -> v qi <= v x) /\ v x <= bpow radix2 11 /\
  (Bsign x = true -> forall qi, In qi bq -> v qi < 0).

Lemma q_bounds : forall qi, In qi bq -> fin qi /\ -1 <= v qi <= 1.
Proof. intros qi I. rewrite Forall_forall in Hq. exact (Hq qi I). Qed.

Lemma adm_abs : forall x, adm x -> Rabs (v x) <= bpow radix2 12.
Proof.
  intros x (F & Lo & Up & _). destruct bq_ne as [q0 I0]. pose proof (Lo q0 I0).
  destruct (q_bounds q0 I0) as (_ & L & _). rewrite bp11 in Up. rewrite bp12. apply Rabs_le. lra.
Qed.

Lemma mid_adm : forall x y, adm x -> adm y -> adm (mid BA x y).
Proof.
  intros x y Ax Ay. pose proof (adm_abs x Ax) as Bx. pose proof (adm_abs y Ay) as By.
  destruct Ax as (Fx & Lx & Ux & Sx). destruct Ay as (Fy & Ly & Uy & Sy).
  destruct (mid_facts x y Fx Fy Bx By) as (Fm & Lm & Um & Sm).
  split; [exact Fm |]. split; [| split].
  - intros qi I. destruct (q_bounds qi I) as (_ & L & _).
    apply Lm; [apply format_v | rewrite bp12; lra | now apply Lx | now apply Ly].
  - apply Um; [apply format_bpow; lia | rewrite bp11, bp12; lra | exact Ux | exact Uy].
  - intros S qi I. destruct (Sm S) as [N | [S1 S2]].
    + pose proof (Lx qi I). pose proof (Ly qi I).
      destruct (Rlt_or_le (v x) 0) as [Nx | Px].
      * lra.
      * assert (v y < 0) by lra. lra.
    + exact (Sx S1 qi I).
Qed.

(* weights and sums at an admissible probe *)
Lemma term_at_adm : forall a pq, adm a -> In pq l ->
  let t := term BA bl a pq in
  nn t /\ (v (snd pq) = v a -> t = pinf) /\ (v (snd pq) < v a -> 0 < v (Bminus mode_NE a (snd pq))).
Proof.
  intros a pq Aa I t. pose proof (adm_abs a Aa) as Ba. destruct Aa as (Fa & La & Ua & Sa).
  destruct (l_q pq I) as (Fq & Lq & Uq). destruct (c_facts pq I) as (Fc & _).
  assert (Iq : In (snd pq) bq) by (destruct pq as [p x]; apply in_combine_r in I; exact I).
  apply term_nn; try assumption.
  - now apply c_pos.
  - now apply La.
  - rewrite bp12. apply Rabs_le. lra.
  - intros S. exact (Sa S (snd pq) Iq).
Qed.

Lemma weights_nn : forall a, adm a -> Forall nn (weights BA bl bpi bq a).
Proof.
  intros a Aa. unfold weights. fold l. rewrite Forall_map. apply Forall_forall. intros pq I.
  exact (proj1 (term_at_adm a pq Aa I)).
Qed.

Lemma sigma_nn : forall a, adm a ->
  nn (sigma BA bl bpi bq a) /\
  ((exists qi, In qi bq /\ v qi = v a) -> sigma BA bl bpi bq a = pinf).
Proof.
  intros a Aa. unfold sigma. fold l.
  destruct (fold_nn (term BA bl a) l (B754_zero false)
              (fun pq I => proj1 (term_at_adm a pq Aa I)) (or_intror (conj eq_refl eq_refl))) as [N I].
  split; [exact N |]. intros (qi & Iq & E). apply I. right.
  destruct (q_in_l qi Iq) as [p Ip]. exists (p, qi). split; [exact Ip |].
  exact (proj1 (proj2 (term_at_adm a (p, qi) Aa Ip)) E).
Qed.

(* the initial bracket *)
Lemma l_ne : l <> [].
Proof.
  unfold l. destruct bpi as [| p t]; [congruence |]. destruct bq as [| x u]; discriminate.
Qed.

Lemma nonpos_of_sign : forall b : b32, fin b -> Bsign b = true -> v b <= 0.
Proof.
  intros b F S. destruct (Rle_or_lt (v b) 0) as [L | L]; [exact L |].
  rewrite (sign_pos b F L) in S. discriminate.
Qed.

Lemma amax_BA : forall x y : b32, fin x -> fin y ->
  (amax BA x y = x \/ amax BA x y = y) /\ v x <= v (amax BA x y) /\ v y <= v (amax BA x y).
Proof.
  intros x y Fx Fy. unfold amax. cbn [a_ltb BA]. rewrite (Bltb_correct 24 128 x y Fx Fy).
  destruct (Rlt_bool_spec (v x) (v y)); (split; [tauto | lra]).
Qed.

Lemma fold_amax_BA : forall (l' : list b32) (acc : b32),
  (forall x, In x l' -> fin x) -> fin acc ->
  let m := fold_left (amax BA) l' acc in
  fin m /\ (m = acc \/ In m l') /\ v acc <= v m /\ (forall x, In x l' -> v x <= v m).
Proof.
  induction l' as [| y t IH]; intros acc Hf Fa; cbn [fold_left].
  - repeat split; try tauto; try lra. intros x [].
  - destruct (amax_BA acc y Fa (Hf y (or_introl eq_refl))) as (C & L1 & L2).
    assert (Fm : fin (amax BA acc y)) by (destruct C as [-> | ->]; [exact Fa | apply Hf; left; reflexivity]).
    destruct (IH (amax BA acc y) (fun x I => Hf x (or_intror I)) Fm) as (F & M & L & A).
    split; [exact F |]. split; [| split].
    + destruct M as [M | M]; [| right; right; exact M].
      rewrite M. destruct C as [-> | ->]; [left; reflexivity | right; left; reflexivity].
    + lra.
    + intros x [<- | I]; [lra | now apply A].
Qed.

Lemma run_max_BA : forall l' : list b32, l' <> [] -> (forall x, In x l' -> fin x) ->
  let m := run_max BA l' in In m l' /\ fin m /\ (forall x, In x l' -> v x <= v m).
Proof.
  intros [| x t] NE Hf; [congruence |]. unfold run_max. cbn [a_max_init BA fold_left].
  assert (Fx : fin x) by (apply Hf; left; reflexivity).
  assert (E : amax BA (B754_infinity true) x = x).
  { unfold amax. cbn [a_ltb BA]. destruct x; try discriminate; reflexivity. }
  rewrite E. destruct (fold_amax_BA t x (fun y I => Hf y (or_intror I)) Fx) as (F & M & L & A).
  split; [| split].
  - destruct M as [-> | M]; [left; reflexivity | right; exact M].
  - exact F.
  - intros y [<- | I]; [exact L | now apply A].
Qed.

Lemma max_adm : forall g : b32 * b32 -> b32,
  (forall pq, In pq l -> fin (g pq) /\ v (snd pq) <= v (g pq) /\ v (g pq) <= bpow radix2 11 /\
                         (0 <= v (snd pq) -> 0 < v (g pq))) ->
  adm (run_max BA (map g l)) /\
  (forall pq, In pq l -> v (g pq) <= v (run_max BA (map g l))).
Proof.
  intros g Hg.
  assert (NE : map g l <> []) by (pose proof l_ne; destruct l; [congruence | discriminate]).
  assert (Hf : forall x, In x (map g l) -> fin x).
  { intros x I. apply in_map_iff in I. destruct I as (pq & <- & I). exact (proj1 (Hg pq I)). }
  destruct (run_max_BA (map g l) NE Hf) as (I & F & A). set (m := run_max BA (map g l)) in *.
  apply in_map_iff in I. destruct I as (pq0 & E0 & I0).
  assert (Ag : forall pq, In pq l -> v (g pq) <= v m) by (intros pq Ipq; apply A, in_map; exact Ipq).
  split; [| exact Ag].
  split; [exact F |]. split; [| split].
  - intros qi Iq. destruct (q_in_l qi Iq) as [p Ip]. destruct (Hg (p, qi) Ip) as (_ & L & _).
    cbn [snd] in L. pose proof (Ag (p, qi) Ip). lra.
  - rewrite <- E0. exact (proj1 (proj2 (proj2 (Hg pq0 I0)))).
  - intros S qi Iq. pose proof (nonpos_of_sign m F S) as NP.
    destruct (q_in_l qi Iq) as [p Ip]. destruct (Hg (p, qi) Ip) as (_ & L & _ & P). cbn [snd] in L, P.
    pose proof (Ag (p, qi) Ip). destruct (Rlt_or_le (v qi) 0) as [N | NN]; [exact N |].
    specialize (P NN). lra.
Qed.

Definition elo (pq : b32 * b32) : b32 := Bplus mode_NE (snd pq) (Bmult mode_NE bl (fst pq)).
Definition ehi (pq : b32 * b32) : b32 := Bplus mode_NE (snd pq) bl.

Lemma eadd_facts : forall (x c : b32), fin x -> -1 <= v x <= 1 -> fin c -> 0 < v c -> v c <= bpow radix2 10 ->
  let e := Bplus mode_NE x c in
  fin e /\ v e = RN (v x + v c) /\ v x <= v e /\ v e <= bpow radix2 11 /\ (0 <= v x -> 0 < v e).
Proof.
  intros x c Fx Bx Fc Pc Uc e. rewrite bp10 in Uc.
  assert (B : Rabs (v x + v c) <= bpow radix2 11) by (rewrite bp11; apply Rabs_le; lra).
  destruct (Bplus_ok x c 11 ltac:(lia) Fx Fc B) as (Fe & Ve & _). fold e in Fe, Ve.
  split; [exact Fe |]. split; [exact Ve |]. split; [| split].
  - rewrite Ve. rewrite <- (RN_v x) at 1. apply RN_le. lra.
  - rewrite Ve, <- (RN_bpow 11) by lia. apply RN_le. rewrite bp11. lra.
  - intros P. rewrite Ve. apply Rlt_le_trans with (v c); [exact Pc |].
    rewrite <- (RN_v c) at 1. apply RN_le. lra.
Qed.

Lemma elo_facts : forall pq, In pq l ->
  fin (elo pq) /\ v (elo pq) = RN (v (snd pq) + v (Bmult mode_NE bl (fst pq))) /\
  v (snd pq) <= v (elo pq) /\ v (elo pq) <= bpow radix2 11 /\ (0 <= v (snd pq) -> 0 < v (elo pq)).
Proof.
  intros pq I. destruct (l_q pq I) as (Fq & Bq). destruct (c_facts pq I) as (Fc & _ & Uc).
  apply eadd_facts; try assumption. now apply c_pos.
Qed.

Lemma ehi_facts : forall pq, In pq l ->
  fin (ehi pq) /\ v (ehi pq) = RN (v (snd pq) + v bl) /\
  v (snd pq) <= v (ehi pq) /\ v (ehi pq) <= bpow radix2 11 /\ (0 <= v (snd pq) -> 0 < v (ehi pq)).
Proof.
  intros pq I. destruct (l_q pq I) as (Fq & Bq). destruct Hl as (Fl & Ll & Ul).
  assert (0 < bpow radix2 (-14)) by apply bpow_gt_0.
  apply eadd_facts; try assumption; lra.
Qed.

Definition lo0 : b32 := fst (bracket BA bl bpi bq).
Definition hi0 : b32 := snd (bracket BA bl bpi bq).

Lemma lo0_eq : lo0 = run_max BA (map elo l). Proof. reflexivity. Qed.
Lemma hi0_eq : hi0 = run_max BA (map ehi l). Proof. reflexivity. Qed.

Lemma adm_lo0 : adm lo0 /\ (forall pq, In pq l -> v (elo pq) <= v lo0).
Proof.
  rewrite lo0_eq. apply max_adm. intros pq I.
  destruct (elo_facts pq I) as (F & _ & L & U & P). repeat split; assumption.
Qed.
Lemma adm_hi0 : adm hi0 /\ (forall pq, In pq l -> v (ehi pq) <= v hi0).
Proof.
  rewrite hi0_eq. apply max_adm. intros pq I.
  destruct (ehi_facts pq I) as (F & _ & L & U & P). repeat split; assumption.
Qed.

(* invariant of the loop, on the SpecFloat side *)
Definition lamS : spec_float := B2SF bl.
Definition piS : list spec_float := map (@B2SF 24 128) bpi.
Definition qS : list spec_float := map (@B2SF 24 128) bq.

Definition InvS (P : b32 -> b32 -> b32 -> Prop) (lo hi a : spec_float) : Prop :=
  exists blo bhi ba : b32, lo = B2SF blo /\ hi = B2SF bhi /\ a = B2SF ba /\
                          adm blo /\ adm bhi /\ adm ba /\ P blo bhi ba.

Lemma sigma_S : forall ba, sigma B32 lamS piS qS (B2SF ba) = B2SF (sigma BA bl bpi bq ba).
Proof. intros. symmetry. apply (hom_sigma _ _ _ BA_hom). Qed.
Lemma mid_S : forall x y : b32, mid B32 (B2SF x) (B2SF y) = B2SF (mid BA x y).
Proof. intros. symmetry. apply (hom_mid _ _ _ BA_hom). Qed.
Lemma weights_S : forall ba, weights B32 lamS piS qS (B2SF ba) = map (@B2SF 24 128) (weights BA bl bpi bq ba).
Proof. intros. symmetry. apply (hom_weights _ _ _ BA_hom). Qed.
Lemma bracket_S : bracket B32 lamS piS qS = (B2SF lo0, B2SF hi0).
Proof. apply (hom_bracket _ _ _ BA_hom). Qed.

(* the plain invariant: all three points admissible *)
Lemma step_up_S : forall lo hi a, InvS (fun _ _ _ => True) lo hi a ->
  InvS (fun _ _ _ => True) a hi (mid B32 a hi).
Proof.
  intros lo hi a (blo & bhi & ba & -> & -> & -> & A1 & A2 & A3 & _).
  exists ba, bhi, (mid BA ba bhi). rewrite mid_S.
  split; [reflexivity | split; [reflexivity | split; [reflexivity | split; [exact A3 | split; [exact A2 | split; [now apply mid_adm | exact I]]]]]].
Qed.
Lemma step_down_S : forall lo hi a, InvS (fun _ _ _ => True) lo hi a ->
  InvS (fun _ _ _ => True) lo a (mid B32 a lo).
Proof.
  intros lo hi a (blo & bhi & ba & -> & -> & -> & A1 & A2 & A3 & _).
  exists blo, ba, (mid BA ba blo). rewrite mid_S.
  split; [reflexivity | split; [reflexivity | split; [reflexivity | split; [exact A1 | split; [exact A3 | split; [now apply mid_adm | exact I]]]]]].
Qed.

Lemma native_exit_some : forall (T : Type) (A : arith T) e eps l0 mem lo hi alpha s a m',
  x_test (native_exit A e eps l0) mem lo hi alpha s = (Some a, m') ->
  (a = alpha /\ (a_leb A (a_abs A (e s)) eps = true \/ a_finite A s = true)) \/ a = hi.
Proof.
  intros T A e eps l0 mem lo hi alpha s a m' E. cbn [x_test native_exit] in E.
  destruct (a_leb A (a_abs A (e s)) eps) eqn:C1.
  - injection E as <- _. left. split; [reflexivity | left; reflexivity].
  - destruct (match mem with Some l1 => a_eqb A s l1 | None => false end); [| discriminate].
    destruct (a_finite A s) eqn:C2; cbn [negb] in E; injection E as <- _.
    + left. split; [reflexivity | right; reflexivity].
    + right; reflexivity.
Qed.

(* (a)+(b) in Flocq's representation, for any fuel *)
Theorem solve32_adm : forall fuel k a w,
  solve B32 native_exit_32 fuel lamS piS qS = Returned k a w ->
  exists ba : b32, a = B2SF ba /\ adm ba /\ w = map (@B2SF 24 128) (weights BA bl bpi bq ba).
Proof.
  intros fuel k a w R. unfold solve in R. rewrite bracket_S in R.
  assert (I0 : InvS (fun _ _ _ => True) (B2SF lo0) (B2SF hi0) (mid B32 (B2SF lo0) (B2SF hi0))).
  { exists lo0, hi0, (mid BA lo0 hi0). rewrite mid_S.
    split; [reflexivity | split; [reflexivity | split; [reflexivity |]]].
    split; [exact (proj1 adm_lo0) | split; [exact (proj1 adm_hi0) | split; [| exact I]]].
    apply mid_adm; [exact (proj1 adm_lo0) | exact (proj1 adm_hi0)]. }
  destruct (loop_inv B32 native_exit_32 lamS piS qS (InvS (fun _ _ _ => True))
              (fun lo hi al Hi _ => step_up_S lo hi al Hi) (fun lo hi al Hi _ => step_down_S lo hi al Hi)
              _ _ _ _ _ _ _ _ _ I0 R)
    as (m1 & m2 & lo' & hi' & al' & (blo & bhi & ba & -> & -> & -> & A1 & A2 & A3 & _) & T & W).
  apply native_exit_some in T. destruct T as [[-> _] | ->].
  - exists ba. rewrite weights_S in W. split; [reflexivity | split; [exact A3 | exact W]].
  - exists bhi. rewrite weights_S in W. split; [reflexivity | split; [exact A2 | exact W]].
Qed.

(* ---- strictness: alpha_max stays strictly above every q ------------- *)
Lemma half_ulp_bounds : forall y : R, exists eps eta : R,
  Rabs eps <= bpow radix2 (-24) /\ Rabs eta <= bpow radix2 (-150) /\ RN y = y * (1 + eps) + eta.
Proof.
  intros y. destruct (error_N_FLT radix2 (-149) 24 ltac:(lia) (fun x => negb (Z.even x)) y)
    as (eps & eta & He & Ht & _ & E).
  exists eps, eta. split; [| split].
  - replace (bpow radix2 (-24)) with (/ 2 * bpow radix2 (-24 + 1)); [exact He |].
    change (-24 + 1)%Z with (1 + -24)%Z. rewrite bpow_plus. change (bpow radix2 1) with 2. field.
  - replace (bpow radix2 (-150)) with (/ 2 * bpow radix2 (-149)); [exact Ht |].
    change (-149)%Z with (1 + -150)%Z. rewrite bpow_plus. change (bpow radix2 1) with 2. field.
  - exact E.
Qed.

Lemma strict_add : forall x c : R, -1 <= x <= 1 -> bpow radix2 (-14) <= c <= bpow radix2 10 -> x < RN (x + c).
Proof.
  intros x c Bx Bc. destruct (half_ulp_bounds (x + c)) as (eps & eta & He & Ht & E). rewrite E.
  assert (E14 : bpow radix2 (-14) = / 16384) by (cbn; lra).
  assert (E24 : bpow radix2 (-24) = / 16777216) by (cbn; lra).
  assert (E150 : bpow radix2 (-150) <= bpow radix2 (-30)) by (apply bpow_le; lia).
  assert (E30 : bpow radix2 (-30) = / 1073741824) by (cbn; lra).
  rewrite bp10 in Bc. rewrite E14 in Bc. rewrite E24 in He. rewrite E30 in E150.
  apply Rabs_le_inv in He. apply Rabs_le_inv in Ht.
  assert (Py : 0 <= x + c + 1) by lra.
  assert (M : - ((x + c + 2) * / 16777216) <= (x + c) * eps).
  { destruct (Rle_or_lt 0 (x + c)) as [P | N]; nra. }
  lra.
Qed.

Lemma hi0_strict : forall qi, In qi bq -> v qi < v hi0.
Proof.
  intros qi Iq. destruct (q_in_l qi Iq) as [p Ip]. destruct (ehi_facts (p, qi) Ip) as (_ & Ve & _).
  pose proof (proj2 adm_hi0 (p, qi) Ip) as L. cbn [snd] in Ve. rewrite Ve in L.
  destruct (q_bounds qi Iq) as (_ & Bq). destruct Hl as (_ & Bl).
  pose proof (strict_add (v qi) (v bl) Bq Bl). lra.
Qed.

Lemma c_le_lam : forall pq, In pq l -> v (Bmult mode_NE bl (fst pq)) <= v bl.
Proof.
  intros pq I. destruct (l_pi pq I) as (Fp & Lp & Up). destruct Hl as (Fl & Ll & Ul).
  assert (P14 : 0 < bpow radix2 (-14)) by apply bpow_gt_0.
  assert (P20 : 0 < bpow radix2 (-20)) by apply bpow_gt_0.
  assert (B : Rabs (v bl * v (fst pq)) <= bpow radix2 10).
  { apply Rabs_le. split; [| rewrite <- (Rmult_1_r (bpow radix2 10)); apply Rmult_le_compat; lra].
    assert (0 <= v bl * v (fst pq)) by (apply Rmult_le_pos; lra). rewrite bp10. lra. }
  destruct (Bmult_ok bl (fst pq) 10 ltac:(lia) Fl Fp B) as (_ & Vc). rewrite Vc.
  rewrite <- (RN_v bl) at 2. apply RN_le. rewrite <- (Rmult_1_r (v bl)) at 2.
  apply Rmult_le_compat_l; lra.
Qed.

Lemma lo0_le_hi0 : v lo0 <= v hi0.
Proof.
  assert (NE : map elo l <> []) by (pose proof l_ne; destruct l; [congruence | discriminate]).
  assert (Hf : forall x, In x (map elo l) -> fin x).
  { intros x I. apply in_map_iff in I. destruct I as (pq & <- & I). exact (proj1 (elo_facts pq I)). }
  destruct (run_max_BA (map elo l) NE Hf) as (I & _). rewrite <- lo0_eq in I.
  apply in_map_iff in I. destruct I as (pq & E & I). rewrite <- E.
  destruct (elo_facts pq I) as (_ & Ve & _). destruct (ehi_facts pq I) as (_ & Vh & _).
  pose proof (proj2 adm_hi0 pq I) as L. rewrite Ve. rewrite Vh in L.
  eapply Rle_trans; [| exact L]. apply RN_le. pose proof (c_le_lam pq I). lra.
Qed.

(* strengthened invariant *)
Definition PS (blo bhi ba : b32) : Prop :=
  (forall qi, In qi bq -> v qi < v bhi) /\ v lo0 <= v blo /\ v lo0 <= v bhi /\ v lo0 <= v ba.

Lemma mid_lower : forall x y, adm x -> adm y -> v lo0 <= v x -> v lo0 <= v y -> v lo0 <= v (mid BA x y).
Proof.
  intros x y Ax Ay Lx Ly. pose proof (adm_abs x Ax) as Bx. pose proof (adm_abs y Ay) as By.
  destruct (mid_facts x y (proj1 Ax) (proj1 Ay) Bx By) as (_ & Lm & _).
  apply Lm; try assumption; [apply format_v |].
  pose proof (adm_abs lo0 (proj1 adm_lo0)) as B0. apply Rabs_le_inv in B0. lra.
Qed.

Lemma ltb_one_pinf : a_ltb B32 (a_one B32) (B2SF pinf) = true.
Proof. reflexivity. Qed.

Lemma above_strict : forall ba, adm ba ->
  sigma BA bl bpi bq ba <> pinf -> forall qi, In qi bq -> v qi < v ba.
Proof.
  intros ba Aa NS qi Iq. pose proof (proj1 (proj2 Aa) qi Iq) as L.
  destruct L as [L | E]; [exact L | exfalso]. apply NS.
  apply (proj2 (sigma_nn ba Aa)). exists qi. split; assumption.
Qed.

Lemma step_up_PS : forall lo hi a, InvS PS lo hi a -> InvS PS a hi (mid B32 a hi).
Proof.
  intros lo hi a (blo & bhi & ba & -> & -> & -> & A1 & A2 & A3 & (S & L1 & L2 & L3)).
  exists ba, bhi, (mid BA ba bhi). rewrite mid_S.
  split; [reflexivity | split; [reflexivity | split; [reflexivity | split; [exact A3 | split; [exact A2 | split; [now apply mid_adm |]]]]]].
  split; [exact S | split; [exact L3 | split; [exact L2 | now apply mid_lower]]].
Qed.

Lemma step_down_PS : forall lo hi a, InvS PS lo hi a ->
  a_ltb B32 (a_one B32) (sigma B32 lamS piS qS a) = false ->
  InvS PS lo a (mid B32 a lo).
Proof.
  intros lo hi a (blo & bhi & ba & -> & -> & -> & A1 & A2 & A3 & (S & L1 & L2 & L3)) C.
  rewrite sigma_S in C.
  assert (NS : sigma BA bl bpi bq ba <> pinf).
  { intros E. rewrite E, ltb_one_pinf in C. discriminate. }
  exists blo, ba, (mid BA ba blo). rewrite mid_S.
  split; [reflexivity | split; [reflexivity | split; [reflexivity | split; [exact A1 | split; [exact A3 | split; [now apply mid_adm |]]]]]].
  split; [exact (above_strict ba A3 NS) | split; [exact L1 | split; [exact L3 | now apply mid_lower]]].
Qed.

Lemma exit_needs_finite_sum :
  a_leb B32 (a_abs B32 (err32 (B2SF pinf))) SIGMA_EPSILON32 = false /\ a_finite B32 (B2SF pinf) = false.
Proof. split; vm_compute; reflexivity. Qed.

(* whenever the solver returns: alpha is admissible, STRICTLY above every q and not below alpha_min *)
Theorem solve32_strict : forall fuel k a w,
  solve B32 native_exit_32 fuel lamS piS qS = Returned k a w ->
  exists ba : b32, a = B2SF ba /\ adm ba /\ (forall qi, In qi bq -> v qi < v ba) /\ v lo0 <= v ba /\
                   w = map (@B2SF 24 128) (weights BA bl bpi bq ba).
Proof.
  intros fuel k a w R. unfold solve in R. rewrite bracket_S in R.
  assert (I0 : InvS PS (B2SF lo0) (B2SF hi0) (mid B32 (B2SF lo0) (B2SF hi0))).
  { exists lo0, hi0, (mid BA lo0 hi0). rewrite mid_S.
    split; [reflexivity | split; [reflexivity | split; [reflexivity |]]].
    split; [exact (proj1 adm_lo0) | split; [exact (proj1 adm_hi0) | split]].
    - apply mid_adm; [exact (proj1 adm_lo0) | exact (proj1 adm_hi0)].
    - split; [exact hi0_strict | split; [lra | split; [exact lo0_le_hi0 |]]].
      apply mid_lower; [exact (proj1 adm_lo0) | exact (proj1 adm_hi0) | lra | exact lo0_le_hi0]. }
  destruct (loop_inv B32 native_exit_32 lamS piS qS (InvS PS)
              (fun lo hi al Hi _ => step_up_PS lo hi al Hi) step_down_PS
              _ _ _ _ _ _ _ _ _ I0 R)
    as (m1 & m2 & lo' & hi' & al' & (blo & bhi & ba & -> & -> & -> & A1 & A2 & A3 & (S & L1 & L2 & L3)) & T & W).
  apply native_exit_some in T. destruct T as [[-> C] | ->].
  - exists ba. rewrite weights_S in W.
    split; [reflexivity | split; [exact A3 | split; [| split; [exact L3 | exact W]]]].
    apply (above_strict ba A3). intros E. rewrite sigma_S, E in C.
    destruct exit_needs_finite_sum as [E1 E2]. destruct C as [C | C]; congruence.
  - exists bhi. rewrite weights_S in W.
    split; [reflexivity | split; [exact A2 | split; [exact S | split; [exact L2 | exact W]]]].
Qed.

(* ---- the gap alpha - q_i cannot be so small that a weight overflows -- *)
Lemma float_multiple : forall (b : b32) (m : Z), bpow radix2 m <= Rabs (v b) ->
  exists n : Z, v b = IZR n * bpow radix2 (m - 24).
Proof.
  intros b m Hm. destruct (FLT_format_B2R 24 128 P24 b) as [f E1 E2 E3].
  assert (Lt : (m < 24 + Fexp f)%Z).
  { apply (lt_bpow radix2). apply Rle_lt_trans with (1 := Hm). rewrite E1. unfold F2R.
    rewrite Rabs_mult, (Rabs_pos_eq (bpow radix2 (Fexp f))) by apply bpow_ge_0.
    rewrite bpow_plus. apply Rmult_lt_compat_r; [apply bpow_gt_0 |].
    rewrite <- abs_IZR. rewrite <- (IZR_Zpower radix2 24) by lia. apply IZR_lt. exact E2. }
  exists (Fnum f * radix2 ^ (Fexp f - (m - 24)))%Z.
  rewrite mult_IZR, IZR_Zpower by lia. rewrite Rmult_assoc, <- bpow_plus.
  replace (Fexp f - (m - 24) + (m - 24))%Z with (Fexp f) by lia. exact E1.
Qed.

Lemma bpow_double : forall e, bpow radix2 (e + 1) = 2 * bpow radix2 e.
Proof. intros. rewrite bpow_plus. change (bpow radix2 1) with 2. ring. Qed.

Lemma gap : forall (a qi : b32) (c : R), fin a -> fin qi ->
  -1 <= v qi <= 1 -> v qi < v a -> RN (v qi + c) <= v a -> bpow radix2 (-34) <= c ->
  bpow radix2 (-117) <= v a - v qi.
Proof.
  intros a qi c Fa Fq Bq Lt Ge Hc.
  assert (P117 : 0 < bpow radix2 (-117)) by apply bpow_gt_0.
  assert (L1 : bpow radix2 (-117) <= bpow radix2 (-115)) by (apply bpow_le; lia).
  assert (L2 : bpow radix2 (-117) <= bpow radix2 (-91)) by (apply bpow_le; lia).
  assert (L3 : bpow radix2 (-117) <= bpow radix2 (-36)) by (apply bpow_le; lia).
  assert (L4 : bpow radix2 (-90) <= bpow radix2 (-36)) by (apply bpow_le; lia).
  assert (D34 : bpow radix2 (-34) = 2 * bpow radix2 (-35)) by (rewrite <- bpow_double; reflexivity).
  assert (D35 : bpow radix2 (-35) = 2 * bpow radix2 (-36)) by (rewrite <- bpow_double; reflexivity).
  assert (D90 : bpow radix2 (-90) = 2 * bpow radix2 (-91)) by (rewrite <- bpow_double; reflexivity).
  assert (P91 : 0 < bpow radix2 (-91)) by apply bpow_gt_0.
  assert (P36 : 0 < bpow radix2 (-36)) by apply bpow_gt_0.
  destruct (Rlt_or_le (Rabs (v qi)) (bpow radix2 (-90))) as [Small | Big].
  - (* q tiny: no absorption, alpha >= RN(q + c) >= 2^-35 *)
    apply Rabs_lt_inv in Small.
    assert (bpow radix2 (-35) <= v a).
    { eapply Rle_trans; [| exact Ge]. rewrite <- (RN_bpow (-35)) by lia. apply RN_le. lra. }
    lra.
  - destruct (Rlt_or_le (Rabs (v a)) (bpow radix2 (-91))) as [SmallA | BigA].
    + apply Rabs_lt_inv in SmallA.
      assert (v qi <= - bpow radix2 (-90)).
      { destruct (Rle_or_lt 0 (v qi)) as [P | N].
        - rewrite Rabs_pos_eq in Big by exact P. lra.
        - rewrite Rabs_left in Big by exact N. lra. }
      lra.
    + assert (BigQ : bpow radix2 (-91) <= Rabs (v qi)) by lra.
      destruct (float_multiple a (-91) BigA) as [na Ea]. destruct (float_multiple qi (-91) BigQ) as [nq Eq].
      change (-91 - 24)%Z with (-115)%Z in Ea, Eq.
      assert (P115 : 0 < bpow radix2 (-115)) by apply bpow_gt_0.
      assert (Hn : (nq < na)%Z).
      { apply lt_IZR. apply Rmult_lt_reg_r with (bpow radix2 (-115)); [exact P115 |]. now rewrite <- Ea, <- Eq. }
      assert (1 <= IZR na - IZR nq) by (rewrite <- minus_IZR; apply IZR_le; lia).
      rewrite Ea, Eq. nra.
Qed.

Lemma term_finite : forall ba pq, adm ba -> (forall qi, In qi bq -> v qi < v ba) -> v lo0 <= v ba ->
  In pq l -> fin (term BA bl ba pq) /\ Bsign (term BA bl ba pq) = false.
Proof.
  intros ba pq Aa Sa La I. destruct (term_at_adm ba pq Aa I) as (N & _ & _).
  assert (F : fin (term BA bl ba pq)).
  { pose proof (adm_abs ba Aa) as Ba. destruct Aa as (Fa & _).
    destruct (l_q pq I) as (Fq & Bq). destruct (c_facts pq I) as (Fc & Lc & Uc).
    assert (Iq : In (snd pq) bq) by (destruct pq as [p x]; apply in_combine_r in I; exact I).
    pose proof (Sa (snd pq) Iq) as Lt.
    assert (Ge : RN (v (snd pq) + v (Bmult mode_NE bl (fst pq))) <= v ba).
    { destruct (elo_facts pq I) as (_ & Ve & _). rewrite <- Ve.
      eapply Rle_trans; [exact (proj2 adm_lo0 pq I) | exact La]. }
    pose proof (gap ba (snd pq) _ Fa Fq Bq Lt Ge Lc) as G.
    assert (B13 : bpow radix2 13 = 2 * bpow radix2 12) by (rewrite <- bpow_double; reflexivity).
    assert (Bd : Rabs (v ba - v (snd pq)) <= bpow radix2 13).
    { rewrite B13, bp12. rewrite bp12 in Ba. apply Rabs_le_inv in Ba. apply Rabs_le. lra. }
    destruct (Bminus_ok ba (snd pq) 13 ltac:(lia) Fa Fq Bd) as (Fd & Vd & _).
    set (d := Bminus mode_NE ba (snd pq)) in *.
    assert (Gd : bpow radix2 (-117) <= v d).
    { rewrite Vd, <- (RN_bpow (-117)) by lia. apply RN_le. exact G. }
    assert (P117 : 0 < bpow radix2 (-117)) by apply bpow_gt_0.
    assert (NZ : v d <> 0) by lra.
    set (c := Bmult mode_NE bl (fst pq)) in *.
    assert (P34 : 0 < bpow radix2 (-34)) by apply bpow_gt_0.
    assert (Q : Rabs (v c / v d) <= bpow radix2 127).
    { assert (0 < / v d) by (apply Rinv_0_lt_compat; lra).
      assert (/ v d <= / bpow radix2 (-117)) by (apply Rinv_le_contravar; lra).
      rewrite Rabs_pos_eq by (apply Rmult_le_pos; lra).
      change 127%Z with (10 + 117)%Z. rewrite bpow_plus.
      replace (bpow radix2 117) with (/ bpow radix2 (-117)) by (rewrite <- bpow_opp; reflexivity).
      unfold Rdiv. apply Rmult_le_compat; lra. }
    generalize (Bdiv_correct 24 128 _ _ mode_NE c d NZ). fold (RN (v c / v d)).
    rewrite (no_overflow _ 127 ltac:(lia) Q). intros (_ & Fin & _).
    change (term BA bl ba pq) with (Bdiv mode_NE c d). now rewrite Fin. }
  split; [exact F |]. destruct N as [E | [_ S]]; [rewrite E in F; discriminate | exact S].
Qed.

(* (c)+(d) in Flocq's representation: every returned weight is finite and non-negative *)
Theorem solve32_finite : forall fuel k a w,
  solve B32 native_exit_32 fuel lamS piS qS = Returned k a w ->
  exists ba : b32, a = B2SF ba /\ adm ba /\ (forall qi, In qi bq -> v qi < v ba) /\
    w = map (@B2SF 24 128) (weights BA bl bpi bq ba) /\
    Forall (fun t : b32 => fin t /\ Bsign t = false) (weights BA bl bpi bq ba).
Proof.
  intros fuel k a w R. destruct (solve32_strict fuel k a w R) as (ba & E & Aa & Sa & La & W).
  exists ba. split; [exact E | split; [exact Aa | split; [exact Sa | split; [exact W |]]]].
  unfold weights. fold l. rewrite Forall_map. apply Forall_forall. intros pq I.
  now apply term_finite.
Qed.
End Native.

(* ------------------------------------------------------------------ *)
(* 10. statements on SpecFloat values (what native32 takes)            *)
(* ------------------------------------------------------------------ *)
Notation sfR := (SF2R radix2).

(* a valid finite binary32 value within [lo, hi] *)
Definition okf (x : spec_float) (lo hi : R) : Prop :=
  valid_binary 24 128 x = true /\ is_finite_SF x = true /\ lo <= sfR x <= hi.

(* admissible inputs: the regime of the property in binary32 terms *)
Record Hyp32 (lam : spec_float) (pi q : list spec_float) : Prop := {
  H32_len : length pi = length q;
  H32_ne : pi <> [];
  H32_lam : okf lam (bpow radix2 (-14)) (bpow radix2 10);      (* 2^-14 <= lambda <= 2^10 *)
  H32_pi : Forall (fun p => okf p (bpow radix2 (-20)) 1) pi;   (* 2^-20 <= pi_i <= 1 *)
  H32_q : Forall (fun x => okf x (-1) 1) q                     (* -1 <= q_i <= 1 *)
}.

Lemma okf_witness : forall x lo hi, okf x lo hi -> exists b : b32, x = B2SF b /\ fin b /\ lo <= v b <= hi.
Proof.
  intros x lo hi (V & F & B). exists (SF2B x V).
  rewrite B2SF_SF2B, is_finite_SF2B, B2R_SF2B. repeat split; tauto.
Qed.

Lemma okf_witness_list : forall l lo hi, Forall (fun x => okf x lo hi) l ->
  exists bl : list b32, l = map (@B2SF 24 128) bl /\ Forall (fun b => fin b /\ lo <= v b <= hi) bl.
Proof.
  induction l as [| x t IH]; intros lo hi H.
  - exists []. split; [reflexivity | constructor].
  - inversion H as [| ? ? Hx Ht]; subst. destruct (okf_witness x lo hi Hx) as (b & -> & Fb & Bb).
    destruct (IH lo hi Ht) as (bt & -> & Ft). exists (b :: bt). split; [reflexivity |].
    constructor; [split; assumption | exact Ft].
Qed.

Lemma sign_SF_B2SF : forall b : b32, sign_SF (B2SF b) = Bsign b.
Proof. now intros [s | s | | s m e H]. Qed.

Strategy expand [native32].

Lemma Hyp32_witness : forall lam pi q, Hyp32 lam pi q ->
  exists (bl : b32) (bpi bq : list b32),
    lam = B2SF bl /\ pi = map (@B2SF 24 128) bpi /\ q = map (@B2SF 24 128) bq /\
    (fin bl /\ bpow radix2 (-14) <= v bl <= bpow radix2 10) /\
    Forall (fun p => fin p /\ bpow radix2 (-20) <= v p <= 1) bpi /\
    Forall (fun x => fin x /\ -1 <= v x <= 1) bq /\
    length bpi = length bq /\ bpi <> [].
Proof.
  intros lam pi q [Hlen Hne Hl Hp Hq].
  destruct (okf_witness _ _ _ Hl) as (bl & -> & Fl & Bl).
  destruct (okf_witness_list _ _ _ Hp) as (bpi & -> & Fp).
  destruct (okf_witness_list _ _ _ Hq) as (bq & -> & Fq).
  exists bl, bpi, bq. rewrite !map_length in Hlen.
  repeat split; try assumption; try tauto.
  intros E. apply Hne. now rewrite E.
Qed.

(* (a) the returned alpha (and, by the invariant the proof maintains, every probe of the run)
   is a finite float that is not below any q_i *)
Theorem native32_alpha_ge_qmax : forall lam pi q k a w,
  Hyp32 lam pi q -> native32 lam pi q = Returned k a w ->
  valid_binary 24 128 a = true /\ is_finite_SF a = true /\
  Forall (fun qi => sfR qi <= sfR a) q /\ sfR a <= bpow radix2 11.
Proof.
  intros lam pi q k a w H R.
  destruct (Hyp32_witness _ _ _ H) as (bl & bpi & bq & -> & -> & -> & Hl & Hp & Hq & Hlen & Hne).
  destruct (solve32_adm bl bpi bq Hl Hp Hq Hlen Hne MAX_ITERS k a w R) as (ba & -> & (Fa & La & Ua & _) & _).
  split; [apply valid_binary_B2SF |]. split; [now rewrite is_finite_SF_B2SF |]. split.
  - rewrite Forall_map. apply Forall_forall. intros qi I. rewrite !SF2R_B2SF. now apply La.
  - now rewrite SF2R_B2SF.
Qed.

(* (b) every returned weight is +inf or a finite float with sign bit 0: never negative, never -0, never NaN *)
Theorem native32_weights_nonneg_or_inf : forall lam pi q k a w,
  Hyp32 lam pi q -> native32 lam pi q = Returned k a w ->
  Forall (fun x => x = S754_infinity false \/ (is_finite_SF x = true /\ sign_SF x = false)) w.
Proof.
  intros lam pi q k a w H R.
  destruct (Hyp32_witness _ _ _ H) as (bl & bpi & bq & -> & -> & -> & Hl & Hp & Hq & Hlen & Hne).
  destruct (solve32_adm bl bpi bq Hl Hp Hq Hlen Hne MAX_ITERS k a w R) as (ba & -> & Aa & ->).
  rewrite Forall_map. pose proof (weights_nn bl bpi bq Hl Hp Hq Hlen Hne ba Aa) as N.
  eapply Forall_impl; [| exact N]. intros t [-> | [F S]].
  - left; reflexivity.
  - right. now rewrite is_finite_SF_B2SF, sign_SF_B2SF.
Qed.

(* (c) the fallback `!isfinite(sum) -> alpha = alpha_max` is safe: the initial upper bracket end is finite and
   STRICTLY above every q_i (lambda >= 2^-14 exceeds half an ulp of any |q| <= 1), and the weights evaluated
   there are finite with sign bit 0.  (Later values of alpha_max are covered by the invariant behind
   native32_returns_finite: alpha_max only ever moves to a probe whose sum was not +inf.) *)
Theorem native32_fallback_finite : forall lam pi q,
  Hyp32 lam pi q ->
  let hi := snd (bracket B32 lam pi q) in
  is_finite_SF hi = true /\ Forall (fun qi => sfR qi < sfR hi) q /\
  Forall (fun x => valid_binary 24 128 x = true /\ is_finite_SF x = true /\ sign_SF x = false)
         (weights B32 lam pi q hi).
Proof.
  intros lam pi q H hi.
  destruct (Hyp32_witness _ _ _ H) as (bl & bpi & bq & -> & -> & -> & Hl & Hp & Hq & Hlen & Hne).
  unfold hi. change (B2SF bl) with (lamS bl). change (map B2SF bpi) with (piS bpi). change (map B2SF bq) with (qS bq).
  rewrite bracket_S. cbn [snd].
  pose proof (proj1 (adm_hi0 bl bpi bq Hl Hp Hq Hlen Hne)) as Ah.
  pose proof (hi0_strict bl bpi bq Hl Hp Hq Hlen Hne) as Sh.
  pose proof (lo0_le_hi0 bl bpi bq Hl Hp Hq Hlen Hne) as Lh.
  split; [rewrite is_finite_SF_B2SF; exact (proj1 Ah) |]. split.
  - unfold qS. rewrite Forall_map. apply Forall_forall. intros qi I. rewrite !SF2R_B2SF. now apply Sh.
  - rewrite weights_S. rewrite Forall_map. unfold weights. rewrite Forall_map. apply Forall_forall. intros pq I.
    destruct (term_finite bl bpi bq Hl Hp Hq Hlen Hne (hi0 bl bpi bq) pq Ah Sh Lh I) as [F S].
    split; [apply valid_binary_B2SF |]. now rewrite is_finite_SF_B2SF, sign_SF_B2SF.
Qed.

(* (d) whenever native32 returns - through the tolerance test, the stagnation test or the
   `!isfinite(sum) -> alpha = alpha_max` fallback - the alpha it returns is STRICTLY above every q_i and
   every weight is a finite float with sign bit 0.  PARTIAL: termination (OutOfIters excluded) and the
   value of the sum are not claimed. *)
Theorem native32_returns_finite_partial : forall lam pi q k a w,
  Hyp32 lam pi q -> native32 lam pi q = Returned k a w ->
  is_finite_SF a = true /\ Forall (fun qi => sfR qi < sfR a) q /\
  w = weights B32 lam pi q a /\
  Forall (fun x => valid_binary 24 128 x = true /\ is_finite_SF x = true /\ sign_SF x = false) w.
Proof.
  intros lam pi q k a w H R.
  destruct (Hyp32_witness _ _ _ H) as (bl & bpi & bq & -> & -> & -> & Hl & Hp & Hq & Hlen & Hne).
  destruct (solve32_finite bl bpi bq Hl Hp Hq Hlen Hne MAX_ITERS k a w R) as (ba & -> & Aa & Sa & -> & Fw).
  split; [rewrite is_finite_SF_B2SF; exact (proj1 Aa) |]. split; [| split].
  - rewrite Forall_map. apply Forall_forall. intros qi I. rewrite !SF2R_B2SF. now apply Sa.
  - symmetry. apply (weights_S bl bpi bq).
  - rewrite Forall_map. eapply Forall_impl; [| exact Fw]. intros t [F S].
    split; [apply valid_binary_B2SF |]. now rewrite is_finite_SF_B2SF, sign_SF_B2SF.
Qed.

(* ------------------------------------------------------------------ *)
(* Examples: Hyp32 is satisfiable and native32 returns on the instance  *)
(* ------------------------------------------------------------------ *)
Definition ex32_lam : spec_float := b32_of_bits 1051372203%Z.                       (* 1/3 rounded *)
Definition ex32_pi : list spec_float := map b32_of_bits [1056964608%Z; 1048576000%Z; 1048576000%Z].   (* 1/2 1/4 1/4 *)
Definition ex32_q : list spec_float := map b32_of_bits [3212836864%Z; 0%Z; 1056964608%Z].             (* -1 0 1/2 *)

Ltac okf_solve :=
  unfold okf; split; [vm_compute; reflexivity | split; [vm_compute; reflexivity |]];
  match goal with |- _ <= sfR ?x <= _ => let y := eval vm_compute in x in change x with y end;
  unfold SF2R, F2R; cbn; lra.

Example ex32_hyp : Hyp32 ex32_lam ex32_pi ex32_q.
Proof.
  constructor.
  - reflexivity.
  - discriminate.
  - okf_solve.
  - unfold ex32_pi. cbn [map]. constructor; [okf_solve |]. constructor; [okf_solve |]. constructor; [okf_solve | constructor].
  - unfold ex32_q. cbn [map]. constructor; [okf_solve |]. constructor; [okf_solve |]. constructor; [okf_solve | constructor].
Qed.

Example ex32_run :
  exists a w, native32 ex32_lam ex32_pi ex32_q = Returned 8 a w /\
              bits_of_b32 a = 1058805078%Z /\ map bits_of_b32 w = [1037306936%Z; 1040971164%Z; 1061320706%Z].
Proof. eexists. eexists. split; [vm_compute; reflexivity | split; vm_compute; reflexivity]. Qed.
