(* Tie (G) for C02: Kind.is_road of the tree under test (regenerated into
   gen/Consts.v on every run) is the model's kind_is_road - flats and capstones
   are road pieces, standing stones are not.  Kept apart from TieGame.v so that
   an unrelated constant cannot break C02.  Closed by computation. *)
From Coq Require Import ZArith List Bool.
From TV Require gen.Consts.
From TV Require Import model.Tak.
Import ListNotations.

Lemma tie_road_kinds : Consts.kind_is_road = map kind_is_road [Flat; Standing; Capstone].
Proof. reflexivity. Qed.
Lemma tie_road_enums : Consts.color_values = [0; 1]%Z /\ Consts.kind_values = [0; 1; 2]%Z.
Proof. split; reflexivity. Qed.
