(* Executable model of python/tak/self_play.py: play_one_game, Transcript.results,
   Transcript.logits.  No proofs in this file.

   The engine (engine.analyze / engine.tree_probs / torch.multinomial) is an
   explicit input stream: one `answer` is consumed per analysed position.  The
   loop is structural recursion on that stream; a stream that runs out before
   the game stops is the explicit error outcome `Err Exhausted`.  The Python
   exceptions the loop can raise are error constructors too:
     tree.value / tree.simulations with simulations = 0  -> ZeroSims
     tree.children[idx] with idx outside the list        -> BadIndex
   In the code the next position is `tree.children[idx].position`; the model
   computes it as `move position (candidate idx)` (an engine whose child does
   not carry that position is caught by the correspondence, which compares
   every recorded position); a candidate that `move` refuses is
   `Err IllegalCandidate`. *)
From Coq Require Import ZArith QArith Qabs List Bool.
From TV Require gen.Consts.
From TV Require Import model.Tak model.Road.
Import ListNotations.
Open Scope Z_scope.

(* SelfPlayConfig: the three fields play_one_game reads *)
Record sp_config := mkSp { sp_size : Z; sp_threshold : Q; sp_ply_limit : Z }.

(* what the loop reads from one engine call:
   [c.move for c in tree.children], engine.tree_probs(tree), tree.value,
   tree.simulations, tree.v_zero, torch.multinomial(probs, 1).item() *)
Record answer := mkAns {
  a_moves : list mv;
  a_probs : list Q;
  a_value : Q;
  a_sims : Z;
  a_vzero : Q;
  a_pick : Z
}.

(* Transcript (stats is bookkeeping outside the property and is not modelled) *)
Record transcript := mkTr {
  t_positions : list position;
  t_moves : list (list mv);
  t_probs : list (list Q);
  t_values : list Q;
  t_result : option color
}.

(* which `break` left the loop *)
Inductive exit := ExitLimit | ExitRules (r : reason) | ExitResign.
Inductive sp_error := Exhausted | ZeroSims | BadIndex | IllegalCandidate.
(* Done transcript exit final: `final` is the loop variable `position` at the break *)
Inductive outcome := Done (tr : transcript) (e : exit) (final : position) | Err (e : sp_error).

Definition cons_row (p : position) (a : answer) (v : Q) (o : outcome) : outcome :=
  match o with
  | Done tr e f =>
    Done (mkTr (p :: t_positions tr) (a_moves a :: t_moves tr) (a_probs a :: t_probs tr)
               (v :: t_values tr) (t_result tr)) e f
  | Err e => Err e
  end.

Definition nthz {A} (l : list A) (i : Z) : option A :=
  if i <? 0 then None else nth_error l (Z.to_nat i).

(* abs(tree.v_zero) >= cfg.resignation_threshold *)
Definition resigns (cfg : sp_config) (a : answer) : bool :=
  Qle_bool (sp_threshold cfg) (Qabs (a_vzero a)).
(* tree.v_zero >= threshold -> to_move wins, else the other side *)
Definition resign_winner (cfg : sp_config) (p : position) (a : answer) : color :=
  if Qle_bool (sp_threshold cfg) (a_vzero a) then to_move p else flip (to_move p).

(* the `while True` loop of play_one_game; the order of the tests is the code's *)
Fixpoint play_loop (cfg : sp_config) (pos : position) (stream : list answer) : outcome :=
  if sp_ply_limit cfg <? ply pos then Done (mkTr [] [] [] [] None) ExitLimit pos else
  match winner pos with
  | (c, Some r) => Done (mkTr [] [] [] [] c) (ExitRules r) pos
  | (_, None) =>
    match stream with
    | [] => Err Exhausted
    | a :: rest =>
      if a_sims a =? 0 then Err ZeroSims else
      let v := (a_value a / inject_Z (a_sims a))%Q in
      if resigns cfg a then
        Done (mkTr [pos] [a_moves a] [a_probs a] [v] (Some (resign_winner cfg pos a))) ExitResign pos
      else
        match nthz (a_moves a) (a_pick a) with
        | None => Err BadIndex
        | Some m =>
          match move pos m with
          | None => Err IllegalCandidate
          | Some q => cons_row pos a v (play_loop cfg q rest)
          end
        end
    end
  end.

(* tak.Position.from_config(tak.Config(size=cfg.size)) *)
Definition start (cfg : sp_config) : position := from_config (mkCfg (sp_size cfg) None None).

Definition play_one_game (cfg : sp_config) (stream : list answer) : outcome :=
  play_loop cfg (start cfg) stream.

(* Transcript.results: [0]*n when result is None, else +1/-1 by side to move *)
Definition label (r : option color) (p : position) : Z :=
  match r with
  | None => 0
  | Some w => if color_eqb (to_move p) w then 1 else -1
  end.
Definition results (tr : transcript) : list Z := map (label (t_result tr)) (t_positions tr).

(* Transcript.logits.  One row per entry of `moves`:
     np_view[i, encode_move(size, m_j)] = probs[i][j]   for j in order
   so a later candidate with the same id overwrites an earlier one.  None is a
   Python exception: KeyError (move without an id), IndexError (id outside the
   row, probs[i] shorter than moves[i], probs shorter than moves, no position). *)
Definition set_at (row : list Q) (i : Z) (v : Q) : option (list Q) :=
  if (0 <=? i) && (i <? zlen row) then Some (updz row i v) else None.

(* t is the id table MOVES_BY_SIZE[size] (table size); encode_move size m = index_of m t 0.  The
   table is passed in so that it is built once per transcript, as the module-level dict is. *)
Fixpoint logits_fill (t : list mv) (ms : list mv) (ps : list Q) (row : list Q) : option (list Q) :=
  match ms with
  | [] => Some row
  | m :: ms' =>
    match ps with
    | [] => None
    | p :: ps' =>
      match index_of m t 0 with
      | None => None
      | Some i => match set_at row i p with
                  | None => None
                  | Some row' => logits_fill t ms' ps' row'
                  end
      end
    end
  end.

Definition zero_row : list Q := repeat 0%Q (Z.to_nat Consts.MAX_MOVE_ID).
Definition logits_row_t (t : list mv) (ms : list mv) (ps : list Q) : option (list Q) :=
  logits_fill t ms ps zero_row.
Definition logits_row (n : Z) (ms : list mv) (ps : list Q) : option (list Q) :=
  logits_row_t (table n) ms ps.

Fixpoint logits_rows_t (t : list mv) (mss : list (list mv)) (pss : list (list Q)) : option (list (list Q)) :=
  match mss with
  | [] => Some []
  | ms :: mss' =>
    match pss with
    | [] => None
    | ps :: pss' =>
      match logits_row_t t ms ps, logits_rows_t t mss' pss' with
      | Some r, Some rs => Some (r :: rs)
      | _, _ => None
      end
    end
  end.
Definition logits_rows (n : Z) (mss : list (list mv)) (pss : list (list Q)) : option (list (list Q)) :=
  logits_rows_t (table n) mss pss.

Definition logits (tr : transcript) : option (list (list Q)) :=
  match t_positions tr with
  | [] => None
  | p0 :: _ => logits_rows (size p0) (t_moves tr) (t_probs tr)
  end.
