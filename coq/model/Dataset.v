(* C20 - executable model of the two datasets of the Python side:
     xformer/data/__init__.py   `Dataset`             (file dataset)
     tak/alphazero/data.py      `ReplayBufferDataset` (window of self-play batches)
   No proofs here (proofs/DatasetProofs.v).

   Representation.  A tensor with leading dimension n is a list of n rows; a row
   is the flattened content of one index of the leading dimension as a list of
   integers (`[v]` for a 1-D field, the w entries for a 2-D field; booleans are
   0/1, floats cross the boundary as their bit patterns - the code under study
   only moves rows around).  A dict of tensors is an association list in dict
   order.  dtypes are not part of a row; the single dtype rule of the code
   (uint8 is widened to long at load time) is `loaded_dtype`.

   External behaviour enters as Section variables: the torch generator
   (`gen`, `seed_gen`, `randperm`) and `torch.load` (`load`). *)
From Coq Require Import ZArith List Bool Permutation.
Import ListNotations.

Definition row := list Z.
Definition fname := list Z.                       (* a Python str as code points *)
Definition dataset := list (fname * list row).    (* dict[str, Tensor] in dict order *)
Definition batch := dataset.                      (* Batch.data / ReplayBufferBatch.data *)

(* ---------------------------------------------------------------- lists *)

(* v[i : i+n] *)
Definition slice {A} (i n : nat) (l : list A) : list A := firstn n (skipn i l).

(* v[:k] for any Python int k (a negative k counts from the end) *)
Definition py_prefix {A} (k : Z) (l : list A) : list A :=
  if (0 <=? k)%Z then firstn (Z.to_nat k) l
  else firstn (length l - Z.to_nat (- k)) l.

(* list(range(i, n, bs)) for bs >= 1; at most `fuel` elements *)
Fixpoint range_from (fuel i n bs : nat) : list nat :=
  match fuel with
  | O => []
  | S f => if i <? n then i :: range_from f (i + bs) n bs else []
  end.
Definition starts (n bs : nat) : list nat := range_from n 0 n bs.

(* consecutive pieces of bs elements, the last one possibly shorter (bs >= 1) *)
Fixpoint chunks_fuel {A} (fuel bs : nat) (l : list A) : list (list A) :=
  match fuel with
  | O => []
  | S f => match l with
           | [] => []
           | _ => firstn bs l :: chunks_fuel f bs (skipn bs l)
           end
  end.
Definition chunks {A} (bs : nat) (l : list A) : list (list A) := chunks_fuel (length l) bs l.

(* v[perm] : row i of the result is row perm[i] of v *)
Definition permute (rows : list row) (perm : list nat) : list row :=
  map (fun i => nth i rows []) perm.

(* one field of one epoch: design formula  epoch rows perm bs = chunks bs (map (nth rows) perm) *)
Definition epoch_field (rows : list row) (perm : list nat) (bs : nat) : list (list row) :=
  chunks bs (permute rows perm).

(* ------------------------------------------------------- dicts of tensors *)

Definition fname_eqb (a b : fname) : bool :=
  (length a =? length b) && forallb (fun p => (fst p =? snd p)%Z) (combine a b).

(* len(next(iter(data.values()))) *)
Definition nrows (d : dataset) : nat :=
  match d with [] => 0 | f :: _ => length (snd f) end.

Definition get_field (k : fname) (d : dataset) : list row :=
  match find (fun f => fname_eqb k (fst f)) d with Some f => snd f | None => [] end.

(* the j-th field (dict order) of a batch *)
Definition batch_field (j : nat) (b : batch) : list row := snd (nth j b ([], [])).

(* {k: v[perm] for (k, v) in data.items()} - ONE perm for all fields *)
Definition shuffle (d : dataset) (perm : list nat) : dataset :=
  map (fun f => (fst f, permute (snd f) perm)) d.

(* [ {k: v[i:i+bs] for (k,v) in shuffled.items()} for i in range(0, n, bs) ] *)
Definition batches_of (shuffled : dataset) (n bs : nat) : list batch :=
  map (fun i => map (fun f => (fst f, slice i bs (snd f))) shuffled) (starts n bs).

(* one epoch of either dataset, given the answer `perm` of torch.randperm.
   bs <= 0: range(0, n, bs) is empty for bs < 0; bs = 0 raises ValueError in the
   implementation and is outside the domain of every theorem (guard: 1 <= bs). *)
Definition epoch (d : dataset) (perm : list nat) (bs : Z) : list batch :=
  if (bs <=? 0)%Z then [] else batches_of (shuffle d perm) (nrows d) (Z.to_nat bs).

(* dtype rule of __attrs_post_init__: uint8 -> long, everything else kept.
   codes: 0 = uint8, 1 = int64, any other code = some other dtype *)
Definition loaded_dtype (code : Z) : Z := if (code =? 0)%Z then 1%Z else code.

(* ------------------------------------------------------- the file dataset *)

Record config := mkConfig {
  cpath : list Z;            (* path *)
  batch_size : Z;
  nbatches : option Z;       (* batches *)
  cseed : Z;                 (* seed *)
}.
(* device / batch_class only wrap the yielded dicts and are not modelled *)

(* v = v[: batches * batch_size] applied to every field *)
Definition truncate (c : config) (raw : dataset) : dataset :=
  match nbatches c with
  | None => raw
  | Some b => map (fun f => (fst f, py_prefix (b * batch_size c)%Z (snd f))) raw
  end.

Section FileDataset.
  Variable gen : Type.                               (* state of a torch.Generator *)
  Variable seed_gen : Z -> gen.                      (* torch.Generator().manual_seed(seed) *)
  Variable randperm : gen -> nat -> list nat * gen.  (* torch.randperm(n, generator=g) *)
  Variable load : list Z -> dataset.                 (* torch.load(path); the file is not rewritten *)

  (* the assumed behaviour of torch.randperm (validated on every observed call
     by the correspondence); not used by any definition of this file *)
  Hypothesis randperm_perm : forall g n, Permutation (fst (randperm g n)) (seq 0 n).

  Record dstate := mkState { cfg : config; data : dataset; rng : gen }.

  (* __init__ followed by __attrs_post_init__ *)
  Definition post_init (c : config) : dstate :=
    mkState c (truncate c (load (cpath c))) (seed_gen (cseed c)).

  (* _next_epoch: the shuffled dict and the state afterwards *)
  Definition next_epoch (s : dstate) : dataset * dstate :=
    let '(perm, g') := randperm (rng s) (nrows (data s)) in
    (shuffle (data s) perm, mkState (cfg s) (data s) g').

  (* fastforward_epochs(n) *)
  Fixpoint fastforward (n : nat) (s : dstate) : dstate :=
    match n with O => s | S n' => fastforward n' (snd (next_epoch s)) end.

  (* list(ds): one completely consumed epoch *)
  Definition iter (s : dstate) : list batch * dstate :=
    let '(perm, g') := randperm (rng s) (nrows (data s)) in
    (epoch (data s) perm (batch_size (cfg s)), mkState (cfg s) (data s) g').

  (* n completely consumed epochs *)
  Fixpoint consume (n : nat) (s : dstate) : list (list batch) * dstate :=
    match n with
    | O => ([], s)
    | S n' => let '(e, s1) := iter s in
              let '(es, s2) := consume n' s1 in (e :: es, s2)
    end.

  (* __getstate__: the non-transient attributes; __setstate__: set them, then post-init again *)
  Definition getstate (s : dstate) : config := cfg s.
  Definition setstate (c : config) : dstate := post_init c.

  (* a usage history.  `OpTake k` (k >= 1) starts an iteration, takes k batches
     (or all of them, if fewer) and abandons the generator object: `_next_epoch`
     runs when the first batch is requested, so the generator advances as for a
     full epoch. *)
  Inductive op := OpIter | OpTake (k : nat) | OpFastforward (n : nat) | OpPickle.

  Definition step (o : op) (s : dstate) : list batch * dstate :=
    match o with
    | OpIter => iter s
    | OpTake k => let '(e, s') := iter s in (firstn k e, s')
    | OpFastforward n => ([], fastforward n s)
    | OpPickle => ([], setstate (getstate s))
    end.

  Fixpoint run_ops (os : list op) (s : dstate) : list (list batch) * dstate :=
    match os with
    | [] => ([], s)
    | o :: os' => let '(e, s1) := step o s in
                  let '(es, s2) := run_ops os' s1 in (e :: es, s2)
    end.
End FileDataset.

Arguments mkState {gen}.
Arguments cfg {gen}.
Arguments data {gen}.
Arguments rng {gen}.

(* ---------------------------------------------- ReplayBufferDataset merge *)

Definition POSITIONS : fname := [112; 111; 115; 105; 116; 105; 111; 110; 115]%Z.  (* "positions" *)
Definition MASK : fname := [109; 97; 115; 107]%Z.                                  (* "mask" *)

Definition special (k : fname) : bool := fname_eqb POSITIONS k || fname_eqb MASK k.   (* k in ["positions", "mask"] *)

(* dst[: len(src)] = src  (one row) *)
Definition write_row (src dst : row) : row := src ++ skipn (length src) dst.

Fixpoint write_rows (src dst : list row) : list row :=
  match src, dst with
  | s :: src', d :: dst' => write_row s d :: write_rows src' dst'
  | _, _ => dst
  end.

(* dst[n : n+len(src), : w] = src *)
Definition write_block (n : nat) (src dst : list row) : list row :=
  firstn n dst ++ write_rows src (skipn n dst).

(* the loop `n = 0; for b in replay_buffer: out[n:n+r, :w] = b[k]; n += r` *)
Fixpoint fill (n : nat) (blocks : list (list row)) (out : list row) : list row :=
  match blocks with
  | [] => out
  | b :: bs => fill (n + length b) bs (write_block n b out)
  end.

Definition zeros (n w : nat) : list row := repeat (repeat 0%Z w) n.

Definition row_width (rows : list row) : nat := list_max (map (@length Z) rows).
(* max(b["positions"].size(1) for b in replay_buffer); a buffer without rows has
   no width in this representation: buffers are non-empty (guard of the theorems) *)
Definition maxwidth (blocks : list (list row)) : nat := list_max (map row_width blocks).
Definition total_rows (blocks : list (list row)) : nat := length (concat blocks).

Definition pad (w : nat) (r : row) : row := r ++ repeat 0%Z (w - length r).

(* cat_replay_buffer: the other fields of the FIRST buffer's key set are
   concatenated in buffer order; positions and mask are written into zero
   tensors of the widest width; they come last in the dict *)
Definition cat_replay_buffer (bufs : list dataset) : dataset :=
  let keys := filter (fun k => negb (special k)) (map fst (hd [] bufs)) in
  let pos := map (get_field POSITIONS) bufs in
  let msk := map (get_field MASK) bufs in
  let npos := total_rows pos in
  let w := maxwidth pos in
  map (fun k => (k, concat (map (get_field k) bufs))) keys
  ++ [(POSITIONS, fill 0 pos (zeros npos w)); (MASK, fill 0 msk (zeros npos w))].

(* ReplayBufferDataset.__iter__ given the answer of torch.randperm(npos) *)
Definition rb_epoch (bufs : list dataset) (perm : list nat) (bs : Z) : list batch :=
  let flat := cat_replay_buffer bufs in
  if (bs <=? 0)%Z then []
  else batches_of (shuffle flat perm) (length (get_field POSITIONS flat)) (Z.to_nat bs).

(* ------------------------------ support for the correspondence (harness) *)

Fixpoint list_eqb {A} (eqb : A -> A -> bool) (a b : list A) : bool :=
  match a, b with
  | [], [] => true
  | x :: a', y :: b' => eqb x y && list_eqb eqb a' b'
  | _, _ => false
  end.
Definition rows_eqb : list row -> list row -> bool := list_eqb (list_eqb Z.eqb).

(* dict equality: same key set, equal tensors (order of keys irrelevant) *)
Definition dict_eqb (a b : dataset) : bool :=
  (length a =? length b) &&
  forallb (fun f => match find (fun g => fname_eqb (fst f) (fst g)) b with
                    | Some g => rows_eqb (snd f) (snd g)
                    | None => false
                    end) a.
Definition batches_eqb : list batch -> list batch -> bool := list_eqb dict_eqb.

(* table-driven generator: states are small integers naming observed
   torch generator states; one entry = (state, n, answer, next state) *)
Definition oracle := list (Z * Z * list Z * Z).
Definition tbl_randperm (t : oracle) (g : Z) (n : nat) : list nat * Z :=
  match find (fun e => let '(g0, n0, _, _) := e in (g0 =? g)%Z && (n0 =? Z.of_nat n)%Z) t with
  | Some (_, _, p, g') => (map Z.to_nat p, g')
  | None => ([], (-1)%Z)
  end.

Definition zop := (Z * Z)%type.   (* (0,_) iter | (1,k) take k | (2,n) fastforward n | (3,_) pickle *)
Definition op_of (z : zop) : op :=
  let '(t, a) := z in
  if (t =? 0)%Z then OpIter else if (t =? 1)%Z then OpTake (Z.to_nat a)
  else if (t =? 2)%Z then OpFastforward (Z.to_nat a) else OpPickle.

(* run a history on the file dataset with the observed oracle *)
Definition run_file (t : oracle) (seed_state : Z) (raw : dataset) (c : config) (os : list zop)
  : list (list batch) :=
  fst (run_ops Z (fun _ => seed_state) (tbl_randperm t) (fun _ => raw)
               (map op_of os) (post_init Z (fun _ => seed_state) (fun _ => raw) c)).

Definition is_perm_b (p : list Z) (n : Z) : bool :=
  (Z.of_nat (length p) =? n)%Z &&
  forallb (fun i => existsb (Z.eqb i) p) (map Z.of_nat (seq 0 (Z.to_nat n))).
