(* Bit-exact binary64 mirror of the multiplier computed in Node.policy_probs
   (python/tak/mcts.py):

       lambda_n = c * math.sqrt(self.simulations) / (self.simulations + len(self.children))

   and of its conversion to binary32 when it is passed to
   tak_ext.solve_policy(pi_theta, q, lambda_n) (the C++ parameter is `float`;
   pybind11 casts the Python double with a C cast = round to nearest even).

   Python semantics mirrored, operation by operation (all binary64, round to
   nearest even):
     c                      a Python float, or an int (Config.C : float = 4 is the
                            int 4 unless the caller passes a float): int * float
                            converts the int to float first (correctly rounded,
                            exact below 2^53)
     math.sqrt(N)           N : int is converted to float (exact below 2^53), then
                            the C library sqrt = correctly rounded (SFsqrt)
     c * sqrt               SFmul
     N + K                  exact integer addition
     x / (N + K)            the int is converted to float (exact below 2^53), SFdiv

   Uses the standard library's SpecFloat operations at (53, 1024) - plain Z
   arithmetic, evaluated by vm_compute; no primitive floats.  No proofs here. *)
From Coq Require Import ZArith List Bool.
From Coq Require Import Floats.SpecFloat.
From TV Require Import model.Solver.
Open Scope Z_scope.

Definition b64_of_Z (n : Z) : spec_float := sf_of_Z prec64 emax64 n.   (* float(n), correctly rounded *)
Definition bits_of_b64 : spec_float -> Z := bits_of_sf 52 11.

(* c * math.sqrt(N) / (N + K) on a binary64 c *)
Definition lambda64 (c : spec_float) (N K : Z) : spec_float :=
  let s := SFsqrt prec64 emax64 (b64_of_Z N) in          (* math.sqrt(self.simulations) *)
  let m := SFmul prec64 emax64 c s in                    (* c * ...                      *)
  SFdiv prec64 emax64 m (b64_of_Z (N + K)).              (* ... / (simulations + len(children)) *)

(* the value the native solver receives: (float) lambda_n *)
Definition lambda32 (c : spec_float) (N K : Z) : spec_float :=
  sf_convert prec32 emax32 (lambda64 c N K).

(* interfaces on bit patterns: C_bits = the IEEE binary64 pattern of float(c)
   (struct.pack('<d', float(c)); for an int c below 2^53 float(c) is exact and
   int*float gives the same product) *)
Definition lambda64_bits (C_bits N K : Z) : Z := bits_of_b64 (lambda64 (b64_of_bits C_bits) N K).
Definition lambda32_bits (C_bits N K : Z) : Z := bits_of_b32 (lambda32 (b64_of_bits C_bits) N K).

(* the same when c is a Python int *)
Definition lambda64_bits_int (C N K : Z) : Z := bits_of_b64 (lambda64 (b64_of_Z C) N K).
Definition lambda32_bits_int (C N K : Z) : Z := bits_of_b32 (lambda32 (b64_of_Z C) N K).

(* check used by a correspondence: recorded binary64 multiplier and the binary32 value the solver saw *)
Definition lambda_agrees (C_bits N K : Z) (lam64_bits lam32_bits : Z) : bool :=
  (lambda64_bits C_bits N K =? lam64_bits) && (lambda32_bits C_bits N K =? lam32_bits).
