(* TorchData - the Python / torch semantics of the constructs used by
     python/xformer/data/__init__.py  (Dataset)
     python/tak/alphazero/data.py     (ReplayBufferDataset)
   as a small library against which gen/DatasetGen.v (regenerated from the
   source on every run by harness/data2coq.py) is written.  No proofs here.

   This file is TRUSTED: it says what CPython / torch do for dicts of tensors in
   insertion order, `next(iter(d.values()))`, `v[:k]` / `v[i:i+bs]` with
   clamping, fancy indexing `v[perm]`, `range(a, b, step)`, `sum` / `max` over a
   generator, `torch.cat`, `torch.zeros((n, w))`, block assignment
   `dst[r0:r1, :c] = src`, `.size(i)`, `.shape[i]`, `.long()`, and how exceptions
   propagate.  harness/props/t20.py validates every operation against the real
   interpreter on random inputs (evaluated inside Coq) on every run.

   Nothing here assumes the bounds the hand model (model/Dataset.v) assumes: an
   index outside a tensor is an IndexError, an absent key a KeyError, an empty
   dict a StopIteration, a zero step a ValueError, a block that does not fit a
   RuntimeError.  Situations on which the library takes no position
   (dtype promotion in torch.cat, broadcasting in block assignment, float
   payloads in casts) are `Crash Unmodelled`: an equality theorem excludes them
   by its stated domain, never by silence.

   Representation (as in model/Dataset.v): a tensor with leading dimension n is
   n rows of flattened integers; here it also carries its dtype code and the
   trailing shape, so that `size(1)`, `shape[1]`, torch.cat's shape check and
   the dtype rule are expressible.  dtype codes: 0 uint8, 1 int64, 2 int32,
   3 float32, 4 bool, 5 float64, 6 int16 (floats travel as bit patterns). *)
From Coq Require Import ZArith List Bool.
From TV Require Import model.Dataset.
Import ListNotations.
Open Scope Z_scope.

(* ---------- outcomes ---------- *)
Inductive exn :=
  ValueError | IndexError | KeyError | StopIteration | RuntimeError | TypeError | AttributeError
| Unmodelled.   (* the library takes no position on this input *)
Inductive res (A : Type) : Type :=
| Ok (v : A)
| Crash (e : exn).
Arguments Ok {A} v.
Arguments Crash {A} e.

Definition bind {A B} (c : res A) (k : A -> res B) : res B :=
  match c with Ok v => k v | Crash e => Crash e end.
Notation "x <- c ;; k" := (bind c (fun x => k))
  (at level 61, c at next level, right associativity).
Notation "' pat <- c ;; k" := (bind c (fun x => match x with pat => k end))
  (at level 61, pat pattern, c at next level, right associativity).
Definition res_map {A B} (f : A -> B) (c : res A) : res B :=
  match c with Ok v => Ok (f v) | Crash e => Crash e end.

(* the body of a generator function: a StopIteration that escapes it is turned into RuntimeError (PEP 479) *)
Definition py_generator {A} (c : res A) : res A :=
  match c with Crash StopIteration => Crash RuntimeError | _ => c end.

(* [f(x) for x in l] / a generator expression consumed in order *)
Fixpoint mapM {A B} (f : A -> res B) (l : list A) : res (list B) :=
  match l with
  | [] => Ok []
  | x :: t => y <- f x ;; ys <- mapM f t ;; Ok (y :: ys)
  end.

(* ---------- sequences ---------- *)
Definition zlen {A} (l : list A) : Z := Z.of_nat (length l).

(* the position an index denotes in a sequence of length n: i or n + i *)
Definition py_index (n i : Z) : option Z :=
  if (0 <=? i) && (i <? n) then Some i
  else if (i <? 0) && (0 <=? n + i) then Some (n + i)
  else None.

(* l[i] on a list / tuple *)
Definition py_getitem {A} (l : list A) (i : Z) : res A :=
  match py_index (zlen l) i with
  | Some k => match nth_error l (Z.to_nat k) with Some v => Ok v | None => Crash IndexError end
  | None => Crash IndexError
  end.

(* a slice bound: absent -> the default; negative -> n + b, not below 0; otherwise not above n *)
Definition py_bound (n : Z) (b : option Z) (dflt : Z) : Z :=
  match b with
  | None => dflt
  | Some i => if i <? 0 then Z.max 0 (n + i) else Z.min i n
  end.

(* l[a:b] with step 1; never raises *)
Definition py_slice {A} (l : list A) (a b : option Z) : list A :=
  let n := zlen l in
  let s := py_bound n a 0 in
  let e := py_bound n b n in
  firstn (Z.to_nat (e - s)) (skipn (Z.to_nat s) l).

(* range(n) *)
Definition py_range (n : Z) : list Z := map Z.of_nat (seq 0 (Z.to_nat n)).

(* range(a, b, step): ValueError for step 0 *)
Fixpoint range_up (fuel : nat) (i stop step : Z) : list Z :=
  match fuel with
  | O => []
  | S f => if i <? stop then i :: range_up f (i + step) stop step else []
  end.
Fixpoint range_down (fuel : nat) (i stop step : Z) : list Z :=
  match fuel with
  | O => []
  | S f => if stop <? i then i :: range_down f (i + step) stop step else []
  end.
Definition py_range3 (a b step : Z) : res (list Z) :=
  if step =? 0 then Crash ValueError
  else if 0 <? step then Ok (range_up (Z.to_nat (b - a)) a b step)
  else Ok (range_down (Z.to_nat (a - b)) a b step).

(* sum(g), max(g) over a generator of ints *)
Definition py_sum (l : list Z) : Z := fold_left Z.add l 0.
Definition py_max (l : list Z) : res Z :=
  match l with
  | [] => Crash ValueError
  | x :: t => Ok (fold_left Z.max t x)
  end.

(* an Optional[int] used as a number: None * 3 is a TypeError *)
Definition py_int_of_opt (o : option Z) : res Z :=
  match o with Some v => Ok v | None => Crash TypeError end.
Definition is_some {A} (o : option A) : bool := match o with Some _ => true | None => false end.

(* next(iter(xs)) *)
Definition py_next {A} (l : list A) : res A :=
  match l with [] => Crash StopIteration | x :: _ => Ok x end.

(* k in [s1, s2, ...] for strings *)
Definition str_in (k : fname) (l : list fname) : bool := existsb (fname_eqb k) l.

(* ---------- tensors ---------- *)
Definition UINT8 := 0.  Definition INT64 := 1.  Definition INT32 := 2.  Definition FLOAT32 := 3.
Definition BOOL := 4.   Definition FLOAT64 := 5. Definition INT16 := 6.
Definition is_float (c : Z) : bool := (c =? FLOAT32) || (c =? FLOAT64).

(* shape = (len rows) :: t_tail; every row holds prod t_tail integers *)
Record tensor := mkT { t_dtype : Z; t_tail : list Z; t_rows : list row }.

Definition t_len (t : tensor) : Z := zlen (t_rows t).                 (* len(t), t.size(0) *)
Definition t_shape (t : tensor) : list Z := t_len t :: t_tail t.       (* t.shape as a tuple *)
Definition t_size (t : tensor) (i : Z) : res Z :=                     (* t.size(i); torch raises IndexError *)
  py_getitem (t_shape t) i.

(* t.long(): values of integer / bool tensors are unchanged; floats are not modelled (bit patterns) *)
Definition t_long (t : tensor) : res tensor :=
  if is_float (t_dtype t) then Crash Unmodelled else Ok (mkT INT64 (t_tail t) (t_rows t)).

(* t[a:b] on the leading dimension *)
Definition t_slice (t : tensor) (a b : option Z) : tensor :=
  mkT (t_dtype t) (t_tail t) (py_slice (t_rows t) a b).

(* t[idx] with idx a 1-D integer tensor: IndexError outside [-n, n).  torch does not check the
   bounds when the rows are empty (a zero in the trailing shape) and n > 0: no position is taken there *)
Definition t_index (t : tensor) (idx : list Z) : res tensor :=
  match mapM (py_getitem (t_rows t)) idx with
  | Ok rows => Ok (mkT (t_dtype t) (t_tail t) rows)
  | Crash e => if existsb (Z.eqb 0) (t_tail t) && negb (t_len t =? 0) then Crash Unmodelled else Crash e
  end.

(* .to("cpu"), pin on a cpu device *)
Definition t_to (t : tensor) : tensor := t.
Definition t_pin (t : tensor) : tensor := t.

Definition list_Z_eqb : list Z -> list Z -> bool := list_eqb Z.eqb.

(* torch.cat(ts) along dimension 0 *)
Definition torch_cat (ts : list tensor) : res tensor :=
  match ts with
  | [] => Crash ValueError
  | t0 :: _ =>
      if forallb (fun t => list_Z_eqb (t_tail t) (t_tail t0)) ts then
        if forallb (fun t => t_dtype t =? t_dtype t0) ts
        then Ok (mkT (t_dtype t0) (t_tail t0) (concat (map t_rows ts)))
        else Crash Unmodelled                                    (* dtype promotion *)
      else if existsb (fun t => match t_tail t, t_rows t with [], [] => true | _, _ => false end) ts
      then Crash Unmodelled                                      (* legacy: tensors of shape [0] are skipped *)
      else Crash RuntimeError
  end.

(* torch.zeros((n, w), dtype=code) *)
Definition torch_zeros2 (n w code : Z) : res tensor :=
  if (n <? 0) || (w <? 0) then Crash RuntimeError
  else Ok (mkT code [w] (repeat (repeat 0 (Z.to_nat w)) (Z.to_nat n))).

(* value conversion when a block of dtype `from` is stored into a tensor of dtype `to` *)
Definition cast_ok (from to : Z) : bool :=
  negb (is_float from) && ((to =? INT64) || (to =? BOOL)).
Definition cast (to v : Z) : Z := if to =? BOOL then (if v =? 0 then 0 else 1) else v.

Fixpoint write_rows_cast (to : Z) (cw : nat) (src dst : list row) : list row :=
  match src, dst with
  | s :: src', d :: dst' => (map (cast to) s ++ skipn cw d) :: write_rows_cast to cw src' dst'
  | _, _ => dst
  end.

(* dst[r0:r1, :c1] = src  for 2-D dst and src: the region (slices clamped) must
   have src's shape; shapes that merely broadcast are not modelled *)
Definition t_setblock (dst : tensor) (r0 r1 c1 : Z) (src : tensor) : res tensor :=
  match t_tail dst, t_tail src with
  | [W], [w] =>
      let n := t_len dst in
      let s := py_bound n (Some r0) 0 in
      let e := py_bound n (Some r1) n in
      let cnt := Z.max 0 (e - s) in
      let cw := py_bound W (Some c1) W in
      if (cnt =? t_len src) && (cw =? w) then
        if cast_ok (t_dtype src) (t_dtype dst)
        then Ok (mkT (t_dtype dst) [W]
                   (firstn (Z.to_nat s) (t_rows dst)
                    ++ write_rows_cast (t_dtype dst) (Z.to_nat cw) (t_rows src) (skipn (Z.to_nat s) (t_rows dst))))
        else Crash Unmodelled
      else if ((t_len src =? cnt) || (t_len src =? 1)) && ((w =? cw) || (w =? 1))
      then Crash Unmodelled                                      (* broadcasting *)
      else Crash RuntimeError
  | _, _ => Crash Unmodelled
  end.

(* ---------- dict[str, Tensor] in insertion order ---------- *)
Definition tdict := list (fname * tensor).

Fixpoint d_get (d : tdict) (k : fname) : res tensor :=               (* d[k] *)
  match d with
  | [] => Crash KeyError
  | (k', v) :: d' => if fname_eqb k k' then Ok v else d_get d' k
  end.
Fixpoint d_set (d : tdict) (k : fname) (v : tensor) : tdict :=       (* d[k] = v *)
  match d with
  | [] => [(k, v)]
  | (k', v') :: d' => if fname_eqb k k' then (k', v) :: d' else (k', v') :: d_set d' k v
  end.
Definition d_items (d : tdict) : list (fname * tensor) := d.
Definition d_values (d : tdict) : list tensor := map snd d.
Definition d_keys (d : tdict) : list fname := map fst d.
(* {k: v for ...}: pairs inserted in order *)
Definition dict_of_pairs (l : list (fname * tensor)) : tdict :=
  fold_left (fun d kv => d_set d (fst kv) (snd kv)) l [].

(* "positions", "mask" *)
Definition S_positions : fname := POSITIONS.
Definition S_mask : fname := MASK.

(* forgetting dtype and trailing shape: the hand model's view *)
Definition erase (d : tdict) : dataset := map (fun kv => (fst kv, t_rows (snd kv))) d.

(* ---------- the objects ---------- *)
Section Objects.
  Variable gen : Type.

  (* xformer.data.Dataset: path, batch_size, batches, seed are constructor
     arguments; data and generator are transient (init=False) and absent until
     __attrs_post_init__ assigns them.  device ("cpu") and batch_class (a
     wrapper around the yielded dict) are not represented. *)
  Record dsobj := mkDs {
    o_path : list Z; o_batch_size : Z; o_batches : option Z; o_seed : Z;
    o_data : option tdict; o_generator : option gen }.

  Definition get_data (o : dsobj) : res tdict :=
    match o_data o with Some d => Ok d | None => Crash AttributeError end.
  Definition get_generator (o : dsobj) : res gen :=
    match o_generator o with Some g => Ok g | None => Crash AttributeError end.
  Definition set_data (o : dsobj) (d : tdict) : dsobj :=
    mkDs (o_path o) (o_batch_size o) (o_batches o) (o_seed o) (Some d) (o_generator o).
  Definition set_generator (o : dsobj) (g : gen) : dsobj :=
    mkDs (o_path o) (o_batch_size o) (o_batches o) (o_seed o) (o_data o) (Some g).

  (* the dict __getstate__ returns: the non-transient attributes *)
  Record dsstate := mkDsState { st_path : list Z; st_batch_size : Z; st_batches : option Z; st_seed : Z }.
  Definition state_of (o : dsobj) : dsstate := mkDsState (o_path o) (o_batch_size o) (o_batches o) (o_seed o).
  (* object.__new__ followed by setattr of every item of the state *)
  Definition obj_of_state (s : dsstate) : dsobj := mkDs (st_path s) (st_batch_size s) (st_batches s) (st_seed s) None None.

  (* tak.alphazero.data.ReplayBufferDataset *)
  Record rbobj := mkRb { rb_replay_buffer : list tdict; rb_batch_size : Z; rb_flat : option tdict }.
  Definition get_flat (o : rbobj) : res tdict :=
    match rb_flat o with Some d => Ok d | None => Crash AttributeError end.
  Definition set_flat (o : rbobj) (d : tdict) : rbobj := mkRb (rb_replay_buffer o) (rb_batch_size o) (Some d).

  (* torch.randperm(n, generator=g): the answer as an index tensor, and the generator afterwards *)
  Definition torch_randperm (randperm : gen -> nat -> list nat * gen) (g : gen) (n : Z) : res (list Z * gen) :=
    if n <? 0 then Crash RuntimeError
    else let '(p, g') := randperm g (Z.to_nat n) in Ok (map Z.of_nat p, g').
End Objects.

Arguments mkDs {gen}.
Arguments o_path {gen}. Arguments o_batch_size {gen}. Arguments o_batches {gen}. Arguments o_seed {gen}.
Arguments o_data {gen}. Arguments o_generator {gen}.
Arguments get_data {gen}. Arguments get_generator {gen}. Arguments set_data {gen}. Arguments set_generator {gen}.
Arguments state_of {gen}. Arguments obj_of_state {gen}.
Arguments torch_randperm {gen}.
