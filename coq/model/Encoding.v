(* Executable model of python/tak/model/encoding.py: encode, decode,
   _encode_batch / encode_batch.  No proofs in this file.

   The token values are NOT copied here: the model reads them from the
   regenerated gen/Consts.v (tok_EMPTY ... tok_RESERVES, tok_CAPSTONES), so every
   theorem about the model is re-proved against the vocabulary of the tree
   under test.  Tensors are lists of Z (uint8 storage is lossless because every
   token is a byte: theorem tokens_byte); a Python exception is None.

   Python list indexing `Token.RESERVES[n]` is modelled faithfully, INCLUDING
   negative indices (py_index): reserves -1 silently encode like reserves 49.
   The theorems exclude that by the explicit domain guard `encodable`. *)
From Coq Require Import ZArith List Bool.
From TV Require gen.Consts.
From TV Require Import model.Tak.
Import ListNotations.
Open Scope Z_scope.

(* ---------- CPython list indexing l[n]: IndexError = None ---------- *)
Definition py_index {A} (l : list A) (n : Z) : option A :=
  let len := zlen l in
  if (0 <=? n) && (n <? len) then nth_error l (Z.to_nat n)
  else if (- len <=? n) && (n <? 0) then nth_error l (Z.to_nat (len + n))
  else None.

Definition zmem (t : Z) (l : list Z) : bool := existsb (Z.eqb t) l.

(* ---------- the vocabulary as used by encode ---------- *)
(* TOP_PIECES[(mine, kind)] *)
Definition top_token (mine : bool) (k : kind) : Z :=
  match mine, k with
  | true, Flat => Consts.tok_MY_TOP_FLAT
  | true, Standing => Consts.tok_MY_STANDING
  | true, Capstone => Consts.tok_MY_CAPSTONE
  | false, Flat => Consts.tok_THEIR_TOP_FLAT
  | false, Standing => Consts.tok_THEIR_STANDING
  | false, Capstone => Consts.tok_THEIR_CAPSTONE
  end.
(* Token.MY_FLAT if flat.color == p.to_move() else Token.THEIR_FLAT; the KIND of
   a buried piece is not looked at *)
Definition flat_token (mine : bool) : Z :=
  if mine then Consts.tok_MY_FLAT else Consts.tok_THEIR_FLAT.

Definition encode_square (mover : color) (s : stack) : list Z :=
  match s with
  | [] => [Consts.tok_EMPTY]
  | top :: rest =>
    top_token (color_eqb (pcolor top) mover) (pkind top)
    :: map (fun f => flat_token (color_eqb (pcolor f) mover)) rest
  end.
Definition encode_board (mover : color) (b : list stack) : list Z :=
  flat_map (encode_square mover) b.

(* p.stones as ((white stones, white caps), (black stones, black caps)) *)
Definition reserves (p : position) : (Z * Z) * (Z * Z) :=
  ((wstones p, wcaps p), (bstones p, bcaps p)).
Definition stones_of (p : position) (c : color) : Z * Z :=
  match c with White => (wstones p, wcaps p) | Black => (bstones p, bcaps p) end.

(* encoding.encode; None = IndexError from RESERVES[..] / CAPSTONES[..] *)
Definition encode (include_sentinel : bool) (p : position) : option (list Z) :=
  let mover := to_move p in
  let mine := stones_of p mover in
  let theirs := stones_of p (flip mover) in
  match py_index Consts.tok_RESERVES (fst mine), py_index Consts.tok_CAPSTONES (snd mine),
        py_index Consts.tok_RESERVES (fst theirs), py_index Consts.tok_CAPSTONES (snd theirs) with
  | Some r1, Some c1, Some r2, Some c2 =>
    Some ((if include_sentinel then [Consts.tok_OUTPUT_SENTINEL] else []) ++
          (match mover with White => Consts.tok_WHITE_TO_PLAY | Black => Consts.tok_BLACK_TO_PLAY end)
          :: r1 :: c1 :: r2 :: c2 :: encode_board mover (board p))
  | _, _, _, _ => None
  end.

(* ---------- decode ---------- *)
(* the loop over board[i:]: cur is `this_sq` (None before the first square),
   acc is `squares`.  None = AttributeError (a buried-flat token before any
   square was opened) or KeyError (a token that is no square token). *)
Definition flush (cur : option stack) (acc : list stack) : list stack :=
  match cur with Some s => acc ++ [s] | None => acc end.

(* the dict {MY_CAPSTONE: CAPSTONE, ...}[sq] *)
Definition kind_of_token (t : Z) : option kind :=
  if t =? Consts.tok_MY_CAPSTONE then Some Capstone
  else if t =? Consts.tok_THEIR_CAPSTONE then Some Capstone
  else if t =? Consts.tok_MY_STANDING then Some Standing
  else if t =? Consts.tok_THEIR_STANDING then Some Standing
  else if t =? Consts.tok_MY_TOP_FLAT then Some Flat
  else if t =? Consts.tok_THEIR_TOP_FLAT then Some Flat
  else None.
(* sq in [THEIR_CAPSTONE, THEIR_STANDING, THEIR_TOP_FLAT] *)
Definition is_their_top (t : Z) : bool :=
  zmem t [Consts.tok_THEIR_CAPSTONE; Consts.tok_THEIR_STANDING; Consts.tok_THEIR_TOP_FLAT].

Fixpoint decode_go (to_play : color) (toks : list Z) (cur : option stack) (acc : list stack)
  : option (list stack) :=
  match toks with
  | [] => Some (flush cur acc)
  | t :: ts =>
    if t =? Consts.tok_MY_FLAT then
      match cur with
      | Some s => decode_go to_play ts (Some (s ++ [mkPiece to_play Flat])) acc
      | None => None
      end
    else if t =? Consts.tok_THEIR_FLAT then
      match cur with
      | Some s => decode_go to_play ts (Some (s ++ [mkPiece (flip to_play) Flat])) acc
      | None => None
      end
    else
      let acc' := flush cur acc in
      if t =? Consts.tok_EMPTY then decode_go to_play ts (Some []) acc'
      else match kind_of_token t with
           | Some k =>
             let c := if is_their_top t then flip to_play else to_play in
             decode_go to_play ts (Some [mkPiece c k]) acc'
           | None => None
           end
  end.

(* encoding.decode.  None = any exception decode() raises: IndexError (tensor
   too short for the header), AssertionError (reserve / capstone token not in
   the vocabulary, square count not a perfect square), AttributeError /
   KeyError from the square loop (see decode_go), IndexError from
   Config.DEFAULT_PIECES[size] for size > 8.  The result is the position
   decode() returns: ply 2 (White to play) or 3, reserves read back from the
   four tokens (the from_squares reserves are overwritten by attrs.evolve).
   `int(len ** 0.5)` is Z.sqrt (exact for every length a tensor can have here). *)
Definition decode_pos (toks : list Z) : option position :=
  match toks with
  | [] => None
  | t0 :: rest0 =>
    let toks1 := if t0 =? Consts.tok_OUTPUT_SENTINEL then rest0 else toks in
    match toks1 with
    | tp :: r1 :: c1 :: r2 :: c2 :: sqs =>
      let to_play := if tp =? Consts.tok_WHITE_TO_PLAY then White else Black in
      if negb (zmem r1 Consts.tok_RESERVES && zmem c1 Consts.tok_CAPSTONES &&
               zmem r2 Consts.tok_RESERVES && zmem c2 Consts.tok_CAPSTONES) then None else
      let first := (r1 - Consts.tok_FIRST_RESERVES_VALUE, c1 - Consts.tok_FIRST_CAPSTONES_VALUE) in
      let second := (r2 - Consts.tok_FIRST_RESERVES_VALUE, c2 - Consts.tok_FIRST_CAPSTONES_VALUE) in
      let '(w, b) := match to_play with White => (first, second) | Black => (second, first) end in
      match decode_go to_play sqs None [] with
      | None => None
      | Some squares =>
        let n := zlen squares in
        let sz := Z.sqrt n in
        if negb (sz * sz =? n) then None else
        if 8 <? sz then None else
        Some (mkPos sz (fst w) (snd w) (fst b) (snd b)
                    (match to_play with White => 2 | Black => 3 end) squares)
      end
    | _ => None
    end
  end.

(* what the property speaks about: board, side to move, reserves *)
Definition triple (p : position) : list stack * color * ((Z * Z) * (Z * Z)) :=
  (board p, to_move p, reserves p).
Definition decode (toks : list Z) : option (list stack * color * ((Z * Z) * (Z * Z))) :=
  option_map triple (decode_pos toks).

(* ---------- _encode_batch / encode_batch ---------- *)
(* `out` is a list of rows of common width w (out.size(1)); pad value 0 is
   torch.zeros.  Row i receives encoded position i; when an encoding is longer
   than the current width every row is widened with zeros first. *)
Definition pad_value : Z := 0.
Definition widen (w : nat) (row : list Z) : list Z := row ++ repeat pad_value (w - length row).
(* out[i, :len(enc)] = enc *)
Definition set_prefix (enc row : list Z) : list Z := enc ++ skipn (length enc) row.

Fixpoint batch_go (i : nat) (encs : list (list Z)) (w : nat) (out : list (list Z))
  : nat * list (list Z) :=
  match encs with
  | [] => (w, out)
  | e :: es =>
    let grow := Nat.ltb w (length e) in
    let w' := if grow then length e else w in
    let out' := if grow then map (widen w') out else out in
    batch_go (S i) es w' (upd out' i (set_prefix e (nth i out' [])))
  end.

(* mask[i, :l] = 1 on a row of zeros of width w *)
Definition mask_row (w l : nat) : list bool := map (fun j => Nat.ltb j l) (seq 0 w).

Fixpoint all_some {A} (l : list (option A)) : option (list A) :=
  match l with
  | [] => Some []
  | None :: _ => None
  | Some x :: t => match all_some t with Some r => Some (x :: r) | None => None end
  end.

(* None = one of the encode calls raised.  Result: (out, mask) as nested lists. *)
Definition encode_batch_with (include_sentinel : bool) (ps : list position)
  : option (list (list Z) * list (list bool)) :=
  match all_some (map (encode include_sentinel) ps) with
  | None => None
  | Some encs =>
    let '(w, out) := batch_go 0 encs 0 (repeat [] (length encs)) in
    Some (out, map (fun e => mask_row w (length e)) encs)
  end.
Definition encode_batch (ps : list position) := encode_batch_with true ps.

(* ---------- colour swap ---------- *)
Definition swap_piece (pc : piece) : piece := mkPiece (flip (pcolor pc)) (pkind pc).
(* every piece colour, the two reserves and the side to move (ply parity) swapped *)
Definition swap_colours (p : position) : position :=
  mkPos (size p) (bstones p) (bcaps p) (wstones p) (wcaps p) (ply p + 1)
        (map (map swap_piece) (board p)).

(* ---------- helpers of the correspondence (harness/props/c06.py) ---------- *)
(* what the implementation was observed to do: a value, the exception the model
   calls None (IndexError from encode; IndexError/AssertionError/KeyError/
   AttributeError from decode), or any other exception (never matches). *)
Inductive obs (A : Type) := ObsOk (a : A) | ObsRaise | ObsCrash.
Arguments ObsOk {A} a.
Arguments ObsRaise {A}.
Arguments ObsCrash {A}.
Definition obs_eqb {A} (eqb : A -> A -> bool) (m : option A) (o : obs A) : bool :=
  match m, o with
  | Some a, ObsOk b => eqb a b
  | None, ObsRaise => true
  | _, _ => false
  end.
Definition zlist_eqb := list_eqb Z.eqb.
Definition rows_eqb := list_eqb zlist_eqb.
Definition mask_eqb := list_eqb (list_eqb Bool.eqb).
Definition batch_eqb (a b : list (list Z) * list (list bool)) : bool :=
  rows_eqb (fst a) (fst b) && mask_eqb (snd a) (snd b).

Definition dec_ok (e : obs (list Z)) (d : obs position) : bool :=
  match e with
  | ObsOk l => obs_eqb position_eqb (decode_pos l) d
  | _ => true   (* nothing was decoded *)
  end.
(* one position: encode with and without the sentinel, decode of both encoded
   tensors, encode of the colour-swapped twin (built by the harness) *)
Definition pos_case : Type :=
  position * obs (list Z) * obs (list Z) * obs position * obs position * bool * obs (list Z).
Definition check_position (c : pos_case) : bool :=
  let '(p, et, ef, dt, df, ss, es) := c in
  obs_eqb zlist_eqb (encode true p) et && obs_eqb zlist_eqb (encode false p) ef &&
  dec_ok et dt && dec_ok ef df &&
  obs_eqb zlist_eqb (encode ss (swap_colours p)) es.
Definition view_position (c : pos_case) :=
  let '(p, et, ef, dt, df, ss, es) := c in
  (encode true p, encode false p,
   match encode true p with Some l => decode_pos l | None => None end,
   encode ss (swap_colours p)).
Definition check_decode (c : list Z * obs position) : bool :=
  obs_eqb position_eqb (decode_pos (fst c)) (snd c).
Definition batch_case : Type := bool * list position * obs (list (list Z) * list (list bool)).
Definition check_batch (c : batch_case) : bool :=
  let '(s, ps, o) := c in obs_eqb batch_eqb (encode_batch_with s ps) o.
Definition view_batch (c : batch_case) :=
  let '(s, ps, o) := c in encode_batch_with s ps.
