(* Executable model of python/tak/pieces.py, moves.py and game.py.
   No proofs in this file.  Stacks are lists with the TOP piece first, exactly
   as in the Python code (stack[0] is the top).  Squares are addressed by
   (x, y) with board index y*size + x.  All caller-supplied numbers are Z. *)
From Coq Require Import ZArith List Bool.
Import ListNotations.
Open Scope Z_scope.

Inductive color := White | Black.
Inductive kind := Flat | Standing | Capstone.
Record piece := mkPiece { pcolor : color; pkind : kind }.
Definition stack := list piece.

Definition color_eqb (a b : color) : bool :=
  match a, b with White, White | Black, Black => true | _, _ => false end.
Definition kind_eqb (a b : kind) : bool :=
  match a, b with Flat, Flat | Standing, Standing | Capstone, Capstone => true | _, _ => false end.
Definition piece_eqb (a b : piece) : bool :=
  color_eqb (pcolor a) (pcolor b) && kind_eqb (pkind a) (pkind b).
Definition flip (c : color) : color := match c with White => Black | Black => White end.
Definition kind_is_road (k : kind) : bool := match k with Standing => false | _ => true end.

Fixpoint list_eqb {A} (eqb : A -> A -> bool) (a b : list A) : bool :=
  match a, b with
  | [], [] => true
  | x :: a', y :: b' => eqb x y && list_eqb eqb a' b'
  | _, _ => false
  end.
Definition stack_eqb := list_eqb piece_eqb.
Definition board_eqb := list_eqb stack_eqb.

(* game.Position: stones = (StoneCounts white, StoneCounts black) *)
Record position := mkPos {
  size : Z;
  wstones : Z; wcaps : Z;
  bstones : Z; bcaps : Z;
  ply : Z;
  board : list stack
}.

Definition position_eqb (p q : position) : bool :=
  (size p =? size q) && (wstones p =? wstones q) && (wcaps p =? wcaps q) &&
  (bstones p =? bstones q) && (bcaps p =? bcaps q) && (ply p =? ply q) &&
  board_eqb (board p) (board q).

(* Config.DEFAULT_PIECES / DEFAULT_CAPS, indices 0..8 *)
Definition default_pieces : list Z := [0; 0; 0; 10; 15; 21; 30; 40; 50].
Definition default_caps : list Z := [0; 0; 0; 0; 0; 1; 1; 1; 2].
Record config := mkCfg { csize : Z; cpieces : option Z; ccaps : option Z }.
Definition flat_count (c : config) : Z :=
  match cpieces c with Some n => n | None => nth (Z.to_nat (csize c)) default_pieces 0 end.
Definition capstone_count (c : config) : Z :=
  match ccaps c with Some n => n | None => nth (Z.to_nat (csize c)) default_caps 0 end.

Definition from_config (c : config) : position :=
  mkPos (csize c) (flat_count c) (capstone_count c) (flat_count c) (capstone_count c) 0
        (repeat [] (Z.to_nat (csize c * csize c))).

Definition count_pieces (f : piece -> bool) (b : list stack) : Z :=
  fold_right (fun sq acc => fold_right (fun p a => if f p then a + 1 else a) acc sq) 0 b.
Definition is_cap_of (c : color) (p : piece) : bool :=
  color_eqb (pcolor p) c && kind_eqb (pkind p) Capstone.
Definition is_stone_of (c : color) (p : piece) : bool :=
  color_eqb (pcolor p) c && negb (kind_eqb (pkind p) Capstone).

(* Position.from_squares (the "Wrong board size" ValueError is None) *)
Definition from_squares (c : config) (sqs : list stack) (pl : Z) : option position :=
  if Z.of_nat (length sqs) =? csize c * csize c then
    Some (mkPos (csize c)
            (flat_count c - count_pieces (is_stone_of White) sqs)
            (capstone_count c - count_pieces (is_cap_of White) sqs)
            (flat_count c - count_pieces (is_stone_of Black) sqs)
            (capstone_count c - count_pieces (is_cap_of Black) sqs)
            pl sqs)
  else None.

Definition to_move (p : position) : color := if Z.even (ply p) then White else Black.
Definition in_bounds (n x y : Z) : bool := (0 <=? x) && (x <? n) && (0 <=? y) && (y <? n).

(* list access by a Z index that the caller has already bounds-checked *)
Definition getz {A} (d : A) (l : list A) (i : Z) : A := nth (Z.to_nat i) l d.
Fixpoint upd {A} (l : list A) (n : nat) (v : A) : list A :=
  match l, n with
  | [], _ => []
  | _ :: t, O => v :: t
  | h :: t, S n' => h :: upd t n' v
  end.
Definition updz {A} (l : list A) (i : Z) (v : A) : list A := upd l (Z.to_nat i) v.
Definition sq (p : position) (x y : Z) : stack := getz [] (board p) (y * size p + x).
Definition zlen {A} (l : list A) : Z := Z.of_nat (length l).
Definition zsum (l : list Z) : Z := fold_right Z.add 0 l.

Inductive mtype :=
  PlaceFlat | PlaceStanding | PlaceCapstone | SlideLeft | SlideRight | SlideUp | SlideDown.
Definition mtype_code (t : mtype) : Z :=
  match t with
  | PlaceFlat => 1 | PlaceStanding => 2 | PlaceCapstone => 3
  | SlideLeft => 4 | SlideRight => 5 | SlideUp => 6 | SlideDown => 7
  end.
Definition mtype_eqb (a b : mtype) : bool := mtype_code a =? mtype_code b.
Definition is_slide (t : mtype) : bool := 4 <=? mtype_code t.
Definition direction (t : mtype) : Z * Z :=
  match t with
  | SlideLeft => (-1, 0) | SlideRight => (1, 0) | SlideUp => (0, 1) | SlideDown => (0, -1)
  | _ => (0, 0)
  end.

(* moves.Move; slides = None is Python's None, Some l a tuple *)
Record mv := mkMove { mx : Z; my : Z; mt : mtype; mslides : option (list Z) }.
Definition opt_eqb {A} (eqb : A -> A -> bool) (a b : option A) : bool :=
  match a, b with
  | None, None => true
  | Some x, Some y => eqb x y
  | _, _ => false
  end.
Definition mv_eqb (a b : mv) : bool :=
  (mx a =? mx b) && (my a =? my b) && mtype_eqb (mt a) (mt b) &&
  opt_eqb (list_eqb Z.eqb) (mslides a) (mslides b).

Definition with_board (p : position) (b : list stack) : position :=
  mkPos (size p) (wstones p) (wcaps p) (bstones p) (bcaps p) (ply p + 1) b.

(* Position._move_place *)
Definition move_place (p : position) (m : mv) : option position :=
  if (ply p <? 2) && negb (mtype_eqb (mt m) PlaceFlat) then None else
  match sq p (mx m) (my m) with
  | _ :: _ => None
  | [] =>
    let c := if ply p <? 2 then flip (to_move p) else to_move p in
    let iscap := mtype_eqb (mt m) PlaceCapstone in
    let k := if iscap then Capstone
             else if mtype_eqb (mt m) PlaceStanding then Standing else Flat in
    let avail := match c, iscap with
                 | White, false => wstones p | White, true => wcaps p
                 | Black, false => bstones p | Black, true => bcaps p
                 end in
    if avail <=? 0 then None else
    let nb := updz (board p) (mx m + my m * size p) [mkPiece c k] in
    Some (match c, iscap with
          | White, false => mkPos (size p) (wstones p - 1) (wcaps p) (bstones p) (bcaps p) (ply p + 1) nb
          | White, true => mkPos (size p) (wstones p) (wcaps p - 1) (bstones p) (bcaps p) (ply p + 1) nb
          | Black, false => mkPos (size p) (wstones p) (wcaps p) (bstones p - 1) (bcaps p) (ply p + 1) nb
          | Black, true => mkPos (size p) (wstones p) (wcaps p) (bstones p) (bcaps p - 1) (ply p + 1) nb
          end)
  end.

(* the drop loop of Position._move_slide; orig is read from the OLD board *)
Fixpoint slide_go (p : position) (dx dy x y : Z) (carry : stack) (nb : list stack)
         (drops : list Z) : option (list stack) :=
  match drops with
  | [] => Some nb
  | d :: ds =>
    let x' := x + dx in
    let y' := y + dy in
    if negb (in_bounds (size p) x' y') then None else
    let i := x' + y' * size p in
    let orig := getz [] (board p) i in
    let k := Z.to_nat (zlen carry - d) in
    let continue (o : stack) :=
        slide_go p dx dy x' y' (firstn k carry) (updz nb i (skipn k carry ++ o)) ds in
    match orig with
    | [] => continue orig
    | top :: rest =>
      match pkind top with
      | Capstone => None
      | Standing =>
        match carry with
        | [c] => if kind_eqb (pkind c) Capstone
                 then continue (mkPiece (pcolor top) Flat :: rest) else None
        | _ => None
        end
      | Flat => continue orig
      end
    end
  end.

(* Position._move_slide for m.slides = drops *)
Definition move_slide (p : position) (m : mv) (drops : list Z) : option position :=
  if ply p <? 2 then None else
  let st := sq p (mx m) (my m) in
  if existsb (fun d => d <? 1) drops then None else
  let nd := zsum drops in
  if (size p <? nd) || (zlen st <? nd) then None else
  if nd <? 1 then None else
  match st with
  | [] => None
  | top :: _ =>
    if negb (color_eqb (pcolor top) (to_move p)) then None else
    let '(dx, dy) := direction (mt m) in
    let carry := firstn (Z.to_nat nd) st in
    let nb := updz (board p) (mx m + my m * size p) (skipn (Z.to_nat nd) st) in
    match slide_go p dx dy (mx m) (my m) carry nb drops with
    | Some b => Some (with_board p b)
    | None => None
    end
  end.

(* Position.move.  None = IllegalMove.  A slide whose slides field is Python's
   None is outside the modelled domain (TypeError in the code); it maps to None
   here and is never generated by the correspondence. *)
Definition move (p : position) (m : mv) : option position :=
  if negb (in_bounds (size p) (mx m) (my m)) then None else
  if is_slide (mt m) then
    match mslides m with
    | Some drops => move_slide p m drops
    | None => None
    end
  else move_place p m.

(* ---------- moves.py: ALL_SLIDES and all_moves_for_size ---------- *)
Fixpoint slides_fuel (fuel : nat) (n : nat) : list (list Z) :=
  match fuel with
  | O => []
  | S f => flat_map (fun i => [Z.of_nat i] :: map (cons (Z.of_nat i)) (slides_fuel f (n - i)))
                    (seq 1 n)
  end.
Definition all_slides (n : nat) : list (list Z) := slides_fuel n n.

Definition zrange (n : Z) : list Z := map Z.of_nat (seq 0 (Z.to_nat n)).

Definition dirs_for (n x y : Z) : list (mtype * Z) :=
  [(SlideLeft, x); (SlideRight, n - x - 1); (SlideDown, y); (SlideUp, n - y - 1)].

Definition table_square (n x y : Z) : list mv :=
  [mkMove x y PlaceFlat None; mkMove x y PlaceStanding None; mkMove x y PlaceCapstone None] ++
  flat_map (fun s => flat_map (fun dl : mtype * Z =>
                        if zlen s <=? snd dl then [mkMove x y (fst dl) (Some s)] else [])
                      (dirs_for n x y))
           (all_slides (Z.to_nat n)).

(* all_moves_for_size: x-major, then y *)
Definition table (n : Z) : list mv :=
  flat_map (fun x => flat_map (fun y => table_square n x y) (zrange n)) (zrange n).

(* Position.all_moves *)
Definition all_moves_square (p : position) (x y : Z) : list mv :=
  let n := size p in
  let s := sq p x y in
  match s with
  | [] =>
    [mkMove x y PlaceFlat None; mkMove x y PlaceStanding None] ++
    (if (0 <? (match to_move p with White => wcaps p | Black => bcaps p end))
     then [mkMove x y PlaceCapstone None] else [])
  | top :: _ =>
    if negb (color_eqb (pcolor top) (to_move p)) then [] else
    flat_map (fun sl => flat_map (fun dl : mtype * Z =>
                          if (zlen sl <=? snd dl) && (zlen sl <=? zlen s)
                          then [mkMove x y (fst dl) (Some sl)] else [])
                        (dirs_for n x y))
             (all_slides (Z.to_nat n))
  end.
Definition all_moves (p : position) : list mv :=
  flat_map (fun x => flat_map (fun y => all_moves_square p x y) (zrange (size p)))
           (zrange (size p)).

(* encoding.encode_move / decode_move: position in the table *)
Fixpoint index_of (m : mv) (l : list mv) (i : Z) : option Z :=
  match l with
  | [] => None
  | h :: t => if mv_eqb h m then Some i else index_of m t (i + 1)
  end.
Definition encode_move (n : Z) (m : mv) : option Z := index_of m (table n) 0.
Definition decode_move (n : Z) (i : Z) : option mv :=
  if i <? 0 then None else nth_error (table n) (Z.to_nat i).
