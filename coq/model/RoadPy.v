(* Statement-by-statement mirror of Position._walk and Position.has_road
   (python/tak/game.py).  Unlike model/Road.v (a neighbour closure) this file
   follows the Python work-list: `seen` is a list used as a set, `q` keeps the
   Python list's order (q.pop() removes the LAST element, q.append adds at the
   end), off-board neighbours ARE pushed and rejected when popped, the bounds
   test comes AFTER the square has been marked seen.  The `while q:` loop runs
   on explicit fuel and answers OutOfFuel when it runs dry; proofs/RoadPyProofs.v
   shows that `walk_fuel` iterations always suffice.  No proofs here. *)
From Coq Require Import ZArith List Bool.
From TV Require Import model.Tak model.Road.
Import ListNotations.
Open Scope Z_scope.

Inductive pyres (A : Type) := Done (a : A) | OutOfFuel.
Arguments Done {A} a.
Arguments OutOfFuel {A}.

(* q.pop(): None on an empty list, otherwise (rest, last element) *)
Fixpoint pop_last {A} (q : list A) : option (list A * A) :=
  match q with
  | [] => None
  | a :: t => match pop_last t with
              | None => Some ([], a)
              | Some (r, x) => Some (a :: r, x)
              end
  end.
(* q.append(v) *)
Definition append {A} (q : list A) (v : A) : list A := q ++ [v].

(* the body of `while q:` *)
Fixpoint walk_loop (fuel : nat) (p : position) (c : color) (horiz : bool)
         (seen q : list sqr) : pyres bool :=
  match fuel with
  | O => OutOfFuel
  | S fuel' =>
    match pop_last q with
    | None => Done false                                   (* loop ends: return False *)
    | Some (q, j) =>                                       (* j = q.pop() *)
      if smem j seen then walk_loop fuel' p c horiz seen q (* if j in seen: continue *)
      else
        let seen := j :: seen in                           (* seen.add(j) *)
        let '(x, y) := j in                                (* x, y = j *)
        if negb (in_bounds (size p) x y)                   (* if not self.in_bounds(x, y): continue *)
        then walk_loop fuel' p c horiz seen q
        else
          (* if not self.is_road(x, y) or self[x, y][0].color != color: continue *)
          match sq p x y with
          | [] => walk_loop fuel' p c horiz seen q          (* is_road: len(sq) > 0 fails *)
          | top :: _ =>
            if negb (kind_is_road (pkind top)) || negb (color_eqb (pcolor top) c)
            then walk_loop fuel' p c horiz seen q
            else if horiz && (x =? size p - 1) then Done true         (* return True *)
            else if negb horiz && (y =? size p - 1) then Done true    (* return True *)
            else
              let q := append q (x + 1, y) in
              let q := append q (x - 1, y) in
              let q := append q (x, y + 1) in
              let q := append q (x, y - 1) in
              walk_loop fuel' p c horiz seen q
          end
    end
  end.

(* _walk(seeds, color, horiz): seen = set(); q = list(seeds); while q: ... *)
Definition walk_py (fuel : nat) (p : position) (seeds : list sqr) (c : color) (horiz : bool)
  : pyres bool :=
  walk_loop fuel p c horiz [] seeds.

(* left = [(0, i) for i in range(size)], top = [(i, 0) for i in range(size)] *)
Definition left_seeds (p : position) : list sqr := map (fun i => (0, i)) (zrange (size p)).
Definition top_seeds (p : position) : list sqr := map (fun i => (i, 0)) (zrange (size p)).

(* a or b with Python's short circuit, threading OutOfFuel *)
Definition py_or (a : pyres bool) (b : unit -> pyres bool) : pyres bool :=
  match a with
  | Done true => Done true
  | Done false => b tt
  | OutOfFuel => OutOfFuel
  end.

(* Position.has_road, every _walk call given `fuel` iterations *)
Definition has_road_py (fuel : nat) (p : position) : pyres (option color) :=
  let w := py_or (walk_py fuel p (left_seeds p) White true)
                 (fun _ => walk_py fuel p (top_seeds p) White false) in
  let b := py_or (walk_py fuel p (left_seeds p) Black true)
                 (fun _ => walk_py fuel p (top_seeds p) Black false) in
  match w, b with
  | OutOfFuel, _ | _, OutOfFuel => OutOfFuel
  | Done w, Done b =>
    Done (if w && b then Some (flip (to_move p))           (* return self.to_move().flip() *)
          else if w then Some White
          else if b then Some Black
          else None)
  end.

(* a number of loop iterations that always suffices for the code's seed lists:
   5*size^2 + size + 1 (each popped square either is in `seen`, or is marked and
   rejected, or is a road square expanded for the first and only time and pushes
   four more) *)
Definition walk_fuel (p : position) : nat := Z.to_nat (5 * (size p * size p) + size p + 1).
