(* Executable model of self_play.encode_games and alphazero.trainer.dedup_batch.
   No proofs in this file.

   A batch (the dict of row-aligned tensors positions / mask / moves / values /
   results) is a list of rows.  The per-position token encoding
   (encoding.encode, property C06) is abstract here: a Section variable
   `enc : position -> list Z`; encode_batch's padding is modelled (pad with 0 to
   the widest row, mask = true on the first len(encoding) columns).
   Rationals stand for the float32 entries (the correspondence uses dyadic
   targets, for which float32 sums are exact, and compares means within 1 ulp). *)
From Coq Require Import ZArith QArith List Bool.
From TV Require gen.Consts.
From TV Require Import model.Tak model.SelfPlay.
Import ListNotations.
Open Scope Z_scope.

Record row := mkRow {
  r_tokens : list Z;      (* batch["positions"][i] *)
  r_mask : list bool;     (* batch["mask"][i] *)
  r_policy : list Q;      (* batch["moves"][i] *)
  r_value : Q;            (* batch["values"][i] *)
  r_label : Q             (* batch["results"][i] *)
}.
Definition batch := list row.

(* ---------- encode_games ---------- *)
Section Encode.
Variable enc : position -> list Z.

Definition pad_tokens (w : nat) (t : list Z) : list Z := t ++ repeat 0 (w - length t).
Definition pad_mask (w : nat) (t : list Z) : list bool :=
  repeat true (length t) ++ repeat false (w - length t).
Definition max_len (ts : list (list Z)) : nat := fold_right (fun t m => Nat.max (length t) m) 0%nat ts.

(* row i = (positions[i], mask[i], moves[i], values[i], results[i]) of the five column lists *)
Fixpoint zip_rows (ts : list (list Z)) (ms : list (list bool)) (ps : list (list Q)) (vs ls : list Q) : batch :=
  match ts, ms, ps, vs, ls with
  | t :: ts', m :: ms', p :: ps', v :: vs', l :: ls' => mkRow t m p v l :: zip_rows ts' ms' ps' vs' ls'
  | _, _, _, _, _ => []
  end.

(* torch.cat([tr.logits for tr in logs]); None = one of the logits raised *)
Fixpoint all_logits (logs : list transcript) : option (list (list Q)) :=
  match logs with
  | [] => Some []
  | tr :: rest =>
    match logits tr, all_logits rest with
    | Some a, Some b => Some (a ++ b)
    | _, _ => None
    end
  end.

Definition encode_games (logs : list transcript) : option batch :=
  let encs := map enc (flat_map t_positions logs) in
  let w := max_len encs in
  match all_logits logs with
  | None => None
  | Some lg =>
    Some (zip_rows (map (pad_tokens w) encs) (map (pad_mask w) encs) lg
                   (flat_map t_values logs)
                   (map inject_Z (flat_map results logs)))
  end.
End Encode.

(* ---------- dedup_batch ---------- *)
(* key = tuple(positions[i][mask[i]].tolist()) *)
Fixpoint masked (t : list Z) (m : list bool) : list Z :=
  match t, m with
  | x :: t', b :: m' => if b then x :: masked t' m' else masked t' m'
  | _, _ => []
  end.
Definition key_of (r : row) : list Z := masked (r_tokens r) (r_mask r).
Definition key_eqb (a b : list Z) : bool := list_eqb Z.eqb a b.

Fixpoint vadd (a b : list Q) : list Q :=
  match a, b with
  | x :: a', y :: b' => (x + y)%Q :: vadd a' b'
  | _, _ => []
  end.

(* one slot out[..][idx] together with counts[idx]; slots are kept in idx order *)
Record slot := mkSlot {
  s_key : list Z; s_tokens : list Z; s_mask : list bool;
  s_policy : list Q; s_value : Q; s_label : Q; s_count : Z
}.
(* first occurrence: ids[key] = next; positions and mask copied; the sums start from zeros_like *)
Definition new_slot (r : row) : slot :=
  mkSlot (key_of r) (r_tokens r) (r_mask r) (repeat 0%Q (length (r_policy r))) 0 0 0.
(* counts[idx] += 1; out[k][idx] += batch[k][i] *)
Definition slot_add (s : slot) (r : row) : slot :=
  mkSlot (s_key s) (s_tokens s) (s_mask s) (vadd (s_policy s) (r_policy r))
         (s_value s + r_value r) (s_label s + r_label r) (s_count s + 1).

Fixpoint add_row (r : row) (slots : list slot) : list slot :=
  match slots with
  | [] => [slot_add (new_slot r) r]
  | s :: t => if key_eqb (s_key s) (key_of r) then slot_add s r :: t else s :: add_row r t
  end.

(* out[k] /= counts *)
Definition finish (s : slot) : row :=
  let c := inject_Z (s_count s) in
  mkRow (s_tokens s) (s_mask s) (map (fun x => x / c)%Q (s_policy s)) (s_value s / c) (s_label s / c).

Definition dedup_slots (b : batch) : list slot := fold_left (fun acc r => add_row r acc) b [].
Definition dedup (b : batch) : batch := map finish (dedup_slots b).
