(* Executable model of Position.has_road / winner / flat_counts / flats_winner.
   Reachability is computed as a neighbour closure from the edge seeds (rounds
   of "add every road square of colour c adjacent to the set"), stopping early
   when a round adds nothing; the Python work-list is not mirrored - the
   correspondence compares results, not algorithms.  No proofs here. *)
From Coq Require Import ZArith List Bool.
From TV Require Import model.Tak.
Import ListNotations.
Open Scope Z_scope.

Definition sqr := (Z * Z)%type.
Definition sqr_eqb (a b : sqr) : bool := (fst a =? fst b) && (snd a =? snd b).
Definition smem (v : sqr) (W : list sqr) : bool := existsb (sqr_eqb v) W.

Definition all_squares (n : Z) : list sqr :=
  flat_map (fun x => map (fun y => (x, y)) (zrange n)) (zrange n).

(* is_road(x,y) and the colour test of _walk *)
Definition road_sq (p : position) (c : color) (v : sqr) : bool :=
  in_bounds (size p) (fst v) (snd v) &&
  match sq p (fst v) (snd v) with
  | top :: _ => kind_is_road (pkind top) && color_eqb (pcolor top) c
  | [] => false
  end.

Definition adjacent (a b : sqr) : bool :=
  let dx := fst a - fst b in
  let dy := snd a - snd b in
  ((dy =? 0) && ((dx =? 1) || (dx =? -1))) || ((dx =? 0) && ((dy =? 1) || (dy =? -1))).

Definition frontier (p : position) (c : color) (W : list sqr) : list sqr :=
  filter (fun v => road_sq p c v && negb (smem v W) && existsb (adjacent v) W)
         (all_squares (size p)).

Fixpoint closure (p : position) (c : color) (k : nat) (W : list sqr) : list sqr :=
  match k with
  | O => W
  | S k' => match frontier p c W with
            | [] => W
            | new => closure p c k' (W ++ new)
            end
  end.

(* _walk(seeds, color, horiz): seeds are the x = 0 column (horiz) or the y = 0 row *)
Definition seeds (n : Z) (horiz : bool) : list sqr :=
  map (fun i => if horiz then (0, i) else (i, 0)) (zrange n).
Definition walk (p : position) (c : color) (horiz : bool) : bool :=
  let n := size p in
  let W0 := filter (road_sq p c) (seeds n horiz) in
  let W := closure p c (Z.to_nat (n * n)) W0 in
  existsb (fun v => if horiz then fst v =? n - 1 else snd v =? n - 1) W.

Definition color_has_road (p : position) (c : color) : bool := walk p c true || walk p c false.

Definition has_road (p : position) : option color :=
  let w := color_has_road p White in
  let b := color_has_road p Black in
  if w && b then Some (flip (to_move p))
  else if w then Some White
  else if b then Some Black
  else None.

Definition top_flat_of (c : color) (s : stack) : bool :=
  match s with
  | top :: _ => kind_eqb (pkind top) Flat && color_eqb (pcolor top) c
  | [] => false
  end.
Definition flat_count_of (p : position) (c : color) : Z :=
  zlen (filter (top_flat_of c) (board p)).
Definition flats_winner (p : position) : option color :=
  let w := flat_count_of p White in
  let b := flat_count_of p Black in
  if b <? w then Some White else if w <? b then Some Black else None.

Inductive reason := Road | Flats.
Definition board_full (p : position) : bool :=
  forallb (fun s => match s with [] => false | _ => true end) (board p).
Definition out_of_pieces (p : position) : bool :=
  (wstones p + wcaps p =? 0) || (bstones p + bcaps p =? 0).

(* Position.winner: (winner colour or None, reason or None) *)
Definition winner (p : position) : option color * option reason :=
  match has_road p with
  | Some c => (Some c, Some Road)
  | None =>
    if board_full p || out_of_pieces p then (flats_winner p, Some Flats)
    else (None, None)
  end.
