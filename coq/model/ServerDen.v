(* C17 - denotation of the protocol IR regenerated from the source (gen/ServerIR.v).
   `den` recognises the loop structure whose event semantics model/Server.v implements
   (outer `while True`: new batch; blocking first get; gather loop with a drain arm
   guarded by `len(batch) >= threshold` and a timed arm; run_model in the executor;
   hand-out loop; run_model = pad to the longest row with zeros, mask exactly the
   tail, call the model on (positions, mask), softmax over the last axis, float32;
   Evaluate = put, wait, reply (probs bytes, value); client = float32 frombuffer)
   and READS the parameters of that semantics from the IR: queue capacity, batch
   threshold, gather timeout (exact, in microseconds) and which result row is
   handed to which request.  Anything else has no denotation (None).
   No proofs in this file. *)
From Coq Require Import ZArith List Bool.
From TV Require Import gen.ServerIR.
Import ListNotations.
Open Scope Z_scope.

Record params := mkParams {
  p_cap : Z;            (* asyncio.Queue(p_cap) *)
  p_threshold : Z;      (* len(batch) >= p_threshold *)
  p_timeout_us : Z;     (* wait_for(..., p_timeout_us / 10^6 s) *)
  p_pair : idx          (* request i of the batch receives result row p_pair(i) *)
}.

Definition idx_eqb (a b : idx) : bool :=
  match a, b with IdxI, IdxI => true | IdxRev, IdxRev => true | _, _ => false end.

(* an exact number of microseconds, or nothing *)
Definition seconds_to_us (n d : Z) : option Z :=
  if (0 <? d) && (0 <? n) && ((n * 1000000) mod d =? 0) then Some (n * 1000000 / d) else None.

Definition den_worker (w : list wstmt) : option (Z * Z * idx) :=
  match w with
  | [WBatchNew; WFirstGet; WGather thr n d; WRunModel; WHandOut ip iv true] =>
    if idx_eqb ip iv
    then match seconds_to_us n d with Some us => Some (thr, us, ip) | None => None end
    else None
  | _ => None
  end.

Definition den_run_model (r : list rstmt) : bool :=
  match r with
  | [RPositionsZeros DLong; RMaskZerosLike DBool; RFill IdxI SlPrefix SlTail 1; RCall;
     RProbs (-1) DFloat32; RValues DFloat32; RReturnProbsValues] => true
  | _ => false
  end.

Definition den_evaluate (e : list estmt) : bool :=
  match e with [ETensor DLong; ERequest; EPut; EWaitReady; EReply] => true | _ => false end.

Definition den_client (c : list cstmt) : bool :=
  match c with [CEncode; CEvaluate; CFromBuffer DFloat32; CReturn] => true | _ => false end.

Definition den (s : server_ir) : option params :=
  match s with
  | IRUnknown => None
  | IR c w r e cl =>
    if den_run_model r && den_evaluate e && den_client cl
    then match den_worker w with Some (thr, us, p) => Some (mkParams c thr us p) | None => None end
    else None
  end.

(* the timeout expression as written (numerator / denominator seconds), for the shape lemma *)
Definition ServerIR_tnum (s : server_ir) : Z :=
  match s with IR _ (_ :: _ :: WGather _ n _ :: _) _ _ _ => n | _ => 0 end.
Definition ServerIR_tden (s : server_ir) : Z :=
  match s with IR _ (_ :: _ :: WGather _ _ d :: _) _ _ _ => d | _ => 0 end.

(* result rows in the order in which the hand-out loop indexes them *)
Definition pair_results {A} (p : idx) (res : list A) : list A :=
  match p with IdxI => res | IdxRev => rev res end.
