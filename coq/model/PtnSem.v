(* PtnSem - the semantics library against which gen/PtnParseGen.v (regenerated
   from python/tak/ptn/ptn.py by harness/ptn2coq.py: parse_move and PTN.parse)
   is written.  It extends model/PySem.v (outcomes Ok v | Illegal | Crash e,
   bind, strings as code-point lists; `raise BadMove(...)` is the module's own
   refusal = Illegal) with what these two functions need.  No proofs here.

   Regular expressions.  The translator parses every pattern literal of the
   source into a term of spec/RegexSpec.v (gen/PtnParseGen.v: re_0 .. re_6, and
   the literal text re_k_src; proofs/PtnParseGenEq.v proves show re_k = re_k_src
   by computation, so the parser is not trusted).  The functions re_search_groups,
   re_test, re_sub, re_split, re_findall2 below take such a TERM and are
   defined for the seven terms the library knows (known_* below): there they
   are the hand matchers of model/Ptn.v, which proofs/TiePtnRegex.v proves equal
   to the declarative regex semantics (proofs/PtnParseGenEq.v restates that as
   the soundness of each function).  On any other term - a pattern that changed
   in the source, a dropped re.M - the library takes NO position: the outcome is
   Crash Unmodelled, which no equality theorem can absorb.
   re_sub with the suffix pattern is modelled for subjects without a newline
   (a final newline makes `$` match before it); re_findall2 answers
   Crash Unmodelled where model/Ptn.v's scan_tags does (a code point whose \w
   class the model does not know in key position; a tag line with an empty
   value). *)
From Coq Require Import ZArith String List Bool.
From TV Require Import model.Tak model.Road model.PySem model.Ptn spec.RegexSpec.
Import ListNotations.
Open Scope Z_scope.

(* ---------- decidable equality of regex terms ---------- *)
Definition citem_eqb (a b : citem) : bool :=
  match a, b with
  | Single c, Single d => c =? d
  | Range l h, Range l' h' => (l =? l') && (h =? h')
  | _, _ => false
  end.
Definition esc_eqb (a b : esc) : bool :=
  match a, b with EscS, EscS | EscD, EscD | EscW, EscW => true | _, _ => false end.
Fixpoint regex_eqb (a b : regex) : bool :=
  match a, b with
  | Eps, Eps | Bos, Bos | Eos, Eos | Bol, Bol | Eol, Eol | BolM, BolM | EolM, EolM => true
  | Chr c, Chr d => c =? d
  | Cls l, Cls l' | NotCls l, NotCls l' => list_eqb citem_eqb l l'
  | Esc k, Esc k' => esc_eqb k k'
  | Seq a1 a2, Seq b1 b2 | Alt a1 a2, Alt b1 b2 => regex_eqb a1 b1 && regex_eqb a2 b2
  | Opt r, Opt r' | Star r, Star r' | Plus r, Plus r' => regex_eqb r r'
  | Group n r, Group n' r' => Nat.eqb n n' && regex_eqb r r'
  | _, _ => false
  end.

(* ---------- the seven patterns the library knows ---------- *)
Definition k_stone := Cls [Single 67; Single 70; Single 83].
Definition k_digit := Cls [Range 49 56].
Definition known_move : regex :=
  Seq Bos (Seq (Group 1 (Opt k_stone)) (Seq (Group 2 (Opt k_digit)) (Seq (Group 3 (Cls [Range 97 104]))
  (Seq (Group 4 k_digit) (Seq (Group 5 (Opt (Cls [Single 60; Single 62; Single 43; Single 45])))
  (Seq (Group 6 (Star k_digit)) (Seq (Opt k_stone) Eos))))))).
Definition k_half : regex :=
  Alt (Chr 48) (Alt (Chr 82) (Alt (Chr 70) (Alt (Chr 49) (Seq (Chr 49) (Seq (Chr 47) (Chr 50)))))).
Definition known_result : regex := Seq Bos (Seq (Group 1 k_half) (Seq (Chr 45) (Seq (Group 2 k_half) Eos))).
Definition known_number : regex := Seq Bos (Seq (Plus (Esc EscD)) (Seq (Chr 46) Eos)).
Definition known_suffix : regex := Seq (Plus (Cls [Single 39; Single 33; Single 63])) Eol.
Definition known_comment : regex := Seq (Chr 123) (Seq (Plus (NotCls [Single 125])) (Chr 125)).
Definition known_space : regex := Plus (Esc EscS).
Definition known_tag : regex :=
  Seq BolM (Seq (Chr 91) (Seq (Group 1 (Plus (Esc EscW))) (Seq (Chr 32) (Seq (Chr 34)
  (Seq (Group 2 (Plus (NotCls [Single 34]))) (Seq (Chr 34) (Seq (Chr 93) EolM))))))).

(* ---------- match objects ---------- *)
(* a match object = Some (the texts of its groups 1..n); None = no match *)
Definition pymatch := option (list (list Z)).
Definition opt_text (o : option Z) : list Z := match o with Some c => [c] | None => [] end.
Definition groups_list (g : groups) : list (list Z) :=
  [opt_text (g_stone g); opt_text (g_pickup g); [g_file g]; [g_rank g]; opt_text (g_dir g); g_drops g].

(* m = re.search(r, s) where the groups are used afterwards *)
Definition re_search_groups (r : regex) (s : list Z) : res pymatch :=
  if regex_eqb r known_move then
    Ok (match match_move s with Some g => Some (groups_list g) | None => None end)
  else Crash Unmodelled.
(* bool(m) / `if not m` *)
Definition py_match_truthy (m : pymatch) : bool := match m with Some _ => true | None => false end.
(* m.groups(): AttributeError on None *)
Definition py_match_groups (m : pymatch) : res (list (list Z)) :=
  match m with Some gs => Ok gs | None => Crash AttributeError end.
(* a, b, c, d, e, f = l *)
Definition py_unpack6 {A} (l : list A) : res (A * A * A * A * A * A) :=
  match l with [a; b; c; d; e; f] => Ok (a, b, c, d, e, f) | _ => Crash ValueError end.

(* `if re.search(r, s):` / `if re.match(r, s):` - only the truth value of the match object is used.
   anchored = true for re.match *)
Definition re_test (anchored : bool) (r : regex) (s : list Z) : res bool :=
  if regex_eqb r known_result then Ok (is_result s)
  else if regex_eqb r known_number then Ok (is_move_number s)
  else Crash Unmodelled.

(* re.sub(r, rep, s) *)
Definition re_sub (r : regex) (rep s : list Z) : res (list Z) :=
  if regex_eqb r known_comment && pystr_eqb rep [32] then Ok (sub_comments s 0)
  else if regex_eqb r known_suffix && pystr_eqb rep [] then
         (if existsb (Z.eqb 10) s then Crash Unmodelled else Ok (strip_suffix s))
  else Crash Unmodelled.

(* re.split(r, s) *)
Definition re_split (r : regex) (s : list Z) : res (list (list Z)) :=
  if regex_eqb r known_space then Ok (re_split_ws s) else Crash Unmodelled.

(* re.findall(r, s, re.M) for a pattern with two groups: the list of pairs *)
Definition re_findall2 (r : regex) (s : list Z) : res (list (list Z * list Z)) :=
  if regex_eqb r known_tag then
    match scan_tags s true 0 with Some l => Ok l | None => Crash Unmodelled end
  else Crash Unmodelled.

(* ---------- the rest of what parse_move / PTN.parse use ---------- *)
(* ord(s): TypeError unless s has exactly one character *)
Definition py_ord (s : list Z) : res Z := match s with [c] => Ok c | _ => Crash TypeError end.

(* bool(t) for an Optional tuple *)
Definition truthy_opt_list {A} (o : option (list A)) : bool :=
  match o with Some l => truthy_list l | None => false end.

(* tak.Move(x, y, typ, slides); model/Tak.v's mv cannot hold type=None: no position there *)
Definition py_move (x y : Z) (typ : option mtype) (slides : option (list Z)) : res mv :=
  match typ with Some t => Ok (mkMove x y t slides) | None => Crash Unmodelled end.

(* s.split(sep, 1) for a non-empty separator: [s] when sep does not occur, else [before, after] of the first occurrence *)
Fixpoint starts_with (p s : list Z) : bool :=
  match p, s with
  | [], _ => true
  | c :: p', d :: s' => (c =? d) && starts_with p' s'
  | _ :: _, [] => false
  end.
Fixpoint split_first (sep s : list Z) : option (list Z * list Z) :=
  match s with
  | [] => None
  | c :: r =>
    if starts_with sep s then Some ([], skipn (length sep) s)
    else match split_first sep r with Some (h, t) => Some (c :: h, t) | None => None end
  end.
Definition py_split_max1 (s sep : list Z) : res (list (list Z)) :=
  match sep with
  | [] => Crash ValueError          (* "empty separator" *)
  | _ :: _ => Ok (match split_first sep s with Some (h, t) => [h; t] | None => [s] end)
  end.

(* dict(pairs) for string keys, as the list of items in dict order: a repeated key keeps its first position and
   takes the last value *)
Fixpoint py_dict_set {V} (d : list (list Z * V)) (k : list Z) (v : V) : list (list Z * V) :=
  match d with
  | [] => [(k, v)]
  | (k', v') :: t => if pystr_eqb k' k then (k', v) :: t else (k', v') :: py_dict_set t k v
  end.
Definition py_dict_of_pairs {V} (l : list (list Z * V)) : list (list Z * V) :=
  fold_left (fun d kv => py_dict_set d (fst kv) (snd kv)) l [].
