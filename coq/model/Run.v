(* Playing a list of moves from a position: the first refused move refuses the
   whole sequence (None = IllegalMove somewhere along the way).  No proofs here. *)
From Coq Require Import ZArith List.
From TV Require Import model.Tak.
Import ListNotations.

Fixpoint run (p : position) (ms : list mv) : option position :=
  match ms with
  | [] => Some p
  | m :: rest => match move p m with
                 | Some q => run q rest
                 | None => None
                 end
  end.
