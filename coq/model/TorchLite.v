(* TorchLite - the torch / dict semantics of the constructs that
   alphazero.trainer.dedup_batch and self_play.encode_games use, as a small
   library against which gen/BatchGen.v (regenerated from the source on every
   run by harness/torch2coq.py) is written.  No proofs in this file.

   This file is TRUSTED: it says what torch does for row indexing, row
   assignment, boolean-mask selection, in-place += and /= with the (N,1)
   broadcast, zeros / zeros_like, v[:n], torch.cat, torch.tensor, and what a
   Python dict does (insertion order, replacement in place).
   harness/props/t12.py validates every operation against the real torch /
   CPython on random small dyadic tensors (evaluated inside Coq) on every run.

   Floats are EXACT rationals kept in lowest terms (`Fin (Qred q)`): the
   correspondence uses dyadic data, for which float32 sums are exact; a
   division is compared within 1 ulp.  `NonFin` is a non-finite value (x / 0)
   or anything computed from one; TorchLite takes no position on its identity
   (inf, -inf or nan) - all operations are elementwise, so a `Fin` entry of a
   result was computed from `Fin` entries only.

   Where torch would broadcast, cast dtypes or index with something other than
   an int / a bool row, the outcome is `Crash Unmodelled` (PySem.v: "takes no
   position"); no equivalence theorem can absorb it, so the theorems' shape
   guards have to exclude it.  torch's RuntimeError (torch.cat([]),
   torch.zeros(-1)) is not among PySem's exception classes and is `Crash
   Unmodelled` as well. *)
From Coq Require Import ZArith QArith String List Bool.
From TV Require Import model.Tak model.PySem.
Import ListNotations.
Open Scope Z_scope.

(* ---------- float entries ---------- *)
Inductive fl := Fin (q : Q) | NonFin.
Definition fl_of_Q (q : Q) : fl := Fin (Qred q).
Definition fl_zero : fl := Fin 0.
Definition fl_add (a b : fl) : fl :=
  match a, b with Fin x, Fin y => Fin (Qred (x + y)) | _, _ => NonFin end.
Definition fl_div (a b : fl) : fl :=
  match a, b with
  | Fin x, Fin y => if Qeq_bool y 0 then NonFin else Fin (Qred (x / y))
  | _, _ => NonFin
  end.

(* ---------- tensors: rank <= 2, dtype float / integer / bool ---------- *)
Inductive tensor :=
| F0 (x : fl)                     (* 0-d float: t[i] of a 1-d float tensor *)
| F1 (v : list fl)
| F2 (m : list (list fl))
| I1 (v : list Z)
| I2 (m : list (list Z))
| B1 (v : list bool)
| B2 (m : list (list bool)).

(* t.shape[0] (IndexError: tuple index out of range, for a 0-d tensor) *)
Definition t_shape0 (t : tensor) : res Z :=
  match t with
  | F0 _ => Crash IndexError
  | F1 v => Ok (zlen v) | F2 m => Ok (zlen m)
  | I1 v => Ok (zlen v) | I2 m => Ok (zlen m)
  | B1 v => Ok (zlen v) | B2 m => Ok (zlen m)
  end.
(* len(t.shape) *)
Definition t_ndim (t : tensor) : Z :=
  match t with F0 _ => 0 | F1 _ | I1 _ | B1 _ => 1 | F2 _ | I2 _ | B2 _ => 2 end.

(* t[i] for an int i: Python's index rule (negative wraps, IndexError outside) on the first dimension *)
Definition t_getrow (t : tensor) (i : Z) : res tensor :=
  match t with
  | F0 _ => Crash IndexError
  | F1 v => x <- py_getitem v i ;; ret (F0 x)
  | F2 m => r <- py_getitem m i ;; ret (F1 r)
  | I2 m => r <- py_getitem m i ;; ret (I1 r)
  | B2 m => r <- py_getitem m i ;; ret (B1 r)
  | I1 _ | B1 _ => Crash Unmodelled          (* 0-d integer / bool tensors are not modelled *)
  end.

(* t[i] = v: the values of v are COPIED into row i; same dtype and same row shape only *)
Definition same_len {A B} (a : list A) (b : list B) : bool := Nat.eqb (length a) (length b).
Definition t_setrow (t : tensor) (i : Z) (v : tensor) : res tensor :=
  match t, v with
  | F0 _, _ => Crash IndexError
  | F1 l, F0 x => l' <- py_setitem l i x ;; ret (F1 l')
  | F2 m, F1 r => old <- py_getitem m i ;;
                  if same_len old r then m' <- py_setitem m i r ;; ret (F2 m') else Crash Unmodelled
  | I2 m, I1 r => old <- py_getitem m i ;;
                  if same_len old r then m' <- py_setitem m i r ;; ret (I2 m') else Crash Unmodelled
  | B2 m, B1 r => old <- py_getitem m i ;;
                  if same_len old r then m' <- py_setitem m i r ;; ret (B2 m') else Crash Unmodelled
  | _, _ => Crash Unmodelled
  end.

(* a += b on a row / an entry (the result is stored back by the caller) *)
Fixpoint map2 {A B C} (f : A -> B -> C) (a : list A) (b : list B) : list C :=
  match a, b with
  | x :: a', y :: b' => f x y :: map2 f a' b'
  | _, _ => []
  end.
Definition t_iadd (a b : tensor) : res tensor :=
  match a, b with
  | F0 x, F0 y => Ok (F0 (fl_add x y))
  | F1 x, F1 y => if same_len x y then Ok (F1 (map2 fl_add x y)) else Crash Unmodelled
  | _, _ => Crash Unmodelled
  end.
(* the Python int n as the right operand of += on a float entry *)
Definition t_of_int (n : Z) : tensor := F0 (Fin (inject_Z n)).

(* row[mask] for a 1-d bool mask of the same shape (IndexError when the shapes differ) *)
Fixpoint select {A} (v : list A) (m : list bool) : list A :=
  match v, m with
  | x :: v', b :: m' => if b then x :: select v' m' else select v' m'
  | _, _ => []
  end.
Definition t_mask_select (t mask : tensor) : res tensor :=
  match t, mask with
  | I1 v, B1 m => if same_len v m then Ok (I1 (select v m)) else Crash IndexError
  | F1 v, B1 m => if same_len v m then Ok (F1 (select v m)) else Crash IndexError
  | B1 v, B1 m => if same_len v m then Ok (B1 (select v m)) else Crash IndexError
  | _, _ => Crash Unmodelled
  end.

(* t.tolist() where a list of Python ints is expected (it becomes a dict key) *)
Definition t_tolist_int (t : tensor) : res (list Z) :=
  match t with I1 v => Ok v | _ => Crash Unmodelled end.

(* torch.zeros_like(t), torch.zeros(n) *)
Definition t_zeros_like (t : tensor) : tensor :=
  match t with
  | F0 _ => F0 fl_zero
  | F1 v => F1 (map (fun _ => fl_zero) v)
  | F2 m => F2 (map (map (fun _ => fl_zero)) m)
  | I1 v => I1 (map (fun _ => 0) v)
  | I2 m => I2 (map (map (fun _ => 0)) m)
  | B1 v => B1 (map (fun _ => false) v)
  | B2 m => B2 (map (map (fun _ => false)) m)
  end.
Definition t_zeros (n : Z) : res tensor :=
  if n <? 0 then Crash Unmodelled else Ok (F1 (repeat fl_zero (Z.to_nat n))).

(* t.reshape(shape): only the two shapes (-1,) and (-1, 1) of a 1-d tensor *)
Definition t_reshape (t : tensor) (shape : list Z) : res tensor :=
  match t, shape with
  | F1 v, [-1] => Ok (F1 v)
  | F1 v, [-1; 1] => Ok (F2 (map (fun x => [x]) v))
  | _, _ => Crash Unmodelled
  end.

(* a /= b: elementwise for equal 1-d shapes; (N, W) / (N, 1) divides row i by b[i][0] *)
Definition div_row (row : list fl) (c : list fl) : option (list fl) :=
  match c with [d] => Some (map (fun x => fl_div x d) row) | _ => None end.
Fixpoint div_rows (m c : list (list fl)) : option (list (list fl)) :=
  match m, c with
  | [], [] => Some []
  | r :: m', d :: c' =>
    match div_row r d, div_rows m' c' with
    | Some r', Some rest => Some (r' :: rest)
    | _, _ => None
    end
  | _, _ => None
  end.
Definition t_idiv (a b : tensor) : res tensor :=
  match a, b with
  | F1 x, F1 y => if same_len x y then Ok (F1 (map2 fl_div x y)) else Crash Unmodelled
  | F2 m, F2 c => match div_rows m c with Some m' => Ok (F2 m') | None => Crash Unmodelled end
  | _, _ => Crash Unmodelled
  end.

(* t[:n] on the first dimension (Python's clamping; IndexError on a 0-d tensor) *)
Definition t_slice_to (t : tensor) (n : Z) : res tensor :=
  match t with
  | F0 _ => Crash IndexError
  | F1 v => Ok (F1 (py_slice v None (Some n)))
  | F2 m => Ok (F2 (py_slice m None (Some n)))
  | I1 v => Ok (I1 (py_slice v None (Some n)))
  | I2 m => Ok (I2 (py_slice m None (Some n)))
  | B1 v => Ok (B1 (py_slice v None (Some n)))
  | B2 m => Ok (B2 (py_slice m None (Some n)))
  end.

(* torch.cat(l) for 2-d float tensors whose rows all have one width (dim 0); the empty list is an error.  A tensor
   without rows still has a width in torch (shape (0, w)) that the list of rows does not show: no position is taken. *)
Fixpoint f2_rows (l : list tensor) : option (list (list fl)) :=
  match l with
  | [] => Some []
  | F2 [] :: _ => None
  | F2 m :: l' => match f2_rows l' with Some r => Some (m ++ r) | None => None end
  | _ :: _ => None
  end.
Definition one_width (rows : list (list fl)) : bool :=
  match rows with
  | [] => true
  | r :: rest => forallb (fun r' => same_len r r') rest
  end.
Definition t_cat (l : list tensor) : res tensor :=
  match l with
  | [] => Crash Unmodelled
  | _ :: _ =>
    match f2_rows l with
    | Some rows => if one_width rows then Ok (F2 rows) else Crash Unmodelled
    | None => Crash Unmodelled
    end
  end.

(* torch.tensor(l) / torch.tensor(l, dtype=torch.float32) for a list of Python numbers (exact: see the header) *)
Definition t_tensor (l : list Q) : tensor := F1 (map fl_of_Q l).

(* ---------- dicts: association lists in insertion order, keys unique ---------- *)
Definition tdict := list (string * tensor).
Definition d_get (d : tdict) (k : string) : res tensor := py_dict_get String.eqb d k.
(* d[k] = v: replaces the value in place when the key exists, else appends *)
Fixpoint assoc_set {K V} (eqb : K -> K -> bool) (d : list (K * V)) (k : K) (v : V) : list (K * V) :=
  match d with
  | [] => [(k, v)]
  | (k', v') :: d' => if eqb k' k then (k', v) :: d' else (k', v') :: assoc_set eqb d' k v
  end.
Definition d_set (d : tdict) (k : string) (v : tensor) : tdict := assoc_set String.eqb d k v.
(* for k in d / [k for k in d] *)
Definition d_keys (d : tdict) : list string := map fst d.
(* k in [..] for strings *)
Definition str_in (k : string) (l : list string) : bool := existsb (String.eqb k) l.

(* dict with tuple-of-int keys and int values (`ids`) *)
Definition zdict := list (list Z * Z).
Definition zkey_eqb (a b : list Z) : bool := list_eqb Z.eqb a b.
Definition zd_mem (k : list Z) (d : zdict) : bool := existsb (fun e => zkey_eqb (fst e) k) d.
Definition zd_get (d : zdict) (k : list Z) : res Z := py_dict_get zkey_eqb d k.
Definition zd_set (d : zdict) (k : list Z) (v : Z) : zdict := assoc_set zkey_eqb d k v.

(* {k: f(v) for (k, v) in d.items()} where f can raise: in order, the first exception wins *)
Fixpoint d_mapM (f : string -> tensor -> res tensor) (d : tdict) : res tdict :=
  match d with
  | [] => Ok []
  | (k, v) :: d' => v' <- f k v ;; r <- d_mapM f d' ;; ret ((k, v') :: r)
  end.
(* dict(k1=v1, ...) / a dict display with distinct literal keys *)
Definition d_of_list (l : list (string * tensor)) : tdict := l.

(* [x for a in l for x in f(a)] *)
Definition py_flat_map {A B} (f : A -> list B) (l : list A) : list B := flat_map f l.
(* (1,) * n for a tuple of ints *)
Definition py_tuple_repeat (t : list Z) (n : Z) : list Z := concat (repeat t (Z.to_nat n)).

(* ====================== additions for encoding._encode_batch (T06B) ====================== *)
(* dtypes.  Integer tensors do not carry their dtype: where it matters (torch.tensor(l, dtype=d)) the translator passes
   the dtype expression the tensor was created with. *)
Inductive dtype := DFloat | DUint8 | DInt32 | DBool.

(* torch.zeros((a, b), dtype=d) *)
Definition t_zeros2 (d : dtype) (a b : Z) : res tensor :=
  if (a <? 0) || (b <? 0) then Crash Unmodelled else
  let rows {A} (z : A) := repeat (repeat z (Z.to_nat b)) (Z.to_nat a) in
  match d with
  | DFloat => Ok (F2 (rows fl_zero))
  | DUint8 | DInt32 => Ok (I2 (rows 0))
  | DBool => Ok (B2 (rows false))
  end.

(* torch.empty((n,), dtype=torch.int): UNINITIALISED memory.  `uninit j` is whatever entry j holds; the generated
   functions take it as a parameter and the theorems hold for every `uninit`. *)
Definition t_empty_int (uninit : nat -> Z) (n : Z) : res tensor :=
  if n <? 0 then Crash Unmodelled else Ok (I1 (map uninit (seq 0 (Z.to_nat n)))).

(* torch.zeros_like(t, dtype=d) *)
Definition t_zeros_like_as (t : tensor) (d : dtype) : res tensor :=
  let z2 {A B} (z : B) (m : list (list A)) := map (map (fun _ => z)) m in
  let z1 {A B} (z : B) (v : list A) := map (fun _ => z) v in
  let mk2 {A} (m : list (list A)) :=
    match d with DFloat => F2 (z2 fl_zero m) | DUint8 | DInt32 => I2 (z2 0 m) | DBool => B2 (z2 false m) end in
  let mk1 {A} (v : list A) :=
    match d with DFloat => F1 (z1 fl_zero v) | DUint8 | DInt32 => I1 (z1 0 v) | DBool => B1 (z1 false v) end in
  match t with
  | F0 _ => Crash Unmodelled
  | F1 v => Ok (mk1 v) | I1 v => Ok (mk1 v) | B1 v => Ok (mk1 v)
  | F2 m => Ok (mk2 m) | I2 m => Ok (mk2 m) | B2 m => Ok (mk2 m)
  end.

(* t.size(k).  The width of a tensor without rows is invisible in the list of rows: no position. *)
Definition width_of {A} (m : list (list A)) : res Z :=
  match m with [] => Crash Unmodelled | r :: _ => Ok (zlen r) end.
Definition t_size (t : tensor) (k : Z) : res Z :=
  if k =? 0 then t_shape0 t
  else if k =? 1 then
    match t with
    | F2 m => width_of m | I2 m => width_of m | B2 m => width_of m
    | _ => Crash IndexError               (* Dimension out of range *)
    end
  else Crash Unmodelled.

(* torch.tensor(l, dtype=d) for a list of Python ints; a value outside the dtype's range: no position
   (RuntimeError or wrap-around, depending on the torch version) *)
Definition t_tensor_ints (d : dtype) (l : list Z) : res tensor :=
  match d with
  | DFloat => Ok (F1 (map (fun x => Fin (inject_Z x)) l))
  | DUint8 => if forallb (fun x => (0 <=? x) && (x <? 256)) l then Ok (I1 l) else Crash Unmodelled
  | DInt32 => if forallb (fun x => (-2147483648 <=? x) && (x <? 2147483648)) l then Ok (I1 l) else Crash Unmodelled
  | DBool => Crash Unmodelled
  end.

(* t[i] = n on a 1-d integer tensor, n a Python int (the range of the dtype is not checked: no position outside int32) *)
Definition t_set_int (t : tensor) (i n : Z) : res tensor :=
  match t with
  | I1 v => if (-2147483648 <=? n) && (n <? 2147483648) then v' <- py_setitem v i n ;; ret (I1 v') else Crash Unmodelled
  | _ => Crash Unmodelled
  end.
(* for x in t / enumerate(t) on a 1-d integer tensor: the entries (0-d tensors used as ints) *)
Definition t_iter_int (t : tensor) : res (list Z) :=
  match t with I1 v => Ok v | _ => Crash Unmodelled end.

(* row[:k] = new : the slice is [0, e) with Python's clamping; the shapes must agree *)
Definition set_prefix_row {A} (row new : list A) (k : Z) : option (list A) :=
  let e := py_bound (zlen row) (Some k) (zlen row) in
  if zlen new =? e then Some (new ++ skipn (Z.to_nat e) row) else None.
(* t[i, :k] = v *)
Definition t_set_row_prefix (t : tensor) (i k : Z) (v : tensor) : res tensor :=
  match t, v with
  | F2 m, F1 r => old <- py_getitem m i ;;
      match set_prefix_row old r k with Some r' => m' <- py_setitem m i r' ;; ret (F2 m') | None => Crash Unmodelled end
  | I2 m, I1 r => old <- py_getitem m i ;;
      match set_prefix_row old r k with Some r' => m' <- py_setitem m i r' ;; ret (I2 m') | None => Crash Unmodelled end
  | B2 m, B1 r => old <- py_getitem m i ;;
      match set_prefix_row old r k with Some r' => m' <- py_setitem m i r' ;; ret (B2 m') | None => Crash Unmodelled end
  | _, _ => Crash Unmodelled
  end.
(* t[:, :k] = u *)
Fixpoint set_prefix_rows {A} (m u : list (list A)) (k : Z) : option (list (list A)) :=
  match m, u with
  | [], [] => Some []
  | r :: m', s :: u' =>
    match set_prefix_row r s k, set_prefix_rows m' u' k with
    | Some r', Some rest => Some (r' :: rest)
    | _, _ => None
    end
  | _, _ => None
  end.
Definition t_set_cols_prefix (t : tensor) (k : Z) (u : tensor) : res tensor :=
  match t, u with
  | F2 m, F2 s => match set_prefix_rows m s k with Some m' => Ok (F2 m') | None => Crash Unmodelled end
  | I2 m, I2 s => match set_prefix_rows m s k with Some m' => Ok (I2 m') | None => Crash Unmodelled end
  | B2 m, B2 s => match set_prefix_rows m s k with Some m' => Ok (B2 m') | None => Crash Unmodelled end
  | _, _ => Crash Unmodelled
  end.
(* t[i, :k] = c for a Python int c (bool tensor: c != 0) *)
Definition fill_prefix_row {A} (row : list A) (c : A) (k : Z) : list A :=
  let e := Z.to_nat (py_bound (zlen row) (Some k) (zlen row)) in repeat c e ++ skipn e row.
Definition t_fill_row_prefix (t : tensor) (i k c : Z) : res tensor :=
  match t with
  | B2 m => old <- py_getitem m i ;; m' <- py_setitem m i (fill_prefix_row old (negb (c =? 0)) k) ;; ret (B2 m')
  | F2 m => old <- py_getitem m i ;; m' <- py_setitem m i (fill_prefix_row old (Fin (inject_Z c)) k) ;; ret (F2 m')
  | _ => Crash Unmodelled
  end.
