(* C05 - heap-level model: a small heap-effect IR (generated from the Python
   source by harness/heap_ir.py into gen/HeapIR.v) and its executable
   semantics.  No proofs in this file.

   Values are immediates (ints, enums, cached Piece objects, strings, tuples of
   immutable things ...) or locations of mutable objects.  A heap object is a
   Python list (a dict with a fixed key universe and an attrs instance are
   lists of their slots; [VAbsent] marks an unset dict slot).  Everything that
   is not a heap effect (arithmetic, comparisons, which branch is taken, how
   often a loop runs, the integer value of an index, the bounds of a slice) is
   read from an explicit oracle stream: the theorems quantify over every
   stream, the correspondence feeds the stream recorded from the real run. *)
From Coq Require Import List Bool Arith.
From Coq Require String.
Import ListNotations.
Notation string := String.string.

Inductive val := VImm | VAbsent | VLoc (l : nat).
Definition obj := list val.
Definition heap := list obj.          (* location = position; dom h = [0, length h) *)
Definition oracle := list nat.
Definition env := list (string * val).

Inductive atom := AImm | AAbs | AVar (x : string).   (* AAbs: unset dict slot *)
Inductive idx := IConst (n : nat) | ILast | IOr.

Inductive rhs :=
| RAtom (a : atom)                          (* alias / immediate *)
| RIdx (x : string) (i : idx)               (* alias: x[i], x.field *)
| RCopy (x : string)                        (* fresh: list(x), x[:], x.copy(), sorted(x) (shape) *)
| RRevCopy (x : string)                     (* fresh: list(reversed(x)) *)
| RSlice (x : string)                       (* fresh: x[a:b], bounds from the oracle *)
| RConcat (x y : string)                    (* fresh: x + y *)
| RDisplay (es : list atom)                 (* fresh: [..], (..), {..}, constructor call *)
| RRepeat (x : string)                      (* fresh: x * n, n from the oracle; elements SHARED *)
| RComp (es : list atom)                    (* fresh: [[es] for _ in range(n)], n from the oracle *)
| REvolveKw (b d : string)                  (* fresh: attrs.evolve(b, **d) *)
| REvolve (b : string) (fs : list (nat * atom)). (* fresh: attrs.evolve(b, f=a, ...) *)

Inductive mop :=
| MSet (i : idx) (a : atom)                 (* t[i] = a *)
| MAppend (a : atom)
| MExtend (y : string)                      (* t += y, t.extend(y) *)
| MInsert (i : idx) (a : atom)
| MDelIdx (i : idx)                         (* del t[i], t.pop(i), t.remove(v) *)
| MDelSlice                                 (* del t[a:b] *)
| MSetSlice (y : string)                    (* t[a:b] = y *)
| MClear
| MReverse
| MSort.                                    (* shape only: elements are immediates *)

Inductive stmt :=
| SSkip
| SBind (x : string) (r : rhs)
| SMut (x : string) (op : mop)              (* in-place operation on the object named x *)
| SMut2 (x : string) (i : idx) (op : mop)   (* in-place operation on x[i] *)
| SSeq (a b : stmt)
| SIf (a b : stmt)                          (* branch from the oracle *)
| SLoop (bd : option (string * string)) (k : nat) (body : stmt)
                                            (* for v in c: body; k = iterations done; continue? from the oracle *)
| SCall (x : string) (body : stmt)          (* inlined call of a translated function; x := its return value *)
| STry (b hd el fin : stmt)                 (* try: b  except ...: hd  else: el  finally: fin.  An exception that is
                                               not an explicit raise is an oracle-chosen [SIf SRaise SSkip] placed by the
                                               translator in front of every statement of b; hd is the oracle-chosen chain
                                               of the handler bodies ending in SRaise (no handler matches) *)
| SRaise
| SReturn (a : atom)
| SBreak
| SContinue.

Record prog := { params : list string; body : stmt }.

Inductive outcome := ONorm | ORet (v : val) | ORaise | OBreak | OCont | OErr.

(* ---- helpers ---------------------------------------------------------- *)
Fixpoint lookup (e : env) (x : string) : option val :=
  match e with
  | [] => None
  | (y, v) :: t => if String.eqb x y then Some v else lookup t x
  end.

Definition next (o : oracle) : option (nat * oracle) :=
  match o with [] => None | n :: t => Some (n, t) end.

Fixpoint update {A} (l : list A) (n : nat) (a : A) : list A :=
  match l, n with
  | [], _ => []
  | _ :: t, O => a :: t
  | x :: t, S m => x :: update t m a
  end.

Definition alloc (h : heap) (o : obj) : val * heap := (VLoc (length h), h ++ [o]).

Definition eval_atom (e : env) (a : atom) : option val :=
  match a with AImm => Some VImm | AAbs => Some VAbsent | AVar x => lookup e x end.

Fixpoint eval_atoms (e : env) (l : list atom) : option (list val) :=
  match l with
  | [] => Some []
  | a :: t => match eval_atom e a, eval_atoms e t with
              | Some v, Some vs => Some (v :: vs)
              | _, _ => None
              end
  end.

Definition get_obj (e : env) (h : heap) (x : string) : option (nat * obj) :=
  match lookup e x with
  | Some (VLoc l) => match nth_error h l with Some o => Some (l, o) | None => None end
  | _ => None
  end.

(* an index position of a list of length len: constant, last, or supplied *)
Definition eval_idx (i : idx) (len : nat) (o : oracle) : option (nat * oracle) :=
  match i with
  | IConst n => Some (n, o)
  | ILast => match len with O => None | S m => Some (m, o) end
  | IOr => next o
  end.

Definition slice (a b : nat) (o : obj) : obj := firstn (b - a) (skipn a o).

Fixpoint repeat_obj (o : obj) (n : nat) : obj :=
  match n with O => [] | S m => o ++ repeat_obj o m end.

(* n fresh objects with content vs, appended to h; returns their locations *)
Fixpoint alloc_many (h : heap) (vs : obj) (n : nat) : list val * heap :=
  match n with
  | O => ([], h)
  | S m => let '(v, h1) := alloc h vs in
           let '(ls, h2) := alloc_many h1 vs m in (v :: ls, h2)
  end.

Definition pick (b d : val) : val := match d with VAbsent => b | _ => d end.
Fixpoint map2 {A} (f : A -> A -> A) (a b : list A) : list A :=
  match a, b with
  | x :: a', y :: b' => f x y :: map2 f a' b'
  | _, _ => []
  end.

Fixpoint set_fields (e : env) (o : obj) (fs : list (nat * atom)) : option obj :=
  match fs with
  | [] => Some o
  | (k, a) :: t => match eval_atom e a with
                   | Some v => if k <? length o then set_fields e (update o k v) t else None
                   | None => None
                   end
  end.

Definition eval_rhs (e : env) (h : heap) (o : oracle) (r : rhs) : option (val * heap * oracle) :=
  match r with
  | RAtom a => match eval_atom e a with Some v => Some (v, h, o) | None => None end
  | RIdx x i =>
      match get_obj e h x with
      | Some (_, ob) =>
          match eval_idx i (length ob) o with
          | Some (k, o') => match nth_error ob k with Some v => Some (v, h, o') | None => None end
          | None => None
          end
      | None => None
      end
  | RCopy x =>
      match get_obj e h x with
      | Some (_, ob) => let '(v, h') := alloc h ob in Some (v, h', o)
      | None => None
      end
  | RRevCopy x =>
      match get_obj e h x with
      | Some (_, ob) => let '(v, h') := alloc h (rev ob) in Some (v, h', o)
      | None => None
      end
  | RSlice x =>
      match get_obj e h x, o with
      | Some (_, ob), a :: b :: o' => let '(v, h') := alloc h (slice a b ob) in Some (v, h', o')
      | _, _ => None
      end
  | RConcat x y =>
      match get_obj e h x, get_obj e h y with
      | Some (_, ox), Some (_, oy) => let '(v, h') := alloc h (ox ++ oy) in Some (v, h', o)
      | _, _ => None
      end
  | RDisplay es =>
      match eval_atoms e es with
      | Some vs => let '(v, h') := alloc h vs in Some (v, h', o)
      | None => None
      end
  | RRepeat x =>
      match get_obj e h x, o with
      | Some (_, ob), n :: o' => let '(v, h') := alloc h (repeat_obj ob n) in Some (v, h', o')
      | _, _ => None
      end
  | RComp es =>
      match eval_atoms e es, o with
      | Some vs, n :: o' =>
          let '(ls, h1) := alloc_many h vs n in
          let '(v, h2) := alloc h1 ls in Some (v, h2, o')
      | _, _ => None
      end
  | REvolveKw b d =>
      match get_obj e h b, get_obj e h d with
      | Some (_, ob), Some (_, od) => let '(v, h') := alloc h (map2 pick ob od) in Some (v, h', o)
      | _, _ => None
      end
  | REvolve b fs =>
      match get_obj e h b with
      | Some (_, ob) =>
          match set_fields e ob fs with
          | Some ob' => let '(v, h') := alloc h ob' in Some (v, h', o)
          | None => None
          end
      | None => None
      end
  end.

Definition insert_at (k : nat) (v : val) (ob : obj) : obj := firstn k ob ++ v :: skipn k ob.
Definition delete_at (k : nat) (ob : obj) : obj := firstn k ob ++ skipn (S k) ob.

(* the new content of the target object *)
Definition apply_mop (e : env) (h : heap) (o : oracle) (ob : obj) (op : mop) : option (obj * oracle) :=
  match op with
  | MSet i a =>
      match eval_atom e a, eval_idx i (length ob) o with
      | Some v, Some (k, o') => if k <? length ob then Some (update ob k v, o') else None
      | _, _ => None
      end
  | MAppend a => match eval_atom e a with Some v => Some (ob ++ [v], o) | None => None end
  | MExtend y => match get_obj e h y with Some (_, oy) => Some (ob ++ oy, o) | None => None end
  | MInsert i a =>
      match eval_atom e a, eval_idx i (length ob) o with
      | Some v, Some (k, o') => Some (insert_at k v ob, o')
      | _, _ => None
      end
  | MDelIdx i =>
      match eval_idx i (length ob) o with
      | Some (k, o') => if k <? length ob then Some (delete_at k ob, o') else None
      | None => None
      end
  | MDelSlice =>
      match o with
      | a :: b :: o' => Some (firstn a ob ++ skipn (Nat.max a b) ob, o')
      | _ => None
      end
  | MSetSlice y =>
      match get_obj e h y, o with
      | Some (_, oy), a :: b :: o' => Some (firstn a ob ++ oy ++ skipn (Nat.max a b) ob, o')
      | _, _ => None
      end
  | MClear => Some ([], o)
  | MReverse => Some (rev ob, o)
  | MSort => Some (ob, o)
  end.

Definition st := (env * heap * oracle)%type.

Definition do_mut (e : env) (h : heap) (o : oracle) (l : nat) (op : mop) : st * outcome :=
  match nth_error h l with
  | Some ob =>
      match apply_mop e h o ob op with
      | Some (ob', o') => ((e, update h l ob', o'), ONorm)
      | None => ((e, h, o), OErr)
      end
  | None => ((e, h, o), OErr)
  end.

Fixpoint exec (fuel : nat) (s : stmt) (e : env) (h : heap) (o : oracle) : st * outcome :=
  match fuel with
  | O => ((e, h, o), OErr)
  | S f =>
    match s with
    | SSkip => ((e, h, o), ONorm)
    | SBind x r =>
        match eval_rhs e h o r with
        | Some (v, h', o') => (((x, v) :: e, h', o'), ONorm)
        | None => ((e, h, o), OErr)
        end
    | SMut x op =>
        match lookup e x with
        | Some (VLoc l) => do_mut e h o l op
        | _ => ((e, h, o), OErr)
        end
    | SMut2 x i op =>
        match get_obj e h x with
        | Some (_, ox) =>
            match eval_idx i (length ox) o with
            | Some (k, o') =>
                match nth_error ox k with
                | Some (VLoc l2) => do_mut e h o' l2 op
                | _ => ((e, h, o), OErr)
                end
            | None => ((e, h, o), OErr)
            end
        | None => ((e, h, o), OErr)
        end
    | SSeq a b =>
        match exec f a e h o with
        | ((e1, h1, o1), ONorm) => exec f b e1 h1 o1
        | r => r
        end
    | SIf a b =>
        match next o with
        | Some (O, o') => exec f b e h o'
        | Some (S _, o') => exec f a e h o'
        | None => ((e, h, o), OErr)
        end
    | SLoop bd k bdy =>
        match next o with
        | Some (O, o') => ((e, h, o'), ONorm)
        | Some (S _, o') =>
            let bound :=
              match bd with
              | None => Some e
              | Some (v, c) =>
                  match get_obj e h c with
                  | Some (_, oc) => match nth_error oc k with Some w => Some ((v, w) :: e) | None => None end
                  | None => None
                  end
              end in
            match bound with
            | None => ((e, h, o), OErr)
            | Some e0 =>
                match exec f bdy e0 h o' with
                | ((e1, h1, o1), ONorm) | ((e1, h1, o1), OCont) => exec f (SLoop bd (S k) bdy) e1 h1 o1
                | ((e1, h1, o1), OBreak) => ((e1, h1, o1), ONorm)
                | r => r
                end
            end
        | None => ((e, h, o), OErr)
        end
    | SCall x bdy =>
        match exec f bdy e h o with
        | ((e1, h1, o1), ORet v) => (((x, v) :: e1, h1, o1), ONorm)
        | ((e1, h1, o1), ONorm) => (((x, VImm) :: e1, h1, o1), ONorm)
        | ((e1, h1, o1), OBreak) | ((e1, h1, o1), OCont) => ((e1, h1, o1), OErr)
        | r => r
        end
    | STry b hd el fin =>
        match exec f b e h o with
        | ((e1, h1, o1), out1) =>
            let r2 := match out1 with
                      | ONorm => exec f el e1 h1 o1
                      | ORaise => exec f hd e1 h1 o1
                      | _ => ((e1, h1, o1), out1)
                      end in
            match r2 with
            | (s2, OErr) => (s2, OErr)
            | ((e2, h2, o2), out2) =>
                match exec f fin e2 h2 o2 with
                | (s3, ONorm) => (s3, out2)
                | r3 => r3
                end
            end
        end
    | SRaise => ((e, h, o), ORaise)
    | SReturn a =>
        match eval_atom e a with
        | Some v => ((e, h, o), ORet v)
        | None => ((e, h, o), OErr)
        end
    | SBreak => ((e, h, o), OBreak)
    | SContinue => ((e, h, o), OCont)
    end
  end.

(* one activation: parameters bound to the arguments, result heap and outcome *)
Definition run (fuel : nat) (P : prog) (h : heap) (args : list val) (o : oracle) : heap * outcome :=
  match exec fuel (body P) (combine (params P) args) h o with
  | ((_, h', _), ONorm) => (h', ORet VImm)
  | ((_, h', _), OBreak) | ((_, h', _), OCont) => (h', OErr)
  | ((_, h', _), out) => (h', out)
  end.

(* ---- the freshness discipline (boolean checker) ----------------------- *)
Definition is_alloc (r : rhs) : bool :=
  match r with RAtom _ | RIdx _ _ => false | _ => true end.

(* every binding site of the program: Some r for SBind, None for loop variables and call results *)
Fixpoint binds (s : stmt) : list (string * option rhs) :=
  match s with
  | SBind x r => [(x, Some r)]
  | SSeq a b | SIf a b => binds a ++ binds b
  | SLoop bd _ b => match bd with Some (v, _) => (v, None) :: binds b | None => binds b end
  | SCall x b => (x, None) :: binds b
  | STry b hd el fin => binds b ++ binds hd ++ binds el ++ binds fin
  | _ => []
  end.

Inductive mut := Mut1 (x : string) (op : mop) | Mut2 (x : string) (op : mop).
Fixpoint muts (s : stmt) : list mut :=
  match s with
  | SMut x op => [Mut1 x op]
  | SMut2 x _ op => [Mut2 x op]
  | SSeq a b | SIf a b => muts a ++ muts b
  | SLoop _ _ b | SCall _ b => muts b
  | STry b hd el fin => muts b ++ muts hd ++ muts el ++ muts fin
  | _ => []
  end.

Definition mem (x : string) (l : list string) : bool := existsb (String.eqb x) l.

(* ALL bindings of x in the function are allocations of this activation *)
Definition fresh_name (P : prog) (x : string) : bool :=
  negb (mem x (params P)) &&
  forallb (fun b => if String.eqb (fst b) x
                    then match snd b with Some r => is_alloc r | None => false end
                    else true) (binds (body P)).

Definition atom_fresh (P : prog) (a : atom) : bool :=
  match a with AImm | AAbs => true | AVar y => fresh_name P y end.

(* x names only displays, allocated by this activation, of objects allocated by
   this activation, and is never itself the target of a first-level mutation *)
Definition deep_name (P : prog) (x : string) : bool :=
  fresh_name P x &&
  forallb (fun b => if String.eqb (fst b) x
                    then match snd b with Some (RDisplay es) => forallb (atom_fresh P) es | _ => false end
                    else true) (binds (body P)) &&
  forallb (fun m => match m with Mut1 y _ => negb (String.eqb y x) | Mut2 _ _ => true end) (muts (body P)).

(* the operation stores nothing but immediates *)
Definition op_imm (op : mop) : bool :=
  match op with
  | MSet _ AImm | MAppend AImm | MInsert _ AImm => true
  | MDelIdx _ | MDelSlice | MClear | MReverse | MSort => true
  | _ => false
  end.

Definition mut_ok (P : prog) (m : mut) : bool :=
  match m with
  | Mut1 x _ => fresh_name P x
  | Mut2 x op => deep_name P x && op_imm op
  end.

Definition fresh_only (P : prog) : bool := forallb (mut_ok P) (muts (body P)).

(* ---- observation helpers used by the correspondence -------------------- *)
Inductive tree := TImm | TAbsent | TCut | TNode (l : nat) (ts : list tree).
(* the structure reachable from v, with object identities, to depth d *)
Fixpoint snap (d : nat) (h : heap) (v : val) : tree :=
  match v with
  | VImm => TImm
  | VAbsent => TAbsent
  | VLoc l =>
      match d with
      | O => TCut
      | S d' => match nth_error h l with
                | Some o => TNode l (map (snap d' h) o)
                | None => TCut
                end
      end
  end.

Definition val_eqb (a b : val) : bool :=
  match a, b with
  | VImm, VImm | VAbsent, VAbsent => true
  | VLoc x, VLoc y => Nat.eqb x y
  | _, _ => false
  end.
Fixpoint list_eqb {A} (eqb : A -> A -> bool) (a b : list A) : bool :=
  match a, b with
  | [], [] => true
  | x :: a', y :: b' => eqb x y && list_eqb eqb a' b'
  | _, _ => false
  end.
Definition obj_eqb := list_eqb val_eqb.
Definition heap_eqb := list_eqb obj_eqb.
