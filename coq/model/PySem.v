(* PySem - the PYTHON semantics of the constructs that python/tak/game.py,
   moves.py and pieces.py use, as a small library against which the file
   gen/GameGen.v (regenerated from the source on every run by
   harness/py2coq.py) is written.  No proofs in this file.

   This file is TRUSTED: it says what CPython does for list indexing with
   negative indices, slices with clamping, item assignment, tuple indexing,
   `attrs.evolve`, `getattr` with a computed name, iteration of `None`, and how
   exceptions propagate.  harness/props/t01.py validates each operation against
   CPython on random inputs (evaluated inside Coq) on every run.

   Nothing here assumes the bounds the hand-written model (model/Tak.v)
   assumes: an index that is out of range is an `IndexError` outcome, a
   negative index wraps, a slice bound is clamped the way Python clamps it. *)
From Coq Require Import ZArith String List Bool.
From TV Require Import model.Tak model.Road.
Import ListNotations.
Open Scope Z_scope.

(* ---------- outcomes: value | IllegalMove | any other exception ---------- *)
Inductive exn :=
  IndexError | TypeError | ValueError | KeyError | AssertionError | AttributeError | ZeroDivisionError.
Inductive res (A : Type) : Type :=
| Ok (v : A)          (* the statement / expression completed with value v *)
| Illegal             (* raise IllegalMove(...) *)
| Crash (e : exn).    (* any other exception *)
Arguments Ok {A} v.
Arguments Illegal {A}.
Arguments Crash {A} e.

Definition ret {A} (v : A) : res A := Ok v.
Definition bind {A B} (c : res A) (k : A -> res B) : res B :=
  match c with Ok v => k v | Illegal => Illegal | Crash e => Crash e end.
Notation "x <- c ;; k" := (bind c (fun x => k))
  (at level 61, c at next level, right associativity).
Notation "' pat <- c ;; k" := (bind c (fun x => match x with pat => k end))
  (at level 61, pat pattern, c at next level, right associativity).

(* the hand model's option (None = IllegalMove) inside the outcome type *)
Definition embed {A} (o : option A) : res A :=
  match o with Some v => Ok v | None => Illegal end.
Definition res_map {A B} (f : A -> B) (c : res A) : res B :=
  match c with Ok v => Ok (f v) | Illegal => Illegal | Crash e => Crash e end.

(* ---------- lists ---------- *)
Definition len {A} (l : list A) : Z := zlen l.

(* the position an index denotes in a sequence of length n: i or n + i *)
Definition py_index (n i : Z) : option Z :=
  if (0 <=? i) && (i <? n) then Some i
  else if (i <? 0) && (0 <=? n + i) then Some (n + i)
  else None.

(* l[i] *)
Definition py_getitem {A} (l : list A) (i : Z) : res A :=
  match py_index (zlen l) i with
  | Some k => match nth_error l (Z.to_nat k) with Some v => Ok v | None => Crash IndexError end
  | None => Crash IndexError
  end.

(* l[i] = v  (on a list the function owns; the new list is the result) *)
Definition py_setitem {A} (l : list A) (i : Z) (v : A) : res (list A) :=
  match py_index (zlen l) i with
  | Some k => Ok (upd l (Z.to_nat k) v)
  | None => Crash IndexError
  end.

(* a slice bound: absent -> the default; negative -> n + b, not below 0;
   otherwise not above n *)
Definition py_bound (n : Z) (b : option Z) (dflt : Z) : Z :=
  match b with
  | None => dflt
  | Some i => if i <? 0 then Z.max 0 (n + i) else Z.min i n
  end.

(* l[a:b] with step 1; never raises *)
Definition py_slice {A} (l : list A) (a b : option Z) : list A :=
  let n := zlen l in
  let s := py_bound n a 0 in
  let e := py_bound n b n in
  firstn (Z.to_nat (e - s)) (skipn (Z.to_nat s) l).

(* bool(l) for a list *)
Definition truthy_list {A} (l : list A) : bool :=
  match l with [] => false | _ :: _ => true end.

(* range(n), range(a, b) *)
Definition py_range (n : Z) : list Z := map Z.of_nat (seq 0 (Z.to_nat n)).
Definition py_range2 (a b : Z) : list Z := map (fun i => a + Z.of_nat i) (seq 0 (Z.to_nat (b - a))).

(* sum(l) for a sequence of ints *)
Definition py_sum (l : list Z) : Z := zsum l.

(* iterating / summing a value that may be None: TypeError *)
Definition py_iter_opt {A} (o : option (list A)) : res (list A) :=
  match o with Some l => Ok l | None => Crash TypeError end.

(* ---------- tuples of two ---------- *)
Definition py_tuple2_get {A} (t : A * A) (i : Z) : res A :=
  match py_index 2 i with
  | Some 0 => Ok (fst t)
  | Some _ => Ok (snd t)
  | None => Crash IndexError
  end.
Definition py_tuple2_list {A} (t : A * A) : list A := [fst t; snd t].

(* ---------- dict literal with enum keys: d[k] ---------- *)
Fixpoint py_dict_get {K V} (eqb : K -> K -> bool) (d : list (K * V)) (k : K) : res V :=
  match d with
  | [] => Crash KeyError
  | (k', v) :: d' => if eqb k' k then Ok v else py_dict_get eqb d' k
  end.

(* ---------- game.StoneCounts, Position.stones, attrs.evolve ---------- *)
Record stonecounts := mkSC { sc_stones : Z; sc_caps : Z }.

(* Position.stones as the tuple (white counts, black counts) over model/Tak.v's flat record *)
Definition pos_stones (p : position) : stonecounts * stonecounts :=
  (mkSC (wstones p) (wcaps p), mkSC (bstones p) (bcaps p)).

(* getattr(cs, name) *)
Definition py_getattr_sc (cs : stonecounts) (name : string) : res Z :=
  if String.eqb name "stones" then Ok (sc_stones cs)
  else if String.eqb name "caps" then Ok (sc_caps cs)
  else Crash AttributeError.

(* attrs.evolve(cs, **{name: v}) *)
Definition sc_evolve (cs : stonecounts) (name : string) (v : Z) : res stonecounts :=
  if String.eqb name "stones" then Ok (mkSC v (sc_caps cs))
  else if String.eqb name "caps" then Ok (mkSC (sc_stones cs) v)
  else Crash TypeError.

(* the dict `delta` of Position.move: keyword arguments for attrs.evolve(self, **delta);
   only the keys "ply", "stones", "board" occur (the translator refuses any other) *)
Record delta := mkDelta {
  d_ply : option Z;
  d_stones : option (stonecounts * stonecounts);
  d_board : option (list stack)
}.
Definition delta_empty : delta := mkDelta None None None.
Definition set_d_ply (d : delta) (v : Z) : delta := mkDelta (Some v) (d_stones d) (d_board d).
Definition set_d_stones (d : delta) (v : stonecounts * stonecounts) : delta :=
  mkDelta (d_ply d) (Some v) (d_board d).
Definition set_d_board (d : delta) (v : list stack) : delta := mkDelta (d_ply d) (d_stones d) (Some v).

(* attrs.evolve(self, **delta): a new Position, the named fields replaced *)
Definition evolve_position (p : position) (d : delta) : position :=
  let st := match d_stones d with Some v => v | None => pos_stones p end in
  mkPos (size p)
        (sc_stones (fst st)) (sc_caps (fst st)) (sc_stones (snd st)) (sc_caps (snd st))
        (match d_ply d with Some v => v | None => ply p end)
        (match d_board d with Some v => v | None => board p end).

(* ---------- game.WinReason is model/Road.v's `reason` ---------- *)
Definition reason_eqb (a b : reason) : bool :=
  match a, b with Road, Road | Flats, Flats => true | _, _ => false end.
