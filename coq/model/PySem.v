(* PySem - the PYTHON semantics of the constructs that python/tak/game.py,
   moves.py and pieces.py use, as a small library against which the file
   gen/GameGen.v (regenerated from the source on every run by
   harness/py2coq.py) is written.  No proofs in this file.

   This file is TRUSTED: it says what CPython does for list indexing with
   negative indices, slices with clamping, item assignment, tuple indexing,
   `attrs.evolve`, `getattr` with a computed name, iteration of `None`, and how
   exceptions propagate.  harness/props/t01.py validates each operation against
   CPython on random inputs (evaluated inside Coq) on every run.

   Nothing here assumes the bounds the hand-written model (model/Tak.v)
   assumes: an index that is out of range is an `IndexError` outcome, a
   negative index wraps, a slice bound is clamped the way Python clamps it. *)
From Coq Require Import ZArith String List Bool.
From TV Require Import model.Tak model.Road.
Import ListNotations.
Open Scope Z_scope.

(* ---------- outcomes: value | IllegalMove | any other exception ---------- *)
Inductive exn :=
  IndexError | TypeError | ValueError | KeyError | AssertionError | AttributeError | ZeroDivisionError
| Unmodelled      (* an input on which PySem takes no position (see py_int_str) *)
| OutOfFuel       (* a `while` loop ran longer than the fuel the translator was told to give it *)
| OracleExhausted. (* an oracle (the engine of play_one_game) was asked for more answers than its stream holds *)
Inductive res (A : Type) : Type :=
| Ok (v : A)          (* the statement / expression completed with value v *)
| Illegal             (* raise IllegalMove(...) in game.py / raise IllegalTPS(...) in tps.py: the module's own refusal *)
| Crash (e : exn).    (* any other exception *)
Arguments Ok {A} v.
Arguments Illegal {A}.
Arguments Crash {A} e.

Definition ret {A} (v : A) : res A := Ok v.
Definition bind {A B} (c : res A) (k : A -> res B) : res B :=
  match c with Ok v => k v | Illegal => Illegal | Crash e => Crash e end.
Notation "x <- c ;; k" := (bind c (fun x => k))
  (at level 61, c at next level, right associativity).
Notation "' pat <- c ;; k" := (bind c (fun x => match x with pat => k end))
  (at level 61, pat pattern, c at next level, right associativity).

(* the hand model's option (None = IllegalMove) inside the outcome type *)
Definition embed {A} (o : option A) : res A :=
  match o with Some v => Ok v | None => Illegal end.
Definition res_map {A B} (f : A -> B) (c : res A) : res B :=
  match c with Ok v => Ok (f v) | Illegal => Illegal | Crash e => Crash e end.

(* ---------- lists ---------- *)
Definition len {A} (l : list A) : Z := zlen l.

(* the position an index denotes in a sequence of length n: i or n + i *)
Definition py_index (n i : Z) : option Z :=
  if (0 <=? i) && (i <? n) then Some i
  else if (i <? 0) && (0 <=? n + i) then Some (n + i)
  else None.

(* l[i] *)
Definition py_getitem {A} (l : list A) (i : Z) : res A :=
  match py_index (zlen l) i with
  | Some k => match nth_error l (Z.to_nat k) with Some v => Ok v | None => Crash IndexError end
  | None => Crash IndexError
  end.

(* l[i] = v  (on a list the function owns; the new list is the result) *)
Definition py_setitem {A} (l : list A) (i : Z) (v : A) : res (list A) :=
  match py_index (zlen l) i with
  | Some k => Ok (upd l (Z.to_nat k) v)
  | None => Crash IndexError
  end.

(* a slice bound: absent -> the default; negative -> n + b, not below 0;
   otherwise not above n *)
Definition py_bound (n : Z) (b : option Z) (dflt : Z) : Z :=
  match b with
  | None => dflt
  | Some i => if i <? 0 then Z.max 0 (n + i) else Z.min i n
  end.

(* l[a:b] with step 1; never raises *)
Definition py_slice {A} (l : list A) (a b : option Z) : list A :=
  let n := zlen l in
  let s := py_bound n a 0 in
  let e := py_bound n b n in
  firstn (Z.to_nat (e - s)) (skipn (Z.to_nat s) l).

(* l.pop(): the LAST element and the list without it; IndexError on an empty list *)
Fixpoint py_pop_last {A} (l : list A) : option (A * list A) :=
  match l with
  | [] => None
  | a :: t => match py_pop_last t with
              | None => Some (a, [])
              | Some (x, r) => Some (x, a :: r)
              end
  end.
Definition py_pop {A} (l : list A) : res (A * list A) :=
  match py_pop_last l with Some xr => Ok xr | None => Crash IndexError end.

(* bool(l) for a list *)
Definition truthy_list {A} (l : list A) : bool :=
  match l with [] => false | _ :: _ => true end.

(* range(n), range(a, b) *)
Definition py_range (n : Z) : list Z := map Z.of_nat (seq 0 (Z.to_nat n)).
Definition py_range2 (a b : Z) : list Z := map (fun i => a + Z.of_nat i) (seq 0 (Z.to_nat (b - a))).

(* sum(l) for a sequence of ints *)
Definition py_sum (l : list Z) : Z := zsum l.

(* iterating / summing a value that may be None: TypeError *)
Definition py_iter_opt {A} (o : option (list A)) : res (list A) :=
  match o with Some l => Ok l | None => Crash TypeError end.

(* ---------- tuples of two ---------- *)
Definition py_tuple2_get {A} (t : A * A) (i : Z) : res A :=
  match py_index 2 i with
  | Some 0 => Ok (fst t)
  | Some _ => Ok (snd t)
  | None => Crash IndexError
  end.
Definition py_tuple2_list {A} (t : A * A) : list A := [fst t; snd t].

(* head, *rest = l : ValueError ("not enough values to unpack") on an empty list *)
Definition py_uncons {A} (l : list A) : res (A * list A) :=
  match l with [] => Crash ValueError | h :: t => Ok (h, t) end.

(* == on tuples of two *)
Definition pair_eqb {A B} (ea : A -> A -> bool) (eb : B -> B -> bool) (a b : A * B) : bool :=
  ea (fst a) (fst b) && eb (snd a) (snd b).

(* ---------- dict literal with enum keys: d[k] ---------- *)
Fixpoint py_dict_get {K V} (eqb : K -> K -> bool) (d : list (K * V)) (k : K) : res V :=
  match d with
  | [] => Crash KeyError
  | (k', v) :: d' => if eqb k' k then Ok v else py_dict_get eqb d' k
  end.

(* ---------- game.StoneCounts, Position.stones, attrs.evolve ---------- *)
Record stonecounts := mkSC { sc_stones : Z; sc_caps : Z }.

(* Position.stones as the tuple (white counts, black counts) over model/Tak.v's flat record *)
Definition pos_stones (p : position) : stonecounts * stonecounts :=
  (mkSC (wstones p) (wcaps p), mkSC (bstones p) (bcaps p)).

(* getattr(cs, name) *)
Definition py_getattr_sc (cs : stonecounts) (name : string) : res Z :=
  if String.eqb name "stones" then Ok (sc_stones cs)
  else if String.eqb name "caps" then Ok (sc_caps cs)
  else Crash AttributeError.

(* attrs.evolve(cs, **{name: v}) *)
Definition sc_evolve (cs : stonecounts) (name : string) (v : Z) : res stonecounts :=
  if String.eqb name "stones" then Ok (mkSC v (sc_caps cs))
  else if String.eqb name "caps" then Ok (mkSC (sc_stones cs) v)
  else Crash TypeError.

(* the dict `delta` of Position.move: keyword arguments for attrs.evolve(self, **delta);
   only the keys "ply", "stones", "board" occur (the translator refuses any other) *)
Record delta := mkDelta {
  d_ply : option Z;
  d_stones : option (stonecounts * stonecounts);
  d_board : option (list stack)
}.
Definition delta_empty : delta := mkDelta None None None.
Definition set_d_ply (d : delta) (v : Z) : delta := mkDelta (Some v) (d_stones d) (d_board d).
Definition set_d_stones (d : delta) (v : stonecounts * stonecounts) : delta :=
  mkDelta (d_ply d) (Some v) (d_board d).
Definition set_d_board (d : delta) (v : list stack) : delta := mkDelta (d_ply d) (d_stones d) (Some v).

(* attrs.evolve(self, **delta): a new Position, the named fields replaced *)
Definition evolve_position (p : position) (d : delta) : position :=
  let st := match d_stones d with Some v => v | None => pos_stones p end in
  mkPos (size p)
        (sc_stones (fst st)) (sc_caps (fst st)) (sc_stones (snd st)) (sc_caps (snd st))
        (match d_ply d with Some v => v | None => ply p end)
        (match d_board d with Some v => v | None => board p end).

(* ---------- game.WinReason is model/Road.v's `reason` ---------- *)
Definition reason_eqb (a b : reason) : bool :=
  match a, b with Road, Road | Flats, Flats => true | _, _ => false end.

(* ====================== strings ======================
   A Python str is the list of its Unicode code points (Z), a character a code point.  len, s[i], s[a:b], +, for,
   bool(s) are the list operations above. *)
Definition pystr (s : string) : list Z := map (fun a => Z.of_nat (Ascii.nat_of_ascii a)) (list_ascii_of_string s).
(* the code point of a one-character literal *)
Definition ch (s : string) : Z := match pystr s with c :: _ => c | [] => 0 end.
Arguments pystr s%string_scope.
Arguments ch s%string_scope.
Definition pystr_eqb (a b : list Z) : bool := list_eqb Z.eqb a b.

(* s.split(sep) for a ONE-character separator: k occurrences give k+1 pieces, "".split(sep) = [""] *)
Fixpoint py_split1 (sep : Z) (s : list Z) : list (list Z) :=
  match s with
  | [] => [[]]
  | c :: t =>
    if c =? sep then [] :: py_split1 sep t
    else match py_split1 sep t with
         | h :: r => (c :: h) :: r
         | [] => [[c]]
         end
  end.

(* sep.join(l) *)
Fixpoint py_join (sep : list Z) (l : list (list Z)) : list Z :=
  match l with
  | [] => []
  | a :: t => match t with [] => a | _ :: _ => a ++ sep ++ py_join sep t end
  end.

(* s.isascii(): every code point below 128 (true for "") *)
Definition py_isascii (s : list Z) : bool := forallb (fun c => c <? 128) s.

(* the code points c with chr(c).isdigit() (Unicode 15.0.0 as shipped with CPython 3.12), as inclusive ranges;
   harness/props/t13.py recomputes the table from the running interpreter and compares it on every run *)
Definition py_digit_ranges : list (Z * Z) :=
  [(48, 57); (178, 179); (185, 185); (1632, 1641); (1776, 1785); (1984, 1993); (2406, 2415); (2534, 2543);
   (2662, 2671); (2790, 2799); (2918, 2927); (3046, 3055); (3174, 3183); (3302, 3311); (3430, 3439); (3558, 3567);
   (3664, 3673); (3792, 3801); (3872, 3881); (4160, 4169); (4240, 4249); (4969, 4977); (6112, 6121); (6160, 6169);
   (6470, 6479); (6608, 6618); (6784, 6793); (6800, 6809); (6992, 7001); (7088, 7097); (7232, 7241); (7248, 7257);
   (8304, 8304); (8308, 8313); (8320, 8329); (9312, 9320); (9332, 9340); (9352, 9360); (9450, 9450); (9461, 9469);
   (9471, 9471); (10102, 10110); (10112, 10120); (10122, 10130); (42528, 42537); (43216, 43225); (43264, 43273); (43472, 43481);
   (43504, 43513); (43600, 43609); (44016, 44025); (65296, 65305); (66720, 66729); (68160, 68163); (68912, 68921); (69216, 69224);
   (69714, 69722); (69734, 69743); (69872, 69881); (69942, 69951); (70096, 70105); (70384, 70393); (70736, 70745); (70864, 70873);
   (71248, 71257); (71360, 71369); (71472, 71481); (71904, 71913); (72016, 72025); (72784, 72793); (73040, 73049); (73120, 73129);
   (73552, 73561); (92768, 92777); (92864, 92873); (93008, 93017); (120782, 120831); (123200, 123209); (123632, 123641); (124144, 124153);
   (125264, 125273); (127232, 127242); (130032, 130041)].
Definition py_isdigit_char (c : Z) : bool := existsb (fun r => (fst r <=? c) && (c <=? snd r)) py_digit_ranges.
(* s.isdigit(): non-empty and every character a digit character *)
Definition py_isdigit (s : list Z) : bool := truthy_list s && forallb py_isdigit_char s.

(* sys.int_max_str_digits of the interpreter the code runs under (compared by t13 on every run) *)
Definition py_int_max_str_digits : Z := 4300.

(* int(s).  Modelled for strings of ASCII digits: the value, or ValueError when the string has more than
   int_max_str_digits characters.  For every other string (signs, blanks, underscores, non-ASCII digits, junk)
   PySem takes NO position: the outcome is `Crash Unmodelled`, which no equivalence theorem can absorb - the code has
   to guard the call (as parse_tps does with isascii() / isdigit()) for the proofs to go through. *)
Definition py_int_str (s : list Z) : res Z :=
  if truthy_list s && forallb (fun c => (48 <=? c) && (c <=? 57)) s then
    if py_int_max_str_digits <? zlen s then Crash ValueError
    else Ok (fold_left (fun a c => 10 * a + (c - 48)) s 0)
  else Crash Unmodelled.

(* the decimal digits of n >= 0, most significant first (fuel log2 n + 1 is enough) *)
Fixpoint py_digits_fuel (fuel : nat) (n : Z) (acc : list Z) : list Z :=
  match fuel with
  | O => acc
  | S f =>
    let acc' := (48 + n mod 10) :: acc in
    if n <? 10 then acc' else py_digits_fuel f (n / 10) acc'
  end.
Definition py_digits (n : Z) : list Z := py_digits_fuel (S (Z.to_nat (Z.log2 n))) n [].
(* str(n) / "{0}".format(n): ValueError when n has more than int_max_str_digits digits *)
Definition py_str_int (n : Z) : res (list Z) :=
  let d := py_digits (Z.abs n) in
  if py_int_max_str_digits <? zlen d then Crash ValueError
  else Ok (if n <? 0 then 45 :: d else d).

(* chr(i): the one-character string with that code point; ValueError outside range(0x110000) *)
Definition py_chr (i : Z) : res Z :=
  if (0 <=? i) && (i <? 1114112) then Ok i else Crash ValueError.

(* a list that holds strings and ints (the `bits` of ptn.format_move); str(v) of an element *)
Inductive pyval := VStr (s : list Z) | VInt (n : Z).
Definition py_str_val (v : pyval) : res (list Z) :=
  match v with VStr s => Ok s | VInt n => py_str_int n end.

(* d.get(k, default) on a dict literal *)
Fixpoint py_dict_get_default {K V} (eqb : K -> K -> bool) (d : list (K * V)) (k : K) (dflt : V) : V :=
  match d with
  | [] => dflt
  | (k', v) :: d' => if eqb k' k then v else py_dict_get_default eqb d' k dflt
  end.

(* l * n for a list *)
Definition py_list_repeat {A} (l : list A) (n : Z) : list A := concat (repeat l (Z.to_nat n)).

(* a, b, c = l : ValueError unless l has exactly three elements *)
Definition py_unpack3 {A} (l : list A) : res (A * A * A) :=
  match l with [a; b; c] => Ok (a, b, c) | _ => Crash ValueError end.
Definition py_unpack2 {A} (l : list A) : res (A * A) :=
  match l with [a; b] => Ok (a, b) | _ => Crash ValueError end.

(* try: c  except E: h   (only the named exception class is caught) *)
Definition exn_eqb (a b : exn) : bool :=
  match a, b with
  | IndexError, IndexError | TypeError, TypeError | ValueError, ValueError | KeyError, KeyError
  | AssertionError, AssertionError | AttributeError, AttributeError | ZeroDivisionError, ZeroDivisionError
  | Unmodelled, Unmodelled | OutOfFuel, OutOfFuel | OracleExhausted, OracleExhausted => true
  | _, _ => false
  end.
Definition py_try {A} (c : res A) (e : exn) (h : res A) : res A :=
  match c with
  | Crash e' => if exn_eqb e e' then h else c
  | _ => c
  end.

(* the referenced list t[i] of a pair of lists replaced by its updated value (t[i][j] = v, t[i][j] += v) *)
Definition py_tuple2_update {A} (t : A * A) (i : Z) (v : A) : res (A * A) :=
  match py_index 2 i with
  | Some 0 => Ok (v, snd t)
  | Some _ => Ok (fst t, v)
  | None => Crash IndexError
  end.

(* x.append(v) where x is a list or None: AttributeError on None *)
Definition py_opt_append {A} (o : option (list A)) (v : A) : res (option (list A)) :=
  match o with Some l => Ok (Some (l ++ [v])) | None => Crash AttributeError end.

(* int(n ** (1 / 2)): the binary64 square root truncated.  Modelled as the integer square root for 0 <= n < 2^52
   (there the float result is exact for perfect squares and never reaches the next integer otherwise); no position
   outside *)
Definition py_int_sqrt_float (n : Z) : res Z :=
  if (0 <=? n) && (n <? 2 ^ 52) then Ok (Z.sqrt n) else Crash Unmodelled.

(* tuple(l) where a pair is expected (Position.stones): modelled for two elements only *)
Definition py_tuple2_of_list {A} (l : list A) : res (A * A) :=
  match l with [a; b] => Ok (a, b) | _ => Crash Unmodelled end.

(* [f(x) for x in l] where f can raise: left to right, the first exception wins *)
Fixpoint py_mapM {A B} (f : A -> res B) (l : list A) : res (list B) :=
  match l with
  | [] => Ok []
  | x :: t => y <- f x ;; r <- py_mapM f t ;; ret (y :: r)
  end.

(* list(enumerate(l)) *)
Fixpoint py_enumerate_from {A} (i : Z) (l : list A) : list (Z * A) :=
  match l with [] => [] | x :: t => (i, x) :: py_enumerate_from (i + 1) t end.
Definition py_enumerate {A} (l : list A) : list (Z * A) := py_enumerate_from 0 l.

(* d[k] for a dict built by a comprehension {k: v for ...}: the entries in insertion order; a later entry with an
   equal key has replaced the earlier one, so the LAST match counts; KeyError when there is none *)
Fixpoint py_dict_get_last {K V} (eqb : K -> K -> bool) (d : list (K * V)) (k : K) : res V :=
  match d with
  | [] => Crash KeyError
  | (k', v) :: d' =>
    match py_dict_get_last eqb d' k with
    | Ok w => Ok w
    | _ => if eqb k' k then Ok v else Crash KeyError
    end
  end.

(* ---------- game.Config / Position(...) ---------- *)
(* cls(size=, ply=, stones=, board=) over model/Tak.v's flat record *)
Definition mk_position (sz : Z) (st : stonecounts * stonecounts) (pl : Z) (b : list stack) : position :=
  mkPos sz (sc_stones (fst st)) (sc_caps (fst st)) (sc_stones (snd st)) (sc_caps (snd st)) pl b.
