(* Executable model of python/tak/symmetry/symmetry.py (as it is now, i.e.
   with `attrs.evolve(pos, board=sqs)`: size, reserves and ply are copied).
   No proofs in this file.

   The eight matrices are NOT written here: `syms` is the list regenerated
   from `tak.symmetry.SYMMETRIES` into gen/Consts.v on every run, so every
   theorem about "the eight symmetries" is re-proved against the current
   values.  A matrix is a list of rows; it acts on the column vector
   (x, y, size-1) (`np.matmul(sym, [x, y, size - 1])`).

   Outside the modelled domain (stated as guards by the theorems in
   proofs/SymmetryProofs.v, never silently assumed):
   * `sqs[oi + oj*size] = ...` is modelled by `updz`, which is Python's list
     store only for 0 <= index < len(sqs); Python would wrap a negative index
     and raise IndexError on a large one.  `index_guard` proves that for the
     eight matrices and on-board (i, j) the index is in [0, size*size).
   * `.astype(int)` is applied to a float matrix product; its entries are
     integers of magnitude < 2*size, so the truncation is the identity.
   * `MoveType.from_direction` is a dict lookup: `None` below is the KeyError.
     `transform_move_total` proves it cannot occur for the eight matrices.
   * numpy's int64 overflow for coordinates beyond 2^63 is not modelled. *)
From Coq Require Import ZArith List Bool.
From TV Require gen.Consts.
From TV Require Import model.Tak.
Import ListNotations.
Open Scope Z_scope.

Definition mat := list (list Z).
Definition syms : list mat := Consts.symmetries.

Definition dot (r v : list Z) : Z := zsum (map (fun ab => fst ab * snd ab) (combine r v)).
Definition mat_vec (g : mat) (v : list Z) : list Z := map (fun r => dot r v) g.
Definition mat_col (h : mat) (j : nat) : list Z := map (fun r => nth j r 0) h.
(* np.matmul of two 3x3 matrices *)
Definition mat_mul (g h : mat) : mat :=
  map (fun r => map (fun j => dot r (mat_col h j)) (seq 0 3)) g.
Definition mat_id : mat := [[1; 0; 0]; [0; 1; 0]; [0; 0; 1]].

(* ox, oy, _ = np.matmul(sym, [x, y, size - 1]) *)
Definition apply_sym (g : mat) (n : Z) (v : Z * Z) : Z * Z :=
  match mat_vec g [fst v; snd v; n - 1] with
  | ox :: oy :: _ => (ox, oy)
  | _ => (0, 0)
  end.
(* dx, dy, _ = np.matmul(sym, direction + (0,)) : the linear part only *)
Definition apply_lin (g : mat) (d : Z * Z) : Z * Z :=
  match mat_vec g [fst d; snd d; 0] with
  | dx :: dy :: _ => (dx, dy)
  | _ => (0, 0)
  end.

(* the double loop of transform_position: sqs starts as a copy of the board;
   for i, for j: sqs[oi + oj*size] = pos[i, j]   (pos[i, j] = board[j*size + i]) *)
Definition tpb (g : mat) (n : Z) (b : list stack) : list stack :=
  fold_left (fun sqs i =>
    fold_left (fun sqs j =>
      let '(oi, oj) := apply_sym g n (i, j) in
      updz sqs (oi + oj * n) (getz [] b (j * n + i)))
      (zrange n) sqs)
    (zrange n) b.

(* attrs.evolve(pos, board=sqs) *)
Definition transform_position (g : mat) (p : position) : position :=
  mkPos (size p) (wstones p) (wcaps p) (bstones p) (bcaps p) (ply p)
        (tpb g (size p) (board p)).

(* RDIRECTIONS[(dx, dy)]; None = KeyError *)
Definition from_direction (dx dy : Z) : option mtype :=
  find (fun t => (fst (direction t) =? dx) && (snd (direction t) =? dy))
       [SlideLeft; SlideRight; SlideUp; SlideDown].

(* transform_move(sym, move, size); None = KeyError in from_direction *)
Definition transform_move_opt (g : mat) (m : mv) (n : Z) : option mv :=
  let o := apply_sym g n (mx m, my m) in
  if is_slide (mt m) then
    let d := apply_lin g (direction (mt m)) in
    match from_direction (fst d) (snd d) with
    | Some t => Some (mkMove (fst o) (snd o) t (mslides m))
    | None => None
    end
  else Some (mkMove (fst o) (snd o) (mt m) (mslides m)).
(* total version used in statements; equal to the above for the eight
   matrices (proofs/SymmetryProofs.v, transform_move_total) *)
Definition transform_move (g : mat) (m : mv) (n : Z) : mv :=
  match transform_move_opt g m n with Some m' => m' | None => m end.

(* symmetries(pos): first occurrence of each distinct variant, with its matrix *)
Definition symmetries_of (gs : list mat) (p : position) : list (mat * position) :=
  fold_left (fun out g =>
               let t := transform_position g p in
               if forallb (fun gq => negb (position_eqb t (snd gq))) out
               then out ++ [(g, t)] else out)
            gs [].
Definition symmetries (p : position) : list (mat * position) := symmetries_of syms p.

(* comparison helpers for the correspondence *)
Definition mat_eqb : mat -> mat -> bool := list_eqb (list_eqb Z.eqb).
Definition variants_eqb (a b : list (mat * position)) : bool :=
  list_eqb (fun x y => mat_eqb (fst x) (fst y) && position_eqb (snd x) (snd y)) a b.
