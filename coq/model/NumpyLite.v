(* NumpyLite - the NUMPY semantics of the handful of array operations that
   python/tak/symmetry/symmetry.py uses, as a small library against which
   gen/SymmetryGen.v (regenerated from the source on every run by
   harness/sym2coq.py) is written.  No proofs in this file.

   This file is TRUSTED (together with model/PySem.v, which supplies `res`,
   `bind`, `py_getitem`, `py_setitem`, `py_unpack3`, ...).  harness/props/t15.py
   validates every operation against the real numpy on random small integer
   arrays and shapes, evaluated inside Coq, on every run.

   Representation.  A 1-D array is `list Z`, a 2-D array `list (list Z)` (rows),
   a 3-D array `list (list (list Z))`.  The arrays of symmetry.py only ever hold
   INTEGERS: the matrices are `dtype=int`; `np.ones(k)` holds the float 1.0 and
   `(size-1) * np.ones(k)`, the stack and the matrix products built from it hold
   floats whose values are integers of magnitude < 2^53, on which float
   arithmetic is exact; `.astype(int)` truncates toward zero, which is the
   identity on such values.  So a float array is represented by the list of its
   (integer) values and `np_astype_int` is the identity.  Nothing else is claimed
   about floats.

   Shapes.  A nested list carries its shape only while no axis has length 0 (the
   shape (0, 3) and the shape (0, 7) are both `[]`).  NumpyLite takes NO position
   on 2-D / 3-D arrays with an empty axis, nor on ragged nested lists (which are
   not arrays): such operands or results give `Crash Unmodelled`, which no
   equality theorem can absorb - the theorems about the generated code therefore
   carry the guard `1 <= size p`.  Shape errors that numpy reports (`matmul`
   dimension mismatch, `stack` of arrays of different lengths, `reshape` to a
   different number of elements, negative repeat counts) are `Crash ValueError`;
   an index outside an axis is `Crash IndexError`, a negative one wraps. *)
From Coq Require Import ZArith List Bool.
From TV Require Import model.Tak model.PySem.
Import ListNotations.
Open Scope Z_scope.

Definition arr1 := list Z.
Definition arr2 := list (list Z).
Definition arr3 := list (list (list Z)).

(* ---------- shapes ---------- *)
Definition ncols (a : arr2) : Z := match a with r :: _ => zlen r | [] => 0 end.
(* a genuine 2-D array with no empty axis: every row as long as the first, >= 1 row, >= 1 column *)
Definition arr2_ok (a : arr2) : bool :=
  (0 <? zlen a) && (0 <? ncols a) && forallb (fun r => zlen r =? ncols a) a.

(* np.array(rows, dtype=int) on a literal list of rows of integers *)
Definition np_array (rows : list (list Z)) : res arr2 :=
  if arr2_ok rows then Ok rows else Crash Unmodelled.

(* np.identity(k, dtype=int) *)
Definition np_identity (k : Z) : res arr2 :=
  if k <? 0 then Crash ValueError else
  if k =? 0 then Crash Unmodelled else
  Ok (map (fun i => map (fun j => if i =? j then 1 else 0) (py_range k)) (py_range k)).

(* np.arange(k): empty for k <= 0 *)
Definition np_arange (k : Z) : arr1 := py_range k.
(* np.ones(k): k times 1.0; a negative k is "negative dimensions are not allowed" *)
Definition np_ones (k : Z) : res arr1 :=
  if k <? 0 then Crash ValueError else Ok (repeat 1 (Z.to_nat k)).
(* c * a for a Python int c and a 1-D array a *)
Definition np_scale (c : Z) (a : arr1) : arr1 := map (fun x => c * x) a.
(* np.repeat(a, k), a 1-D, k an int: each element k times; a negative k is a ValueError - unless a is empty, in
   which case numpy returns the empty array (observed by the validation of this file against numpy) *)
Definition np_repeat (a : arr1) (k : Z) : res arr1 :=
  if (k <? 0) && negb (zlen a =? 0) then Crash ValueError else Ok (flat_map (fun x => repeat x (Z.to_nat k)) a).
(* np.tile(a, k), a 1-D, k an int: the whole array k times; negative k: as for np.repeat *)
Definition np_tile (a : arr1) (k : Z) : res arr1 :=
  if (k <? 0) && negb (zlen a =? 0) then Crash ValueError else Ok (concat (repeat a (Z.to_nat k))).

(* np.stack([a, b, c], axis=-1) of three 1-D arrays: the rows [a_k, b_k, c_k] *)
Fixpoint zip3 (a b c : list Z) : list (list Z) :=
  match a, b, c with
  | x :: a', y :: b', z :: c' => [x; y; z] :: zip3 a' b' c'
  | _, _, _ => []
  end.
Definition np_stack_last3 (a b c : arr1) : res arr2 :=
  if negb ((zlen a =? zlen b) && (zlen b =? zlen c)) then Crash ValueError else
  if zlen a =? 0 then Crash Unmodelled else
  Ok (zip3 a b c).

(* np.transpose(a), a 2-D *)
Fixpoint zip_cons (r : list Z) (t : list (list Z)) : list (list Z) :=
  match r, t with
  | x :: r', c :: t' => (x :: c) :: zip_cons r' t'
  | _, _ => []
  end.
Fixpoint transpose_rows (c : nat) (rows : list (list Z)) : list (list Z) :=
  match rows with
  | [] => repeat [] c
  | r :: rs => zip_cons r (transpose_rows c rs)
  end.
Definition np_transpose (a : arr2) : res arr2 :=
  if arr2_ok a then Ok (transpose_rows (Z.to_nat (ncols a)) a) else Crash Unmodelled.

(* sum of products *)
Definition np_dot (r v : list Z) : Z := zsum (map (fun ab => fst ab * snd ab) (combine r v)).
(* np.matmul(a, b), both 2-D: (m,k) x (k,n) -> (m,n); other inner dimensions: ValueError *)
Definition np_matmul (a b : arr2) : res arr2 :=
  if negb (arr2_ok a && arr2_ok b) then Crash Unmodelled else
  if negb (ncols a =? zlen b) then Crash ValueError else
  let cols := transpose_rows (Z.to_nat (ncols b)) b in
  Ok (map (fun r => map (fun c => np_dot r c) cols) a).
(* np.matmul(a, v), a 2-D (m,k), v 1-D (k,) (an array, a list or a tuple of ints): -> (m,) *)
Definition np_matvec (a : arr2) (v : arr1) : res arr1 :=
  if negb (arr2_ok a) then Crash Unmodelled else
  if negb (ncols a =? zlen v) then Crash ValueError else
  Ok (map (fun r => np_dot r v) a).

(* a.astype(int) on an array of integer-valued floats / ints *)
Definition np_astype_int {A} (a : A) : A := a.

(* a.reshape((d0, d1, d2)), a 2-D, C order; all of d0, d1, d2 >= 1 here (no -1, no empty axis) *)
Fixpoint chunks_fuel {A} (fuel : nat) (k : nat) (l : list A) : list (list A) :=
  match fuel with
  | O => []
  | S f => match l with
           | [] => []
           | _ :: _ => firstn k l :: chunks_fuel f k (skipn k l)
           end
  end.
Definition chunks {A} (k : Z) (l : list A) : list (list A) := chunks_fuel (length l) (Z.to_nat k) l.
Definition np_reshape3 (a : arr2) (d0 d1 d2 : Z) : res arr3 :=
  if negb (arr2_ok a) then Crash Unmodelled else
  if negb ((0 <? d0) && (0 <? d1) && (0 <? d2)) then Crash Unmodelled else
  if negb (zlen a * ncols a =? d0 * d1 * d2) then Crash ValueError else
  Ok (chunks d1 (chunks d2 (concat a))).

(* a[i, j] on a 3-D array: the 1-D array at (i, j); each index wraps when negative, IndexError outside *)
Definition np_getitem2 (a : arr3) (i j : Z) : res arr1 :=
  r <- py_getitem a i ;; py_getitem r j.

(* t + (c,) for a tuple of two ints: the tuple of three, as the sequence numpy receives *)
Definition py_tuple2_snoc (t : Z * Z) (c : Z) : list Z := [fst t; snd t; c].
