(* C17 - executable model of python/tak/model/server.py (Server.worker_loop,
   Server.Evaluate, run_model) and of the byte codec used between
   Server.Evaluate (ndarray.tobytes) and GRPCNetwork.evaluate (np.frombuffer).

   The server is a state machine driven by four kinds of events, each carrying
   a time in integer microseconds:
     Arrive r t   a client entered Server.Evaluate with request r: the request
                  is put on the queue, or the client blocks in queue.put; a put
                  wakes the worker (call_soon) but does not run it
     Wake t       the worker task, woken by a put, gets to run: any number of
                  arrivals may have been processed by the event loop before
     Timer t      the 1 ms gather timeout of asyncio.wait_for expired
     ModelDone t  the executor future of run_model completed
   What a running worker does without suspending (draining the queue; the woken
   putters re-filling it right after) is one step.

   No proofs in this file. *)
From Coq Require Import ZArith List Bool.
From TV Require gen.Consts gen.ServerIR.
From TV Require Import model.ServerDen.
Import ListNotations.
Open Scope Z_scope.

(* the parameters of the protocol are read from the IR regenerated from the source on every run
   (gen/ServerIR.v, denotation in model/ServerDen.v).  When the source has no denotation the
   scraped constants of gen/Consts.v keep the model executable for the correspondence; the tie
   lemma proofs/ServerTie.v:server_ir_denotes_model fails in that case. *)
Definition protocol : option params := den ServerIR.server.
Definition cap : Z :=                                          (* asyncio.Queue(MAX_QUEUE_DEPTH) *)
  match protocol with Some p => p_cap p | None => Consts.MAX_QUEUE_DEPTH end.
Definition threshold : Z :=                                    (* `if len(batch) >= 8` *)
  match protocol with Some p => p_threshold p | None => Consts.server_batch_threshold end.
Definition gather_timeout_us : Z :=                            (* wait_for(..., 1.0 / 1000) *)
  match protocol with Some p => p_timeout_us p | None => 1000 end.
Definition pairing : ServerIR.idx :=                           (* b.probs = probs[i]; b.value = values[i] *)
  match protocol with Some p => p_pair p | None => ServerIR.IdxI end.

Definition qlen {X} (l : list X) : Z := Z.of_nat (length l).

Record req := mkReq { rid : Z; rpos : list Z }.

Inductive worker :=
| Idle                                        (* suspended in the first `await self.queue.get()` *)
| Gathering (b : list req) (deadline : Z)     (* suspended in wait_for(self.queue.get(), 1 ms) holding b *)
| Running (b : list req).                     (* suspended in run_in_executor(run_model, b) *)

Inductive event :=
| Arrive (r : req) (t : Z)
| Wake (t : Z)
| Timer (t : Z)
| ModelDone (t : Z).

Definition ev_time (e : event) : Z :=
  match e with Arrive _ t => t | Wake t => t | Timer t => t | ModelDone t => t end.

(* ---- the inner `while True:` of worker_loop, run without suspension as long
   as the queue has elements: q = queue content, b = batch so far.
   Returns the batch and true = `break` (run the model now) or
   false = the worker suspends in wait_for with a fresh deadline. *)
Fixpoint inner (q b : list req) : list req * bool :=
  if threshold <=? qlen b then
    match q with
    | [] => (b, true)                         (* get_nowait raised QueueEmpty *)
    | r :: q' => inner q' (b ++ [r])          (* batch.append(self.queue.get_nowait()) *)
    end
  else
    match q with
    | [] => (b, false)                        (* wait_for suspends *)
    | r :: q' => inner q' (b ++ [r])          (* queue.get() returns at once *)
    end.

(* every get wakes one blocked putter (Queue._wakeup_next); the woken putters run
   after the worker suspends, in FIFO order; each re-tests `while self.full()`
   and re-blocks at the tail if the queue is full again *)
Fixpoint refill (n : nat) (q bl : list req) : list req * list req :=
  match n, bl with
  | S n', p :: bl' => if qlen q <? cap then refill n' (q ++ [p]) bl' else refill n' q (bl' ++ [p])
  | _, _ => (q, bl)
  end.

(* ---- run_model on lists: pad to the longest row, mask the tail, apply the
   per-row model (C16: rows do not interact), result i belongs to row i *)
Definition max_len (ps : list (list Z)) : nat := fold_right Nat.max 0%nat (map (@length Z) ps).
Definition pad_row (L : nat) (p : list Z) : list Z := p ++ repeat 0 (L - length p).
Definition mask_row (L : nat) (p : list Z) : list bool := repeat false (length p) ++ repeat true (L - length p).

Section Server.
  Variable A : Type.                                  (* one response: (probs, value) *)
  Variable frow : list Z -> list bool -> A.           (* the network on one row: tokens, padding mask *)

  Definition run_model (ps : list (list Z)) : list A :=
    let L := max_len ps in map (fun p => frow (pad_row L p) (mask_row L p)) ps.

  (* evaluating a position locally with the same model: a batch of one, no padding *)
  Definition f_local (p : list Z) : A := frow p (repeat false (length p)).

  Record state := mkSt {
    queue : list req;                  (* self.queue, FIFO, at most cap *)
    blocked : list req;                (* Evaluate coroutines suspended in queue.put, FIFO *)
    wk : worker;
    started : list (Z * list req);     (* log: every model call, start time and batch in order *)
    answers : list (req * A);          (* log: responses in the order the requests were released *)
    completed : nat                    (* log: number of model calls that have completed *)
  }.

  Definition init : state := mkSt [] [] Idle [] [] 0.

  (* the worker, suspended in a get, runs with a non-empty queue at time t:
     it takes the whole queue (see inner), the woken putters re-fill the queue,
     then the model starts or the worker suspends with deadline t + 1 ms *)
  Definition resume (st : state) (t : Z) : state :=
    match queue st with
    | [] => st
    | r :: q =>
      let go (b : list req) :=
        let '(b', brk) := inner q b in
        let '(q', bl') := refill (length (queue st)) [] (blocked st) in
        if brk then mkSt q' bl' (Running b') (started st ++ [(t, b')]) (answers st) (completed st)
        else mkSt q' bl' (Gathering b' (t + gather_timeout_us)) (started st) (answers st) (completed st) in
      match wk st with
      | Idle => go [r]                       (* batch = []; batch.append(await self.queue.get()) *)
      | Gathering b _ => go (b ++ [r])       (* elem = await wait_for(...); batch.append(elem) *)
      | Running _ => st
      end
    end.

  Definition step (st : state) (e : event) : state :=
    match e with
    | Arrive r t =>
      (* Queue.put: `while self.full(): <block>`; put_nowait *)
      if qlen (queue st) <? cap
      then mkSt (queue st ++ [r]) (blocked st) (wk st) (started st) (answers st) (completed st)
      else mkSt (queue st) (blocked st ++ [r]) (wk st) (started st) (answers st) (completed st)
    | Wake t => resume st t                 (* nothing to do if the queue is empty or the model is running *)
    | Timer t =>
      match wk st with
      | Gathering b d =>
        if d <=? t
        then mkSt (queue st) (blocked st) (Running b) (started st ++ [(t, b)]) (answers st) (completed st)
        else st
      | _ => st                             (* a cancelled timeout handle never fires *)
      end
    | ModelDone t =>
      match wk st with
      | Running b =>
        (* for (i, b) in enumerate(batch): b.probs = probs[i]; b.value = values[i]; b.ready.set() *)
        resume (mkSt (queue st) (blocked st) Idle (started st)
                     (answers st ++ combine b (pair_results pairing (run_model (map rpos b)))) (S (completed st))) t
      | _ => st
      end
    end.

  Definition run_from (st : state) (evs : list event) : state := fold_left step evs st.
  Definition run (evs : list event) : state := run_from init evs.

  (* requests that are in the server and not yet answered, in service order *)
  Definition batch_of (st : state) : list req :=
    match wk st with Idle => [] | Gathering b _ => b | Running b => b end.
  Definition pending (st : state) : list req := batch_of st ++ queue st ++ blocked st.

  (* ---- used by the correspondence only: is an observed event list consistent
     with the timing the model predicts?  Times do not decrease; a worker that
     has been woken (it waits in a get and the queue is not empty) runs at the
     same instant, after the arrivals of that instant; nothing happens later
     than a pending gather deadline; a Timer is the expiry of exactly the
     pending deadline; ModelDone happens only while the model runs; the i-th
     model call takes lat_i; at the end the server is quiescent. *)
  Definition woken (st : state) : bool :=
    match wk st, queue st with
    | Running _, _ => false
    | _, [] => false
    | _, _ :: _ => true
    end.
  Fixpoint timely_from (st : state) (last : Z) (lats : list Z) (evs : list event) : bool :=
    match evs with
    | [] => match wk st, queue st, blocked st, lats with Idle, [], [], [] => true | _, _, _, _ => false end
    | e :: evs' =>
      let t := ev_time e in
      (last <=? t) && (negb (woken st) || (t =? last)) &&
      match wk st, e with
      | Gathering _ d, Arrive _ _ => (t <? d) && timely_from (step st e) t lats evs'
      | Gathering _ d, Wake _ => (t <? d) && woken st && timely_from (step st e) t lats evs'
      | Gathering _ d, Timer _ => (t =? d) && timely_from (step st e) t lats evs'
      | Running _, ModelDone _ =>
        match lats, rev (started st) with
        | l :: lats', (s, _) :: _ => (t =? s + l) && timely_from (step st e) t lats' evs'
        | _, _ => false
        end
      | Idle, Wake _ => woken st && timely_from (step st e) t lats evs'
      | _, Arrive _ _ => timely_from (step st e) t lats evs'
      | _, _ => false
      end
    end.
  Definition timely (lats : list Z) (evs : list event) : bool := timely_from init 0 lats evs.
End Server.

Arguments queue {A}. Arguments blocked {A}. Arguments wk {A}. Arguments started {A}.
Arguments answers {A}. Arguments completed {A}. Arguments batch_of {A}. Arguments pending {A}.

Fixpoint arrivals (evs : list event) : list req :=
  match evs with
  | [] => []
  | Arrive r _ :: t => r :: arrivals t
  | _ :: t => arrivals t
  end.

(* ---- client codec: float32 words <-> bytes, little-endian
   (numpy float32 .tobytes() in Server.Evaluate, np.frombuffer(..., float32) in GRPCNetwork.evaluate) *)
Definition word_bytes (w : Z) : list Z :=
  [w mod 256; (w / 256) mod 256; (w / 65536) mod 256; (w / 16777216) mod 256].
Definition encode_words (ws : list Z) : list Z := flat_map word_bytes ws.
(* np.frombuffer raises ValueError when the length is not a multiple of 4 *)
Fixpoint decode_bytes (bs : list Z) : option (list Z) :=
  match bs with
  | [] => Some []
  | b0 :: b1 :: b2 :: b3 :: t =>
    match decode_bytes t with
    | Some ws => Some ((b0 + 256 * b1 + 65536 * b2 + 16777216 * b3) :: ws)
    | None => None
    end
  | _ => None
  end.
Definition is_word (w : Z) : Prop := 0 <= w < 4294967296.

(* ---- the reference row model of the correspondence (harness/props/c17.py
   builds the same function as a torch module): a hash of the unmasked tokens
   decides a dyadic policy vector of width ref_K (as float32 bit patterns) and
   a value +-2^-e, so that the float arithmetic of softmax is exact. *)
Definition ref_K : Z := 16.
Definition ref_hash (toks : list Z) (mask : list bool) : Z :=
  fold_left (fun h tm => if (snd tm : bool) then h else (h * 31 + fst tm + 1) mod 65521) (combine toks mask) 7.
Definition ref_out (h : Z) : list Z * Z :=
  let j := h mod 4 in
  let cnt := 2 ^ j in
  let s := (h / 4) mod ref_K in
  let w := (127 - j) * 8388608 in
  (map (fun i => if ((i - s) mod ref_K) <? cnt then w else 0) (map Z.of_nat (seq 0 (Z.to_nat ref_K))),
   ((h / 512) mod 2) * 2147483648 + (127 - (h / 64) mod 8) * 8388608).
Definition ref_frow (toks : list Z) (mask : list bool) : list Z * Z := ref_out (ref_hash toks mask).

(* ---- observation helpers for the cases files *)
Fixpoint zlist_eqb (a b : list Z) : bool :=
  match a, b with
  | [], [] => true
  | x :: a', y :: b' => (x =? y) && zlist_eqb a' b'
  | _, _ => false
  end.
Fixpoint list_eqb_by {X} (eqb : X -> X -> bool) (a b : list X) : bool :=
  match a, b with
  | [], [] => true
  | x :: a', y :: b' => eqb x y && list_eqb_by eqb a' b'
  | _, _ => false
  end.
Definition obs_batches {A} (st : state A) : list (Z * list Z) :=
  map (fun sb => (fst sb, map rid (snd sb))) (started st).
Definition obs_answers (st : state (list Z * Z)) : list (Z * (list Z * Z)) :=
  map (fun a => (rid (fst a), snd a)) (answers st).
