(* C16 - model of the transformer's dataflow (python/xformer/model.py,
   tak/model/heads.py) and of the mask producers (batches.py, data.py,
   server.py, wrapper.py).  No proofs here.

   Part 1: syntax of the dataflow IR that harness/xformer_ir.py regenerates
           into gen/XformerIR.v from the current source.
   Part 2: the hand-written model.  One ROW of a batch is a list of per-token
           data; a batch is a `map` over rows.  Activations are abstract; the
           per-token operators and the attention kernel are fields of `ops`.
           Stated semantics of the torch operators (trusted, validated
           numerically by harness/props/c16.py):
             - LayerNorm, Linear, ReLU, Embedding, tanh, + act on each token of
               each row separately;
             - nn.MultiheadAttention(batch_first=True): the output at query i
               of a row is a function of the query and of the (key, value)
               pairs of the SAME row that are visible to i, in order; a key j
               is hidden from i when key_padding_mask[j] is True or
               attn_mask[i, j] is True (weight exactly 0).  This is the meaning of
               BOOLEAN masks only: torch ADDS a floating-point mask to the scores
               instead; that every mask is allocated with dtype=torch.bool is a
               tie fact (proofs/AttentionTie.v, mask_dtypes_tie).
   Part 3: denotation of the IR into the model (an interpreter over values). *)
From Coq Require Import String List Bool Arith ZArith.
Import ListNotations.
Notation length := Datatypes.length (only parsing).   (* String.length is never meant in this development *)

(* ------------------------------------------------------------------ *)
(* Part 1: IR syntax                                                   *)
(* ------------------------------------------------------------------ *)
Inductive expr : Type :=
| EVar (x : string)                          (* local variable or parameter *)
| ENone
| ESelf (attr : string)                      (* self.<attr> : a buffer *)
| ECall (m : string) (args : list expr)      (* self.<m>(args...), positional *)
| ECallLayer (args : list expr)              (* layer(args...) inside `for layer in self.layers` *)
| EAttn (m : string) (q k v am kpm : expr)   (* self.<m>(q, k, v, attn_mask=am, key_padding_mask=kpm) *)
| EAdd (a b : expr)                          (* a + b *)
| ESize (a : expr) (dim : Z)                 (* a.size(dim) *)
| ERows (a n : expr)                         (* a[: n] *)
| ESquare (a n m : expr)                     (* a[:n, :m] *)
| ETok (a : expr) (i : Z)                    (* a[:, i] *)
| EFun (f : string) (a : expr)               (* torch.<f>(a) *)
| ESqueeze (a : expr) (dim : Z)              (* a.squeeze(dim) *)
| EDict (kvs : list (string * expr)).        (* {"k": e, ...} *)

Inductive stmt : Type :=
| SAssign (x : string) (e : expr)
| SAssign2 (x y : string) (e : expr)         (* x, y = e *)
| SShape (xs : list string) (e : expr)       (* a, b, c = e.shape : integers, no tensor flows *)
| SIfHasAttr (attr : string) (th el : list stmt)   (* if hasattr(self, attr): th else: el *)
| SForLayers (body : list stmt)              (* for layer in self.layers: body *)
| SReturn (e : expr).

Record method : Type := { m_params : list (string * option expr); m_body : list stmt }.

(* what __init__ binds to an attribute *)
Inductive member_kind : Type :=
| KTokenOp (cls : string)                    (* nn.LayerNorm / nn.Linear / nn.ReLU: per token *)
| KLinearOut (width : string)                (* nn.Linear(cfg.d_model, <width>) *)
| KEmbedding                                 (* nn.Embedding *)
| KAttention (batch_first : bool)            (* nn.MultiheadAttention(..., batch_first=...) *)
| KLayers (cls : string)                     (* nn.ModuleList([cls(cfg) for _ in range(cfg.n_layer)]) *)
| KModule (cls : string)                     (* cls(cfg, ...) : a class of model.py with a translated forward *)
| KByCfg (field : string) (alts : list (string * string))   (* if cfg.<field> == "a": A(...) elif ...; "lambda" = identity lambda *)
| KCfgHead                                   (* cfg.output_head(cfg, ...) *)
| KBuffer                                    (* register_buffer / nn.Parameter table *)
| KIfCfg (field : string) (fn : string).     (* if cfg.<field>: self.attr = fn(cfg.n_ctx, ...) *)

(* mask producers: row-wise boolean masks as the callers build them *)
Inductive bound : Type := BStart | BLen | BEnd.      (* 0 / len(real tokens of the row) / end of the row *)
Inductive mexpr : Type :=
| MZerosFill (lo hi : bound) (v : bool)      (* zeros(bool) ; row[lo:hi] = v *)
| MNot (m : mexpr)                           (* ~m *)
| MDropLast (m : mexpr)                      (* m[:, :-1] *)
| MAbsent.                                   (* the model is called without a mask argument *)
Inductive rows_kind : Type := RSingleUnpadded | RZeroPadded.
Record producer : Type := {
  pr_name : string;
  pr_rows : rows_kind;                       (* how the token rows are built *)
  pr_mask : mexpr;
  pr_argpos : option nat                     (* positional index of the mask in the call of the model *)
}.
(* ModelWrapper.evaluate: (softmax(out[moves_key][row], dim), out[value_key][row].item()) *)
Record evaluate_ir : Type := {
  ev_moves_key : string; ev_value_key : string; ev_row : Z; ev_softmax_dim : Z
}.

(* ------------------------------------------------------------------ *)
(* Part 2: the model                                                   *)
(* ------------------------------------------------------------------ *)
Fixpoint mapi_from {A B} (f : nat -> A -> B) (i : nat) (l : list A) : list B :=
  match l with [] => [] | x :: t => f i x :: mapi_from f (S i) t end.
Definition mapi {A B} (f : nat -> A -> B) (l : list A) : list B := mapi_from f 0 l.

Fixpoint zipw {A B C} (f : A -> B -> C) (a : list A) (b : list B) : list C :=
  match a, b with x :: a', y :: b' => f x y :: zipw f a' b' | _, _ => [] end.

(* keys kept by a predicate on their index *)
Fixpoint visible_from {A} (keep : nat -> bool) (j : nat) (l : list A) : list A :=
  match l with
  | [] => []
  | x :: t => if keep j then x :: visible_from keep (S j) t else visible_from keep (S j) t
  end.

(* torch.triu(ones(n, n), diagonal=d)[i][j] = (j - i >= d) *)
Definition triu (d : Z) (i j : nat) : bool := (Z.of_nat i + d <=? Z.of_nat j)%Z.

Definition amask := option (nat -> nat -> bool).   (* attn_mask: true = query i may not look at key j *)
Definition pmask := option (list bool).            (* key_padding_mask of the row: true = ignore key j *)
Definition am_masked (am : amask) (i j : nat) : bool := match am with None => false | Some f => f i j end.
Definition pm_masked (pm : pmask) (j : nat) : bool := match pm with None => false | Some m => nth j m false end.
Definition keep (am : amask) (pm : pmask) (i j : nat) : bool := negb (am_masked am i j) && negb (pm_masked pm j).
Definition visible {A} (am : amask) (pm : pmask) (i : nat) (kv : list A) : list A :=
  visible_from (keep am pm i) 0 kv.

(* attention of one row: `core` is the kernel (projections, heads, softmax over
   the visible keys, weighted sum, output projection) *)
Definition attention {act} (core : act -> list (act * act) -> act) (am : amask) (pm : pmask)
           (q k v : list act) : list act :=
  mapi (fun i qi => core qi (visible am pm i (combine k v))) q.

Definition tok_at {A} (d : A) (i : Z) (l : list A) : A :=
  if (0 <=? i)%Z then nth (Z.to_nat i) l d else nth (length l - Z.to_nat (- i)) l d.

Inductive pe_kind : Type := PeSin | PeLearned | PeNone.

Record ops (tok act layer : Type) : Type := {
  dflt : act;                                 (* result of an out-of-range read; theorems state the guard that excludes it *)
  add : act -> act -> act;
  embed : tok -> act;                         (* nn.Embedding *)
  pe_row : pe_kind -> nat -> act;             (* row j of the positional table *)
  attn_ln : layer -> act -> act;
  attn_core : layer -> act -> list (act * act) -> act;
  mlp_ln : layer -> act -> act;
  mlp_up : layer -> act -> act;
  mlp_act : layer -> act -> act;
  mlp_down : layer -> act -> act;
  final_ln : act -> act;                      (* PolicyValue.final_ln *)
  v_proj : act -> act;
  move_proj : act -> act;
  tanh_v : act -> act;
  lm_final_ln : act -> act;                   (* TextUnembedding.final_ln *)
  unembed : act -> act
}.
Arguments dflt {tok act layer}. Arguments add {tok act layer}. Arguments embed {tok act layer}.
Arguments pe_row {tok act layer}. Arguments attn_ln {tok act layer}. Arguments attn_core {tok act layer}.
Arguments mlp_ln {tok act layer}. Arguments mlp_up {tok act layer}. Arguments mlp_act {tok act layer}.
Arguments mlp_down {tok act layer}. Arguments final_ln {tok act layer}. Arguments v_proj {tok act layer}.
Arguments move_proj {tok act layer}. Arguments tanh_v {tok act layer}. Arguments lm_final_ln {tok act layer}.
Arguments unembed {tok act layer}.

Section Model.
  Context {tok act layer : Type}.
  Variable O : ops tok act layer.

  (* Resblock.forward *)
  Definition resblock (L : layer) (am : amask) (pm : pmask) (resid : list act) : list act :=
    let a := map (attn_ln O L) resid in
    let r := zipw (add O) resid (attention (attn_core O L) am pm a a a) in
    zipw (add O) r (map (mlp_down O L) (map (mlp_act O L) (map (mlp_up O L) (map (mlp_ln O L) r)))).

  (* Torso.forward: the same (attn_mask, padding_mask) goes to every layer *)
  Definition ar_mask : nat -> nat -> bool := triu 1.
  Definition am_of (causal : bool) : amask := if causal then Some ar_mask else None.
  Definition torso (layers : list layer) (causal : bool) (pm : pmask) (acts : list act) : list act :=
    fold_left (fun a L => resblock L (am_of causal) pm a) layers acts.

  (* (Learned)PositionalEncoding.forward: x + pe[: x.size(1)], i.e. row j gets pe[j] *)
  Definition pos_enc (pk : pe_kind) (x : list act) : list act :=
    match pk with
    | PeNone => x
    | _ => zipw (add O) x (map (pe_row O pk) (seq 0 (length x)))
    end.
  (* TextEmbedding.forward *)
  Definition text_embedding (pk : pe_kind) (toks : list tok) : list act := pos_enc pk (map (embed O) toks).
  (* Transformer.forward up to the output head *)
  Definition transformer_acts (pk : pe_kind) (layers : list layer) (causal : bool) (pm : pmask) (toks : list tok) : list act :=
    torso layers causal pm (text_embedding pk toks).

  (* PolicyValue.forward: final_ln, token 0, (tanh (v_proj a), move_proj a) *)
  Definition policy_value (acts : list act) : act * act :=
    let a := tok_at (dflt O) 0 (map (final_ln O) acts) in
    (tanh_v O (v_proj O a), move_proj O a).
  (* TextUnembedding.forward *)
  Definition text_unembedding (acts : list act) : list act := map (unembed O) (map (lm_final_ln O) acts).

  Definition transformer_pv pk layers causal pm toks := policy_value (transformer_acts pk layers causal pm toks).
  Definition transformer_lm pk layers causal pm toks := text_unembedding (transformer_acts pk layers causal pm toks).

  (* a batch: every row is evaluated by itself *)
  Definition batch_pv pk layers causal (rows : list (list tok * pmask)) : list (act * act) :=
    map (fun r => transformer_pv pk layers causal (snd r) (fst r)) rows.

  (* ---------------------------------------------------------------- *)
  (* Part 3: denotation of the IR                                      *)
  (* ---------------------------------------------------------------- *)
  Inductive val : Type :=
  | VToks (t : list tok)
  | VActs (a : list act)           (* one row *)
  | VVec (a : act)                 (* one token of one row *)
  | VPad (m : list bool)
  | VAm (f : nat -> nat -> bool)
  | VNone
  | VNat (n : nat)
  | VPair (a b : val)
  | VDict (l : list (string * val))
  | VErr.

  (* meaning of `self.<name>` inside one class *)
  Inductive member : Type :=
  | MTokOp (f : act -> act)
  | MEmbed (f : tok -> act)
  | MAttn (f : act -> list (act * act) -> act)
  | MRowsBuf (f : nat -> act)
  | MMaskBuf (f : nat -> nat -> bool)
  | MSub (f : list val -> val)
  | MLayers (ls : list layer) (f : layer -> list val -> val).
  Definition menv := string -> option member.
  Definition venv := list (string * val).

  Fixpoint lookup {A} (x : string) (l : list (string * A)) : option A :=
    match l with [] => None | (y, v) :: t => if String.eqb x y then Some v else lookup x t end.
  Definition acts_of (v : val) : list act := match v with VActs a => a | _ => [] end.
  Definition opt_am (v : val) : option amask := match v with VNone => Some None | VAm f => Some (Some f) | _ => None end.
  Definition opt_pm (v : val) : option pmask := match v with VNone => Some None | VPad m => Some (Some m) | _ => None end.

  Definition apply_tokop (f : act -> act) (v : val) : val :=
    match v with VActs a => VActs (map f a) | VVec a => VVec (f a) | _ => VErr end.

  Section Eval.
    Variable M : menv.
    Variable fns : string -> option (act -> act).    (* torch.<f>, elementwise *)

    Fixpoint eval (E : venv) (e : expr) {struct e} : val :=
      match e with
      | EVar x => match lookup x E with Some v => v | None => VErr end
      | ENone => VNone
      | ESelf a => match M a with
                   | Some (MMaskBuf f) => VAm f
                   | _ => VErr end                                   (* a table buffer is only read through ERows *)
      | ECall m args =>
          match M m, map (eval E) args with
          | Some (MTokOp f), [v] => apply_tokop f v
          | Some (MEmbed f), [VToks t] => VActs (map f t)
          | Some (MSub f), vs => f vs
          | _, _ => VErr
          end
      | ECallLayer _ => VErr
      | EAttn m q k v am kpm =>
          match M m, eval E q, eval E k, eval E v, opt_am (eval E am), opt_pm (eval E kpm) with
          | Some (MAttn f), VActs q', VActs k', VActs v', Some am', Some pm' =>
              VPair (VActs (attention f am' pm' q' k' v')) VNone
          | _, _, _, _, _, _ => VErr
          end
      | EAdd a b => match eval E a, eval E b with
                    | VActs x, VActs y => VActs (zipw (add O) x y)
                    | _, _ => VErr end
      | ESize a d => match eval E a, d with VActs x, 1%Z => VNat (length x) | _, _ => VErr end
      | ERows (ESelf a) n => match M a, eval E n with
                             | Some (MRowsBuf f), VNat k => VActs (map f (seq 0 k))
                             | _, _ => VErr end
      | ERows _ _ => VErr
      | ESquare a n m => match eval E a, eval E n, eval E m with
                         | VAm f, VNat _, VNat _ => VAm f
                         | _, _, _ => VErr end
      | ETok a i => match eval E a with VActs x => VVec (tok_at (dflt O) i x) | _ => VErr end
      | EFun f a => match fns f with Some g => apply_tokop g (eval E a) | None => VErr end
      | ESqueeze a d => match eval E a, d with VVec x, (-1)%Z => VVec x | _, _ => VErr end
      | EDict kvs => VDict (map (fun kv => (fst kv, eval E (snd kv))) kvs)
      end.
  End Eval.

  Definition is_var (x : string) (e : expr) : bool := match e with EVar y => String.eqb x y | _ => false end.
  Definition loop_invariant (x : string) (e : expr) : bool :=
    match e with EVar y => negb (String.eqb x y) | ENone => true | _ => false end.

  (* statements: result = (environment, returned value if any) *)
  Section Exec.
    Variable M : menv.
    Variable fns : string -> option (act -> act).
    Fixpoint exec (E : venv) (s : stmt) {struct s} : venv * option val :=
      let exec_list := fix exec_list (E : venv) (l : list stmt) {struct l} : venv * option val :=
        match l with
        | [] => (E, None)
        | s :: t => match exec E s with
                    | (E', Some r) => (E', Some r)
                    | (E', None) => exec_list E' t
                    end
        end in
      match s with
      | SAssign x e => ((x, eval M fns E e) :: E, None)
      | SAssign2 x y e => match eval M fns E e with
                          | VPair a b => ((y, b) :: (x, a) :: E, None)
                          | _ => ((y, VErr) :: (x, VErr) :: E, None) end
      | SShape xs e => match eval M fns E e with
                       | VErr => (E, Some VErr)
                       | _ => (map (fun x => (x, VNat 0)) xs ++ E, None) end   (* integers; never used as tensors *)
      | SIfHasAttr a th el => match M a with Some _ => exec_list E th | None => exec_list E el end
      | SForLayers [SAssign x (ECallLayer (a0 :: rest))] =>
          match M "layers"%string, lookup x E with
          | Some (MLayers ls f), Some (VActs x0) =>
              if is_var x a0 && forallb (loop_invariant x) rest then
                let vs := map (eval M fns E) rest in
                ((x, VActs (fold_left (fun a L => acts_of (f L (VActs a :: vs))) ls x0)) :: E, None)
              else (E, Some VErr)
          | _, _ => (E, Some VErr)
          end
      | SForLayers _ => (E, Some VErr)
      | SReturn e => (E, Some (eval M fns E e))
      end.
    Fixpoint exec_list (E : venv) (l : list stmt) : venv * option val :=
      match l with
      | [] => (E, None)
      | s :: t => match exec E s with
                  | (E', Some r) => (E', Some r)
                  | (E', None) => exec_list E' t
                  end
      end.

    (* bind positional arguments; missing ones take the declared default *)
    Fixpoint bind (ps : list (string * option expr)) (args : list val) : venv :=
      match ps, args with
      | [], _ => []
      | (x, _) :: ps', v :: args' => (x, v) :: bind ps' args'
      | (x, Some d) :: ps', [] => (x, eval M fns [] d) :: bind ps' []
      | (x, None) :: ps', [] => (x, VErr) :: bind ps' []
      end.
    Definition run_method (m : method) (args : list val) : val :=
      if length (m_params m) <? length args then VErr else
      match snd (exec_list (bind (m_params m) args) (m_body m)) with Some r => r | None => VNone end.
  End Exec.

  (* masks as the callers build them, for a row with `len` real tokens in a batch of width W *)
  Definition bound_val (b : bound) (len W : nat) : nat := match b with BStart => 0 | BLen => len | BEnd => W end.
  Fixpoint denote_mask (m : mexpr) (len W : nat) : pmask :=
    match m with
    | MZerosFill lo hi v =>
        Some (map (fun j => if (bound_val lo len W <=? j) && (j <? bound_val hi len W) then v else false) (seq 0 W))
    | MNot m' => option_map (map negb) (denote_mask m' len W)
    | MDropLast m' => option_map (@removelast bool) (denote_mask m' len W)
    | MAbsent => None
    end.
  Fixpoint mask_width (m : mexpr) (W : nat) : nat :=
    match m with MZerosFill _ _ _ => W | MNot m' => mask_width m' W | MDropLast m' => pred (mask_width m' W) | MAbsent => W end.
End Model.

(* the key padding mask of a row of n real tokens followed by p pads *)
Definition mask_of (n p : nat) : list bool := repeat false n ++ repeat true p.
