(* C18 - denotation of the protocol IR gen/WorkersIR.v (regenerated from python/tak/self_play.py on
   every run by harness/workers_ir.py): the model's parameters (`denote`) and the guards of the
   protocol steps (`ir_step`) are READ from the IR here.  proofs/WorkersTie.v proves that for the IR
   of the current source they are the configuration `current` and the step function of
   model/Workers.v.  No proofs in this file. *)
From Coq Require Import ZArith List Bool.
From TV Require Import gen.WorkersIR model.Workers.
Import ListNotations.
Open Scope Z_scope.

Definition cmp_z (c : cmp) (a b : Z) : bool :=
  match c with
  | CLt => a <? b | CLe => a <=? b | CGt => a >? b | CGe => a >=? b | CEq => a =? b | CNe => negb (a =? b)
  end.
Definition cmp_eqb (a b : cmp) : bool :=
  match a, b with
  | CLt, CLt | CLe, CLe | CGt, CGt | CGe, CGe | CEq, CEq | CNe, CNe => true
  | _, _ => false
  end.
(* Queue(maxsize = a*workers + b) *)
Definition bound (p : nat * nat) (w : nat) : nat := (fst p * w + snd p)%nat.

(* does the parent raise for a process with this exit code (None = still alive)? *)
Definition raises (t : exit_test) (code : option Z) : bool :=
  match t with
  | ExitNotIn healthy => negb (existsb (opt_z_eqb code) healthy)
  | ExitNotNoneAnd c k => match code with Some x => cmp_z c x k | None => false end
  end.

(* The model distinguishes only zero and non-zero exit statuses (bad_exit): sys.exit(k), k <> 0, is status 1 *)
Definition norm_status (k : Z) : Z := if k =? 0 then 0 else 1.

(* FRaise stands for ANY exception that ends run_job (every BaseException): one that a clause of entrypoint's
   try catches exits with that clause's status, one that no clause catches exits 1 (multiprocessing).  The
   status a failing worker is guaranteed to leave is therefore non-zero only if no clause leads to status 0. *)
Definition exception_status (ir : workers_ir_t) : Z :=
  if forallb (fun h => negb (snd h =? 0)) (ir_other_handlers ir) then norm_status (ir_exit_status ir) else 0.

Definition stop_put_block (ir : workers_ir_t) : option bool :=
  match ir_stop ir with SPuts _ _ b :: _ => Some b | _ => None end.
Definition stop_puts (ir : workers_ir_t) : option (nat * nat) :=
  match ir_stop ir with SPuts a b _ :: _ => Some (a, b) | _ => None end.
Definition stop_join (ir : workers_ir_t) : option join_kind :=
  match ir_stop ir with [_; _; SJoin k] => Some k | _ => None end.

(* ---- the protocol steps with every guard read from the IR ------------------------------ *)
Definition ir_step (ir : workers_ir_t) (e : event) (s : state) : option state :=
  let p := par s in
  let guard := cmp_z (fst (ir_dispatch_guard ir)) (Z.of_nat (todo p)) (snd (ir_dispatch_guard ir)) in
  let cmd_room := Nat.ltb (length (cmd s)) (bound (ir_cmd_bound ir) (nworkers s)) in
  match e with
  | EPut =>                      (* while todo <cmp> k: cmd.put(next_id, block=False); next_id += 1; todo -= 1 *)
      match pc p with
      | PFilling =>
          if guard && cmd_room
          then Some (mkS (ws s) (cmd s ++ [Some (next_id p)]) (games s) (shutdown s) (rdead s)
                         (mkP PFilling (outcome p) (target p)
                              (if existsb (fun d => match d with DDecTodo => true | _ => false end) (ir_dispatch_body ir)
                               then Nat.pred (todo p) else todo p)
                              (collected p) (next_id p + 1)))
          else None
      | _ => None
      end
  | EFull =>                     (* except queue.Full: break | continue *)
      match pc p with
      | PFilling =>
          if guard && negb cmd_room
          then Some (set_pc s (match ir_on_full ir with FullBreak => PWaiting | FullContinue => PFilling end))
          else None
      | _ => None
      end
  | EFillEnd =>                  (* the loop condition is false *)
      match pc p with
      | PFilling => if guard then None else Some (set_pc s PWaiting)
      | _ => None
      end
  | ETimeout =>                  (* except queue.Empty: for p in processes: if <exit test>: raise *)
      match pc p with
      | PWaiting =>
          if existsb (fun st => raises (ir_exit_test ir) (exit_code st)) (ws s) && ir_raise_on_bad ir
          then Some (mkS (if ir_kill_all_and_reraise ir then map kill_one (ws s) else ws s) (cmd s) (games s) (shutdown s)
                         (rdead s || existsb is_reading (ws s))
                         (mkP PBetween ORaised (target p) (todo p) (collected p) (next_id p)))
          else Some (set_pc s PFilling)
      | _ => None
      end
  | WFinish w =>                 (* games.put(log) on a queue bounded by ir_games_bound *)
      match nth_error (ws s) w with
      | Some (Playing id) =>
          if Nat.ltb (length (games s)) (bound (ir_games_bound ir) (nworkers s))
          then Some (mkS (upd w Idle (ws s)) (cmd s) (games s ++ [GGame id]) (shutdown s) (rdead s) p)
          else None
      | _ => None
      end
  | EStopPut =>
      match pc p with
      | PStopPut (S k) =>
          if cmd_room
          then Some (mkS (ws s) (cmd s ++ [None]) (games s) (shutdown s) (rdead s)
                         (mkP (PStopPut k) (outcome p) (target p) (todo p) (collected p) (next_id p)))
          else None
      | _ => None
      end
  | EStopFull =>                 (* only a non-blocking put can raise queue.Full *)
      match pc p, stop_put_block ir with
      | PStopPut (S _), Some false => if cmd_room then None else Some (set_pc s PStopFailed)
      | _, _ => None
      end
  | EStop =>                     (* one sentinel per worker *)
      match pc p, stop_puts ir with
      | PBetween, Some n => Some (set_pc s (PStopPut (bound n (nworkers s))))
      | _, _ => None
      end
  | EJoinTimeout =>
      match pc p, stop_join ir with
      | PJoining, Some JoinDeadline =>
          Some (mkS (map kill_one (ws s)) (cmd s) (games s) (shutdown s) (rdead s || existsb is_reading (ws s))
                    (mkP PStopped (outcome p) (target p) (todo p) (collected p) (next_id p)))
      | _, _ => None
      end
  | FRaise w =>                  (* except Exception: ...; sys.exit(k) - then the epilogue if it is in `finally` *)
      match nth_error (ws s) w with
      | Some (Exited _) | None => None
      | Some _ =>
          match ir_epilogue_place ir with
          | InTry => Some (set_w s w (Exited (exception_status ir)))
          | InFinally => Some (set_w s w Done)      (* waits for shutdown before it exits *)
          end
      end
  | _ => step current e s        (* steps without a source-level parameter *)
  end.

Fixpoint ir_run (ir : workers_ir_t) (tr : list event) (s : state) : option state :=
  match tr with
  | [] => Some s
  | e :: tr' => match ir_step ir e s with Some s' => ir_run ir tr' s' | None => None end
  end.
(* reachable by the IR-denoted protocol from n starting workers *)
Definition ir_reachable (ir : workers_ir_t) (s : state) : Prop := exists n tr, ir_run ir tr (init n) = Some s.

(* ---- the model's parameters ------------------------------------------------------------- *)
Definition dstep_eqb (a b : dstep) : bool :=
  match a, b with DPut x, DPut y => Bool.eqb x y | DIncNextId, DIncNextId | DDecTodo, DDecTodo => true | _, _ => false end.
Definition rstep_eqb (a b : rstep) : bool :=
  match a, b with RGet x t, RGet y u => Bool.eqb x y && opt_z_eqb t u | RAppend, RAppend => true | _, _ => false end.
Definition wstep_eqb (a b : wstep) : bool :=
  match a, b with
  | WsGet x, WsGet y | WsPut x, WsPut y => Bool.eqb x y
  | WsNoneBreak, WsNoneBreak | WsPlay, WsPlay => true
  | _, _ => false
  end.
Definition epi_eqb (a b : epi) : bool :=
  match a, b with EpiClose, EpiClose | EpiJoinThread, EpiJoinThread | EpiShutdownWait, EpiShutdownWait => true | _, _ => false end.
Fixpoint list_eqb {A} (eqb : A -> A -> bool) (a b : list A) : bool :=
  match a, b with
  | [], [] => true
  | x :: a', y :: b' => eqb x y && list_eqb eqb a' b'
  | _, _ => false
  end.
Definition pair_eqb (a b : nat * nat) : bool := Nat.eqb (fst a) (fst b) && Nat.eqb (snd a) (snd b).

(* the order of the steps and the facts that have no parameter in model/Workers.v *)
Definition structure_ok (ir : workers_ir_t) : bool :=
  ir_spawn ir && pair_eqb (ir_procs ir) (1, 0)%nat && ir_started_all ir
  && cmp_eqb (ir_outer_guard ir) CLt
  && list_eqb dstep_eqb (ir_dispatch_body ir) [DPut false; DIncNextId; DDecTodo]
  && match ir_recv_body ir with [RGet true (Some t); RAppend] => 0 <? t | _ => false end
  && ir_raise_on_bad ir && ir_kill_all_and_reraise ir && ir_returns_logs ir
  && match ir_stop ir with [SPuts 1 0 _; SSetShutdown; SJoin _] => true | _ => false end
  && ir_pmg_finally_stop ir && ir_factory_first ir
  && list_eqb wstep_eqb (ir_worker_loop ir) [WsGet true; WsNoneBreak; WsPlay; WsPut true]
  && list_eqb epi_eqb (ir_epilogue ir) [EpiClose; EpiJoinThread; EpiShutdownWait]
  && ir_catches_exception ir.

(* the guards that model/Workers.v hard-wires *)
Definition guards_ok (ir : workers_ir_t) : bool :=
  pair_eqb (ir_cmd_bound ir) (2, 0)%nat && pair_eqb (ir_games_bound ir) (1, 0)%nat
  && cmp_eqb (fst (ir_dispatch_guard ir)) CGt && (snd (ir_dispatch_guard ir) =? 0)
  && match ir_on_full ir with FullBreak => true | FullContinue => false end
  && match ir_exit_test ir with
     | ExitNotIn [Some 0; None] | ExitNotIn [None; Some 0] | ExitNotNoneAnd CNe 0 => true
     | _ => false
     end
  && match stop_put_block ir with Some false => true | _ => false end
  && match ir_epilogue_place ir with InTry => true | InFinally => false end.

(* The configuration of model/Workers.v the source denotes. *)
Definition denote (ir : workers_ir_t) : option config :=
  if structure_ok ir && guards_ok ir
  then Some (mkC (exception_status ir)
                 (match stop_join ir with Some JoinDeadline => true | _ => false end))
  else None.
