(* Executable model of python/tak/mcts.py: Node, MCTS.analyze_tree / descend /
   populate / update, Node.policy_probs (the inputs handed to the solver) and
   select_root_move.  No proofs in this file.

   Values and priors are exact rationals (Q).  External behaviour enters as
   data, never as an axiom:
     - the evaluator is an INPUT STREAM `list eval`; one element (raw prior
       vector, value) is consumed by every populate of a non-terminal leaf;
       an exhausted stream answers ([], 0);
     - the sampler (torch.multinomial in descend) is a CHOICE STREAM: one
       list of child indices (the descent path) per simulation;
     - the root noise (Dirichlet sample) is `noise : option (list Q)`,
       None = root_noise_alpha is None;
     - cutoff_prob, root_noise_mix are Section variables.
   One simulation = `simulate`, structurally recursive on the choice list: on
   the way down it follows the choices (descend), at the leaf it does what
   populate does, on the way back what update does (the value handed to the
   parent is negated).  The field `n_raw` is ghost state: the (possibly
   noise-mixed) prior vector the node was expanded with; Python does not keep
   it, the invariant of C08 is stated against it. *)
From Coq Require Import ZArith QArith Qabs List Bool.
From TV Require Import model.Tak model.Road.
Import ListNotations.
Open Scope Q_scope.

(* mcts.Node: position, move, v_zero, value, simulations, child_probs, children
   (+ ghost n_raw).  child_probs = None is []. *)
Inductive node :=
  Node (pos : position) (mov : option mv) (v0 value : Q) (sims : nat)
       (raw probs : list Q) (kids : option (list node)).

Definition n_pos n := match n with Node p _ _ _ _ _ _ _ => p end.
Definition n_move n := match n with Node _ m _ _ _ _ _ _ => m end.
Definition n_v0 n := match n with Node _ _ v _ _ _ _ _ => v end.
Definition n_value n := match n with Node _ _ _ v _ _ _ _ => v end.
Definition n_sims n := match n with Node _ _ _ _ s _ _ _ => s end.
Definition n_raw n := match n with Node _ _ _ _ _ r _ _ => r end.
Definition n_probs n := match n with Node _ _ _ _ _ _ q _ => q end.
Definition n_kids n := match n with Node _ _ _ _ _ _ _ k => k end.

(* Node(position=p, move=m) *)
Definition fresh (p : position) (m : option mv) : node := Node p m 0 0 0 [] [] None.
Definition root (p : position) : node := fresh p None.

Fixpoint upd_nth {A} (l : list A) (i : nat) (a : A) : list A :=
  match l, i with
  | [], _ => []
  | _ :: t, O => a :: t
  | h :: t, S i => h :: upd_nth t i a
  end.

Definition sumn (l : list nat) : nat := fold_right Nat.add 0%nat l.
Definition sumq (l : list Q) : Q := fold_right Qplus 0 l.
Definition qnat (k : nat) : Q := inject_Z (Z.of_nat k).

(* the outcome populate() writes into v_zero when winner() gives a reason:
   +1 the side to move has won, -1 the other side, 0 a draw *)
Definition terminal (p : position) : option Q :=
  match winner p with
  | (_, None) => None
  | (Some c, Some _) => Some (if color_eqb c (to_move p) then 1 else -1)
  | (None, Some _) => Some 0
  end.

Definition eval := (list Q * Q)%type.
Definition next_eval (evs : list eval) : eval * list eval :=
  match evs with
  | [] => (([], 0), [])
  | e :: r => (e, r)
  end.

(* one accepted candidate: move, its prior, the child position *)
Definition cand := (mv * Q * position)%type.
Definition c_mv (c : cand) : mv := fst (fst c).
Definition c_prior (c : cand) : Q := snd (fst c).
Definition c_pos (c : cand) : position := snd c.

Section Search.
  Variable cutoff : Q.     (* Config.cutoff_prob as the comparison sees it *)
  Variable mix : Q.        (* Config.root_noise_mix *)

  (* raw_probs[: n_moves_for_size(size)], then the root-noise mix *)
  Definition priors (p : position) (noise : option (list Q)) (raw : list Q) : list Q :=
    let r := firstn (length (table (size p))) raw in
    match noise with
    | None => r
    | Some nz => map (fun zr => mix * fst zr + (1 - mix) * snd zr) (combine nz r)
    end.

  (* ids with prior >= cutoff, in id order, that Position.move accepts *)
  Definition accepted (p : position) (pri : list Q) : list cand :=
    flat_map (fun mq : mv * Q =>
                if Qle_bool cutoff (snd mq) then
                  match move p (fst mq) with
                  | Some c => [(fst mq, snd mq, c)]
                  | None => []
                  end
                else [])
             (combine (table (size p)) pri).

  (* child_probs = raw_probs[valid]; child_probs /= child_probs.sum()
     (Qred only normalises the representation of the fractions: Qred q == q) *)
  Definition renorm (l : list Q) : list Q :=
    let s := Qred (sumq l) in map (fun x => Qred (x / s)) l.

  Definition child_of (c : cand) : node := fresh (c_pos c) (Some (c_mv c)).

  (* the hypothesis of C08/C09 on the evaluator's answer at a position *)
  Definition live (p : position) (pri : list Q) : bool :=
    match accepted p pri with [] => false | _ => true end.

  (* one simulation.  Result: the new node, the value credited to THIS node
     (what update() adds to node.value), the rest of the evaluator stream.
     Ill-formed choices (no such child, path ends at an expanded node) leave
     the node unchanged and credit 0; theorems state `valid`. *)
  Fixpoint simulate (cs : list nat) (n : node) (noise : option (list Q)) (evs : list eval)
    {struct cs} : node * Q * list eval :=
    match n with
    | Node p m v0 value sims raw probs kids =>
      match kids with
      | None =>
        match terminal p with
        | Some o => (Node p m o (value + o) (S sims) raw probs None, o, evs)
        | None =>
          let '(e, evs') := next_eval evs in
          let pri := priors p noise (fst e) in
          let acc := accepted p pri in
          let v := snd e in
          (Node p m v (value + v) (S sims) pri (renorm (map c_prior acc))
                (Some (map child_of acc)), v, evs')
        end
      | Some ks =>
        match cs with
        | [] => (n, 0, evs)
        | c :: rest =>
          match nth_error ks c with
          | None => (n, 0, evs)
          | Some k =>
            let '(k', vk, evs') := simulate rest k None evs in
            let v := - vk in
            (Node p m v0 (value + v) (S sims) raw probs (Some (upd_nth ks c k')), v, evs')
          end
        end
      end
    end.

  (* k simulations, one choice list each *)
  Fixpoint run (css : list (list nat)) (n : node) (noise : option (list Q)) (evs : list eval)
    : node * list eval :=
    match css with
    | [] => (n, evs)
    | cs :: r => let '(n', _, evs') := simulate cs n noise evs in run r n' noise evs'
    end.

  (* MCTS.analyze_tree with time_limit = 0 and simulation_limit = limit > 0:
     simulate while tree.simulations < limit *)
  Fixpoint analyze (limit : nat) (css : list (list nat)) (n : node) (noise : option (list Q))
           (evs : list eval) : node * list eval :=
    match css with
    | [] => (n, evs)
    | cs :: r =>
      if (limit <=? n_sims n)%nat then (n, evs)
      else let '(n', _, evs') := simulate cs n noise evs in analyze limit r n' noise evs'
    end.
End Search.

(* ---------- Node.policy_probs: what is handed to the solver ---------- *)
(* q of a child: minus its mean value if visited, else the parent's v_zero *)
Definition q_of (v0 : Q) (k : node) : Q :=
  match n_sims k with
  | O => v0
  | S _ => - n_value k / qnat (n_sims k)
  end.

(* lambda_n = C * sqrt N / (N + K); Q has no square root: the model carries
   lambda^2 = C^2 N / (N+K)^2 *)
Definition lambda_sq (C : Q) (N K : nat) : Q :=
  C * C * qnat N / (qnat (N + K) * qnat (N + K)).

Record pinputs := mkPin { pi_prior : list Q; pi_q : list Q; pi_lambda_sq : Q; pi_N : nat; pi_K : nat }.

Definition policy_inputs (n : node) (C : Q) : option pinputs :=
  match n with
  | Node _ _ v0 _ sims _ probs (Some ks) =>
    Some (mkPin probs (map (q_of v0) ks) (lambda_sq C sims (length ks)) sims (length ks))
  | _ => None
  end.

Section Policy.
  Variable solve : pinputs -> list Q.     (* tak_ext.solve_policy, see C10 *)
  (* Node.policy_probs *)
  Definition policy_probs (n : node) (C : Q) : list Q :=
    match n_sims n with
    | O => n_probs n
    | S _ => match policy_inputs n C with Some i => solve i | None => n_probs n end
    end.
End Policy.

(* select_root_move: tree.children[child].move for the sampled index *)
Definition select_root_move (n : node) (choice : nat) : option mv :=
  match n_kids n with
  | Some ks => match nth_error ks choice with Some k => n_move k | None => None end
  | None => None
  end.

(* the solver calls one descent makes, in call order: policy_probs at every
   expanded node of the path, in the state before the simulation *)
Fixpoint descent_inputs (cs : list nat) (n : node) (C : Q) : list pinputs :=
  match n_kids n with
  | None => []
  | Some ks =>
    (match n_sims n, policy_inputs n C with
     | S _, Some i => [i]
     | _, _ => []            (* simulations == 0: policy_probs returns child_probs, no solver call *)
     end) ++
    match cs with
    | [] => []
    | c :: rest => match nth_error ks c with Some k => descent_inputs rest k C | None => [] end
    end
  end.

(* ================= support for the generated correspondence ================= *)
(* a float given by integer mantissa and binary exponent: m * 2^e, exactly *)
Definition f2q (m e : Z) : Q :=
  if (0 <=? e)%Z then inject_Z (m * 2 ^ e) else Qmake m (Z.to_pos (2 ^ (- e))).
Definition fq (me : Z * Z) : Q := f2q (fst me) (snd me).

(* a prior vector of length n: default d everywhere, except the listed ids *)
Fixpoint set_ids (l : list (Z * Z)) (ids : list (Z * (Z * Z))) (i : Z) : list (Z * Z) :=
  match l with
  | [] => []
  | h :: t =>
    (match find (fun kv => (fst kv =? i)%Z) ids with Some kv => snd kv | None => h end)
      :: set_ids t ids (i + 1)
  end.
Definition sparse (n : Z) (d : Z * Z) (ids : list (Z * (Z * Z))) : list Q :=
  map fq (set_ids (repeat d (Z.to_nat n)) ids 0%Z).

(* the tree as observed on the implementation: positions as injective codes.
   OUn: a child that has never been touched (no statistics, no priors, no
   children), given by a checksum of its position code and its move id *)
Inductive onode :=
| ONode (code : list Z) (mov : option mv) (v0 value : Q) (sims : Z) (probs : list Q)
        (kids : option (list onode))
| OUn (chk : Z) (id : Z).

(* board as one number: base-7 digits, per square the pieces (1..6, top first) then 0 *)
Definition piece_code (pc : piece) : Z :=
  (match pcolor pc with White => 0 | Black => 3 end +
   match pkind pc with Flat => 1 | Standing => 2 | Capstone => 3 end)%Z.
Definition board_code (b : list stack) : Z :=
  fold_right (fun d acc => (d + 7 * acc)%Z) 0%Z
             (flat_map (fun s => map piece_code s ++ [0%Z]) b).
Definition pos_code (p : position) : list Z :=
  [size p; wstones p; wcaps p; bstones p; bcaps p; ply p; board_code (board p)].

Definition qeqb (a b : Q) : bool := Qeq_bool a b.
(* |obs - model| <= tol * |model| *)
Definition qclose (tol obs model : Q) : bool := Qle_bool (Qabs (obs - model)) (tol * Qabs model).
Fixpoint all2 {A B} (f : A -> B -> bool) (la : list A) (lb : list B) : bool :=
  match la, lb with
  | [], [] => true
  | a :: ta, b :: tb => f a b && all2 f ta tb
  | _, _ => false
  end.

(* checksum of a position code (the full code is compared at every visited node) *)
Definition code_chk (c : list Z) : Z :=
  (fold_left (fun acc d => (acc * 1000003 + d) mod 2147483647) c 7)%Z.

Definition pristine (n : node) : bool :=
  match n with
  | Node _ _ v0 value sims _ probs kids =>
    qeqb v0 0 && qeqb value 0 && Nat.eqb sims 0 &&
    match probs with [] => true | _ => false end &&
    match kids with None => true | Some _ => false end
  end.

(* model node against observed node: sims, value, v_zero, move, position exact;
   child priors within tol relative.  tbl = the id table of the board size *)
Fixpoint node_agrees (tol : Q) (tbl : list mv) (n : node) (o : onode) {struct n} : bool :=
  match o with
  | OUn chk id =>
    pristine n && (code_chk (pos_code (n_pos n)) =? chk)%Z &&
    opt_eqb mv_eqb (n_move n) (if (id <? 0)%Z then None else nth_error tbl (Z.to_nat id))
  | ONode code om ov0 ovalue osims oprobs okids =>
    match n with
    | Node p m v0 value sims _ probs kids =>
      list_eqb Z.eqb (pos_code p) code && opt_eqb mv_eqb m om &&
      qeqb v0 ov0 && qeqb value ovalue && (Z.of_nat sims =? osims)%Z &&
      all2 (fun a b => qclose tol b a) probs oprobs &&
      match kids, okids with
      | None, None => true
      | Some ks, Some oks =>
        (fix go (l : list node) (ol : list onode) : bool :=
           match l, ol with
           | [], [] => true
           | a :: t, b :: ot => node_agrees tol tbl a b && go t ot
           | _, _ => false
           end) ks oks
      | _, _ => false
      end
    end
  end.

(* one recorded solver call: q (float32, exact rationals), lambda_n as the
   rational of the binary64 value, and its bit patterns: binary64 as computed
   by policy_probs, binary32 as the native solver receives it *)
Definition ocall := (list Q * Q * (Z * Z))%type.
Definition oc_q (o : ocall) : list Q := fst (fst o).
Definition oc_lam (o : ocall) : Q := snd (fst o).
Definition oc_bits (o : ocall) : Z * Z := snd o.

(* the exact comparison of the multiplier is supplied by the correspondence:
   lamchk C_bits N K lam64_bits lam32_bits (model/LambdaF64.v lambda_agrees, a
   bit-exact binary64 / binary32 mirror of c*sqrt(N)/(N+K)); this file does not
   depend on the float model *)
Definition lamchk_t := Z -> Z -> Z -> Z -> Z -> bool.

(* q within 2^-23 relative of the exact quotient (one float32 ulp covers the
   float64 division followed by the rounding to float32); lambda BIT FOR BIT by
   lamchk (C as the rational for the model, Cb its binary64 pattern); the old
   test lambda^2 (N+K)^2 = C^2 N within 1e-12 relative stays as a sanity check
   that the recorded rational and the recorded bits belong together *)
Definition call_agrees (lamchk : lamchk_t) (C : Q) (Cb : Z) (i : pinputs) (o : ocall) : bool :=
  all2 (fun a b => qclose (1 # 8388608) b a) (pi_q i) (oc_q o) &&
  lamchk Cb (Z.of_nat (pi_N i)) (Z.of_nat (pi_K i)) (fst (oc_bits o)) (snd (oc_bits o)) &&
  (let nk := qnat (pi_N i + pi_K i) in
   qclose (1 # 1000000000000) (oc_lam o * oc_lam o * nk * nk) (C * C * qnat (pi_N i))) &&
  Qle_bool 0 (oc_lam o).

(* replay of a whole search that also collects, per simulation, the solver
   inputs of the descent and compares them with the recorded calls *)
Fixpoint replay_calls (lamchk : lamchk_t) (cutoff mix C : Q) (Cb : Z) (css : list (list nat))
         (calls : list (list ocall))
         (n : node) (noise : option (list Q)) (evs : list eval) : bool * node * list eval :=
  match css, calls with
  | [], [] => (true, n, evs)
  | cs :: r, oc :: rc =>
    let ok := all2 (call_agrees lamchk C Cb) (descent_inputs cs n C) oc in
    let '(n', _, evs') := simulate cutoff mix cs n noise evs in
    let '(ok', n'', evs'') := replay_calls lamchk cutoff mix C Cb r rc n' noise evs' in
    (ok && ok', n'', evs'')
  | _, _ => (false, n, evs)
  end.

(* a whole observed history: the root position, then one phase per call of
   analyze_tree (on the tree itself, path = [], or on the subtree reached by
   `path`), each with its simulation limit, the noise sample the Dirichlet
   stand-in would hand out, the recorded descent paths and (C09) the recorded
   solver calls of each descent *)
(* a policy query made after a phase (C09): path of the queried node from the
   FIRST root, the C of the query, the solver call it made (None = no call) *)
Definition oquery := (list Z * (Q * Z) * option ocall)%type.   (* path, (C, its binary64 pattern), call *)

Record phase := mkPhase {
  ph_path : list Z; ph_limit : Z; ph_noise : option (list Q);
  ph_css : list (list Z); ph_calls : list (list ocall); ph_queries : list oquery }.

Definition natl (l : list Z) : list nat := map Z.to_nat l.

Fixpoint subtree (n : node) (path : list Z) : option node :=
  match path with
  | [] => Some n
  | c :: r =>
    match n_kids n with
    | Some ks => match nth_error ks (Z.to_nat c) with Some k => subtree k r | None => None end
    | None => None
    end
  end.

(* the number of recorded descents must be the number of simulations the loop
   of analyze_tree makes: limit - simulations (0 if already there) *)
Fixpoint run_phases (cutoff mix : Q) (phs : list phase) (n : node) (evs : list eval)
  : option (node * list eval) :=
  match phs with
  | [] => Some (n, evs)
  | ph :: r =>
    match subtree n (ph_path ph) with
    | None => None
    | Some t =>
      let limit := Z.to_nat (ph_limit ph) in
      if Nat.eqb (length (ph_css ph)) (limit - n_sims t) then
        let '(t', evs') := analyze cutoff mix limit (map natl (ph_css ph)) t (ph_noise ph) evs in
        run_phases cutoff mix r t' evs'
      else None
    end
  end.

(* C08: replay the streams, compare the final tree node for node; every
   recorded evaluator answer must have been consumed *)
Definition check_search (cutoff mix tol : Q) (p0 : position) (phs : list phase) (evs : list eval)
           (obs : onode) : bool :=
  match run_phases cutoff mix phs (root p0) evs with
  | Some (n, []) => node_agrees tol (table (size p0)) n obs
  | _ => false
  end.

Definition node_view (n : node) :=
  (n_sims n, Qred (n_value n), Qred (n_v0 n), map Qred (n_probs n),
   match n_kids n with
   | Some ks => Some (map (fun k => (n_move k, n_sims k, Qred (n_value k))) ks)
   | None => None
   end).

(* where the model's tree and the observed one first differ: path from the
   tree and a field code - 1 position, 2 move, 3 v_zero, 4 value, 5 visits,
   6 child priors, 7 has-children / number of children, 8 an untouched child
   carries statistics, 9 the children's moves *)
Definition omove (tbl : list mv) (o : onode) : option mv :=
  match o with
  | ONode _ m _ _ _ _ _ => m
  | OUn _ id => if (id <? 0)%Z then None else nth_error tbl (Z.to_nat id)
  end.

Fixpoint node_diff (tol : Q) (tbl : list mv) (n : node) (o : onode) {struct n} : option (list Z * Z) :=
  match o with
  | OUn chk id =>
    if negb (opt_eqb mv_eqb (n_move n) (omove tbl o)) then Some ([], 2%Z)
    else if negb (code_chk (pos_code (n_pos n)) =? chk)%Z then Some ([], 1%Z)
    else if negb (pristine n) then Some ([], 8%Z) else None
  | ONode code om ov0 ovalue osims oprobs okids =>
    match n with
    | Node p m v0 value sims _ probs kids =>
      if negb (opt_eqb mv_eqb m om) then Some ([], 2%Z)
      else if negb (list_eqb Z.eqb (pos_code p) code) then Some ([], 1%Z)
      else
        let own :=
            if negb (Z.of_nat sims =? osims)%Z then Some ([], 5%Z)
            else if negb (qeqb v0 ov0) then Some ([], 3%Z)
            else if negb (qeqb value ovalue) then Some ([], 4%Z)
            else if negb (all2 (fun a b => qclose tol b a) probs oprobs) then Some ([], 6%Z)
            else None in
        match kids, okids with
        | None, None => own
        | Some ks, Some oks =>
          if negb (Nat.eqb (length ks) (length oks)) then Some ([], 7%Z)
          else if negb (all2 (fun a b => opt_eqb mv_eqb (n_move a) (omove tbl b)) ks oks) then Some ([], 9%Z)
          else
            (* the deepest difference first: a child's wrong statistics explain the parent's *)
            match (fix go (l : list node) (ol : list onode) (i : Z) : option (list Z * Z) :=
                     match l, ol with
                     | a :: t, b :: ot =>
                       match node_diff tol tbl a b with
                       | Some (pth, f) => Some (i :: pth, f)
                       | None => go t ot (i + 1)%Z
                       end
                     | _, _ => None
                     end) ks oks 0%Z with
            | Some d => Some d
            | None => own
            end
        | _, _ => Some ([], 7%Z)
        end
    end
  end.

Definition mv_id (n : Z) (m : option mv) : Z :=
  match m with
  | Some m => match encode_move n m with Some i => i | None => (-1)%Z end
  | None => (-2)%Z
  end.

(* the model's view for a replay: first difference (path, field), then the
   model's node there: visits, value, v_zero, outcome by the rules, children's
   moves as move ids; last the evaluator answers left over *)
Definition show_search (cutoff mix : Q) (p0 : position) (phs : list phase) (evs : list eval) (obs : onode) :=
  match run_phases cutoff mix phs (root p0) evs with
  | Some (n, rest) =>
    let d := node_diff (1 # 100000) (table (size p0)) n obs in
    Some (d,
          match d with
          | Some (pth, _) =>
            match subtree n pth with
            | Some t => Some (n_sims t, Qred (n_value t), Qred (n_v0 t),
                              match terminal (n_pos t) with Some o => Some (Qred o) | None => None end,
                              match n_kids t with Some ks => Some (map (fun k => mv_id (size p0) (n_move k)) ks) | None => None end)
            | None => None
            end
          | None => None
          end,
          length rest)
  | None => None
  end.

(* C09: the same replay, comparing the solver inputs of every descent.  The
   whole tree is kept: analyze_tree on a child updates that subtree in place
   and leaves the statistics of the nodes above it alone, exactly as the code
   does, so that the policy of the first root can be asked for again after the
   search has continued below one of its children. *)
Fixpoint graft (n : node) (path : list Z) (t : node) : node :=
  match path with
  | [] => t
  | c :: r =>
    match n with
    | Node p m v0 value sims raw probs kids =>
      match kids with
      | Some ks =>
        match nth_error ks (Z.to_nat c) with
        | Some k => Node p m v0 value sims raw probs (Some (upd_nth ks (Z.to_nat c) (graft k r t)))
        | None => n
        end
      | None => n
      end
    end
  end.

(* a query must call the solver exactly when the node has children and has
   been visited, with the model's policy_inputs for the C of the query and the
   node's CURRENT statistics *)
Definition query_agrees (lamchk : lamchk_t) (whole : node) (q : oquery) : bool :=
  let '(path, (C, Cb), oc) := q in
  match subtree whole path with
  | None => false
  | Some t =>
    match n_sims t, policy_inputs t C, oc with
    | S _, Some i, Some c => call_agrees lamchk C Cb i c
    | S _, Some _, None => false
    | _, _, None => true
    | _, _, Some _ => false
    end
  end.

(* result: all descents and queries agree; the queries that do not (phase
   index, path, C, the model's q / lambda^2 / N / K at that moment); the
   whole tree; the path of the current tree; the evaluator answers left *)
Definition qfail := (Z * list Z * Q * option (list Q * Q * nat * nat))%type.

Fixpoint run_phases_calls (lamchk : lamchk_t) (cutoff mix C : Q) (Cb : Z) (phs : list phase) (j : Z) (whole : node) (cur : list Z)
         (evs : list eval) : option (bool * list qfail * node * list Z * list eval) :=
  match phs with
  | [] => Some (true, [], whole, cur, evs)
  | ph :: r =>
    let cur' := cur ++ ph_path ph in
    match subtree whole cur' with
    | None => None
    | Some t =>
      let '(ok, t', evs') :=
          replay_calls lamchk cutoff mix C Cb (map natl (ph_css ph)) (ph_calls ph) t (ph_noise ph) evs in
      let whole' := graft whole cur' t' in
      let bad := flat_map (fun q : oquery =>
                             if query_agrees lamchk whole' q then []
                             else [(j, fst (fst q), Qred (fst (snd (fst q))),
                                    match subtree whole' (fst (fst q)) with
                                    | Some t0 => match policy_inputs t0 (fst (snd (fst q))) with
                                                 | Some i => Some (map Qred (pi_q i), Qred (pi_lambda_sq i), pi_N i, pi_K i)
                                                 | None => None
                                                 end
                                    | None => None
                                    end)]) (ph_queries ph) in
      match run_phases_calls lamchk cutoff mix C Cb r (j + 1)%Z whole' cur' evs' with
      | Some (ok', bad', w, c, e) =>
        Some (ok && match bad with [] => true | _ => false end && ok', bad ++ bad', w, c, e)
      | None => None
      end
    end
  end.

(* final = the solver call made by select_root_move on the final tree, the
   sampled index and the move it returned *)
Definition check_calls (lamchk : lamchk_t) (cutoff mix C : Q) (Cb : Z) (p0 : position) (phs : list phase) (evs : list eval)
           (final : option (ocall * Z * mv)) : bool :=
  match run_phases_calls lamchk cutoff mix C Cb phs 0%Z (root p0) [] evs with
  | Some (ok, _, whole, cur, _) =>
    match subtree whole cur with
    | None => false
    | Some n =>
      ok &&
      match final with
      | None => true
      | Some (oc, choice, m) =>
        match policy_inputs n C with
        | Some i => call_agrees lamchk C Cb i oc
        | None => false
        end &&
        opt_eqb mv_eqb (select_root_move n (Z.to_nat choice)) (Some m) &&
        match move (n_pos n) m with Some _ => true | None => false end
      end
    end
  | None => false
  end.

(* model view for a replay: everything agrees?; the first queries that do not;
   visits / value / v_zero of the current tree *)
Definition show_calls (lamchk : lamchk_t) (cutoff mix C : Q) (Cb : Z) (p0 : position) (phs : list phase) (evs : list eval) :=
  match run_phases_calls lamchk cutoff mix C Cb phs 0%Z (root p0) [] evs with
  | Some (ok, bad, whole, cur, _) =>
    Some (ok, firstn 3 bad,
          match subtree whole cur with
          | Some n => Some (n_sims n, Qred (n_value n), Qred (n_v0 n))
          | None => None
          end)
  | None => None
  end.
