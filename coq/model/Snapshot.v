(* C19 - model of the snapshot protocol of tak/alphazero/hooks/saving.py,
   the resume path of tak/alphazero/trainer.py (load_or_init_model, load_state,
   xformer.loading.load_snapshot), the replay window of TrainingRun.train_step
   and the serve_mode / train_mode switch.  Executable definitions only; the
   proofs are in proofs/SnapshotProofs.v.

   The save procedure itself is NOT written here: it is gen/SaveIR.v
   (regenerated from the source by harness/save_ir.py), instantiated with the
   step number and executed over the file-system model below.

   Granularity: a crash is a prefix of the list of primitive operations; an
   operation that completed persists (process crash, no power-loss
   reordering).  A file write is two operations: OTruncate (the file exists
   and holds a strict prefix of the bytes, possibly nothing) and OComplete. *)
From Coq Require Import String.
From Coq Require Import ZArith List Bool Arith.
From TV Require Import gen.SaveIR gen.TrainIR.
Import ListNotations.
Open Scope list_scope.
Open Scope Z_scope.

(* ---- names and paths below the run directory (depth <= 2) ---------------- *)
Inductive name := Step (n : Z) | StepTmp (n : Z) | Latest | LatestTmp.
(* Step n = "step_%06d" % n, StepTmp n = that + ".tmp", Latest = "latest",
   LatestTmp = "latest.tmp": pairwise different strings for every n >= 0
   (%06d pads, never truncates). *)
Inductive path := Top (d : name) | Sub (d : name) (f : string).

Definition name_eqb (a b : name) : bool :=
  match a, b with
  | Step x, Step y => Z.eqb x y
  | StepTmp x, StepTmp y => Z.eqb x y
  | Latest, Latest => true
  | LatestTmp, LatestTmp => true
  | _, _ => false
  end.
Definition path_eqb (a b : path) : bool :=
  match a, b with
  | Top x, Top y => name_eqb x y
  | Sub x f, Sub y g => name_eqb x y && String.eqb f g
  | _, _ => false
  end.
Definition top (p : path) : name := match p with Top d => d | Sub d _ => d end.

Definition pname (n : Z) (p : pexp) : name :=
  match p with PFinal => Step n | PTmp => StepTmp n | PLatest => Latest | PLatestTmp => LatestTmp end.

Definition comp_eqb (a b : comp) : bool :=
  match a, b with
  | CModel, CModel | CConfig, CConfig | COpt, COpt | CReplay, CReplay | CElapsed, CElapsed => true
  | _, _ => false
  end.

Inductive outcome := Resumed (step : Z) | Scratch | Broken.
Definition outcome_eqb (a b : outcome) : bool :=
  match a, b with
  | Resumed x, Resumed y => Z.eqb x y
  | Scratch, Scratch => true
  | Broken, Broken => true
  | _, _ => false
  end.

Section FS.
  Context {B : Type}.      (* file contents (what torch.save / yaml.dump produced) *)

  Inductive content := Partial | Complete (b : B).
  Inductive node := Dir | File (c : content) | Link (t : name).   (* link targets are run_dir-relative names *)
  Definition fs := list (path * node).

  Fixpoint lookup (p : path) (s : fs) : option node :=
    match s with
    | [] => None
    | (q, v) :: r => if path_eqb q p then Some v else lookup p r
    end.
  Definition remove (p : path) (s : fs) : fs := filter (fun e => negb (path_eqb (fst e) p)) s.
  Definition set (p : path) (v : node) (s : fs) : fs := (p, v) :: remove p s.
  Definition remove_tree (d : name) (s : fs) : fs := filter (fun e => negb (name_eqb (top (fst e)) d)) s.
  Definition rekey (a b : name) (p : path) : path :=
    match p with
    | Top d => if name_eqb d a then Top b else p
    | Sub d f => if name_eqb d a then Sub b f else p
    end.
  Definition rename_tree (a b : name) (s : fs) : fs :=
    map (fun e => (rekey a b (fst e), snd e)) (remove_tree b s).
  Definition has_children (d : name) (s : fs) : bool :=
    existsb (fun e => match fst e with Sub d' _ => name_eqb d' d | Top _ => false end) s.

  (* follow symbolic links (os.path.exists / isdir / open all do); None = missing or dangling *)
  Fixpoint resolve (fuel : nat) (d : name) (s : fs) : option (name * node) :=
    match lookup (Top d) s with
    | None => None
    | Some (Link t) => match fuel with O => None | S f => resolve f t s end
    | Some v => Some (d, v)
    end.
  Definition link_fuel : nat := 8.
  Definition is_dir (d : name) (s : fs) : bool :=
    match resolve link_fuel d s with Some (_, Dir) => true | _ => false end.

  (* ---- primitive operations ------------------------------------------- *)
  Inductive op :=
  | MkDirs (d : name)                      (* os.makedirs(d, exist_ok=True) *)
  | RmTree (d : name)                      (* shutil.rmtree(d, ignore_errors=True) *)
  | OTruncate (d : name) (f : string)      (* open(d/f, "w") / start of torch.save *)
  | OComplete (d : name) (f : string) (b : B)   (* all bytes written, file closed *)
  | Rename (a b : name)                    (* os.rename *)
  | Unlink (d : name)                      (* os.unlink, FileNotFoundError propagates *)
  | UnlinkQuiet (d : name)                 (* os.unlink, FileNotFoundError swallowed *)
  | Symlink (t l : name)                   (* os.symlink(t, l) *)
  | Replace (a b : name).                  (* os.replace *)

  Definition do_rename (a b : name) (s : fs) : option fs :=
    if name_eqb a b then (match lookup (Top a) s with None => None | Some _ => Some s end) else
    match lookup (Top a) s with
    | None => None                                        (* FileNotFoundError *)
    | Some src =>
      match lookup (Top b) s, src with
      | None, _ => Some (rename_tree a b s)
      | Some Dir, Dir => if has_children b s then None else Some (rename_tree a b s)   (* ENOTEMPTY *)
      | Some Dir, _ => None                               (* IsADirectoryError *)
      | Some _, Dir => None                               (* NotADirectoryError *)
      | Some _, _ => Some (rename_tree a b s)             (* atomically replaces a file / link *)
      end
    end.

  Definition write_target (d : name) (f : string) (s : fs) : option path :=
    match resolve link_fuel d s with
    | Some (d', Dir) =>
      match lookup (Sub d' f) s with
      | None | Some (File _) => Some (Sub d' f)
      | Some _ => None
      end
    | _ => None
    end.

  (* None = the call raises: the process dies there, what was done persists *)
  Definition step_op (o : op) (s : fs) : option fs :=
    match o with
    | MkDirs d =>
      match lookup (Top d) s with
      | None => Some (set (Top d) Dir s)
      | Some Dir => Some s
      | Some (Link _) => if is_dir d s then Some s else None
      | Some (File _) => None
      end
    | RmTree d =>
      match lookup (Top d) s with
      | Some (File _) | Some (Link _) => Some s           (* not a directory / a link: error ignored *)
      | _ => Some (remove_tree d s)                       (* missing: nothing below it either *)
      end
    | OTruncate d f =>
      match write_target d f s with Some p => Some (set p (File Partial) s) | None => None end
    | OComplete d f b =>
      match write_target d f s with Some p => Some (set p (File (Complete b)) s) | None => None end
    | Rename a b => do_rename a b s
    | Replace a b => do_rename a b s
    | Unlink d =>
      match lookup (Top d) s with
      | None => None
      | Some Dir => None
      | Some _ => Some (remove (Top d) s)
      end
    | UnlinkQuiet d =>
      match lookup (Top d) s with
      | None => Some s
      | Some Dir => None
      | Some _ => Some (remove (Top d) s)
      end
    | Symlink t l =>
      match lookup (Top l) s with
      | None => Some (set (Top l) (Link t) s)
      | Some _ => None                                    (* FileExistsError *)
      end
    end.

  Fixpoint exec (ops : list op) (s : fs) : fs :=
    match ops with
    | [] => s
    | o :: r => match step_op o s with Some s' => exec r s' | None => s end
    end.
  Fixpoint exec_ok (ops : list op) (s : fs) : bool :=
    match ops with
    | [] => true
    | o :: r => match step_op o s with Some s' => exec_ok r s' | None => false end
    end.
  (* a crash after k completed operations *)
  Definition crash (k : nat) (ops : list op) (s : fs) : fs := exec (firstn k ops) s.

  (* ---- the save program of gen/SaveIR.v over this file system ----------- *)
  (* os.readlink(l) == os.path.basename(d), OSError (missing / not a link) -> False *)
  Definition published (l d : name) (s : fs) : bool :=
    match lookup (Top l) s with Some (Link t) => name_eqb t d | _ => false end.
  Fixpoint expand_stmt (n : Z) (data : comp -> B) (st : stmt) (s : fs) {struct st} : list op :=
    match st with
    | SIfNotIsDir p body =>
      if is_dir (pname n p) s then [] else
      (fix go (l : list stmt) (s : fs) {struct l} : list op :=
         match l with
         | [] => []
         | x :: r => let o := expand_stmt n data x s in (o ++ go r (exec o s))%list
         end) body s
    | SIfNotPublished l p body =>
      if published (pname n l) (pname n p) s && is_dir (pname n p) s then [] else
      (fix go (l : list stmt) (s : fs) {struct l} : list op :=
         match l with
         | [] => []
         | x :: r => let o := expand_stmt n data x s in (o ++ go r (exec o s))%list
         end) body s
    | SRmTree p => [RmTree (pname n p)]
    | SMkDirs p => [MkDirs (pname n p)]
    | SWrite d f c => [OTruncate (pname n d) f; OComplete (pname n d) f (data c)]
    | SRename a b => [Rename (pname n a) (pname n b)]
    | SUnlink p => [Unlink (pname n p)]
    | SUnlinkQuiet p => [UnlinkQuiet (pname n p)]
    | SSymlinkBase t l => [Symlink (pname n t) (pname n l)]
    | SReplace a b => [Replace (pname n a) (pname n b)]
    end.
  Fixpoint expand (n : Z) (data : comp -> B) (l : list stmt) (s : fs) : list op :=
    match l with
    | [] => []
    | x :: r => let o := expand_stmt n data x s in (o ++ expand n data r (exec o s))%list
    end.

  (* one save event: SavingHook.save_snapshot(state) with state.elapsed.step = sv_step and the
     serialised components sv_data.  Periodic saves, SAVE_NOW requests and the end-of-run save
     are all this call; a repeated save of one step is two events with the same step. *)
  Record save := mkSave { sv_step : Z; sv_data : comp -> B }.
  Definition history := list save.

  Definition save_ops_with (prog : list stmt) (s : fs) (sv : save) : list op :=
    expand (sv_step sv) (sv_data sv) prog s.
  Fixpoint hist_ops_with (prog : list stmt) (s : fs) (h : history) : list op :=
    match h with
    | [] => []
    | sv :: t => let o := save_ops_with prog s sv in (o ++ hist_ops_with prog (exec o s) t)%list
    end.
  Definition save_ops := save_ops_with save_prog.
  Definition hist_ops := hist_ops_with save_prog.

  (* the program before the F9 fix (translation of the original saving.py by the same translator) *)
  Definition save_prog_prefix : list stmt :=
    [ SMkDirs PFinal; SMkDirs PFinal;
      SWrite PFinal "model.pt" CModel; SWrite PFinal "config.yaml" CConfig; SWrite PFinal "opt.pt" COpt;
      SWrite PFinal "replay_buffer.pt" CReplay; SWrite PFinal "elapsed.yaml" CElapsed;
      SUnlinkQuiet PLatest; SSymlinkBase PFinal PLatest ].

  (* the first version of the fix (c2ddcaf, since amended): any existing step directory was kept,
     also one that `latest` does not designate (leftover of an interrupted run) *)
  Definition save_prog_c2ddcaf : list stmt :=
    [ SIfNotIsDir PFinal
        [ SRmTree PTmp; SMkDirs PTmp; SMkDirs PTmp;
          SWrite PTmp "model.pt" CModel; SWrite PTmp "config.yaml" CConfig; SWrite PTmp "opt.pt" COpt;
          SWrite PTmp "replay_buffer.pt" CReplay; SWrite PTmp "elapsed.yaml" CElapsed;
          SRename PTmp PFinal ];
      SUnlinkQuiet PLatestTmp; SSymlinkBase PFinal PLatestTmp; SReplace PLatestTmp PLatest ].

  (* ---- resume: load_or_init_model + load_state ---------------------------- *)
  Definition read_file (d : name) (f : string) (s : fs) : option B :=
    match lookup (Sub d f) s with Some (File (Complete b)) => Some b | _ => None end.
  Definition is_some {A} (o : option A) : bool := match o with Some _ => true | None => false end.
  Definition elapsed_file : option string :=
    match find (fun r => comp_eqb (snd r) CElapsed) load_reads with Some r => Some (fst r) | None => None end.

  Variable step_of : B -> option Z.     (* yaml.unsafe_load(elapsed.yaml).step *)

  (* load_state on the directory d: every file of the read set must load; the step is elapsed.step *)
  Definition resume_from (d : name) (s : fs) : outcome :=
    if forallb (fun r => is_some (read_file d (fst r) s)) load_reads then
      match elapsed_file with
      | Some f => match read_file d f s with
                  | Some b => match step_of b with Some z => Resumed z | None => Broken end
                  | None => Broken
                  end
      | None => Broken
      end
    else Broken.
  Definition resume (s : fs) : outcome :=
    match resolve link_fuel (pname 0 resume_probe) s with     (* os.path.exists(run_dir/latest) follows the link *)
    | None => Scratch                                         (* missing or dangling: falls through to init_weights *)
    | Some (d, Dir) => resume_from d s
    | Some _ => Broken                                        (* latest -> a regular file: open(latest/model.pt) raises *)
    end.

  (* what load_state puts into the fresh TrainState: the bytes of every file of the read set *)
  Fixpoint read_all (d : name) (rs : list (string * comp)) (s : fs) : option (list (comp * B)) :=
    match rs with
    | [] => Some []
    | (f, c) :: r =>
      match read_file d f s, read_all d r s with
      | Some b, Some l => Some ((c, b) :: l)
      | _, _ => None
      end
    end.
  Definition loaded (s : fs) : option (list (comp * B)) :=
    match resolve link_fuel (pname 0 resume_probe) s with
    | Some (d, Dir) => read_all d load_reads s
    | _ => None
    end.

  (* what the property allows after a crash at operation index k of the history started in s
     (prev = what the directory resumed to before the history) *)
  Fixpoint allowed_with (prog : list stmt) (prev : outcome) (s : fs) (h : history) (k : nat) : list outcome :=
    match h with
    | [] => [prev]
    | sv :: t =>
      let o := save_ops_with prog s sv in
      if (length o <=? k)%nat then allowed_with prog (Resumed (sv_step sv)) (exec o s) t (k - length o)
      else [prev; Resumed (sv_step sv)]
    end.
  Definition allowed := allowed_with save_prog.
  Fixpoint completed_with (prog : list stmt) (s : fs) (h : history) (k : nat) : nat :=
    match h with
    | [] => O
    | sv :: t =>
      let o := save_ops_with prog s sv in
      if (length o <=? k)%nat then S (completed_with prog (exec o s) t (k - length o)) else O
    end.
End FS.

Arguments content : clear implicits.
Arguments node : clear implicits.
Arguments fs : clear implicits.
Arguments op : clear implicits.
Arguments save : clear implicits.
Arguments history : clear implicits.

(* ---- replay window (TrainingRun.train_step) --------------------------------
   self.state.replay_buffer.append(batch)
   if len(self.state.replay_buffer) > self.config.replay_buffer_steps:
       self.state.replay_buffer = self.state.replay_buffer[1:]                  *)
Definition window_append {A} (cap : Z) (buf : list A) (b : A) : list A :=
  let buf' := buf ++ [b] in
  if Z.of_nat (length buf') >? cap then tl buf' else buf'.
Definition window_run {A} (cap : Z) (buf : list A) (bs : list A) : list A :=
  fold_left (window_append cap) bs buf.
Definition lastn {A} (n : nat) (l : list A) : list A := skipn (length l - n) l.

(* ---- serve_mode / train_mode -------------------------------------------------
   One parameter (one key of state_dict()) at a time: dict comprehension,
   nn.Module._apply and load_state_dict all act key by key.  `cells` is the
   storage this key ever owned; `live` is the cell behind the module's
   parameter, `master` the cell train_params[k] refers to.  Two indices being
   equal IS aliasing.
     serve_mode:  train_params[k] = v.cpu()       - on a CPU tensor `.cpu()` returns the same tensor
                  model.to(device, serve_dtype)   - same dtype (and device): the parameter is left alone;
                                                    otherwise param.data = <new tensor>, the old storage
                                                    is not written
     train_mode:  model.to(train_dtype)           - same rule
                  load_state_dict(train_params)   - param.copy_(train_params[k]) in place            *)
Inductive dtype := F32 | F16 | BF16 | F64.
Definition dtype_eqb (a b : dtype) : bool :=
  match a, b with F32, F32 | F16, F16 | BF16, BF16 | F64, F64 => true | _, _ => false end.

Section Mode.
  Context {T : Type}.
  Variable cast : dtype -> T -> T.       (* value conversion between different dtypes (lossy) *)

  Definition tensor := (dtype * T)%type.
  Record pstate := mkP { cells : list tensor; live : nat; master : option nat }.

  Definition cell (p : pstate) (i : nat) (dflt : tensor) : tensor := nth i (cells p) dflt.
  Definition upd {A} (i : nat) (v : A) (l : list A) : list A := firstn i l ++ match skipn i l with [] => [] | _ :: r => v :: r end.

  (* tensor.to(dtype) with the device unchanged *)
  Definition to_dtype (d : dtype) (p : pstate) (dflt : tensor) : pstate :=
    let '(dt, v) := cell p (live p) dflt in
    if dtype_eqb dt d then p
    else mkP (cells p ++ [(d, cast d v)]) (length (cells p)) (master p).

  Definition serve_param (on_cpu : bool) (serve : dtype) (p : pstate) (dflt : tensor) : pstate :=
    let p1 := if on_cpu then mkP (cells p) (live p) (Some (live p))                       (* alias *)
              else mkP (cells p ++ [cell p (live p) dflt]) (live p) (Some (length (cells p))) in   (* device copy *)
    to_dtype serve p1 dflt.

  (* in place: dst.copy_(src) converts to the destination's dtype; equal dtypes copy the bits *)
  Definition copy_into (dst src : tensor) : tensor :=
    if dtype_eqb (fst src) (fst dst) then (fst dst, snd src) else (fst dst, cast (fst dst) (snd src)).

  Definition train_param (train : dtype) (p : pstate) (dflt : tensor) : pstate :=
    let p1 := to_dtype train p dflt in
    match master p1 with
    | Some m => mkP (upd (live p1) (copy_into (cell p1 (live p1) dflt) (cell p1 m dflt)) (cells p1)) (live p1) (master p1)
    | None => p1                          (* no entry in train_params: load_state_dict does not touch this tensor *)
    end.

  (* Every tensor the forward pass reads (named_parameters and named_buffers, persistent or not), tagged with
     whether it is an entry of state_dict(): `.to()` converts all of them, train_params / load_state_dict only
     know the state_dict entries. *)
  Definition serve_tensor (on_cpu : bool) (serve : dtype) (dflt : tensor) (t : bool * pstate) : bool * pstate :=
    let '(in_sd, p) := t in
    (in_sd, if in_sd then serve_param on_cpu serve p dflt else to_dtype serve (mkP (cells p) (live p) None) dflt).
  Definition train_tensor (train : dtype) (dflt : tensor) (t : bool * pstate) : bool * pstate :=
    (fst t, train_param train (snd t) dflt).
  Definition serve_mode_all (on_cpu : bool) (serve : dtype) (dflt : tensor) (m : list (bool * pstate)) :=
    map (serve_tensor on_cpu serve dflt) m.
  Definition train_mode_all (train : dtype) (dflt : tensor) (m : list (bool * pstate)) :=
    map (train_tensor train dflt) m.
  Definition values_all (dflt : tensor) (m : list (bool * pstate)) : list tensor :=
    map (fun t => cell (snd t) (live (snd t)) dflt) m.

  Definition serve_mode (on_cpu : bool) (serve : dtype) (dflt : tensor) (m : list pstate) : list pstate :=
    map (fun p => serve_param on_cpu serve p dflt) m.
  Definition train_mode (train : dtype) (dflt : tensor) (m : list pstate) : list pstate :=
    map (fun p => train_param train p dflt) m.
  Definition values (dflt : tensor) (m : list pstate) : list tensor := map (fun p => cell p (live p) dflt) m.
  Definition aliased (p : pstate) : bool := match master p with Some m => Nat.eqb m (live p) | None => false end.

  (* the C19 mutant of DESIGN section 9: a conversion that overwrites the storage in place *)
  Definition to_dtype_inplace (d : dtype) (p : pstate) (dflt : tensor) : pstate :=
    let '(dt, v) := cell p (live p) dflt in
    mkP (upd (live p) (d, cast d v) (cells p)) (live p) (master p).
End Mode.

(* ---- concrete contents used by the examples and by the correspondence ---------
   a file's content is identified by (component, step, version): `version` names the training
   state the saving run had at that step (two runs reach one step with different weights). *)
Definition CB := (comp * Z * Z)%type.
Definition cstep_of (b : CB) : option Z := let '(c, s, _) := b in if comp_eqb c CElapsed then Some s else None.
Definition csave (s v : Z) : save CB := mkSave s (fun c => (c, s, v)).

(* config.yaml does not depend on the training state: its content carries no (step, version) *)
Definition cb_norm (b : CB) : CB := let '(c, s, v) := b in if comp_eqb c CConfig then (c, 0, 0) else b.
Definition cb_eqb (a b : CB) : bool :=
  let '(c1, s1, v1) := cb_norm a in let '(c2, s2, v2) := cb_norm b in comp_eqb c1 c2 && Z.eqb s1 s2 && Z.eqb v1 v2.
Definition content_eqb (a b : content CB) : bool :=
  match a, b with Partial, Partial => true | Complete x, Complete y => cb_eqb x y | _, _ => false end.
Definition node_eqb (a b : node CB) : bool :=
  match a, b with
  | Dir, Dir => true
  | File x, File y => content_eqb x y
  | Link x, Link y => name_eqb x y
  | _, _ => false
  end.
(* the observed directory listing and the model state hold the same entries (model keys are unique) *)
Definition fs_matches (obs model : fs CB) : bool :=
  Nat.eqb (List.length obs) (List.length model) &&
  forallb (fun e => match lookup (fst e) model with Some v => node_eqb v (snd e) | None => false end) obs.

Definition op_eqb (a b : op CB) : bool :=
  match a, b with
  | MkDirs x, MkDirs y | RmTree x, RmTree y => name_eqb x y
  | OTruncate x f, OTruncate y g => name_eqb x y && String.eqb f g
  | OComplete x f p, OComplete y g q => name_eqb x y && String.eqb f g && cb_eqb p q
  | Rename a1 b1, Rename a2 b2 | Replace a1 b1, Replace a2 b2 | Symlink a1 b1, Symlink a2 b2 => name_eqb a1 a2 && name_eqb b1 b2
  | (Unlink x | UnlinkQuiet x), (Unlink y | UnlinkQuiet y) => name_eqb x y     (* the wrapper sees one os.unlink call *)
  | _, _ => false
  end.
Fixpoint ops_eqb (a b : list (op CB)) : bool :=
  match a, b with
  | [], [] => true
  | x :: r, y :: t => op_eqb x y && ops_eqb r t
  | _, _ => false
  end.

(* several processes on one run directory: each runs its history and dies after k operations
   (k >= the number of operations: it finished) *)
Definition crun := (list (Z * Z) * nat)%type.
Definition hist_of (evs : list (Z * Z)) : history CB := map (fun e => csave (fst e) (snd e)) evs.
Fixpoint run_all (rs : list crun) (s : fs CB) : fs CB :=
  match rs with
  | [] => s
  | (evs, k) :: t => run_all t (crash k (hist_ops s (hist_of evs)) s)
  end.
Definition loaded_eqb (a b : option (list (comp * CB))) : bool :=
  match a, b with
  | None, None => true
  | Some x, Some y =>
    Nat.eqb (List.length x) (List.length y) &&
    forallb (fun p => comp_eqb (fst (fst p)) (fst (snd p)) && cb_eqb (snd (fst p)) (snd (snd p))) (combine x y)
  | _, _ => false
  end.
(* one crash case: the runs, what the real resume did, what it loaded, what the directory held *)
Definition crash_case := (list crun * outcome * option (list (comp * CB)) * fs CB)%type.
Definition crash_case_ok (c : crash_case) : bool :=
  let '(rs, out, ld, obs) := c in
  let s := run_all rs [] in
  outcome_eqb (resume cstep_of s) out && loaded_eqb (loaded s) ld && fs_matches obs s.
Definition crash_case_view (c : crash_case) :=
  let '(rs, out, ld, obs) := c in
  let s := run_all rs [] in (resume cstep_of s, loaded s, s).
(* the operations the real save calls issued = the expansion of the generated program *)
Definition trace_case_ok (c : list (Z * Z) * list (op CB)) : bool :=
  let '(evs, tr) := c in ops_eqb (hist_ops [] (hist_of evs)) tr.

(* mode switch on digests: T = Z, a conversion changes the digest in an arbitrary way *)
Definition digest_cast (d : dtype) (v : Z) : Z := 2 * v + match d with F32 => 1 | F16 => 3 | BF16 => 5 | F64 => 7 end.
Definition mode_case := (bool * dtype * dtype * list Z * list bool * list bool * list Z)%type.
   (* on_cpu, serve, train; per tensor the forward pass reads: digest before, is it a state_dict entry,
      observed aliasing of train_params[k] with the live tensor, digest after *)
Definition mode_case_ok (c : mode_case) : bool :=
  let '(cpu, serve, train, before, in_sd, alias, after) := c in
  let dflt := (train, 0) in
  let m := map (fun vs => (snd vs, mkP [(train, fst vs)] 0 None)) (combine before in_sd) in
  let served := serve_mode_all digest_cast cpu serve dflt m in
  let back := train_mode_all digest_cast train dflt served in
  Nat.eqb (List.length before) (List.length in_sd) &&
  (fix eqz (a b : list Z) := match a, b with [] , [] => true | x :: r, y :: t => Z.eqb x y && eqz r t | _, _ => false end)
    (map snd (values_all dflt back)) after &&
  (fix eqb' (a b : list bool) := match a, b with [] , [] => true | x :: r, y :: t => Bool.eqb x y && eqb' r t | _, _ => false end)
    (map (fun t => aliased (snd t)) served) alias.
Definition window_case_ok (c : Z * list Z * list (list Z)) : bool :=
  let '(cap, tags, bufs) := c in
  (fix go (k : nat) (bufs : list (list Z)) :=
     match bufs with
     | [] => true
     | b :: r => (fix eqz (a b : list Z) := match a, b with [] , [] => true | x :: r, y :: t => Z.eqb x y && eqz r t | _, _ => false end)
                   (window_run cap [] (firstn k tags)) b && go (S k) r
     end) 1%nat bufs.
Definition zlist_eqb (a b : list Z) : bool :=
  (fix eqz (a b : list Z) := match a, b with [] , [] => true | x :: r, y :: t => Z.eqb x y && eqz r t | _, _ => false end) a b.

(* ---- denotations of gen/TrainIR.v (regenerated from trainer.py) ---------------------------------
   The hand-written window_append / serve_tensor / train_tensor above are what the theorems speak about;
   proofs/SnapshotTie.v shows they ARE the denotations of the regenerated statements. *)
Definition cmp_eval (c : cmp) (a b : Z) : bool :=
  match c with CGt => a >? b | CGe => a >=? b | CLt => a <? b | CLe => a <=? b | CEq => a =? b | CNe => negb (a =? b) end.
(* Python list slicing l[lo:hi] (step 1) *)
Definition norm_idx (n : Z) (i : option Z) (dflt : Z) : Z :=
  match i with None => dflt | Some v => Z.max 0 (Z.min n (if v <? 0 then n + v else v)) end.
Definition py_slice {A} (lo hi : option Z) (l : list A) : list A :=
  let n := Z.of_nat (List.length l) in
  let a := norm_idx n lo 0 in let b := norm_idx n hi n in
  firstn (Z.to_nat (b - a)) (skipn (Z.to_nat a) l).
Fixpoint wexec {A} (p : list wstmt) (cap : Z) (buf : list A) (b : A) : list A :=
  match p with
  | [] => buf
  | WAppend :: r => wexec r cap (buf ++ [b]) b
  | WIfSlice c lo hi :: r =>
    wexec r cap (if cmp_eval c (Z.of_nat (List.length buf)) cap then py_slice lo hi buf else buf) b
  end.

Section ModeIR.
  Context {T : Type}.
  Variable cast : dtype -> T -> T.
  Definition dsel_of (serve train : dtype) (d : dsel) : dtype := match d with DServe => serve | DTrain => train end.
  (* the device argument never changes the device (the model lives on config.device), so MTo only converts *)
  Definition mexec_stmt (on_cpu : bool) (serve train : dtype) (dflt : dtype * T) (st : mstmt) (t : bool * @pstate T)
    : bool * @pstate T :=
    let '(sd, p) := t in
    match st with
    | MCapture =>
      (sd, if sd then (if on_cpu then mkP (cells p) (live p) (Some (live p))
                       else mkP (cells p ++ [cell p (live p) dflt]) (live p) (Some (List.length (cells p))))
           else mkP (cells p) (live p) None)                  (* the dict is rebuilt: no entry for this tensor *)
    | MTo d _ => (sd, to_dtype cast (dsel_of serve train d) p dflt)
    | MLoad =>
      (sd, match master p with
           | Some m => mkP (upd (live p) (copy_into cast (cell p (live p) dflt) (cell p m dflt)) (cells p)) (live p) (master p)
           | None => p
           end)
    end.
  Definition mexec (on_cpu : bool) (serve train : dtype) (dflt : dtype * T) (prog : list mstmt) (t : bool * @pstate T) :=
    fold_left (fun acc st => mexec_stmt on_cpu serve train dflt st acc) prog t.
End ModeIR.

(* which precision the model is in when each hook runs, over one pass through run_async -> train_loop (one
   iteration of the while loop) -> train_step *)
Inductive pmode := Training | Serving.
Fixpoint flatten_events (fuel : nat) (evs : list ev) : list ev :=
  match fuel with
  | O => evs
  | S f => flat_map (fun e => match e with
                              | ETrainLoop => flatten_events f (loop_pre ++ loop_body ++ loop_post)
                              | ETrainStep => flatten_events f train_step_events
                              | _ => [e]
                              end) evs
  end.
Fixpoint observe (evs : list ev) (m : pmode) : list (string * pmode) :=
  match evs with
  | [] => []
  | EServeMode :: r => observe r Serving
  | ETrainMode :: r => observe r Training
  | EHook h :: r => (h, m) :: observe r m
  | _ :: r => observe r m
  end.
(* a freshly built / freshly loaded model is in the training dtype *)
Definition hook_observations : list (string * pmode) := observe (flatten_events 3 run_async_events) Training.
Fixpoint index_of_ev (e : ev) (l : list ev) (i : nat) : option nat :=
  match l with
  | [] => None
  | x :: r => match x, e with
              | EBuildOpt, EBuildOpt | ELoadOrInit, ELoadOrInit | EBuildModel, EBuildModel => Some i
              | _, _ => index_of_ev e r (S i)
              end
  end.

(* ---- which branch of load_or_init_model a configuration takes (gen/SaveIR.v resume_branches) ----------
   `resume` above is the run_dir branch (config.run_dir set, no load_model); `choose_branch` reads from the
   regenerated source which branch runs for any configuration: the first whose conditions all hold. *)
Definition rcond_holds (run_dir load_model exists_latest : bool) (c : rcond) : bool :=
  match c with
  | CRunDir => run_dir | CNotRunDir => negb run_dir
  | CLoadModel => load_model | CNotLoadModel => negb load_model
  | CExistsLatest => exists_latest
  end.
Fixpoint choose_branch_in (bs : list (list rcond * ract)) (run_dir load_model exists_latest : bool) : option ract :=
  match bs with
  | [] => None
  | (cs, a) :: r => if forallb (rcond_holds run_dir load_model exists_latest) cs then Some a
                    else choose_branch_in r run_dir load_model exists_latest
  end.
Definition choose_branch := choose_branch_in resume_branches.
Definition ract_eqb (a b : option ract) : bool :=
  match a, b with
  | Some ALoadState, Some ALoadState | Some ALoadInitial, Some ALoadInitial | Some AInitWeights, Some AInitWeights => true
  | None, None => true
  | _, _ => false
  end.
(* one observed start of a run: config.run_dir set?, config.load_model set?, does run_dir/latest exist, what ran *)
Definition branch_case_ok (c : bool * bool * bool * option ract) : bool :=
  let '(rd, lm, ex, act) := c in ract_eqb (choose_branch rd lm ex) act.
