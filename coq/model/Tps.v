(* Executable model of python/tak/ptn/tps.py (parse_tps, parse_row, format_tps,
   _format_row, _format_square) as the code stands after "fix: parse_tps refuses
   malformed text ...".  No proofs in this file.

   A Python str is a list of Unicode code points (Z).  Python lists that the
   code appends to are modelled in Python order (stack.append(p) = stack ++ [p],
   stack[-1] = the last element); the final reversed(stack) gives the model's
   stacks, which have the TOP piece first as in model/Tak.v.

   Result of the parser: Accept p | Reject (= IllegalTPS) | Unspecified.
   A move-number field that passes isascii()/isdigit() but has more than 4300
   characters makes CPython's int() raise ValueError (sys.int_max_str_digits);
   the code catches it and raises IllegalTPS, so the model answers Reject.
   Unspecified is kept for the ValueError "Wrong board size" of
   Position.from_squares only; proofs/TpsProofs.v (never_unspecified) shows it
   cannot occur, so the parser never answers Unspecified. *)
From Coq Require Import ZArith List Bool.
From TV Require Import model.Tak.
Import ListNotations.
Open Scope Z_scope.

Inductive tps_result := Accept (p : position) | Reject | Unspecified.

Definition str := list Z.

(* code points *)
Definition ch_space : Z := 32.
Definition ch_comma : Z := 44.
Definition ch_minus : Z := 45.
Definition ch_slash : Z := 47.
Definition ch_0 : Z := 48.
Definition ch_1 : Z := 49.
Definition ch_2 : Z := 50.
Definition ch_8 : Z := 56.
Definition ch_9 : Z := 57.
Definition ch_C : Z := 67.
Definition ch_S : Z := 83.
Definition ch_x : Z := 120.

Definition str_eqb (a b : str) : bool := list_eqb Z.eqb a b.

(* str.split(sep) for a one-character separator: k occurrences give k+1 pieces,
   "".split(sep) = [""] *)
Fixpoint split (sep : Z) (s : str) : list str :=
  match s with
  | [] => [[]]
  | c :: t =>
    if c =? sep then [] :: split sep t
    else match split sep t with
         | h :: r => (c :: h) :: r
         | [] => [[c]]
         end
  end.

(* sep.join(l) *)
Fixpoint join (sep : str) (l : list str) : str :=
  match l with
  | [] => []
  | a :: t => match t with [] => a | _ :: _ => a ++ sep ++ join sep t end
  end.

(* ---------- numbers ---------- *)

(* s.isascii() and s.isdigit(): non-empty, every code point in '0'..'9' *)
Definition is_ascii_digit (c : Z) : bool := (ch_0 <=? c) && (c <=? ch_9).
Definition is_ascii_digits (s : str) : bool :=
  match s with [] => false | _ :: _ => forallb is_ascii_digit s end.

(* int(s) for a string of ASCII digits *)
Definition int_of_digits (s : str) : Z := fold_left (fun a c => 10 * a + (c - ch_0)) s 0.

(* sys.int_max_str_digits of the interpreter the code runs under *)
Definition max_str_digits : Z := 4300.

(* str(n), n >= 0, on fuel; digits n gives the fuel that is always enough *)
Fixpoint digits_fuel (fuel : nat) (n : Z) (acc : str) : str :=
  match fuel with
  | O => acc
  | S f =>
    let acc' := (ch_0 + n mod 10) :: acc in
    if n <? 10 then acc' else digits_fuel f (n / 10) acc'
  end.
Definition digits (n : Z) : str := digits_fuel (S (Z.to_nat (Z.log2 n))) n [].
(* str(n) for any int *)
Definition str_of_Z (n : Z) : str := if n <? 0 then ch_minus :: digits (- n) else digits n.

(* ---------- parse_row ---------- *)

Definition flat_of (c : color) : piece := mkPiece c Flat.

(* the `for c in b` loop of parse_row; stack is the Python list (bottom first) *)
Fixpoint parse_chars (cs : str) (stk : list piece) (marked : bool) : option (list piece) :=
  match cs with
  | [] => Some stk
  | c :: t =>
    if marked then None                                   (* "capstone or standing must be on top" *)
    else if c =? ch_1 then parse_chars t (stk ++ [flat_of White]) false
    else if c =? ch_2 then parse_chars t (stk ++ [flat_of Black]) false
    else if (c =? ch_C) || (c =? ch_S) then
      match stk with
      | [] => None                                        (* "bare capstone or standing" *)
      | _ :: _ =>
        let typ := if c =? ch_C then Capstone else Standing in
        parse_chars t (removelast stk ++ [mkPiece (pcolor (last stk (flat_of White))) typ]) true
      end
    else None                                             (* "bad character" *)
  end.

(* one iteration of `for b in bits`: the squares it adds, None = IllegalTPS *)
Definition parse_cell (b : str) : option (list stack) :=
  match b with
  | [] => None                                            (* "empty square" *)
  | c0 :: rest =>
    if c0 =? ch_x then
      match rest with
      | [] => Some [[]]                                   (* n = 1 *)
      | [d] => if (ch_1 <=? d) && (d <=? ch_8)            (* b[1] in "12345678" *)
               then Some (repeat [] (Z.to_nat (d - ch_0)))
               else None
      | _ => None                                         (* len(b) != 2 *)
      end
    else match parse_chars b [] false with
         | Some stk => Some [rev stk]
         | None => None
         end
  end.

Fixpoint parse_cells (bits : list str) (squares : list stack) : option (list stack) :=
  match bits with
  | [] => Some squares
  | b :: t =>
    match parse_cell b with
    | None => None
    | Some sqs => parse_cells t (squares ++ sqs)
    end
  end.

Definition parse_row (rtext : str) : option (list stack) := parse_cells (split ch_comma rtext) [].

(* ---------- parse_tps ---------- *)

(* `for row in reversed(rows)`; rrows is the reversed list, n = len(rows) *)
Fixpoint parse_rows (rrows : list str) (n : Z) (squares : list stack) : option (list stack) :=
  match rrows with
  | [] => Some squares
  | r :: t =>
    match parse_row r with
    | None => None
    | Some rsq =>
      if zlen rsq =? n then parse_rows t n (squares ++ rsq)
      else None                                           (* "inconsistent size" *)
    end
  end.

Definition parse_tps (tps : str) : tps_result :=
  match split ch_space tps with
  | [board; who; move] =>
    if negb (str_eqb who [ch_1] || str_eqb who [ch_2]) then Reject else
    if negb (is_ascii_digits move) then Reject else
    if max_str_digits <? zlen move then Reject else        (* int(move) raises ValueError -> IllegalTPS *)
    let mvn := int_of_digits move in
    if mvn <? 1 then Reject else
    let pl := 2 * (mvn - 1) + int_of_digits who - 1 in
    let rows := split ch_slash board in
    let n := zlen rows in
    if (n <? 3) || (8 <? n) then Reject else
    match parse_rows (rev rows) n [] with
    | None => Reject
    | Some squares =>
      match from_squares (mkCfg n None None) squares pl with
      | Some p => Accept p
      | None => Unspecified                                (* ValueError; unreachable *)
      end
    end
  | _ => Reject                                            (* "need three components" *)
  end.

(* ---------- format_tps ---------- *)

Definition color_char (c : color) : Z := match c with White => ch_1 | Black => ch_2 end.

(* _format_square; sq[0] on an empty square is an IndexError in the code, it is
   never called on one *)
Definition format_square (sq : stack) : str :=
  map (fun p => color_char (pcolor p)) (rev sq) ++
  match sq with
  | top :: _ => match pkind top with Standing => [ch_S] | Capstone => [ch_C] | Flat => [] end
  | [] => []
  end.

(* the inner while loop of _format_row: length of the run of empty squares *)
Fixpoint count_empty (row : list stack) : nat :=
  match row with
  | [] :: t => S (count_empty t)
  | _ => O
  end.

(* the outer while loop; row is row[i:], fuel = len(row) is enough *)
Fixpoint format_cells (fuel : nat) (row : list stack) : list str :=
  match fuel with
  | O => []
  | S f =>
    match row with
    | [] => []
    | sq :: rest =>
      let x := count_empty row in
      if (0 <? x)%nat
      then (ch_x :: (if (1 <? x)%nat then str_of_Z (Z.of_nat x) else [])) :: format_cells f (skipn x row)
      else format_square sq :: format_cells f rest
    end
  end.

Definition format_row (row : list stack) : str := join [ch_comma] (format_cells (length row) row).

Definition format_tps (p : position) : str :=
  let n := Z.to_nat (size p) in
  let rows := map (fun r => format_row (firstn n (skipn (r * n) (board p)))) (seq 0 n) in
  join [ch_space] [join [ch_slash] (rev rows); str_of_Z (ply p mod 2 + 1); str_of_Z (ply p / 2 + 1)].
