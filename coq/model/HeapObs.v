(* C05 - observation side of the heap-graph correspondence: literals written
   by the harness (Z-coded) are decoded, the generated IR is executed on the
   recorded heap / oracle stream, and the sharing graph of the result (which
   squares of the result board ARE pre-existing objects, which are new, which
   new ones are shared) is compared with what the implementation produced.
   No proofs in this file. *)
From Coq Require Import ZArith List Bool Arith.
From TV Require Import model.HeapSem.
Import ListNotations.

(* -1 immediate, -2 unset slot, l >= 0 location *)
Definition dec_val (z : Z) : val :=
  if (z =? -1)%Z then VImm else if (z =? -2)%Z then VAbsent else VLoc (Z.to_nat z).
Definition dec_heap (h : list (list Z)) : heap := map (map dec_val) h.
Definition nats (l : list Z) : list nat := map Z.to_nat l.

Fixpoint idx_of (x : nat) (l : list nat) (i : nat) : option nat :=
  match l with
  | [] => None
  | y :: t => if Nat.eqb x y then Some i else idx_of x t (S i)
  end.

(* per element: (tag, length); tag = l for a pre-existing object (l < n0),
   n0 + rank for an object allocated by the call (rank by first appearance),
   -1 for something that is not an object *)
Fixpoint graph_go (n0 : nat) (h : heap) (vs : list val) (seen : list nat) : list (Z * Z) :=
  match vs with
  | [] => []
  | VLoc l :: t =>
      let len := match nth_error h l with Some o => Z.of_nat (length o) | None => (-1)%Z end in
      if l <? n0 then (Z.of_nat l, len) :: graph_go n0 h t seen
      else match idx_of l seen 0 with
           | Some r => (Z.of_nat (n0 + r), len) :: graph_go n0 h t seen
           | None => (Z.of_nat (n0 + length seen), len) :: graph_go n0 h t (seen ++ [l])
           end
  | _ :: t => ((-1)%Z, 0%Z) :: graph_go n0 h t seen
  end.

(* field = Some k: the result is an object whose slot k is the board list; None: the result is the list itself *)
Definition graph (n0 : nat) (h : heap) (field : option nat) (v : val) : option (Z * list (Z * Z)) :=
  let b := match field, v with
           | Some k, VLoc p => match nth_error h p with Some o => nth_error o k | None => None end
           | None, _ => Some v
           | _, _ => None
           end in
  match b with
  | Some (VLoc lb) =>
      match nth_error h lb with
      | Some ob => Some (if lb <? n0 then Z.of_nat lb else Z.of_nat n0, graph_go n0 h ob [])
      | None => None
      end
  | _ => None
  end.

Definition pair_eqb (a b : Z * Z) : bool := (fst a =? fst b)%Z && (snd a =? snd b)%Z.

Definition FUEL : nat := 4000.

(* heap, arguments, oracle, (expected outcome 0 return / 1 raise, board tag, squares) *)
Definition gcase := (list (list Z) * list Z * list Z * (Z * Z * list (Z * Z)))%type.

Definition view_case (P : prog) (field : option nat) (c : gcase) : Z * bool * option (Z * list (Z * Z)) :=
  let '(hz, az, oz, _) := c in
  let h := dec_heap hz in
  let '(h', out) := run FUEL P h (map dec_val az) (nats oz) in
  let frame := heap_eqb (firstn (length h) h') h in
  match out with
  | ORet v => (0%Z, frame, graph (length h) h' field v)
  | ORaise => (1%Z, frame, None)
  | _ => (2%Z, frame, None)
  end.

Definition check_case (P : prog) (field : option nat) (c : gcase) : bool :=
  let '(_, _, _, (eout, ebt, esq)) := c in
  match view_case P field c with
  | (0%Z, true, Some (bt, sq)) => (eout =? 0)%Z && (bt =? ebt)%Z && list_eqb pair_eqb sq esq
  | (1%Z, true, None) => (eout =? 1)%Z
  | _ => false
  end.
