(* C10 - the regularised-policy solver.

   Model of `solve_policy` (python/ext/tak.cpp, binary32) and of
   `solve_policy_python` (python/tak/mcts.py).  The bisection is written ONCE,
   generic in an arithmetic structure (`arith`) and in the exit test
   (`exit_rule`).  Instances:

     QA            exact rationals (executable; the theorems of
                   proofs/SolverProofs.v are about this instance)
     B32, B32t     IEEE binary32 = Coq's `SpecFloat` operations at
                   (prec 24, emax 128); B32 starts a running maximum at -inf
                   (the C++ loop), B32t takes the list's own maximum
                   (`tensor.max()`)

     native32      statement-for-statement mirror of tak.cpp (as repaired by
                   "fix: native solve_policy never returns infinite weights")
     pyQ           solve_policy_python: bracket ends in binary32 (torch
                   elementwise float32 ops, the float64 multiplier is first
                   rounded to float32), bisection on Python floats = exact
                   rationals here (see the comment at `pyQ`)

   Floats cross the boundary as integer bit patterns (`b32_of_bits`,
   `bits_of_b32`, `b64_of_bits`).  No proofs in this file. *)
From Coq Require Import ZArith QArith Qabs List Bool.
From Coq Require Import Floats.SpecFloat.
Import ListNotations.

(* ------------------------------------------------------------------ *)
(* arithmetic structure and exit rule                                  *)
(* ------------------------------------------------------------------ *)
Record arith (T : Type) : Type := Arith {
  a_zero : T;
  a_one : T;
  a_add : T -> T -> T;
  a_sub : T -> T -> T;
  a_mul : T -> T -> T;
  a_div : T -> T -> T;
  a_half : T -> T;                (* x / 2 *)
  a_abs : T -> T;
  a_ltb : T -> T -> bool;         (* <  (false on NaN) *)
  a_leb : T -> T -> bool;         (* <= (false on NaN) *)
  a_eqb : T -> T -> bool;         (* == (false on NaN) *)
  a_finite : T -> bool;           (* std::isfinite *)
  a_max_init : option T           (* start of a running maximum: Some -inf = the C++ loop;
                                     None = the maximum of the list itself (tensor.max()) *)
}.
Arguments a_zero {T}. Arguments a_one {T}. Arguments a_add {T}. Arguments a_sub {T}.
Arguments a_mul {T}. Arguments a_div {T}. Arguments a_half {T}. Arguments a_abs {T}.
Arguments a_ltb {T}. Arguments a_leb {T}. Arguments a_eqb {T}. Arguments a_finite {T}.
Arguments a_max_init {T}.

(* The exit test of one iteration.  It sees the bracket, the probe `alpha`,
   the sum at `alpha` and whatever it remembered from the previous iteration
   (`last_sum` in tak.cpp); it answers `Some a` = "return the weights at a". *)
Record exit_rule (T : Type) : Type := ExitRule {
  x_mem : Type;
  x_init : x_mem;
  x_test : x_mem -> T -> T -> T -> T -> option T * x_mem   (* mem lo hi alpha sum *)
}.
Arguments x_mem {T}. Arguments x_init {T}. Arguments x_test {T}.

Inductive result (T : Type) : Type :=
| Returned (iters : nat) (alpha : T) (weights : list T)
| OutOfIters.     (* std::runtime_error("alpha search did not converge") / AssertionError *)
Arguments Returned {T}. Arguments OutOfIters {T}.

(* ------------------------------------------------------------------ *)
(* the algorithm, once                                                 *)
(* ------------------------------------------------------------------ *)
Section Generic.
  Context {T : Type} (A : arith T) (X : exit_rule T).

  (* std::max(a, b) = (a < b) ? b : a *)
  Definition amax (a b : T) : T := if a_ltb A a b then b else a.

  Definition run_max (xs : list T) : T :=
    match a_max_init A with
    | Some s => fold_left amax xs s
    | None => match xs with [] => a_zero A | x :: t => fold_left amax t x end
    end.

  (* q[i] + lambda_n * pi_theta[i]   and   q[i] + lambda_n *)
  Definition lo_terms (lam : T) (pi q : list T) : list T :=
    map (fun pq => a_add A (snd pq) (a_mul A lam (fst pq))) (combine pi q).
  Definition hi_terms (lam : T) (pi q : list T) : list T :=
    map (fun pq => a_add A (snd pq) lam) (combine pi q).
  Definition bracket (lam : T) (pi q : list T) : T * T :=
    (run_max (lo_terms lam pi q), run_max (hi_terms lam pi q)).

  (* lambda_n * pi_theta[i] / (alpha - q[i]) *)
  Definition term (lam alpha : T) (pq : T * T) : T :=
    a_div A (a_mul A lam (fst pq)) (a_sub A alpha (snd pq)).
  (* float sum = 0.0; for (i...) sum += term   (sequential, index order) *)
  Definition sigma (lam : T) (pi q : list T) (alpha : T) : T :=
    fold_left (fun s pq => a_add A s (term lam alpha pq)) (combine pi q) (a_zero A).
  (* lambda_n * pi_theta / (alpha - q), elementwise *)
  Definition weights (lam : T) (pi q : list T) (alpha : T) : list T :=
    map (term lam alpha) (combine pi q).

  (* (a + b) / 2 *)
  Definition mid (a b : T) : T := a_half A (a_add A a b).

  Fixpoint loop (lam : T) (pi q : list T) (fuel n : nat) (mem : x_mem X) (lo hi alpha : T) : result T :=
    match fuel with
    | O => OutOfIters
    | S fuel' =>
      let s := sigma lam pi q alpha in
      match x_test X mem lo hi alpha s with
      | (Some a, _) => Returned (S n) a (weights lam pi q a)
      | (None, mem') =>
        if a_ltb A (a_one A) s                                   (* sum > 1 *)
        then loop lam pi q fuel' (S n) mem' alpha hi (mid alpha hi)   (* alpha_min = alpha; alpha = (alpha + alpha_max)/2 *)
        else loop lam pi q fuel' (S n) mem' lo alpha (mid alpha lo)   (* alpha_max = alpha; alpha = (alpha + alpha_min)/2 *)
      end
    end.

  Definition solve (fuel : nat) (lam : T) (pi q : list T) : result T :=
    let '(lo, hi) := bracket lam pi q in
    loop lam pi q fuel 0 (x_init X) lo hi (mid lo hi).
End Generic.

(* The two exit rules, generic in the arithmetic.

   Python:  np.abs(1 - sigma) <= ALPHA_EPSILON or (alpha_max - alpha_min) <= 1e-6  *)
Definition python_exit {T} (A : arith T) (eps tol : T) : exit_rule T :=
  {| x_mem := unit; x_init := tt;
     x_test := fun _ lo hi alpha s =>
       (if a_leb A (a_abs A (a_sub A (a_one A) s)) eps || a_leb A (a_sub A hi lo) tol
        then Some alpha else None, tt) |}.

(* C++:  float error = sum - 1.0;
         if (abs(error) <= SIGMA_EPSILON) return weights(alpha);
         if (sum == last_sum) { if (!isfinite(sum)) alpha = alpha_max; return weights(alpha); }
         last_sum = sum;
   `err_of` is the computation `sum - 1.0` (in binary32: a double subtraction
   rounded to float); `last0` is the initial last_sum (Some +inf in binary32,
   None in exact arithmetic, where no sum equals it). *)
Definition native_exit {T} (A : arith T) (err_of : T -> T) (eps : T) (last0 : option T) : exit_rule T :=
  {| x_mem := option T; x_init := last0;
     x_test := fun last lo hi alpha s =>
       if a_leb A (a_abs A (err_of s)) eps then (Some alpha, Some s)
       else if (match last with Some l => a_eqb A s l | None => false end)
            then (Some (if negb (a_finite A s) then hi else alpha), Some s)
            else (None, Some s) |}.

Definition MAX_ITERS : nat := 32.

(* ------------------------------------------------------------------ *)
(* instance: exact rationals                                           *)
(* ------------------------------------------------------------------ *)
Definition Qltb (a b : Q) : bool := negb (Qle_bool b a).
(* `a_half` normalises (alpha, lo, hi stay in lowest terms); sums are not fed back *)
Definition QA : arith Q :=
  {| a_zero := 0%Q; a_one := 1%Q;
     a_add := Qplus; a_sub := Qminus; a_mul := Qmult; a_div := Qdiv;
     a_half := fun x => Qred (x / 2)%Q;
     a_abs := Qabs;
     a_ltb := Qltb; a_leb := Qle_bool; a_eqb := Qeq_bool;
     a_finite := fun _ => true;
     a_max_init := None |}.

Definition EPS_Q : Q := (1 # 1000)%Q.          (* ALPHA_EPSILON = SIGMA_EPSILON = 1e-3 *)
Definition TOL_Q : Q := (1 # 1000000)%Q.       (* the Python bracket exit, 1e-6 *)
Definition python_exit_Q : exit_rule Q := python_exit QA EPS_Q TOL_Q.
Definition native_exit_Q : exit_rule Q := native_exit QA (fun s => (s - 1)%Q) EPS_Q None.

Definition solve_python_Q (lam : Q) (pi q : list Q) : result Q := solve QA python_exit_Q MAX_ITERS lam pi q.
Definition solve_native_Q (lam : Q) (pi q : list Q) : result Q := solve QA native_exit_Q MAX_ITERS lam pi q.

(* ------------------------------------------------------------------ *)
(* instance: IEEE binary32 (and the binary64 pieces tak.cpp touches)   *)
(* ------------------------------------------------------------------ *)
Definition prec32 : Z := 24.  Definition emax32 : Z := 128.
Definition prec64 : Z := 53.  Definition emax64 : Z := 1024.

Definition sf_finite (x : spec_float) : bool :=
  match x with S754_finite _ _ _ | S754_zero _ => true | _ => false end.

Definition sf_of_Z (prec emax : Z) (n : Z) : spec_float := binary_normalize prec emax n 0 false.

(* change of format, round to nearest even (float -> double is exact) *)
Definition sf_convert (prec emax : Z) (x : spec_float) : spec_float :=
  match x with
  | S754_finite s m e => binary_normalize prec emax (cond_Zopp s (Zpos m)) e s
  | _ => x
  end.

Definition B32 : arith spec_float :=
  {| a_zero := S754_zero false;                          (* float sum = 0.0 *)
     a_one := sf_of_Z prec32 emax32 1;
     a_add := SFadd prec32 emax32; a_sub := SFsub prec32 emax32;
     a_mul := SFmul prec32 emax32; a_div := SFdiv prec32 emax32;
     a_half := fun x => SFdiv prec32 emax32 x (sf_of_Z prec32 emax32 2);     (* x / 2 *)
     a_abs := SFabs;
     a_ltb := SFltb; a_leb := SFleb; a_eqb := SFeqb;
     a_finite := sf_finite;
     a_max_init := Some (S754_infinity true) |}.         (* -numeric_limits<float>::infinity() *)

Definition B32t : arith spec_float :=
  {| a_zero := a_zero B32; a_one := a_one B32; a_add := a_add B32; a_sub := a_sub B32;
     a_mul := a_mul B32; a_div := a_div B32; a_half := a_half B32; a_abs := a_abs B32;
     a_ltb := a_ltb B32; a_leb := a_leb B32; a_eqb := a_eqb B32; a_finite := a_finite B32;
     a_max_init := None |}.                              (* tensor.max() *)

(* a decimal literal m * 10^(-k) as C++ reads it: correctly rounded to double
   (m and 10^k are exact doubles for the literals used here) *)
Definition dec64 (m : Z) (k : Z) : spec_float :=
  SFdiv prec64 emax64 (sf_of_Z prec64 emax64 m) (sf_of_Z prec64 emax64 (10 ^ k)).

(* constexpr float SIGMA_EPSILON = 1e-3;  (double literal converted to float) *)
Definition SIGMA_EPSILON32 : spec_float := sf_convert prec32 emax32 (dec64 1 3).

(* float error = sum - 1.0;   sum is promoted to double, the subtraction is a
   double subtraction, the result is converted back to float *)
Definition err32 (s : spec_float) : spec_float :=
  sf_convert prec32 emax32
    (SFsub prec64 emax64 (sf_convert prec64 emax64 s) (sf_of_Z prec64 emax64 1)).

Definition native_exit_32 : exit_rule spec_float :=
  native_exit B32 err32 SIGMA_EPSILON32 (Some (S754_infinity false)).   (* last_sum = +infinity *)

(* tak.cpp solve_policy on decoded binary32 inputs *)
Definition native32 (lam : spec_float) (pi q : list spec_float) : result spec_float :=
  solve B32 native_exit_32 MAX_ITERS lam pi q.

(* ------------------------------------------------------------------ *)
(* bit patterns                                                        *)
(* ------------------------------------------------------------------ *)
Local Open Scope Z_scope.
Definition sf_of_bits (mbits ebits : Z) (b : Z) : spec_float :=
  let s := Z.odd (b / 2 ^ (mbits + ebits)) in
  let e := (b / 2 ^ mbits) mod 2 ^ ebits in
  let m := b mod 2 ^ mbits in
  let bias := 2 ^ (ebits - 1) - 1 in
  if (e =? 0)%Z then
    match m with Zpos p => S754_finite s p (1 - bias - mbits) | _ => S754_zero s end
  else if (e =? 2 ^ ebits - 1)%Z then
    (if (m =? 0)%Z then S754_infinity s else S754_nan)
  else
    match (m + 2 ^ mbits)%Z with Zpos p => S754_finite s p (e - bias - mbits) | _ => S754_nan end.

(* inverse on canonical values; every NaN becomes the quiet NaN 0x7fc00000 / 0x7ff8... *)
Definition bits_of_sf (mbits ebits : Z) (x : spec_float) : Z :=
  let sgn (s : bool) := if s then 2 ^ (mbits + ebits) else 0 in
  let bias := 2 ^ (ebits - 1) - 1 in
  match x with
  | S754_zero s => sgn s
  | S754_infinity s => sgn s + (2 ^ ebits - 1) * 2 ^ mbits
  | S754_nan => (2 ^ ebits - 1) * 2 ^ mbits + 2 ^ (mbits - 1)
  | S754_finite s m e =>
    let m := Zpos m in
    if (m <? 2 ^ mbits)%Z then sgn s + m
    else sgn s + (e + bias + mbits) * 2 ^ mbits + (m - 2 ^ mbits)
  end.

Definition b32_of_bits : Z -> spec_float := sf_of_bits 23 8.
Definition bits_of_b32 : spec_float -> Z := bits_of_sf 23 8.
Definition b64_of_bits : Z -> spec_float := sf_of_bits 52 11.

(* exact value of a finite float (0 for inf/NaN: callers test `sf_finite` first) *)
Definition sf_toQ (x : spec_float) : Q :=
  match x with
  | S754_finite s m e =>
    let n := cond_Zopp s (Zpos m) in
    match e with
    | Zneg k => Qmake n (2 ^ k)%positive
    | _ => inject_Z (n * 2 ^ e)
    end
  | _ => 0%Q
  end.

(* outcome of the native solver as the harness observes it *)
Inductive outcome : Type :=
| OWeights (bits : list Z)
| OOutOfIters.

Definition native32_bits (lam : Z) (pi q : list Z) : outcome :=
  match native32 (b32_of_bits lam) (map b32_of_bits pi) (map b32_of_bits q) with
  | Returned _ _ w => OWeights (map bits_of_b32 w)
  | OutOfIters => OOutOfIters
  end.
Definition native32_trace (lam : Z) (pi q : list Z) : option (nat * Z) :=
  match native32 (b32_of_bits lam) (map b32_of_bits pi) (map b32_of_bits q) with
  | Returned n a _ => Some (n, bits_of_b32 a)
  | OutOfIters => None
  end.

(* ------------------------------------------------------------------ *)
(* solve_policy_python                                                 *)
(* ------------------------------------------------------------------ *)
(* alpha_min = (q + lambda_n * pi_theta).max().item()   -- float32 tensor ops; the
   alpha_max = (q + lambda_n).max().item()                 Python float lambda_n is
                                                           cast to float32 by torch
   then alpha, alpha_min, alpha_max are Python floats (binary64).  In the loop
   torch evaluates lambda_n * pi_theta / (alpha - q) in float32 after casting
   alpha to float32, sums in float32, and the two threshold comparisons are
   float32 comparisons; `alpha_max - alpha_min <= 1e-6` is a binary64 one.
   `pyQ` keeps the binary32 bracket ends bit-exactly and runs the loop in exact
   rational arithmetic on them: it is the algorithm the Python code performs up
   to float32 rounding of sigma and binary64 rounding of the midpoints.  The
   correspondence compares iteration count and alpha only on inputs where no
   decision of the run is within that rounding of its threshold (tie guard). *)
Definition pyQ (lam : Z) (pi q : list Z) : option (result Q) :=
  let lamf := b32_of_bits lam in
  let pif := map b32_of_bits pi in
  let qf := map b32_of_bits q in
  let '(lo, hi) := bracket B32t lamf pif qf in
  if sf_finite lo && sf_finite hi then
    let lo := sf_toQ lo in
    let hi := sf_toQ hi in
    Some (loop QA python_exit_Q (sf_toQ lamf) (map sf_toQ pif) (map sf_toQ qf)
               MAX_ITERS 0 tt lo hi (mid QA lo hi))
  else None.

(* |a - b| <= tol *)
Definition Qclose (a b tol : Q) : bool := Qle_bool (Qabs (a - b)%Q) tol.

Definition pyQ_agrees (lam : Z) (pi q : list Z) (iters : Z) (alpha64 : Z) : bool :=
  match pyQ lam pi q with
  | Some (Returned n a _) =>
    (Z.of_nat n =? iters)%Z && Qclose a (sf_toQ (b64_of_bits alpha64)) (1 # 1000000000000)%Q
  | _ => false
  end.
Definition pyQ_trace (lam : Z) (pi q : list Z) : option (nat * Q) :=
  match pyQ lam pi q with
  | Some (Returned n a _) => Some (n, Qred a)
  | _ => None
  end.
