(* C18 - protocol model of python/tak/self_play.py:
     run_job / entrypoint                      (worker side)
     MultiprocessSelfPlayEngine.__attrs_post_init__ / play_many / stop   (parent side)
   as it is after "fix: a self-play worker that crashes exits with a non-zero status" (45b70e8)
   and "fix: stop() does not wait forever for a worker that cannot exit" (28ebc86).

   The model is a step FUNCTION  step cfg e s : option state  (None = the event
   e is not enabled in s); the scheduler is the list of events a run is driven
   by.  All nondeterminism (which process moves next, where a fault strikes) is
   in that list.  No proofs in this file.

   What one model step stands for in the code
   ------------------------------------------
   parent, play_many(n):
     EBegin n   logs = [], todo = n; `while len(logs) < games` (n = 0 returns [] at once)
     EPut       self.job.cmd.put(self.next_id, block=False) succeeded; next_id += 1; todo -= 1
     EFull      that put raised queue.Full: leave the inner loop
     EFillEnd   the inner loop ends because todo == 0
     ERecv      games.get(block=True, timeout=1) delivered a transcript (logs.append); when
                len(logs) == games the request returns.  If the message at the head of the pipe
                was truncated by the death of its writer, get() has passed its poll and blocks
                in recv_bytes for ever: PStuck (no parent step is enabled any more).
     ETimeout   that get raised queue.Empty; the exit codes are inspected:
                some code not in [0, None] -> RuntimeError, every process is killed
                (`except Exception: for p in self.processes: p.kill(); raise`).
                A timeout is possible whatever the queue holds (a transcript may still be
                in a worker's feeder thread): over-approximation.
   parent, stop():
     EStop, EStopPut (cmd.put(None, block=False) once per worker), EStopFull (that put raised
     queue.Full: stop() propagates it; shutdown is NOT set, nobody is joined), EStopSet
     (shutdown.set()), EJoined (every process exited by itself before the deadline),
     EJoinTimeout (the deadline STOP_TIMEOUT passed: `p.join(timeout=...)` returned with the process
     alive; every process still alive is killed and joined.  Exists only when join_timeout cfg;
     before 28ebc86 the join had no timeout).
   worker w, entrypoint/run_job:
     WReady     engine_factory() returned
     WLock      cmd.get(block=True) acquired the queue's read lock (`with self._rlock:`); the
                worker now HOLDS that lock while it waits for / reads a message
     WTake      the message arrived: an id (play_one_game starts) or None (leave the loop)
     WFinish    play_one_game finished and games.put(log) got a slot (the queue is bounded by
                `workers`; put blocks while it is full)
     WExit      after the loop: games.close(); join_thread(); shutdown.wait() returned; exit 0
   faults:
     FRaise w        ANY Python exception that ends run_job / the epilogue (factory, evaluator, search, queue
                     operations), i.e. every BaseException: an Exception is caught by entrypoint, logged, and the
                     process exits with raise_code cfg (sys.exit(1) now, fall-through = 0 before the fix); a
                     BaseException that is not an Exception (KeyboardInterrupt raised by the evaluator or by
                     SIGINT, GeneratorExit, ...) is not caught: it leaves entrypoint, multiprocessing prints the
                     traceback and the process exits with status 1 - the same event in `current`.  The one
                     exception is a deliberate SystemExit(k): the status is k, and SystemExit(0) is a worker
                     that dies with status 0 - outside the fault model (evidence-only probe `sysexit0`).
                     Locks held in `with` blocks are released by the unwinding.
     FKill w c       abrupt death with exit code c <> 0 (SIGKILL: -9, os._exit(3): 3).  Nothing is
                     released: a worker that dies while holding cmd's read lock leaves it locked
                     for ever (rdead).  A game being played is lost.
     FKillMidPut w c abrupt death while the feeder thread of `games` is in the middle of writing
                     the transcript: a truncated message (GTorn) stays in the pipe.

   Capacities: cmd = 2 * workers, games = workers (mp.Queue(maxsize=...)); for workers = 0
   the real queues are unbounded (maxsize 0) - the theorems that matter assume workers >= 1
   implicitly through the existence of a worker.
   Not modelled (runtime): pickling, pipe buffering, process start-up, the feeder threads
   themselves, re-use of an engine after play_many raised (EBegin is not enabled then). *)
From Coq Require Import ZArith List Bool.
Import ListNotations.
Open Scope Z_scope.

Inductive wstate :=
| Starting
| Idle
| Reading
| Playing (id : Z)
| Done
| Exited (code : Z).

Inductive gmsg := GGame (id : Z) | GTorn.

Inductive pc_t :=
| PBetween                       (* not inside play_many / stop *)
| PFilling | PWaiting | PStuck   (* play_many *)
| PStopPut (k : nat) | PJoining | PStopped | PStopFailed.   (* stop *)

Inductive outcome_t := ONone | ORunning | OReturned | ORaised.   (* of the last request *)

Record parent := mkP {
  pc : pc_t; outcome : outcome_t;
  target : nat; todo : nat; collected : list Z; next_id : Z }.

Record state := mkS {
  ws : list wstate; cmd : list (option Z); games : list gmsg;
  shutdown : bool; rdead : bool; par : parent }.

Record config := mkC { raise_code : Z; join_timeout : bool }.
Definition current : config := mkC 1 true.        (* the tree as it is now *)
Definition prefix : config := mkC 0 false.        (* before fix 45b70e8: `except Exception: print(...)`, exit 0 *)
Definition pre_stopfix : config := mkC 1 false.   (* after 45b70e8, before 28ebc86: unbounded p.join() *)

Inductive event :=
| EBegin (n : nat) | EPut | EFull | EFillEnd | ERecv | ETimeout
| EStop | EStopPut | EStopFull | EStopSet | EJoined | EJoinTimeout
| WReady (w : nat) | WLock (w : nat) | WTake (w : nat) | WFinish (w : nat) | WExit (w : nat)
| FRaise (w : nat) | FKill (w : nat) (c : Z) | FKillMidPut (w : nat) (c : Z).

Definition init (nworkers : nat) : state :=
  mkS (repeat Starting nworkers) [] [] false false (mkP PBetween ONone 0 0 [] 0).

(* ---- helpers ---------------------------------------------------------- *)
Definition nworkers (s : state) : nat := length (ws s).
Definition cmd_cap (s : state) : nat := 2 * nworkers s.
Definition games_cap (s : state) : nat := nworkers s.

Fixpoint upd {A} (n : nat) (x : A) (l : list A) : list A :=
  match l, n with
  | [], _ => []
  | _ :: t, O => x :: t
  | h :: t, S n' => h :: upd n' x t
  end.

Definition is_exited (st : wstate) : bool := match st with Exited _ => true | _ => false end.
Definition is_reading (st : wstate) : bool := match st with Reading => true | _ => false end.
(* `p.exitcode not in [0, None]` *)
Definition bad_exit (st : wstate) : bool := match st with Exited c => negb (c =? 0) | _ => false end.
Definition kill_one (st : wstate) : wstate := if is_exited st then st else Exited (-9).

Definition set_par (s : state) (p : parent) : state :=
  mkS (ws s) (cmd s) (games s) (shutdown s) (rdead s) p.
Definition set_pc (s : state) (c : pc_t) : state :=
  let p := par s in set_par s (mkP c (outcome p) (target p) (todo p) (collected p) (next_id p)).
Definition set_w (s : state) (w : nat) (st : wstate) : state :=
  mkS (upd w st (ws s)) (cmd s) (games s) (shutdown s) (rdead s) (par s).

(* ---- the step function --------------------------------------------------- *)
Definition step (cfg : config) (e : event) (s : state) : option state :=
  let p := par s in
  match e with
  | EBegin n =>
      match pc p, outcome p with
      | PBetween, ONone | PBetween, OReturned =>
          match n with
          | O => Some (set_par s (mkP PBetween OReturned O O [] (next_id p)))
          | S _ => Some (set_par s (mkP PFilling ORunning n n [] (next_id p)))
          end
      | _, _ => None
      end
  | EPut =>
      match pc p, todo p with
      | PFilling, S t =>
          if Nat.ltb (length (cmd s)) (cmd_cap s)
          then Some (mkS (ws s) (cmd s ++ [Some (next_id p)]) (games s) (shutdown s) (rdead s)
                         (mkP PFilling (outcome p) (target p) t (collected p) (next_id p + 1)))
          else None
      | _, _ => None
      end
  | EFull =>
      match pc p, todo p with
      | PFilling, S _ => if Nat.ltb (length (cmd s)) (cmd_cap s) then None else Some (set_pc s PWaiting)
      | _, _ => None
      end
  | EFillEnd =>
      match pc p, todo p with
      | PFilling, O => Some (set_pc s PWaiting)
      | _, _ => None
      end
  | ERecv =>
      match pc p, games s with
      | PWaiting, GGame id :: g' =>
          let logs := collected p ++ [id] in
          if Nat.eqb (length logs) (target p)
          then Some (mkS (ws s) (cmd s) g' (shutdown s) (rdead s)
                         (mkP PBetween OReturned (target p) (todo p) logs (next_id p)))
          else Some (mkS (ws s) (cmd s) g' (shutdown s) (rdead s)
                         (mkP PFilling (outcome p) (target p) (todo p) logs (next_id p)))
      | PWaiting, GTorn :: _ => Some (set_pc s PStuck)
      | _, _ => None
      end
  | ETimeout =>
      match pc p with
      | PWaiting =>
          if existsb bad_exit (ws s)
          then Some (mkS (map kill_one (ws s)) (cmd s) (games s) (shutdown s)
                         (rdead s || existsb is_reading (ws s))
                         (mkP PBetween ORaised (target p) (todo p) (collected p) (next_id p)))
          else Some (set_pc s PFilling)
      | _ => None
      end
  | EStop =>
      match pc p with
      | PBetween => Some (set_pc s (PStopPut (nworkers s)))
      | _ => None
      end
  | EStopPut =>
      match pc p with
      | PStopPut (S k) =>
          if Nat.ltb (length (cmd s)) (cmd_cap s)
          then Some (mkS (ws s) (cmd s ++ [None]) (games s) (shutdown s) (rdead s)
                         (mkP (PStopPut k) (outcome p) (target p) (todo p) (collected p) (next_id p)))
          else None
      | _ => None
      end
  | EStopFull =>
      match pc p with
      | PStopPut (S _) => if Nat.ltb (length (cmd s)) (cmd_cap s) then None else Some (set_pc s PStopFailed)
      | _ => None
      end
  | EStopSet =>
      match pc p with
      | PStopPut O => Some (mkS (ws s) (cmd s) (games s) true (rdead s)
                                (mkP PJoining (outcome p) (target p) (todo p) (collected p) (next_id p)))
      | _ => None
      end
  | EJoined =>
      match pc p with
      | PJoining => if forallb is_exited (ws s) then Some (set_pc s PStopped) else None
      | _ => None
      end
  | EJoinTimeout =>
      match pc p with
      | PJoining =>
          if join_timeout cfg
          then Some (mkS (map kill_one (ws s)) (cmd s) (games s) (shutdown s)
                         (rdead s || existsb is_reading (ws s))
                         (mkP PStopped (outcome p) (target p) (todo p) (collected p) (next_id p)))
          else None
      | _ => None
      end
  | WReady w =>
      match nth_error (ws s) w with
      | Some Starting => Some (set_w s w Idle)
      | _ => None
      end
  | WLock w =>
      match nth_error (ws s) w with
      | Some Idle => if rdead s || existsb is_reading (ws s) then None else Some (set_w s w Reading)
      | _ => None
      end
  | WTake w =>
      match nth_error (ws s) w, cmd s with
      | Some Reading, m :: c' =>
          Some (mkS (upd w (match m with Some id => Playing id | None => Done end) (ws s))
                    c' (games s) (shutdown s) (rdead s) p)
      | _, _ => None
      end
  | WFinish w =>
      match nth_error (ws s) w with
      | Some (Playing id) =>
          if Nat.ltb (length (games s)) (games_cap s)
          then Some (mkS (upd w Idle (ws s)) (cmd s) (games s ++ [GGame id]) (shutdown s) (rdead s) p)
          else None
      | _ => None
      end
  | WExit w =>
      match nth_error (ws s) w with
      | Some Done => if shutdown s then Some (set_w s w (Exited 0)) else None
      | _ => None
      end
  | FRaise w =>
      match nth_error (ws s) w with
      | Some (Exited _) | None => None
      | Some _ => Some (set_w s w (Exited (raise_code cfg)))
      end
  | FKill w c =>
      if c =? 0 then None else
      match nth_error (ws s) w with
      | Some (Exited _) | None => None
      | Some st => Some (mkS (upd w (Exited c) (ws s)) (cmd s) (games s) (shutdown s)
                             (rdead s || is_reading st) p)
      end
  | FKillMidPut w c =>
      if c =? 0 then None else
      match nth_error (ws s) w with
      | Some (Playing _) =>
          if Nat.ltb (length (games s)) (games_cap s)
          then Some (mkS (upd w (Exited c) (ws s)) (cmd s) (games s ++ [GTorn]) (shutdown s) (rdead s) p)
          else None
      | _ => None
      end
  end.

(* a schedule: the events in order; None if one of them is not enabled *)
Fixpoint run (cfg : config) (tr : list event) (s : state) : option state :=
  match tr with
  | [] => Some s
  | e :: tr' => match step cfg e s with Some s' => run cfg tr' s' | None => None end
  end.

Definition is_fault (e : event) : bool :=
  match e with FRaise _ | FKill _ _ | FKillMidPut _ _ => true | _ => false end.
Definition is_kill (e : event) : bool :=
  match e with FKill _ _ | FKillMidPut _ _ => true | _ => false end.
Definition is_midput (e : event) : bool :=
  match e with FKillMidPut _ _ => true | _ => false end.
Definition is_begin (e : event) : bool := match e with EBegin _ => true | _ => false end.
(* a completion of the parent's timed get *)
Definition is_get (e : event) : bool := match e with ERecv | ETimeout => true | _ => false end.
Definition gets (tr : list event) : nat := length (filter is_get tr).

(* ---- observables ---------------------------------------------------------- *)
Definition cmd_ids (s : state) : list Z :=
  flat_map (fun m => match m with Some i => [i] | None => [] end) (cmd s).
Definition game_ids (s : state) : list Z :=
  flat_map (fun m => match m with GGame i => [i] | GTorn => [] end) (games s).
Definition playing_ids (s : state) : list Z :=
  flat_map (fun st => match st with Playing i => [i] | _ => [] end) (ws s).
(* every id that exists somewhere in the system *)
Definition all_ids (s : state) : list Z :=
  collected (par s) ++ game_ids s ++ playing_ids s ++ cmd_ids s.
(* games that can still reach the parent *)
Definition outstanding (s : state) : nat :=
  (todo (par s) + length (cmd_ids s) + length (playing_ids s) + length (game_ids s))%nat.

Definition has_failed (s : state) : Prop := exists w c, nth_error (ws s) w = Some (Exited c) /\ c <> 0.
Definition no_exit (s : state) : Prop := forall w c, nth_error (ws s) w <> Some (Exited c).
(* no truncated message in the pipe, parent not blocked on one *)
Definition intact (s : state) : Prop := ~ In GTorn (games s) /\ pc (par s) <> PStuck.
Definition all_exited (s : state) : Prop := forall w st, nth_error (ws s) w = Some st -> exists c, st = Exited c.

(* the ids base, base+1, ..., base+n-1 *)
Definition zseq (base : Z) (n : nat) : list Z := map (fun i => base + Z.of_nat i) (seq 0 n).

(* ---- executable support for the correspondence -------------------------------- *)
Definition opt_z_eqb (a b : option Z) : bool :=
  match a, b with Some x, Some y => x =? y | None, None => true | _, _ => false end.
Fixpoint zlist_eqb (a b : list Z) : bool :=
  match a, b with
  | [], [] => true
  | x :: a', y :: b' => (x =? y) && zlist_eqb a' b'
  | _, _ => false
  end.
Fixpoint zlist_nodup (l : list Z) : bool :=
  match l with [] => true | x :: t => negb (existsb (Z.eqb x) t) && zlist_nodup t end.

(* outcome classes reported by the harness *)
Definition CLS_RETURNED := 0.
Definition CLS_RAISED := 1.
Definition CLS_HUNG := 2.

(* the parent can never leave play_many again unless a further fault occurs:
   blocked on a truncated message, or nobody can ever deliver a game and no exit code is bad *)
Definition blocked_for_ever (st : wstate) (s : state) : bool :=
  match st with
  | Exited c => c =? 0
  | Idle => rdead s
  | _ => false
  end.
Definition hang_state (s : state) : bool :=
  match outcome (par s) with
  | ORunning =>
      match pc (par s) with
      | PStuck => true
      | _ => forallb (fun st => blocked_for_ever st s) (ws s)
             && match game_ids s with [] => true | _ => false end
      end
  | _ => false
  end.
(* stop() can never return unless a further fault occurs: it is joining without a timeout, and
   every worker that has not exited waits for the read lock of a dead process *)
Definition stop_hang_state (cfg : config) (s : state) : bool :=
  match pc (par s) with
  | PJoining => negb (join_timeout cfg) && negb (forallb is_exited (ws s))
                && forallb (fun st => is_exited st || match st with Idle => rdead s | _ => false end) (ws s)
  | _ => false
  end.

Definition seg_class (s : state) : Z :=
  match outcome (par s) with
  | OReturned => CLS_RETURNED
  | ORaised => CLS_RAISED
  | _ => if hang_state s then CLS_HUNG else 3
  end.

Definition STOP_OK := 0.
Definition STOP_FULL := 1.
Definition STOP_HUNG := 2.
Definition STOP_NOT_CALLED := 3.
Definition stop_class (cfg : config) (s : state) : Z :=
  match pc (par s) with
  | PStopped => STOP_OK
  | PStopFailed => STOP_FULL
  | PBetween | PFilling | PWaiting | PStuck => STOP_NOT_CALLED
  | _ => if stop_hang_state cfg s then STOP_HUNG else 4
  end.

Definition exit_code (st : wstate) : option Z := match st with Exited c => Some c | _ => None end.

(* One request as the harness observed it: the part of the schedule that belongs to it, the
   outcome class, the ids of the transcripts in the order they were returned, and whether both
   queues were found empty afterwards (looked at only after a normal return). *)
Definition segment : Type := list event * (Z * list Z * bool).

Definition seg_ok (s : state) (o : Z * list Z * bool) : bool :=
  let '(cls, ids, queues_empty) := o in
  (seg_class s =? cls)
  && (if cls =? CLS_RETURNED
      then zlist_eqb (collected (par s)) ids
           && Nat.eqb (length ids) (target (par s))
           && zlist_nodup ids
           && Bool.eqb queues_empty (match cmd s, games s with [], [] => true | _, _ => false end)
      else true).

Fixpoint run_segments (cfg : config) (segs : list segment) (s : state) : option state :=
  match segs with
  | [] => Some s
  | (tr, o) :: rest =>
      match run cfg tr s with
      | Some s' => if seg_ok s' o then run_segments cfg rest s' else None
      | None => None
      end
  end.

(* A scenario: number of workers; the requests; the schedule of stop() and what follows; the
   observed result of stop() and the exit codes at the very end (None = still alive).  Exit codes
   are compared by class only (alive / zero / positive / negative): the property needs no more. *)
Definition scenario : Type := nat * list segment * list event * (Z * list (option Z)).

Definition scenario_ok (cfg : config) (sc : scenario) : bool :=
  let '(n, segs, tail, (stopcls, codes)) := sc in
  match run_segments cfg segs (init n) with
  | Some s1 =>
      match run cfg tail s1 with
      | Some s2 =>
          (stop_class cfg s2 =? stopcls)
          && Nat.eqb (length codes) (length (ws s2))
          && forallb (fun p => opt_z_eqb (option_map Z.sgn (exit_code (fst p))) (option_map Z.sgn (snd p)))
                     (combine (ws s2) codes)
      | None => false
      end
  | None => false
  end.

(* diagnostic view of a failing scenario: index of the first event that is not enabled (or -1),
   and the classes / ids / exit codes the model ends with *)
Fixpoint first_stuck (cfg : config) (tr : list event) (s : state) (i : Z) : Z * state :=
  match tr with
  | [] => (-1, s)
  | e :: tr' => match step cfg e s with Some s' => first_stuck cfg tr' s' (i + 1) | None => (i, s) end
  end.
Definition scenario_view (cfg : config) (sc : scenario) :=
  let '(n, segs, tail, _) := sc in
  let tr := flat_map fst segs ++ tail in
  let '(i, s) := first_stuck cfg tr (init n) 0 in
  (i, seg_class s, collected (par s), stop_class cfg s, map exit_code (ws s), (length (cmd s), length (games s))).
