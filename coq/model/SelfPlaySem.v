(* Semantics of what python/tak/self_play.py uses beyond model/PySem.v, for the generated file gen/SelfPlayGen.v.
   No proofs.  TRUSTED, like PySem.v; harness/props/t11.py runs the generated functions against the implementation.

   The ENGINE IS AN ORACLE, exactly as in model/SelfPlay.v: one `otree` is consumed per `engine.analyze(position)`.
   An otree holds what play_one_game reads off the returned search tree: the children as (move, position) pairs
   (`c.move`, `tree.children[k].position` - the code takes the NEXT POSITION from the child, it does not call
   Position.move), `engine.tree_probs(tree)`, `tree.value`, `tree.simulations`, `tree.v_zero`, and the index
   `torch.multinomial(probs, 1).item()` will draw.  The sampler's answer travels with the probability tensor
   (`oprobs`), because the code hands the sampler nothing but that tensor.

   Floats are rationals (Q), as in model/SelfPlay.v: the code divides once (tree.value / tree.simulations),
   takes abs and compares; C11's correspondence already compares the division within 2^-52. *)
From Coq Require Import ZArith QArith Qabs List Bool.
From TV Require Import model.Tak model.Road model.PySem model.SelfPlay.
Import ListNotations.
Open Scope Z_scope.

Record otree := mkOTree {
  ot_children : list (mv * position);   (* tree.children: (c.move, c.position) *)
  ot_probs : list Q;                    (* engine.tree_probs(tree) *)
  ot_value : Q;                         (* tree.value *)
  ot_sims : Z;                          (* tree.simulations *)
  ot_vzero : Q;                         (* tree.v_zero *)
  ot_pick : Z                           (* torch.multinomial(probs, 1).item() *)
}.
Record oprobs := mkOProbs { op_probs : list Q; op_pick : Z }.
Definition engine := list otree.

(* tree = engine.analyze(position): the next answer of the stream (the argument is not looked at: an oracle) *)
Definition engine_analyze (e : engine) : res (otree * engine) :=
  match e with [] => Crash OracleExhausted | t :: r => Ok (t, r) end.
Definition engine_tree_probs (t : otree) : oprobs := mkOProbs (ot_probs t) (ot_pick t).
Definition child_move (c : mv * position) : mv := fst c.
Definition child_position (c : mv * position) : position := snd c.

(* what model/SelfPlay.v calls an answer *)
Definition answer_of (t : otree) : answer :=
  mkAns (map fst (ot_children t)) (ot_probs t) (ot_value t) (ot_sims t) (ot_vzero t) (ot_pick t).

(* ---------- floats as rationals ---------- *)
(* x / n for a float x and an int n: ZeroDivisionError *)
Definition py_fdiv_int (x : Q) (n : Z) : res Q :=
  if n =? 0 then Crash ZeroDivisionError else Ok (x / inject_Z n)%Q.
Definition py_fabs (x : Q) : Q := Qabs x.
Definition py_fge (a b : Q) : bool := Qle_bool b a.       (* a >= b *)

(* ---------- Transcript (an attrs class with list fields; `stats` is not modelled) ---------- *)
Definition tr_new : transcript := mkTr [] [] [] [] None.
Definition tr_set_positions (t : transcript) v := mkTr v (t_moves t) (t_probs t) (t_values t) (t_result t).
Definition tr_set_moves (t : transcript) v := mkTr (t_positions t) v (t_probs t) (t_values t) (t_result t).
Definition tr_set_probs (t : transcript) v := mkTr (t_positions t) (t_moves t) v (t_values t) (t_result t).
Definition tr_set_values (t : transcript) v := mkTr (t_positions t) (t_moves t) (t_probs t) v (t_result t).
Definition tr_set_result (t : transcript) v := mkTr (t_positions t) (t_moves t) (t_probs t) (t_values t) v.

(* torch.zeros((n, m)) as a list of n rows of m zeros (a negative dimension is a RuntimeError in torch: Unmodelled) *)
Definition py_zeros2 (n m : Z) : res (list (list Q)) :=
  if (n <? 0) || (m <? 0) then Crash Unmodelled else Ok (repeat (repeat 0%Q (Z.to_nat m)) (Z.to_nat n)).
