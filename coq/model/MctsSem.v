(* MctsSem - the Python / torch semantics of the constructs that
   MCTS.update, Node.policy_probs and the pure part of MCTS.populate
   (python/tak/mcts.py) use beyond model/PySem.v, as a small library against
   which gen/MctsGen.v (regenerated from the source on every run by
   harness/mcts2coq.py) is written.  No proofs in this file.

   This file is TRUSTED; harness/props/t08.py validates every operation against
   CPython / torch on random dyadic data on every run.

   Python floats and float32 tensor entries are EXACT rationals (Q): the
   correspondence uses dyadic data for which the float operations used here
   (+, unary -, the noise mix, comparisons) are exact; a division is compared
   within a stated tolerance.  A 1-d float tensor is a `list Q`.  Where torch
   would produce a non-finite value (x / 0) or broadcast shapes, the outcome
   is `Crash Unmodelled` = "no position taken" (PySem.v); no equality theorem
   can absorb it, so the theorems' guards have to exclude it. *)
From Coq Require Import ZArith QArith List Bool.
From TV Require Import model.Tak model.Road model.PySem model.Mcts.
Import ListNotations.
Open Scope Z_scope.

(* ---------- the statistics of a node, as MCTS.update sees a path ---------- *)
Record pystat := mkPyStat { ps_v_zero : Q; ps_value : Q; ps_simulations : Z }.
Definition set_ps_value (s : pystat) (v : Q) : pystat := mkPyStat (ps_v_zero s) v (ps_simulations s).
Definition set_ps_simulations (s : pystat) (n : Z) : pystat := mkPyStat (ps_v_zero s) (ps_value s) n.
Definition set_ps_v_zero (s : pystat) (v : Q) : pystat := mkPyStat v (ps_value s) (ps_simulations s).

(* ---------- mcts.Node as an object with its attributes ---------- *)
Inductive pynode :=
  PyNode (position : position) (move : option mv) (v_zero value : Q) (simulations : Z)
         (child_probs : option (list Q)) (children : option (list pynode)).
Definition pn_position n := match n with PyNode p _ _ _ _ _ _ => p end.
Definition pn_move n := match n with PyNode _ m _ _ _ _ _ => m end.
Definition pn_v_zero n := match n with PyNode _ _ v _ _ _ _ => v end.
Definition pn_value n := match n with PyNode _ _ _ v _ _ _ => v end.
Definition pn_simulations n := match n with PyNode _ _ _ _ s _ _ => s end.
Definition pn_child_probs n := match n with PyNode _ _ _ _ _ c _ => c end.
Definition pn_children n := match n with PyNode _ _ _ _ _ _ k => k end.
Definition set_pn_v_zero n (v : Q) := match n with PyNode p m _ va s c k => PyNode p m v va s c k end.
Definition set_pn_child_probs n (c : option (list Q)) := match n with PyNode p m v va s _ k => PyNode p m v va s c k end.
Definition set_pn_children n (k : option (list pynode)) := match n with PyNode p m v va s c _ => PyNode p m v va s c k end.
(* Node(position=p, move=m): the attrs defaults *)
Definition py_new_node (p : position) (m : mv) : pynode := PyNode p (Some m) 0 0 0 None None.
(* node.children.append(x): AttributeError when children is None *)
Definition pn_children_append (n : pynode) (x : pynode) : res pynode :=
  k <- py_opt_append (pn_children n) x ;; ret (set_pn_children n k).

(* the view of a model node (model/Mcts.v) as the Python object: child_probs is
   None exactly when children is None; the ghost field n_raw is not there *)
Fixpoint py_of (n : node) : pynode :=
  match n with
  | Node p m v0 value sims _ probs kids =>
    PyNode p m v0 value (Z.of_nat sims)
           (match kids with None => None | Some _ => Some probs end)
           (match kids with None => None | Some ks => Some (map py_of ks) end)
  end.
Definition stat_of (n : node) : pystat := mkPyStat (n_v0 n) (n_value n) (Z.of_nat (n_sims n)).

(* ---------- mcts.Config: the fields populate reads ---------- *)
Record pyconfig := mkPyConfig {
  cfg_cutoff_prob : Q;
  cfg_root_noise_alpha : option Q;
  cfg_root_noise_mix : Q;           (* Optional[float] in the source; None is not modelled *)
  cfg_time_limit : Q;
  cfg_simulation_limit : Z
}.                                  (* Config.C is a float handed to the multiplier: a separate oracle-typed value *)

(* ---------- numbers ---------- *)
(* a / b on floats: ZeroDivisionError *)
Definition py_truediv (a b : Q) : res Q :=
  if Qeq_bool b 0 then Crash ZeroDivisionError else Ok (a / b)%Q.
Definition q_of_int (n : Z) : Q := inject_Z n.
Definition q_ltb (a b : Q) : bool := negb (Qle_bool b a).
Definition q_leb (a b : Q) : bool := Qle_bool a b.
Definition q_eqb (a b : Q) : bool := Qeq_bool a b.

(* `winner == color` where winner may be None *)
Definition opt_color_is (w : option color) (c : color) : bool :=
  match w with Some c' => color_eqb c' c | None => false end.
Definition is_some {A} (o : option A) : bool := match o with Some _ => true | None => false end.

(* len(x) where x may be None: TypeError *)
Definition py_len_opt {A} (o : option (list A)) : res Z :=
  match o with Some l => Ok (zlen l) | None => Crash TypeError end.
(* a tensor argument of a native function: None is refused (TypeError) *)
Definition py_tensor_arg (o : option (list Q)) : res (list Q) :=
  match o with Some l => Ok l | None => Crash TypeError end.

(* ---------- encoding.n_moves_for_size / decode_move, Position.move ---------- *)
(* len(MOVES_BY_SIZE[size]); C07 ties the table *)
Definition n_moves_for_size (size : Z) : Z := zlen (table size).
(* MOVES_BY_SIZE[size][mid] for 0 <= mid (the ids come from torch.nonzero).  As in the module, the tables of the
   sizes 0..6 are a constant computed once (vm_compute caches a closed constant); for any other size the table is
   computed on the spot - the value is `table size` in every case (proofs/MctsGenEq.v moves_of_size_eq) *)
Definition MOVES_BY_SIZE : list (list mv) := map table [0; 1; 2; 3; 4; 5; 6].
Definition moves_of_size (size : Z) : list mv :=
  if (0 <=? size) && (size <=? 6) then nth (Z.to_nat size) MOVES_BY_SIZE [] else table size.
Definition py_decode_move (size mid : Z) : res mv :=
  match (if mid <? 0 then None else nth_error (moves_of_size size) (Z.to_nat mid)) with
  | Some m => Ok m
  | None => Crash IndexError
  end.
(* position.move(m): IllegalMove is the module's own refusal (T01 ties game.py to Tak.move) *)
Definition py_move (p : position) (m : mv) : res position := embed (Tak.move p m).

(* ---------- 1-d float tensors ---------- *)
(* t[:n] *)
Definition ft_slice_to (t : list Q) (n : Z) : list Q := py_slice t None (Some n).
(* s * t, t1 + t2 (equal shapes; torch would broadcast or fail otherwise) *)
Definition ft_scale (s : Q) (t : list Q) : list Q := map (fun x => (s * x)%Q) t.
Fixpoint ft_add (a b : list Q) : res (list Q) :=
  match a, b with
  | [], [] => Ok []
  | x :: a', y :: b' => r <- ft_add a' b' ;; ret ((x + y)%Q :: r)
  | _, _ => Crash Unmodelled
  end.
(* t >= s : a bool tensor *)
Definition ft_ge (t : list Q) (s : Q) : list bool := map (fun x => Qle_bool s x) t.
Definition ft_gt (t : list Q) (s : Q) : list bool := map (fun x => negb (Qle_bool x s)) t.
(* torch.nonzero(b)[:, 0].numpy(): the indices of the true entries, ascending *)
Fixpoint nz_from (k : Z) (b : list bool) : list Z :=
  match b with
  | [] => []
  | x :: t => if x then k :: nz_from (k + 1) t else nz_from (k + 1) t
  end.
Definition bt_nonzero (b : list bool) : list Z := nz_from 0 b.
(* t[ids] for a list of ints: Python's index rule per entry (IndexError outside) *)
Definition ft_index (t : list Q) (ids : list Z) : res (list Q) := py_mapM (py_getitem t) ids.
(* t.sum() *)
Definition ft_sum (t : list Q) : Q := Qred (sumq t).
(* t /= s: a zero divisor gives non-finite entries (no position), except on an empty tensor *)
Definition ft_idiv_scalar (t : list Q) (s : Q) : res (list Q) :=
  match t with
  | [] => Ok []
  | _ :: _ => if Qeq_bool s 0 then Crash Unmodelled else Ok (map (fun x => Qred (x / s)%Q) t)
  end.

(* x / d for a float x and an int d (the multiplier's division): ZeroDivisionError *)
Definition py_fdiv_int {F} (f_div_int : F -> Z -> F) (x : F) (d : Z) : res F :=
  if d =? 0 then Crash ZeroDivisionError else Ok (f_div_int x d).

(* ====================================================================== *)
(* The search loop: MCTS.descend / analyze_tree / analyze / get_move /     *)
(* select_root_move / tree_probs                                           *)
(* ====================================================================== *)
(* THE TREE AS A HEAP.  The Python code holds references to Node objects and
   mutates them in place: descend() collects the nodes of the path in a list,
   populate(path[-1], ..) rewrites the leaf, update(path) rewrites every node of
   the path.  The translation threads ONE immutable tree (`hp`, the node the
   search was started on) instead and represents a reference to a node by its
   PLACE: the child indices that lead to it from that root.  Reading an
   attribute of a reference reads through the tree; a call that mutates the
   object behind a reference reads the node at the place, applies the
   (functional) translation of the callee and writes the result back at the
   place.  This is the semantics of the in-place code PROVIDED the objects
   form a tree: every node is reachable from the root by exactly one chain of
   `children[i]` and no list / position is shared between two nodes in a way
   a write could be seen through.  That proviso is not proved here; it is what
   C08's position snapshots and C05 check on the implementation. *)
Definition place := list Z.
Definition place_eqb (a b : place) : bool := list_eqb Z.eqb a b.   (* `a is b` for two references *)

(* x[...] / iteration over children that are None: TypeError *)
Definition pn_children_list (n : pynode) : res (list pynode) :=
  match pn_children n with Some ks => Ok ks | None => Crash TypeError end.

Fixpoint pt_get (n : pynode) (pl : place) : res pynode :=
  match pl with
  | [] => Ok n
  | c :: r => ks <- pn_children_list n ;; k <- py_getitem ks c ;; pt_get k r
  end.
Fixpoint pt_set (n : pynode) (pl : place) (x : pynode) : res pynode :=
  match pl with
  | [] => Ok x
  | c :: r =>
    ks <- pn_children_list n ;; k <- py_getitem ks c ;; k' <- pt_set k r x ;;
    ks' <- py_setitem ks c k' ;; ret (set_pn_children n (Some ks'))
  end.
(* ref.children[i]: the place of that child (Python's index rule; the place keeps the position counted from 0) *)
Definition pt_child (hp : pynode) (pl : place) (i : Z) : res place :=
  n <- pt_get hp pl ;; ks <- pn_children_list n ;;
  match py_index (zlen ks) i with Some k => Ok (pl ++ [k]) | None => Crash IndexError end.

(* calling a translated method that mutates the node behind a reference *)
Definition pt_with_node (hp : pynode) (pl : place) (f : pynode -> res pynode) : res pynode :=
  n <- pt_get hp pl ;; n' <- f n ;; pt_set hp pl n'.

(* update(path) on a list of references: the statistics records of those nodes go in, the updated records are
   written back.  Only for pairwise distinct places (a node occurring twice in the list would be updated twice by
   the in-place code): otherwise no position is taken *)
Definition pn_stat (n : pynode) : pystat := mkPyStat (pn_v_zero n) (pn_value n) (pn_simulations n).
Definition pn_set_stat (n : pynode) (s : pystat) : pynode :=
  match n with PyNode p m _ _ _ c k => PyNode p m (ps_v_zero s) (ps_value s) (ps_simulations s) c k end.
Fixpoint places_distinct (l : list place) : bool :=
  match l with
  | [] => true
  | a :: t => negb (existsb (place_eqb a) t) && places_distinct t
  end.
Definition pt_stats (hp : pynode) (path : list place) : res (list pystat) :=
  py_mapM (fun pl => n <- pt_get hp pl ;; ret (pn_stat n)) path.
Fixpoint pt_put_stats (hp : pynode) (path : list place) (sts : list pystat) : res pynode :=
  match path, sts with
  | [], [] => Ok hp
  | pl :: path', s :: sts' =>
    n <- pt_get hp pl ;; hp' <- pt_set hp pl (pn_set_stat n s) ;; pt_put_stats hp' path' sts'
  | _, _ => Crash Unmodelled
  end.
Definition pt_with_stats (hp : pynode) (path : list place) (f : list pystat -> res (list pystat)) : res pynode :=
  if places_distinct path then sts <- pt_stats hp path ;; sts' <- f sts ;; pt_put_stats hp path sts'
  else Crash Unmodelled.

(* Node(position=p, move=None): the root of a new tree *)
Definition py_new_root (p : position) : pynode := PyNode p None 0 0 0 None None.

(* ---------- oracles with state: the sampler, the clock, the network, the Dirichlet sample ---------- *)
Definition M (S A : Type) : Type := S -> res (A * S).
Definition mret {S A} (v : A) : M S A := fun s => Ok (v, s).
Definition mbind {S A B} (c : M S A) (k : A -> M S B) : M S B :=
  fun s => match c s with Ok (v, s') => k v s' | Illegal => Illegal | Crash e => Crash e end.
Definition lift {S A} (c : res A) : M S A :=
  fun s => match c with Ok v => Ok (v, s) | Illegal => Illegal | Crash e => Crash e end.
Definition mcrash {S A} (e : exn) : M S A := fun _ => Crash e.
Notation "x <~ c ;; k" := (mbind c (fun x => k)) (at level 61, c at next level, right associativity).
Notation "' pat <~ c ;; k" := (mbind c (fun x => match x with pat => k end))
  (at level 61, pat pattern, c at next level, right associativity).

(* time: a float, or float("inf") kept symbolic *)
Inductive xtime := TFin (t : Q) | TInf.
Definition xt_gt (now : Q) (deadline : xtime) : bool :=
  match deadline with TFin d => negb (Qle_bool now d) | TInf => false end.
