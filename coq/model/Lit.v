(* Short names used by generated case files. *)
From Coq Require Import ZArith List.
From TV Require Import model.Tak.
Definition WF := mkPiece White Flat.
Definition WS := mkPiece White Standing.
Definition WC := mkPiece White Capstone.
Definition BF := mkPiece Black Flat.
Definition BS := mkPiece Black Standing.
Definition BC := mkPiece Black Capstone.
Definition PF := PlaceFlat.
Definition PS := PlaceStanding.
Definition PC := PlaceCapstone.
Definition SL := SlideLeft.
Definition SR := SlideRight.
Definition SU := SlideUp.
Definition SD := SlideDown.
Definition M := mkMove.
Definition P := mkPos.
