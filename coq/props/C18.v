(* C18 - a self-play batch returns exactly N games or fails loudly; it never hangs.
   Property theorems only; the protocol model is model/Workers.v, proofs are in
   proofs/WorkersInv.v and proofs/WorkersProofs.v.  PARTIAL by design: the theorems
   quantify over every interleaving (schedule, fault sequence) of the protocol MODEL;
   OS process and pipe behaviour is tied by the correspondence at run time.
   `reachable cfg s`: s is reached from `init n` (n workers, all starting) by some schedule.
   `current` is the tree as it is now; `prefix` / `pre_stopfix` are the variants before the
   fix commits 45b70e8 / 28ebc86 and are used only by the theorems labelled PRE-FIX. *)
From Coq Require Import ZArith List Bool Permutation.
From TV Require Import gen.WorkersIR model.Workers model.WorkersDenote proofs.WorkersInv proofs.WorkersProofs proofs.WorkersTie.
Import ListNotations.
Open Scope Z_scope.

(* "none lost": collected + queued games + games being played + queued ids + todo = N while no worker has exited *)
Theorem C18_count_invariant : forall cfg s, reachable cfg s -> no_exit s ->
  (length (collected (par s)) + length (game_ids s) + length (playing_ids s) + length (cmd_ids s)
   + todo (par s) = target (par s))%nat.
Proof. exact count_invariant_l. Qed.

(* "returns exactly N complete transcripts": a normal return carries exactly the N games this request
   issued (ids next_id-N .. next_id-1, each once) - whatever faults happened on the way *)
Theorem C18_returns_exactly_N : forall cfg s, reachable cfg s -> outcome (par s) = OReturned ->
  length (collected (par s)) = target (par s) /\
  NoDup (collected (par s)) /\
  Permutation (collected (par s)) (zseq (next_id (par s) - Z.of_nat (target (par s))) (target (par s))).
Proof. exact returns_exactly_N_l. Qed.

(* "none carried over between consecutive requests": at a normal return the command queue is empty,
   the games queue holds no transcript and no worker holds an id *)
Theorem C18_clean_between_requests : forall cfg s, reachable cfg s ->
  outcome (par s) = OReturned -> pc (par s) = PBetween ->
  cmd s = [] /\ (forall m, In m (games s) -> m = GTorn) /\
  (forall w id, nth_error (ws s) w <> Some (Playing id)) /\ todo (par s) = 0%nat.
Proof. exact clean_between_requests_l. Qed.

(* ... and the games queue is literally empty unless a worker died in the middle of a write *)
Theorem C18_games_queue_empty_between_requests : forall cfg s, reachable cfg s ->
  outcome (par s) = OReturned -> pc (par s) = PBetween -> ~ In GTorn (games s) -> games s = [].
Proof. exact clean_intact. Qed.

(* no id exists twice anywhere (transcripts, queues, workers), at any time *)
Theorem C18_ids_distinct : forall cfg s, reachable cfg s -> NoDup (all_ids s).
Proof. exact ids_distinct_l. Qed.

(* fault-free progress ("returns exactly N" is not only safety): while a request is running, no worker
   has exited, no message is torn and cmd's read lock is not dead, somebody can take a step that is
   neither a fault nor a timeout - the dispatch loop always reaches the timed get (`except queue.Full:
   break` is the step EFull), also for N > 4*workers, and cannot starve the workers ... *)
Theorem C18_request_progress : forall cfg s, reachable cfg s ->
  outcome (par s) = ORunning -> no_exit s -> intact s -> rdead s = false -> (nworkers s >= 1)%nat ->
  exists e s', is_fault e = false /\ e <> ETimeout /\ step cfg e s = Some s'.
Proof. exact request_progress_l. Qed.

(* ... and every such step lowers `rmeasure` (6*N + 2*workers + 2 right after EBegin N): a request that is
   still running after a fault-free, timeout-free schedule tr has taken at most rmeasure s steps *)
Theorem C18_request_bounded : forall cfg tr s s', reachable cfg s -> run cfg tr s = Some s' ->
  outcome (par s') = ORunning -> (forall e, In e tr -> productive e = true) ->
  outcome (par s) = ORunning /\ (length tr + rmeasure s' <= rmeasure s)%nat.
Proof. exact request_bounded_l. Qed.

(* "if a worker fails ... the request raises an error within bounded time", stated without fairness as
   bounded progress of the parent's own steps: once a worker has a non-zero exit code, after at most
   outstanding+1 further completions of the timed get the request has returned exactly N transcripts
   or raised; it is never still waiting.
   PARTIAL: assumes that no worker dies in the middle of writing a transcript to the games pipe
   (`intact s`, no FKillMidPut in tr).  Without that hypothesis the statement is false of the model
   and of the code: C18_torn_put_hangs_refuted. *)
Theorem C18_failure_detected_partial : forall cfg s tr s',
  reachable cfg s -> run cfg tr s = Some s' ->
  no_ev is_begin tr -> no_ev is_midput tr ->
  outcome (par s) = ORunning -> intact s -> has_failed s ->
  (gets tr >= outstanding s + 1)%nat ->
  (outcome (par s') = OReturned /\ length (collected (par s')) = target (par s')) \/ outcome (par s') = ORaised.
Proof. exact failure_detected_l. Qed.

(* in the tree as it is now every fault event (exception anywhere in run_job incl. the factory, abrupt
   death) leaves a non-zero exit code, i.e. establishes the hypothesis `has_failed` of the theorem above *)
Theorem C18_fault_leaves_nonzero_exit : forall e s s', step current e s = Some s' -> is_fault e = true -> has_failed s'.
Proof. exact fault_sets_failed. Qed.

(* "fails loudly" is never spurious: the request raises only if some worker has a non-zero exit code *)
Theorem C18_raise_only_on_failure : forall cfg s, reachable cfg s -> outcome (par s) = ORaised -> has_failed s.
Proof. exact raise_only_on_failure. Qed.

(* PRE-FIX variant (before 45b70e8, exception logged and exit code 0): one worker, N = 1, the engine
   factory raises; the request is then running for ever - no schedule ever returns or raises, and the
   parent's get can time out any number of times.  Documentation of the defect the fix removed. *)
Theorem C18_swallowed_exception_hangs_refuted :
  exists s0, run prefix swallowed_schedule (init 1) = Some s0 /\
    outcome (par s0) = ORunning /\
    (forall tr s', run prefix tr s0 = Some s' -> outcome (par s') = ORunning /\ collected (par s') = []) /\
    (forall k, exists tr s', gets tr = k /\ run prefix tr s0 = Some s').
Proof. exact swallowed_exception_hangs_l. Qed.

(* CURRENT tree - finding `torn-put-hang`: one worker, N = 1, the worker is killed while the feeder
   thread is writing the transcript; the parent's get blocks inside recv_bytes: a worker has a
   non-zero exit code, the request is still running and NO event at all is enabled any more. *)
Theorem C18_torn_put_hangs_refuted :
  exists s0, run current torn_schedule (init 1) = Some s0 /\
    has_failed s0 /\ outcome (par s0) = ORunning /\ pc (par s0) = PStuck /\
    (forall e, step current e s0 = None).
Proof. exact torn_put_hangs_l. Qed.

(* PRE-FIX variant (before 28ebc86, unbounded p.join()): two workers, N = 1, the idle worker is killed
   while it holds the command queue's read lock; the request returns its transcript normally, stop()
   sends the sentinels and then joins for ever: nothing but a further fault can move. *)
Theorem C18_dead_lock_holder_stop_hangs_refuted :
  exists s0, run pre_stopfix dead_lock_schedule (init 2) = Some s0 /\
    outcome (par s0) = OReturned /\ collected (par s0) = [0] /\ pc (par s0) = PJoining /\
    (forall e, is_fault e = false -> step pre_stopfix e s0 = None).
Proof. exact dead_lock_holder_stop_hangs_l. Qed.

(* "workers exit on shutdown", part 1 (any history, any faults, current tree): stop() is never blocked
   (one of its own steps is always enabled), is over after workers+2 of its own steps, and when it is
   over - normally or with queue.Full, which can only happen after play_many raised - no worker is left *)
Theorem C18_stop_terminates_workers : forall s tr s',
  reachable current s -> stopping s -> run current tr s = Some s' ->
  (exists e s2, is_stop_step e = true /\ step current e s = Some s2) /\
  ((stop_steps tr >= stop_rank s)%nat -> stop_over s') /\
  (stop_over s' -> all_exited s') /\
  (pc (par s') = PStopFailed -> outcome (par s') = ORaised).
Proof. exact stop_terminates_workers_l. Qed.

(* "workers exit on shutdown", part 2: after a normal return (or before the first request), if no worker
   died holding the command queue's read lock, the workers exit BY THEMSELVES: without any kill and
   without the join deadline stop() cannot fail, every step of anybody brings it closer to its end
   (at most 6*workers+2 steps), somebody can always move, and at the end every worker has exited *)
Theorem C18_stop_graceful : forall cfg s s1 tr s',
  reachable cfg s -> pc (par s) = PBetween -> outcome (par s) <> ORaised -> rdead s = false ->
  step cfg EStop s = Some s1 -> run cfg tr s1 = Some s' ->
  (forall e, In e tr -> graceful e = true) ->
  (length tr <= 6 * nworkers s + 2)%nat /\
  pc (par s') <> PStopFailed /\
  (pc (par s') = PStopped -> all_exited s') /\
  (pc (par s') <> PStopped ->
     exists e s2, graceful e = true /\ is_fault e = false /\ step cfg e s' = Some s2).
Proof. exact stop_graceful_l. Qed.

(* ---- the tie to the source: gen/WorkersIR.v is regenerated from python/tak/self_play.py on every run ---- *)

(* the source denotes the configuration `current` (exit status on exception non-zero, join with a deadline; queue
   bounds 2*workers / workers, `todo > 0`, `except queue.Full: break`, healthy exit codes {0, None}, non-blocking
   sentinels, epilogue inside the try, and the order of all steps as model/Workers.v has them) *)
Theorem C18_tie_denotes_current : denote workers_ir = Some current.
Proof. exact workers_ir_denotes_current. Qed.
(* the protocol steps with their guards read from the IR are the steps of the model *)
Theorem C18_tie_steps_agree : forall e s, ir_step workers_ir e s = step current e s.
Proof. exact tie_steps_agree. Qed.
(* the parent's exit-code test is the model's, for every exit code *)
Theorem C18_tie_exit_codes : forall st, raises (ir_exit_test workers_ir) (exit_code st) = bad_exit st.
Proof. exact tie_timeout_exit_codes. Qed.
(* the properties for the regenerated protocol (ir_reachable / ir_run / ir_step instead of the hand-written step) *)
Theorem C18_tie_returns_exactly_N : forall s, ir_reachable workers_ir s -> outcome (par s) = OReturned ->
  length (collected (par s)) = target (par s) /\ NoDup (collected (par s)) /\
  Permutation (collected (par s)) (zseq (next_id (par s) - Z.of_nat (target (par s))) (target (par s))).
Proof. exact tie_returns_exactly_N. Qed.
Theorem C18_tie_failure_detected_partial : forall s tr s', ir_reachable workers_ir s -> ir_run workers_ir tr s = Some s' ->
  no_ev is_begin tr -> no_ev is_midput tr -> outcome (par s) = ORunning -> intact s -> has_failed s ->
  (gets tr >= outstanding s + 1)%nat ->
  (outcome (par s') = OReturned /\ length (collected (par s')) = target (par s')) \/ outcome (par s') = ORaised.
Proof. exact tie_failure_detected. Qed.
Theorem C18_tie_fault_leaves_nonzero_exit : forall e s s', ir_step workers_ir e s = Some s' -> is_fault e = true -> has_failed s'.
Proof. exact tie_fault_leaves_nonzero_exit. Qed.
Theorem C18_tie_request_progress : forall s, ir_reachable workers_ir s ->
  outcome (par s) = ORunning -> no_exit s -> intact s -> rdead s = false -> (nworkers s >= 1)%nat ->
  exists e s', is_fault e = false /\ e <> ETimeout /\ ir_step workers_ir e s = Some s'.
Proof. exact tie_request_progress. Qed.
Theorem C18_tie_stop_never_blocked : forall s, stopping s ->
  exists e s', is_stop_step e = true /\ ir_step workers_ir e s = Some s'.
Proof. exact tie_stop_never_blocked. Qed.
