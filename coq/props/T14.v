(* T14 - ptn.format_move is REGENERATED FROM THE SOURCE and proved equal to the hand-written model.  Property theorems
   only.  gen/PtnGen.v is written by harness/py2coq.py from the current text of python/tak/ptn/ptn.py on every run
   (format_move, place_rmap, slide_map, slide_rmap) against model/PySem.v; proofs in proofs/PtnGenEq.v.
   parse_move / PTN.parse are regular-expression based and are not translated.
   `fm_domain m`: x + 97 and y + 49 are code points (chr raises ValueError outside range(0x110000)); a slide carries a
   tuple (sum(None) is a TypeError), its pick-up count has at most 4300 digits (str() limit) and, when it has more than
   one drop, every d + 48 is a code point. *)
From Coq Require Import ZArith List Bool.
From TV Require Import model.Tak model.PySem model.Ptn proofs.PtnProofs proofs.PtnGenEq.
From TV Require gen.GameGen gen.PtnGen.
Import ListNotations.
Open Scope Z_scope.

(* the translated format_move IS the model's on the domain *)
Theorem T14_gen_format_move_eq : forall m, fm_domain m -> PtnGen.format_move m = Ok (Ptn.format_move m).
Proof. exact gen_format_move_eq. Qed.
(* every move of the move universe of sizes 3..8 is in the domain *)
Theorem T14_wf_move8_domain : forall m, wf_move8 m -> fm_domain m.
Proof. exact wf_move8_domain. Qed.
(* outside the domain the code raises where the model carries on: chr out of range, a slide without tuple, a drop whose
   digit is not a code point *)
Theorem T14_gen_format_move_crashes :
  PtnGen.format_move (mkMove (-98) 0 PlaceFlat None) = Crash ValueError /\
  PtnGen.format_move (mkMove 0 0 SlideLeft None) = Crash TypeError /\
  PtnGen.format_move (mkMove 0 0 SlideUp (Some [1; -49])) = Crash ValueError.
Proof. exact gen_format_move_crashes. Qed.
(* C14 transported: writing a move of the universe with the translated writer and reading it back returns the move *)
Theorem T14_gen_parse_format_move : forall m, wf_move8 m ->
  exists s, PtnGen.format_move m = Ok s /\ parse_move s = Accept m.
Proof. exact gen_parse_format_move. Qed.
