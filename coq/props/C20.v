(* C20 - dataset epochs are aligned permutations; the file dataset's stream is reproducible.
   Property theorems only; proofs are in proofs/DatasetProofs.v, the model in model/Dataset.v.
   torch.randperm enters as the Section variable `randperm` with the hypothesis that it
   answers a permutation of 0..n-1 (validated on every observed call by the correspondence);
   torch.load as the function `load`.  Guards: batch_size >= 1 (0 raises ValueError in the
   implementation), all fields with the same number of rows (wf_data). *)
From Coq Require Import ZArith List Permutation.
From TV Require Import model.Dataset proofs.DatasetProofs.
Import ListNotations.

(* "in batches": concatenating the chunks gives the list back *)
Theorem C20_chunks_concat : forall (A : Type) (bs : nat) (l : list A), 0 < bs -> concat (chunks bs l) = l.
Proof. exact @chunks_concat. Qed.

(* "of the configured size with only the last one shorter": all chunks but the last have bs
   elements, every chunk is non-empty and has at most bs, there are ceil(|l|/bs) of them *)
Theorem C20_chunks_sizes : forall (A : Type) (bs : nat) (l : list A), 0 < bs ->
  Forall (fun c : list A => length c = bs) (removelast (chunks bs l)) /\
  (forall c : list A, In c (chunks bs l) -> 0 < length c <= bs) /\
  bs * length (chunks bs l) < length l + bs /\ length l <= bs * length (chunks bs l).
Proof. exact @chunks_sizes. Qed.

(* the loop `for i in range(0, n, bs): {k: v[i:i+bs]}` over the shuffled dict yields, field by field,
   chunks bs (map (nth rows) perm); every batch has the key set of the data *)
Theorem C20_batches_are_chunks : forall (d : dataset) (perm : list nat) (bs : Z) (j : nat) (k : fname) (rows : list row),
  (1 <= bs)%Z -> length perm = nrows d -> nth_error d j = Some (k, rows) ->
  map (batch_field j) (epoch d perm bs) = epoch_field rows perm (Z.to_nat bs) /\
  Forall (fun b : list (fname * list row) => map fst b = map fst d) (epoch d perm bs).
Proof. exact batches_are_chunks. Qed.

(* batch sizes of an epoch (either dataset), in every field *)
Theorem C20_batch_sizes : forall (d : dataset) (perm : list nat) (bs : Z) (j : nat) (k : fname) (rows : list row),
  (1 <= bs)%Z -> length perm = nrows d -> nth_error d j = Some (k, rows) ->
  let cs := map (batch_field j) (epoch d perm bs) in
  let b := Z.to_nat bs in
  Forall (fun c : list row => length c = b) (removelast cs) /\
  (forall c : list row, In c cs -> 0 < length c <= b) /\
  b * length (epoch d perm bs) < nrows d + b /\ nrows d <= b * length (epoch d perm bs).
Proof. exact batch_sizes. Qed.

(* "yields each stored row exactly once": for any answer of randperm that is a permutation *)
Theorem C20_epoch_is_permutation : forall (d : dataset) (perm : list nat) (bs : Z) (j : nat) (k : fname) (rows : list row),
  wf_data d -> (1 <= bs)%Z -> Permutation perm (seq 0 (nrows d)) -> nth_error d j = Some (k, rows) ->
  Permutation (concat (map (batch_field j) (epoch d perm bs))) rows.
Proof. exact epoch_is_permutation. Qed.

(* ... hence for every epoch of a file dataset constructed over a well-formed file, for every
   seed, truncation setting and number n of consumed epochs *)
Theorem C20_every_epoch_is_permutation :
  forall (gen : Type) (seed_gen : Z -> gen) (randperm : gen -> nat -> list nat * gen) (load : list Z -> dataset),
  (forall (g : gen) (n : nat), Permutation (fst (randperm g n)) (seq 0 n)) ->
  forall (c : config) (n : nat),
  wf_data (load (cpath c)) -> (1 <= batch_size c)%Z ->
  Forall (fun e : list batch => forall (j : nat) (k : fname) (rows : list row),
            nth_error (truncate c (load (cpath c))) j = Some (k, rows) ->
            Permutation (concat (map (batch_field j) e)) rows)
         (fst (consume gen randperm n (post_init gen seed_gen load c))).
Proof. exact constructed_stream_epochs. Qed.

(* "keeping all fields of a row together": one index list idx serves every field of the epoch *)
Theorem C20_fields_aligned :
  forall (gen : Type) (randperm : gen -> nat -> list nat * gen),
  (forall (g : gen) (n : nat), Permutation (fst (randperm g n)) (seq 0 n)) ->
  forall s : dstate gen, wf_data (data s) -> (1 <= batch_size (cfg s))%Z ->
  exists idx : list nat,
    Permutation idx (seq 0 (nrows (data s))) /\
    (forall (j : nat) (k : fname) (rows : list row), nth_error (data s) j = Some (k, rows) ->
       length rows = nrows (data s) /\
       concat (map (batch_field j) (fst (iter gen randperm s))) = map (fun i : nat => nth i rows []) idx /\
       Forall (fun b : list (fname * list row) => map fst b = map fst (data s)) (fst (iter gen randperm s))).
Proof. exact iter_fields_aligned. Qed.

(* row by row, for a given answer of randperm: row r of batch b is stored row perm[b*bs+r]
   (an index inside the stored rows) in EVERY field *)
Theorem C20_fields_aligned_rowwise : forall (d : dataset) (perm : list nat) (bs : Z),
  wf_data d -> (1 <= bs)%Z -> Permutation perm (seq 0 (nrows d)) ->
  forall (j : nat) (k : fname) (rows : list row) (b r : nat), nth_error d j = Some (k, rows) ->
  r < Z.to_nat bs -> b * Z.to_nat bs + r < nrows d ->
  nth (b * Z.to_nat bs + r) perm 0 < length rows /\
  nth r (batch_field j (nth b (epoch d perm bs) [])) [] = nth (nth (b * Z.to_nat bs + r) perm 0) rows [].
Proof. exact fields_aligned_rowwise. Qed.

(* truncation by `batches`: the first batches*batch_size rows of every field, at most `batches` batches *)
Theorem C20_truncation : forall (c : config) (raw : dataset) (b : Z),
  nbatches c = Some b -> (0 <= b)%Z -> (1 <= batch_size c)%Z -> wf_data raw ->
  let m := Z.to_nat b * Z.to_nat (batch_size c) in
  let d := truncate c raw in
  wf_data d /\ nrows d = Nat.min m (nrows raw) /\
  (forall (j : nat) (k : fname) (rows : list row),
     nth_error raw j = Some (k, rows) -> nth_error d j = Some (k, firstn m rows)) /\
  (forall perm : list nat, length perm = nrows d -> length (epoch d perm (batch_size c)) <= Z.to_nat b).
Proof. exact truncation. Qed.
Theorem C20_no_truncation : forall (c : config) (raw : dataset), nbatches c = None -> truncate c raw = raw.
Proof. exact truncation_none. Qed.

(* the replay-buffer dataset: every merged row exactly once, one index list for all fields, batch sizes *)
Theorem C20_replay_epoch_is_permutation : forall (bufs : list dataset) (perm : list nat) (bs : Z),
  rb_wf bufs -> (1 <= bs)%Z ->
  Permutation perm (seq 0 (total_rows (map (get_field POSITIONS) bufs))) ->
  forall (j : nat) (k : fname) (rows : list row), nth_error (cat_replay_buffer bufs) j = Some (k, rows) ->
  let cs := map (batch_field j) (rb_epoch bufs perm bs) in
  Permutation (concat cs) rows /\
  concat cs = map (fun i : nat => nth i rows []) perm /\
  Forall (fun c : list row => length c = Z.to_nat bs) (removelast cs) /\
  (forall c : list row, In c cs -> 0 < length c <= Z.to_nat bs).
Proof. exact rb_epoch_is_permutation. Qed.

(* "when buffers of different widths are merged the padding is marked by the mask": the writing
   loop of cat_replay_buffer produces the rows in buffer order, each extended to the widest
   width W by `pad`; other fields are concatenated; no stored row is wider than W *)
Theorem C20_merge_padding : forall bufs : list dataset,
  get_field POSITIONS (cat_replay_buffer bufs) =
    concat (map (map (pad (maxwidth (map (get_field POSITIONS) bufs)))) (map (get_field POSITIONS) bufs)) /\
  (map (map (@length Z)) (map (get_field MASK) bufs) = map (map (@length Z)) (map (get_field POSITIONS) bufs) ->
   get_field MASK (cat_replay_buffer bufs) =
     concat (map (map (pad (maxwidth (map (get_field POSITIONS) bufs)))) (map (get_field MASK) bufs))) /\
  (forall k : fname, In k (map fst (hd [] bufs)) -> special k = false ->
     get_field k (cat_replay_buffer bufs) = concat (map (get_field k) bufs)) /\
  (forall r : row, In r (concat (map (get_field POSITIONS) bufs)) ->
     length r <= maxwidth (map (get_field POSITIONS) bufs)) /\
  (map (map (@length Z)) (map (get_field MASK) bufs) = map (map (@length Z)) (map (get_field POSITIONS) bufs) ->
   forall r : row, In r (concat (map (get_field MASK) bufs)) ->
     length r <= maxwidth (map (get_field POSITIONS) bufs)).
Proof. exact merge_padding. Qed.

(* `pad`: the stored content is unchanged and everything after it is 0 (for the mask: false) *)
Theorem C20_padding_is_zero : forall (w : nat) (r : row), length r <= w ->
  length (pad w r) = w /\ firstn (length r) (pad w r) = r /\ skipn (length r) (pad w r) = repeat 0%Z (w - length r).
Proof. exact pad_spec. Qed.

(* row order = buffer order: row i of buffer b sits at offset |earlier buffers| + i *)
Theorem C20_merge_padding_rowwise : forall (w : nat) (blocks : list (list row)) (b i : nat),
  b < length blocks -> i < length (nth b blocks []) ->
  nth (total_rows (firstn b blocks) + i) (concat (map (map (pad w)) blocks)) [] = pad w (nth i (nth b blocks []) []).
Proof. exact merge_padding_rowwise. Qed.

(* "equal seeds give equal streams": the stream is a function of (path, batch_size, batches, seed) *)
Theorem C20_seed_determines_stream :
  forall (gen : Type) (seed_gen : Z -> gen) (randperm : gen -> nat -> list nat * gen) (load : list Z -> dataset)
         (c1 c2 : config) (n : nat),
  cpath c1 = cpath c2 -> batch_size c1 = batch_size c2 -> nbatches c1 = nbatches c2 -> cseed c1 = cseed c2 ->
  consume gen randperm n (post_init gen seed_gen load c1) = consume gen randperm n (post_init gen seed_gen load c2).
Proof. exact seed_determines_stream. Qed.

(* "fast-forwarding n epochs equals consuming n epochs": same state afterwards ... *)
Theorem C20_fastforward_eq_consume :
  forall (gen : Type) (randperm : gen -> nat -> list nat * gen) (n : nat) (s : dstate gen),
  fastforward gen randperm n s = snd (consume gen randperm n s).
Proof. exact fastforward_eq_consume. Qed.
(* ... so what is yielded afterwards is the stream without its first n epochs *)
Theorem C20_fastforward_skips_stream :
  forall (gen : Type) (randperm : gen -> nat -> list nat * gen) (n m : nat) (s : dstate gen),
  fst (consume gen randperm m (fastforward gen randperm n s)) = skipn n (fst (consume gen randperm (n + m) s)).
Proof. exact fastforward_skips_stream. Qed.

(* "a pickled and restored dataset restarts the same stream": after any history, __setstate__ of
   __getstate__ is the freshly constructed dataset ... *)
Theorem C20_pickle_restarts :
  forall (gen : Type) (seed_gen : Z -> gen) (randperm : gen -> nat -> list nat * gen) (load : list Z -> dataset)
         (os : list op) (c : config),
  setstate gen seed_gen load (getstate gen (snd (run_ops gen seed_gen randperm load os (post_init gen seed_gen load c))))
  = post_init gen seed_gen load c.
Proof. exact pickle_restarts. Qed.
(* ... and therefore yields the stream from its beginning *)
Theorem C20_pickle_restarts_stream :
  forall (gen : Type) (seed_gen : Z -> gen) (randperm : gen -> nat -> list nat * gen) (load : list Z -> dataset)
         (os : list op) (c : config) (n : nat),
  consume gen randperm n
    (setstate gen seed_gen load (getstate gen (snd (run_ops gen seed_gen randperm load os (post_init gen seed_gen load c)))))
  = consume gen randperm n (post_init gen seed_gen load c).
Proof. exact pickle_restarts_stream. Qed.

(* ---- the same about the Dataset / ReplayBufferDataset methods REGENERATED FROM THE SOURCE (gen/DatasetGen.v, harness/data2coq.py against model/TorchData.v; proofs/DatasetGenEq.v) ---- *)
From TV Require Import model.Dataset model.TorchData gen.DatasetGen proofs.DatasetProofs proofs.DatasetGenEq.
(* Dataset(path, batch_size, batches, seed) [attrs __init__ + __attrs_post_init__] = post_init *)
Theorem C20_source_new_eq :
  forall (gen : Type) (seed_gen : Z -> gen) (load : list Z -> tdict) (path : list Z) (bs : Z) (batches : option Z) (seed : Z),
  dict_ok (load path) ->
  exists o : dsobj gen,
    ds_new gen seed_gen load path bs batches seed = Ok o /\
    live gen o (prepared load path bs batches) (seed_gen seed) /\
    cfg_of gen o = mkConfig path bs batches seed /\
    abs gen o (prepared load path bs batches) (seed_gen seed) = post_init gen seed_gen (hload load) (mkConfig path bs batches seed).
Proof. exact gen_new_eq. Qed.
(* _next_epoch = next_epoch: ONE randperm answer indexes every field *)
Theorem C20_source_next_epoch_eq :
  forall (gen : Type) (randperm : gen -> nat -> list nat * gen),
  (forall (g : gen) (n : nat), Permutation (fst (randperm g n)) (seq 0 n)) ->
  forall (o : dsobj gen) (d : tdict) (g : gen), live gen o d g -> wf_dict d ->
  let p := fst (randperm g (nrows (erase d))) in
  let g' := snd (randperm g (nrows (erase d))) in
  ds_next_epoch gen randperm o = Ok (shuffled_dict d p, set_generator o g') /\
  (erase (shuffled_dict d p), abs gen (set_generator o g') d g') = next_epoch gen randperm (abs gen o d g).
Proof. exact gen_next_epoch_eq. Qed.
(* fastforward_epochs(n) = fastforward (any integer n; negative n: no effect) *)
Theorem C20_source_fastforward_eq :
  forall (gen : Type) (randperm : gen -> nat -> list nat * gen),
  (forall (g : gen) (n : nat), Permutation (fst (randperm g n)) (seq 0 n)) ->
  forall (o : dsobj gen) (d : tdict) (g : gen) (n : Z), live gen o d g -> wf_dict d ->
  exists g' : gen,
    ds_fastforward_epochs gen randperm o n = Ok (set_generator o g') /\
    abs gen (set_generator o g') d g' = fastforward gen randperm (Z.to_nat n) (abs gen o d g).
Proof. exact gen_fastforward_eq. Qed.
(* list(ds) [__iter__ completely consumed] = iter, for batch_size >= 1 *)
Theorem C20_source_iter_eq :
  forall (gen : Type) (randperm : gen -> nat -> list nat * gen),
  (forall (g : gen) (n : nat), Permutation (fst (randperm g n)) (seq 0 n)) ->
  forall (o : dsobj gen) (d : tdict) (g : gen), live gen o d g -> wf_dict d -> 1 <= o_batch_size o ->
  exists (ys : list tdict) (g' : gen),
    ds_iter gen randperm o = Ok (ys, set_generator o g') /\
    (map erase ys, abs gen (set_generator o g') d g') = iter gen randperm (abs gen o d g).
Proof. exact gen_iter_eq. Qed.
(* __getstate__ / __setstate__ = getstate / setstate *)
Theorem C20_source_pickle_eq :
  forall (gen : Type) (seed_gen : Z -> gen) (load : list Z -> tdict) (o : dsobj gen) (d : tdict) (g : gen),
  live gen o d g -> dict_ok (load (o_path o)) ->
  exists (st : dsstate) (o' : dsobj gen),
    ds_getstate gen o = Ok st /\ ds_setstate gen seed_gen load st = Ok o' /\
    live gen o' (prepared load (o_path o) (o_batch_size o) (o_batches o)) (seed_gen (o_seed o)) /\
    cfg_of gen o' = cfg_of gen o /\
    abs gen o' (prepared load (o_path o) (o_batch_size o) (o_batches o)) (seed_gen (o_seed o))
    = setstate gen seed_gen (hload load) (getstate gen (abs gen o d g)).
Proof. exact gen_pickle_eq. Qed.
(* cat_replay_buffer = cat_replay_buffer *)
Theorem C20_source_cat_eq :
  forall (bufs : list tdict) (bs : Z) (f : option tdict), rb_dom bufs ->
  exists b0 : tdict,
    hd_error bufs = Some b0 /\
    rb_cat_replay_buffer (mkRb bufs bs f) = Ok (merged b0 bufs) /\
    erase (merged b0 bufs) = cat_replay_buffer (map erase bufs) /\ dict_ok (merged b0 bufs).
Proof. exact gen_cat_eq. Qed.
(* ReplayBufferDataset(bufs, bs, "cpu") and one completely consumed __iter__ = rb_epoch *)
Theorem C20_source_rb_iter_eq :
  forall (gen : Type) (randperm : gen -> nat -> list nat * gen),
  (forall (g : gen) (n : nat), Permutation (fst (randperm g n)) (seq 0 n)) ->
  forall (bufs : list tdict) (bs : Z) (g : gen), rb_dom bufs -> rb_wf (map erase bufs) -> 1 <= bs ->
  let n := total_rows (hpos bufs) in
  exists (o : rbobj) (ys : list tdict),
    rb_new bufs bs = Ok o /\
    rb_iter gen randperm o g = Ok (ys, snd (randperm g n)) /\
    map erase ys = rb_epoch (map erase bufs) (fst (randperm g n)) bs.
Proof. exact gen_rb_iter_eq. Qed.
(* C20 "each stored row exactly once ... keeping all fields of a row together", about the translated __iter__ *)
Theorem C20_source_epoch_is_permutation :
  forall (gen : Type) (randperm : gen -> nat -> list nat * gen),
  (forall (g : gen) (n : nat), Permutation (fst (randperm g n)) (seq 0 n)) ->
  forall (o : dsobj gen) (d : tdict) (g : gen), live gen o d g -> wf_dict d -> 1 <= o_batch_size o ->
  exists (ys : list tdict) (g' : gen) (idx : list nat),
    ds_iter gen randperm o = Ok (ys, set_generator o g') /\
    Permutation idx (seq 0 (nrows (erase d))) /\
    (forall (j : nat) (k : fname) (t : tensor), nth_error d j = Some (k, t) ->
       length (t_rows t) = nrows (erase d) /\
       Permutation (concat (map (batch_field j) (map erase ys))) (t_rows t) /\
       concat (map (batch_field j) (map erase ys)) = map (fun i : nat => nth i (t_rows t) []) idx /\
       Forall (fun b : list (fname * tensor) => map fst b = map fst d) ys).
Proof. exact gen_epoch_is_permutation. Qed.
(* C20 "fast-forwarding n epochs equals consuming n epochs", about the translated code *)
Theorem C20_source_fastforward_eq_consume :
  forall (gen : Type) (randperm : gen -> nat -> list nat * gen),
  (forall (g : gen) (n : nat), Permutation (fst (randperm g n)) (seq 0 n)) ->
  forall (o : dsobj gen) (d : tdict) (g : gen) (n : nat), live gen o d g -> wf_dict d -> 1 <= o_batch_size o ->
  exists o' : dsobj gen,
    ds_fastforward_epochs gen randperm o (Z.of_nat n) = Ok o' /\ gconsume gen randperm n o = Ok o'.
Proof. exact gen_fastforward_eq_consume. Qed.
(* C20 "a pickled and restored dataset restarts the same stream": unpickling IS construction *)
Theorem C20_source_pickle_restarts :
  forall (gen : Type) (seed_gen : Z -> gen) (load : list Z -> tdict) (o : dsobj gen),
  ds_setstate gen seed_gen load (state_of o) = ds_new gen seed_gen load (o_path o) (o_batch_size o) (o_batches o) (o_seed o).
Proof. exact gen_pickle_restarts. Qed.
(* C20 "the padding is marked by the mask", about the translated cat_replay_buffer *)
Theorem C20_source_merge_padding :
  forall (bufs : list tdict) (bs : Z) (f : option tdict), rb_dom bufs ->
  let W := maxwidth (hpos bufs) in
  exists (flat : tdict) (P M : tensor),
    rb_cat_replay_buffer (mkRb bufs bs f) = Ok flat /\
    d_get flat S_positions = Ok P /\ d_get flat S_mask = Ok M /\
    P = mkT INT64 [Z.of_nat W] (concat (map (map (pad W)) (hpos bufs))) /\
    M = mkT BOOL [Z.of_nat W] (concat (map (map (pad W)) (hmsk bufs))) /\
    (forall r : row, In r (concat (hpos bufs)) -> (length r <= W)%nat) /\
    erase flat = cat_replay_buffer (map erase bufs).
Proof. exact gen_merge_padding. Qed.
(* C20 for the translated ReplayBufferDataset.__iter__ *)
Theorem C20_source_rb_epoch_is_permutation :
  forall (gen : Type) (randperm : gen -> nat -> list nat * gen),
  (forall (g : gen) (n : nat), Permutation (fst (randperm g n)) (seq 0 n)) ->
  forall (bufs : list tdict) (bs : Z) (g : gen), rb_dom bufs -> rb_wf (map erase bufs) -> 1 <= bs ->
  exists (o : rbobj) (ys : list tdict) (g' : gen),
    rb_new bufs bs = Ok o /\ rb_iter gen randperm o g = Ok (ys, g') /\
    (forall (j : nat) (k : fname) (rows : list row),
       nth_error (cat_replay_buffer (map erase bufs)) j = Some (k, rows) ->
       Permutation (concat (map (batch_field j) (map erase ys))) rows).
Proof. exact gen_rb_epoch_is_permutation. Qed.
