(* C14 - PTN move and game notation round-trips (python/tak/ptn/ptn.py).
   Property theorems only; proofs are in proofs/PtnProofs.v, proofs/PtnGame.v, proofs/TiePtn.v.
   Strings are lists of Unicode code points. *)
From Coq Require Import ZArith List Bool.
From TV Require gen.Consts.
From TV Require Import model.Tak model.Ptn spec.MoveSpec spec.PtnSpec proofs.PtnProofs proofs.PtnGame proofs.TiePtn.
Import ListNotations.
Open Scope Z_scope.

(* formatting any move of any board size 3..8 and parsing the text back yields the same move
   (proved for every well-formed move, not by enumeration) *)
Theorem C14_parse_format_move : forall m, wf_move8 m -> parse_move (format_move m) = Accept m.
Proof. exact parse_format_move. Qed.
(* ... and the formatter's text denotes that move under the PTN standard's reading *)
Theorem C14_format_denotes : forall m, wf_move8 m -> ptn_denotes (format_move m) m.
Proof. exact format_denotes. Qed.
(* parsing any accepted move text, then formatting and parsing again, is stable *)
Theorem C14_parse_stable : forall s m, parse_move s = Accept m -> parse_move (format_move m) = Accept m.
Proof. exact parse_stable. Qed.
(* the text denotes the square, stone kind, direction and drop counts the PTN standard says it does:
   the parser accepts s as m exactly when the grammar of spec/PtnSpec.v says s denotes m *)
Theorem C14_parse_denotes : forall s m, parse_move s = Accept m <-> ptn_denotes s m.
Proof. exact parse_denotes. Qed.
(* a text denotes at most one move *)
Theorem C14_denotes_functional : forall s m1 m2, ptn_denotes s m1 -> ptn_denotes s m2 -> m1 = m2.
Proof. exact denotes_functional. Qed.
(* which inputs are Unspecified (exactly the lenient class of the spec: trailing stone letter, stone letter
   before a slide, drops with an implied count they do not add up to) and which are refused (all others
   that denote no move); the three outcomes partition all strings *)
Theorem C14_parse_partition : forall s,
  (parse_move s = Unspecified <-> ptn_lenient s) /\
  (parse_move s = Reject <-> (forall m, ~ ptn_denotes s m) /\ ~ ptn_lenient s) /\
  (forall m, ptn_denotes s m -> ~ ptn_lenient s).
Proof. exact parse_partition. Qed.
(* concrete members of each outcome: a1>11, Sa1>, a1C, a1>C unspecified; a1>1, Fh7, 2c3-2, 3a1+111 accepted;
   a1 followed by a newline and a fullwidth letter refused *)
Theorem C14_unspecified_examples :
  parse_move [97; 49; 62; 49; 49] = Unspecified /\
  parse_move [83; 97; 49; 62] = Unspecified /\
  parse_move [97; 49; 67] = Unspecified /\
  parse_move [97; 49; 62; 67] = Unspecified /\
  parse_move [97; 49; 62; 49] = Accept (mkMove 0 0 SlideRight (Some [1])) /\
  parse_move [70; 104; 55] = Accept (mkMove 7 6 PlaceFlat None) /\
  parse_move [50; 99; 51; 45; 50] = Accept (mkMove 2 2 SlideDown (Some [2])) /\
  parse_move [51; 97; 49; 43; 49; 49; 49] = Accept (mkMove 0 0 SlideUp (Some [1; 1; 1])) /\
  parse_move [97; 49; 10] = Reject /\
  parse_move [65313; 49] = Reject.
Proof. exact unspecified_examples. Qed.

(* text that is not a PTN move is refused with the parser's own error (Reject = BadMove): *)
(* - the empty text *)
Theorem C14_rejects_empty : parse_move [] = Reject.
Proof. exact rejects_empty. Qed.
(* - any character outside the PTN alphabet anywhere: unknown file or rank (i1, a9, a0), blanks,
     a final newline, upper case, non-ASCII digits and letters, trailing garbage *)
Theorem C14_rejects_foreign : forall s c, In c s -> ~ ptn_char c -> parse_move s = Reject.
Proof. exact rejects_foreign. Qed.
(* - a pickup count without a direction (3a1, S2b2) *)
Theorem C14_rejects_count_without_direction : forall st p f r rest,
  opt_stone st -> 49 <= p <= 56 -> no_dir_ahead rest -> parse_move (st ++ p :: f :: r :: rest) = Reject.
Proof. exact rejects_count_without_direction. Qed.
(* - drops without a direction (a11, Ca12, 2a11) *)
Theorem C14_rejects_drops_without_direction : forall st ct f r c rest,
  opt_stone st -> (ct = [] \/ exists p, 49 <= p <= 56 /\ ct = [p]) ->
  97 <= f <= 104 -> 49 <= r <= 56 -> 49 <= c <= 56 ->
  parse_move (st ++ ct ++ f :: r :: c :: rest) = Reject.
Proof. exact rejects_drops_without_direction. Qed.
(* - an explicit pickup count different from the sum of the drops (3a1>11, 5d4-22, 6a1>2222) *)
Theorem C14_rejects_count_mismatch : forall st p f r d ds tr,
  opt_stone st -> 49 <= p <= 56 -> 97 <= f <= 104 -> 49 <= r <= 56 ->
  (d = 60 \/ d = 62 \/ d = 43 \/ d = 45) ->
  ds <> [] -> Forall (fun c => 49 <= c <= 56) ds -> zsum (map (fun c => c - 48) ds) <> p - 48 ->
  opt_stone tr ->
  parse_move (st ++ [p; f; r; d] ++ ds ++ tr) = Reject.
Proof. exact rejects_count_mismatch. Qed.
(* - anything after a complete move that brings a second square: two moves glued together *)
Theorem C14_rejects_trailing : forall s1 m1 s2 m2,
  ptn_denotes s1 m1 -> ptn_denotes s2 m2 -> parse_move (s1 ++ s2) = Reject.
Proof. exact rejects_glued. Qed.

(* parsing a PTN game returns its tags and exactly its moves in order, whatever comments, move numbers,
   annotations, result markers, -- and white space surround them (texts of the model's renderer: tags with
   distinct word keys and non-empty one-line values; tokens separated by non-empty runs of white-space
   characters and non-empty brace comments) *)
Theorem C14_game_moves : forall tags lead body,
  tags_ok tags -> sep_ok lead -> body_ok body ->
  parse_game (render_game tags lead body) = GameOk tags (moves_of body).
Proof. exact game_moves. Qed.
(* a game text without a blank line is refused (ValueError of the unpacking), and only such a text *)
Theorem C14_game_nosplit : forall s, (forall h t, s <> h ++ 10 :: 10 :: t) <-> parse_game s = GameNoSplit.
Proof. exact game_nosplit. Qed.
(* the first token that is not a move is refused with the parser's own error, whatever follows it *)
Theorem C14_game_badmove : forall tags lead body bad s R,
  tags_ok tags -> sep_ok lead -> body_ok1 body ->
  bad <> [] -> Forall plain bad ->
  str_eqb bad [45; 45] = false -> is_result bad = false -> is_move_number bad = false ->
  parse_move (strip_suffix bad) = Reject ->
  sep_ok s -> s <> [] ->
  parse_game (render_head tags ++ [10; 10] ++ render_tail lead body ++ bad ++ render_sep s ++ R)
  = GameBadMove (strip_suffix bad).
Proof. exact game_badmove. Qed.

(* the decimal printer behind str(pickup) prints n (its fuel is sufficient) *)
Theorem C14_str_nat_value : forall n, 0 <= n -> dec_value (str_nat n) = n.
Proof. exact str_nat_value. Qed.

(* the implementation's glyph maps (regenerated) are the model's and agree with the standard's glyphs *)
Theorem C14_glyph_tie :
  Consts.slide_map = map (fun c => (c, mtype_code (dir_type c))) [43; 45; 60; 62] /\
  Consts.slide_rmap = map (fun t => (mtype_code t, slide_glyph t)) [SlideLeft; SlideRight; SlideUp; SlideDown] /\
  Consts.place_map = map (fun o => (opt_text o, mtype_code (stone_type o))) [None; Some 67; Some 70; Some 83] /\
  Consts.place_rmap = map (fun t => (mtype_code t, place_glyph t)) [PlaceFlat; PlaceStanding; PlaceCapstone] /\
  (forall c t, dir_glyph c t -> In (c, mtype_code t) Consts.slide_map /\ In (mtype_code t, c) Consts.slide_rmap) /\
  (forall s t, stone_text s t -> In (s, mtype_code t) Consts.place_map).
Proof. exact glyph_tie. Qed.
(* the seven regular expressions of ptn.py (regenerated) are the ones the model was written against *)
Theorem C14_regex_tie : Consts.ptn_regexes = model_regexes.
Proof. exact tie_regexes. Qed.

(* ---- the hand-written matchers are the regular expressions of ptn.py (spec/RegexSpec.v) ---- *)
From TV Require Import spec.RegexSpec proofs.TiePtnRegex.

(* the seven regex texts of ptn.py (regenerated) are the printed AST terms, and the terms print faithfully *)
Theorem C14_regex_ast_text :
  length Consts.ptn_regexes = 7%nat /\
  show tag_re = nth 0 Consts.ptn_regexes [] /\ show comment_re = nth 1 Consts.ptn_regexes [] /\
  show space_re = nth 2 Consts.ptn_regexes [] /\ show result_re = nth 3 Consts.ptn_regexes [] /\
  show number_re = nth 4 Consts.ptn_regexes [] /\ show suffix_re = nth 5 Consts.ptn_regexes [] /\
  show move_re = nth 6 Consts.ptn_regexes [] /\
  forallb syntax_ok [tag_re; comment_re; space_re; result_re; number_re; suffix_re; move_re] = true.
Proof. exact regex_ast_text. Qed.
(* re.search(move regex, s) succeeds with groups g exactly when match_move s = Some g (hence at most one match) *)
Theorem C14_move_regex_matcher : forall s cp,
  search E move_re s cp <-> exists g, match_move s = Some g /\ cp = caps_of g.
Proof. exact move_matcher. Qed.
(* the result-marker filter is re.search of its regex *)
Theorem C14_result_regex_matcher : forall t, is_result t = true <-> exists cp, search E result_re t cp.
Proof. exact is_result_matcher. Qed.
(* the move-number filter is re.search of its regex *)
Theorem C14_number_regex_matcher : forall t, is_move_number t = true <-> exists cp, search E number_re t cp.
Proof. exact is_move_number_matcher. Qed.
(* strip_suffix t is what re.sub(suffix regex, "", t) leaves for a token without a newline: no match -> unchanged;
   otherwise the leftmost match starts right after strip_suffix t, is unique there and reaches the end *)
Theorem C14_suffix_regex_sub : forall t,
  ~ In 10 t ->
  exists suf, t = strip_suffix t ++ suf /\
    (suf = [] -> forall pre s post cp, t = pre ++ s ++ post -> ~ matches E suffix_re pre s post cp) /\
    (suf <> [] ->
       matches E suffix_re (strip_suffix t) suf [] [] /\
       (forall pre s post cp, t = pre ++ s ++ post -> matches E suffix_re pre s post cp ->
                              (length (strip_suffix t) <= length pre)%nat) /\
       (forall s post cp, suf = s ++ post -> matches E suffix_re (strip_suffix t) s post cp -> s = suf /\ post = [])).
Proof. exact strip_suffix_is_sub. Qed.
(* sub_comments is re.sub(comment regex, " ", .): leftmost, non-overlapping, the match at each start unique *)
Theorem C14_comment_regex_sub : forall s ctx, resub E comment_re [32] ctx s (sub_comments s 0).
Proof. exact sub_comments_is_sub. Qed.
(* one match of the split regex is a non-empty white-space run ... *)
Theorem C14_space_regex_match : forall pre s post cp,
  matches E space_re pre s post cp <-> cp = [] /\ s <> [] /\ Forall (fun c => is_space c = true) s.
Proof. exact space_re_match_partial. Qed.
(* ... and re_split_ws is re.split(split regex, .): cut at the leftmost, longest (greedy) white-space runs *)
Theorem C14_space_regex_split : forall s ctx, resplit E space_re ctx s (re_split_ws s).
Proof. exact re_split_ws_is_split. Qed.
(* one attempt of the tag regex at a line start is try_tag, both directions (so the match there is unique) ... *)
Theorem C14_tag_regex_attempt :
  (forall text k v n, try_tag text = TagOk k v n ->
     exists s post, text = s ++ post /\ n = length s /\
                    forall pre, line_start pre -> matches E tag_re pre s post [(1%nat, k); (2%nat, v)]) /\
  (forall pre s post cp, matches E tag_re pre s post cp ->
     exists k v, cp = [(1%nat, k); (2%nat, v)] /\ try_tag (s ++ post) = TagOk k v (length s)).
Proof. exact tag_attempt_partial. Qed.
(* ... and scan_tags is re.findall(tag regex, head, re.M) wherever the model's \w table applies (scan_tags = Some):
   leftmost, non-overlapping matches, each the only one at its start *)
Theorem C14_tag_regex_findall : forall head l, scan_tags head true 0 = Some l -> refindall2 E tag_re [] head l.
Proof. exact scan_tags_is_findall. Qed.

(* ---- the same about format_move REGENERATED FROM THE SOURCE (gen/PtnGen.v, harness/py2coq.py against model/PySem.v; proofs/PtnGenEq.v); parse_move/PTN.parse are tied through the regex semantics above ---- *)
From TV Require Import model.Tak model.PySem model.Ptn proofs.PtnProofs proofs.PtnGenEq.
From TV Require gen.GameGen gen.PtnGen.
(* the translated format_move IS the model's on the domain *)
Theorem C14_source_format_move_eq :
  forall m, fm_domain m -> PtnGen.format_move m = Ok (Ptn.format_move m).
Proof. exact gen_format_move_eq. Qed.
(* outside the domain the code raises where the model carries on: chr out of range, a slide without tuple, a drop whose
   digit is not a code point *)
Theorem C14_source_format_move_crashes :
  PtnGen.format_move (mkMove (-98) 0 PlaceFlat None) = Crash ValueError /\
  PtnGen.format_move (mkMove 0 0 SlideLeft None) = Crash TypeError /\
  PtnGen.format_move (mkMove 0 0 SlideUp (Some [1; -49])) = Crash ValueError.
Proof. exact gen_format_move_crashes. Qed.
(* C14 transported: writing a move of the universe with the translated writer and reading it back returns the move *)
Theorem C14_source_parse_format_move :
  forall m, wf_move8 m ->
  exists s, PtnGen.format_move m = Ok s /\ parse_move s = Accept m.
Proof. exact gen_parse_format_move. Qed.

(* ---- the same about parse_move / PTN.parse REGENERATED FROM THE SOURCE (gen/PtnParseGen.v, harness/ptn2coq.py over the regex semantics of spec/RegexSpec.v; proofs/PtnParseGenEq.v) ---- *)
From TV Require Import model.Tak model.PySem model.Ptn spec.PtnSpec spec.RegexSpec model.PtnSem.
From TV Require Import proofs.PtnProofs proofs.TiePtnRegex proofs.PtnParseGenEq.
From TV Require gen.PtnParseGen.
(* every pattern literal of the source is the printed form of the term the translator parsed it into *)
Theorem C14_source_regex_text :
  show PtnParseGen.re_0 = PtnParseGen.re_0_src /\ show PtnParseGen.re_1 = PtnParseGen.re_1_src /\
  show PtnParseGen.re_2 = PtnParseGen.re_2_src /\ show PtnParseGen.re_3 = PtnParseGen.re_3_src /\
  show PtnParseGen.re_4 = PtnParseGen.re_4_src /\ show PtnParseGen.re_5 = PtnParseGen.re_5_src /\
  show PtnParseGen.re_6 = PtnParseGen.re_6_src /\
  forallb syntax_ok [PtnParseGen.re_0; PtnParseGen.re_1; PtnParseGen.re_2; PtnParseGen.re_3;
                     PtnParseGen.re_4; PtnParseGen.re_5; PtnParseGen.re_6] = true.
Proof. exact gen_regex_text. Qed.
(* the translated parse_move IS what the model says the code does (before the lenient / Unspecified classification),
   on every string *)
Theorem C14_source_parse_move_eq :
  forall s, PtnParseGen.parse_move s = embed (Ptn.parse_move_raw s).
Proof. exact gen_parse_move_eq. Qed.
(* no other error escapes parse_move: BadMove or a move, never KeyError / TypeError / ValueError / AttributeError *)
Theorem C14_source_parse_move_no_crash :
  forall s,
  PtnParseGen.parse_move s = Illegal \/ exists m, PtnParseGen.parse_move s = Ok m.
Proof. exact gen_parse_move_no_crash. Qed.
(* the translated PTN.parse IS the model's parse_game on every text on which the model takes a position *)
Theorem C14_source_parse_game_eq :
  forall text,
  game_modelled text -> PtnParseGen.parse text = embed_game (Ptn.parse_game text).
Proof. exact gen_parse_game_eq. Qed.
(* that domain holds every text the model parses to a game or refuses for the missing blank line *)
Theorem C14_source_game_ok_modelled :
  forall text,
  (exists tags ms, parse_game text = GameOk tags ms) \/ parse_game text = GameNoSplit -> game_modelled text.
Proof. exact game_ok_modelled. Qed.
(* C14 transported to the translated parse_move *)
Theorem C14_source_parse_move_of_format :
  forall m, wf_move8 m -> PtnParseGen.parse_move (format_move m) = Ok m.
Proof. exact gen_parse_format_move. Qed.
Theorem C14_source_parse_move_denotes :
  forall s m,
  (ptn_denotes s m -> PtnParseGen.parse_move s = Ok m) /\
  (PtnParseGen.parse_move s = Ok m -> ptn_denotes s m \/ ptn_lenient s).
Proof. exact gen_parse_move_denotes. Qed.
Theorem C14_source_parse_move_refuses :
  forall s, PtnParseGen.parse_move s = Illegal <-> parse_move s = Reject.
Proof. exact gen_parse_move_refuses. Qed.
