(* C08 - search-tree bookkeeping is exact and every expansion is legal.
   Property theorems only; proofs are in proofs/MctsProofs.v, the model in
   model/Mcts.v.  cutoff = Config.cutoff_prob, mix = Config.root_noise_mix,
   noise = Some (Dirichlet sample) | None, evs = the evaluator's answers in
   call order, cs / css = the sampler's choices (one descent path per
   simulation).  Wall-clock termination (time_limit) is not modelled. *)
From Coq Require Import ZArith QArith List.
From TV Require Import model.Tak model.Road model.Mcts proofs.MctsProofs.
Import ListNotations.
Open Scope Q_scope.

(* a tree that has not been searched satisfies the invariant *)
Theorem C08_good_init : forall cutoff p, Good cutoff (root p).
Proof. exact good_init. Qed.

(* every simulation - any evaluator stream, any valid choice list, root noise
   on or off - keeps the invariant, adds one visit, credits exactly the
   returned value, and leaves position and move of the node alone *)
Theorem C08_simulate_good : forall cutoff mix cs n noise evs n' v evs',
  Good cutoff n -> valid cs n -> simulate cutoff mix cs n noise evs = (n', v, evs') ->
  Good cutoff n' /\ n_sims n' = S (n_sims n) /\ n_pos n' = n_pos n /\ n_move n' = n_move n /\
  n_value n' == n_value n + v.
Proof. exact simulate_good. Qed.

(* "the root has exactly n visits": k simulations add exactly k visits ... *)
Theorem C08_root_visits_k : forall cutoff mix css n noise evs,
  Good cutoff n -> valid_run cutoff mix css n noise evs ->
  n_sims (fst (run cutoff mix css n noise evs)) = (n_sims n + length css)%nat.
Proof. exact root_visits_k. Qed.
(* ... a fresh tree searched with budget `limit` ends with exactly `limit` ... *)
Theorem C08_root_visits_fresh : forall cutoff mix limit css p noise evs,
  valid_analyze cutoff mix limit css (root p) noise evs ->
  n_sims (fst (analyze cutoff mix limit css (root p) noise evs)) = limit.
Proof. exact root_visits_fresh. Qed.
(* ... a re-used tree reaches the limit (and is left alone if it is already there) *)
Theorem C08_root_visits_reused : forall cutoff mix limit css n noise evs,
  Good cutoff n -> valid_analyze cutoff mix limit css n noise evs ->
  n_sims (fst (analyze cutoff mix limit css n noise evs)) = Nat.max limit (n_sims n).
Proof. exact root_visits_reused. Qed.
(* the whole search keeps the invariant *)
Theorem C08_analyze_good : forall cutoff mix limit css n noise evs,
  Good cutoff n -> valid_analyze cutoff mix limit css n noise evs ->
  Good cutoff (fst (analyze cutoff mix limit css n noise evs)) /\
  n_sims (fst (analyze cutoff mix limit css n noise evs)) = Nat.max limit (n_sims n) /\
  n_pos (fst (analyze cutoff mix limit css n noise evs)) = n_pos n.
Proof. exact analyze_good. Qed.

(* "visits are one plus the children's, value is own evaluation minus the
   children's values" at every expanded node; children satisfy the invariant *)
Theorem C08_expanded_bookkeeping : forall cutoff n ks,
  Good cutoff n -> n_kids n = Some ks ->
  terminal (n_pos n) = None /\
  n_sims n = S (sumn (map n_sims ks)) /\
  n_value n == n_v0 n - sumq (map n_value ks) /\
  Forall (Good cutoff) ks.
Proof. exact good_expanded_reading. Qed.
(* "visits times outcome for terminal nodes, outcome +1/-1/0 for the side to
   move by the rules"; a node without children is unvisited or terminal *)
Theorem C08_leaf_bookkeeping : forall cutoff n,
  Good cutoff n -> n_kids n = None ->
  (n_sims n = 0%nat /\ n_value n = 0 /\ n_v0 n = 0) \/
  (exists o, terminal (n_pos n) = Some o /\ (o = 1 \/ o = -1 \/ o = 0) /\ n_v0 n = o /\
             n_value n == qnat (n_sims n) * o /\ (0 < n_sims n)%nat).
Proof. exact good_leaf_reading. Qed.
Theorem C08_terminal_outcome : forall p,
  terminal p = match winner p with
               | (_, None) => None
               | (Some c, Some _) => Some (if color_eqb c (to_move p) then 1 else -1)
               | (None, Some _) => Some 0
               end.
Proof. exact terminal_outcome. Qed.

(* "children are one-to-one with the legal moves whose prior reaches the
   cutoff": table order, no move twice, membership by move id; "each child
   holds the parent's position after that move" *)
Theorem C08_children_one_to_one : forall cutoff n ks,
  Good cutoff n -> n_kids n = Some ks ->
  map n_move ks = map Some (map fst (filter (passes cutoff (n_pos n))
                                            (combine (table (size (n_pos n))) (n_raw n)))) /\
  NoDup (map n_move ks) /\
  (forall m c, In (Some m, c) (map n_key ks) <->
               exists q, (exists i, nth_error (table (size (n_pos n))) i = Some m /\
                                    nth_error (n_raw n) i = Some q) /\
                         cutoff <= q /\ move (n_pos n) m = Some c).
Proof. exact children_one_to_one. Qed.
Theorem C08_child_positions : forall cutoff n ks i k,
  Good cutoff n -> n_kids n = Some ks -> nth_error ks i = Some k ->
  exists m, n_move k = Some m /\ In m (table (size (n_pos n))) /\
            move (n_pos n) m = Some (n_pos k).
Proof. exact select_root_move_legal. Qed.
(* "child priors are the evaluator's priors renormalised" *)
Theorem C08_child_priors_renormalised : forall cutoff n ks,
  Good cutoff n -> n_kids n = Some ks ->
  n_probs n = renorm (map c_prior (accepted cutoff (n_pos n) (n_raw n))) /\
  map n_key ks = map c_key (accepted cutoff (n_pos n) (n_raw n)).
Proof. exact child_priors_renormalised. Qed.
(* ... renorm divides every entry by the sum of the entries *)
Theorem C08_renorm_is_division : forall l,
  length (renorm l) = length l /\
  forall i x, nth_error l i = Some x ->
              exists y, nth_error (renorm l) i = Some y /\ y == x / sumq l.
Proof. exact renorm_spec. Qed.
(* ... where the ghost field n_raw is what the evaluator answered (mixed with
   the noise at the root) when the node was expanded *)
Theorem C08_expansion_records_evaluator : forall cutoff mix p m noise e evs,
  terminal p = None ->
  simulate cutoff mix [] (fresh p m) noise (e :: evs) =
  (Node p m (snd e) (0 + snd e) 1 (priors mix p noise (fst e))
        (renorm (map c_prior (accepted cutoff p (priors mix p noise (fst e)))))
        (Some (map child_of (accepted cutoff p (priors mix p noise (fst e))))), snd e, evs).
Proof. exact expansion_records_evaluator. Qed.

(* "the searched position is left untouched" (the field; heap-level immutability is C05) *)
Theorem C08_position_untouched : forall cutoff mix limit css n noise evs,
  Good cutoff n -> valid_analyze cutoff mix limit css n noise evs ->
  n_pos (fst (analyze cutoff mix limit css n noise evs)) = n_pos n.
Proof. exact position_untouched. Qed.

(* evaluations in [-1,1] stay in [-1,1] in the tree, and then |value| <= visits *)
Theorem C08_simulate_bounded : forall cutoff mix cs n noise evs n' v evs',
  Bounded n -> Forall ev_ok evs -> simulate cutoff mix cs n noise evs = (n', v, evs') ->
  Bounded n' /\ -1 <= v <= 1 /\ Forall ev_ok evs'.
Proof. exact simulate_bounded. Qed.
Theorem C08_abs_value_le_sims : forall cutoff n,
  Good cutoff n -> Bounded n -> - qnat (n_sims n) <= n_value n <= qnat (n_sims n).
Proof. exact abs_value_le_sims. Qed.

(* progress: a tree whose expanded nodes all have a child offers the sampler a valid path *)
Theorem C08_live_has_path : forall n, Live n -> exists cs, valid cs n.
Proof. exact live_has_path. Qed.

(* ---- compositions (work package X; proofs/ComposeMcts.v) ---- *)
From TV Require spec.Rules proofs.Generator proofs.ComposeMcts.
(* "every expansion is legal" in the terms of C01 (rulebook relation) and C03 (canonical moves, id table): on a well-formed position the children are exactly the canonical moves the rulebook allows whose prior at the move's id reaches the cutoff, each once, and each child holds THE successor the rulebook prescribes *)
Theorem C08_children_are_rulebook_moves : forall cutoff n ks,
  Good cutoff n -> n_kids n = Some ks -> Rules.wf_pos (n_pos n) ->
  Forall (fun k => n_move k <> None) ks /\ NoDup (map n_move ks) /\
  (forall m, In (Some m) (map n_move ks) <->
             Generator.canonical m /\ (exists p', Rules.legal_step (n_pos n) m p') /\
             exists q, ComposeMcts.prior_at (n_raw n) (size (n_pos n)) m = Some q /\ cutoff <= q) /\
  (forall k, In k ks -> exists m, n_move k = Some m /\ Rules.legal_step (n_pos n) m (n_pos k)).
Proof. exact ComposeMcts.children_are_rulebook_moves. Qed.
(* prior_at raw n m (= raw[encode_move n m]) is the entry of the prior vector at the position of m in the id table *)
Theorem C08_prior_at_is_table_index : forall raw n m q,
  ComposeMcts.prior_at raw n m = Some q <->
  exists i, nth_error (table n) i = Some m /\ nth_error raw i = Some q.
Proof. exact ComposeMcts.prior_at_spec. Qed.

(* ---- the same about MCTS.update and the pure part of MCTS.populate REGENERATED FROM THE SOURCE (gen/MctsGen.v, harness/mcts2coq.py against model/MctsSem.v + PySem.v; proofs/MctsGenEq.v); the search loop follows at the end of this file ---- *)
From Coq Require Import ZArith QArith List Bool.
From Coq Require Import Floats.SpecFloat.
From TV Require Import model.Tak model.Road model.PySem model.Mcts model.MctsSem model.Solver model.LambdaF64.
From TV Require Import proofs.MctsProofs proofs.MctsGenEq.
From TV Require gen.MctsGen.
(* (a) update(path): on the path as populate left it (leaf's v_zero new, values and visit counts old) the generated
   backup loop yields exactly the statistics of the same path in simulate's result *)
Theorem C08_source_update_eq :
  forall cutoff mix cs n noise evs n' v evs',
  valid cs n -> simulate cutoff mix cs n noise evs = (n', v, evs') ->
  MctsGen.update (pre_update cs n n') = Ok (map stat_of (path_nodes cs n')).
Proof. exact gen_update_eq. Qed.
(* C08 transported: the searched node gets one visit and exactly the credited value; the invariant holds *)
Theorem C08_source_update_root :
  forall cutoff mix cs n noise evs n' v evs',
  Good cutoff n -> valid cs n -> simulate cutoff mix cs n noise evs = (n', v, evs') ->
  exists t, MctsGen.update (pre_update cs n n') = Ok (stat_of n' :: t) /\
            ps_simulations (stat_of n') = Z.of_nat (n_sims n) + 1 /\
            (ps_value (stat_of n') == n_value n + v)%Q /\ Good cutoff n'.
Proof. exact gen_update_root. Qed.
(* (c) populate(node, is_root) on a terminal position: v_zero = +1 / -1 / 0 for the side to move by winner(),
   nothing else changes, the network is not asked *)
Theorem C08_source_populate_terminal :
  forall evaluate dirichlet cutoff mix alpha p m v0 value sims raw probs o is_root,
  terminal p = Some o ->
  MctsGen.populate evaluate dirichlet (the_cfg cutoff mix alpha) (py_of (Node p m v0 value sims raw probs None)) is_root =
  Ok (py_of (Node p m o value sims raw probs None)).
Proof. exact gen_populate_terminal. Qed.
(* ... otherwise exactly the expansion step of simulate: the evaluator's answer cut to the size's id table, the noise
   mixed in at the searched root when root_noise_alpha is set, children = ids in order with prior >= cutoff that
   Position.move accepts (child position = move parent m), their priors divided by their sum *)
Theorem C08_source_populate_expand :
  forall evaluate dirichlet cutoff mix alpha p m v0 value sims raw0 probs0 raw v is_root nz,
  terminal p = None -> evaluate p = Ok (raw, v) -> (0 < cutoff)%Q ->
  (is_root && is_some alpha = true ->
   dirichlet (zlen (firstn (length (table (size p))) raw)) alpha = Ok nz /\
   length nz = length (firstn (length (table (size p))) raw)) ->
  let noise := if is_root && is_some alpha then Some nz else None in
  let pri := priors mix p noise raw in
  let acc := accepted cutoff p pri in
  MctsGen.populate evaluate dirichlet (the_cfg cutoff mix alpha) (py_of (Node p m v0 value sims raw0 probs0 None)) is_root =
  Ok (py_of (Node p m v value sims pri (renorm (map c_prior acc)) (Some (map child_of acc)))).
Proof. exact gen_populate_expand. Qed.
(* C08 transported: every child the generated populate stores is a table move the rules accept, each once, holding
   the parent's position after that move *)
Theorem C08_source_populate_children_legal :
  forall evaluate dirichlet cutoff mix alpha p m v0 value sims raw0 probs0 raw v is_root nz,
  terminal p = None -> evaluate p = Ok (raw, v) -> (0 < cutoff)%Q ->
  (is_root && is_some alpha = true ->
   dirichlet (zlen (firstn (length (table (size p))) raw)) alpha = Ok nz /\
   length nz = length (firstn (length (table (size p))) raw)) ->
  exists r ks, MctsGen.populate evaluate dirichlet (the_cfg cutoff mix alpha)
                                (py_of (Node p m v0 value sims raw0 probs0 None)) is_root = Ok r /\
               pn_children r = Some ks /\ pn_position r = p /\ pn_v_zero r = v /\
               NoDup (map pn_move ks) /\
               forall c, In c ks -> exists mv, pn_move c = Some mv /\ In mv (table (size p)) /\
                                               Tak.move p mv = Some (pn_position c).
Proof. exact gen_populate_children_legal. Qed.

(* ====================================================================== *)
(* The search loop (proofs/MctsGenSearch.v): descend, analyze_tree, analyze, get_move, select_root_move, tree_probs
   regenerated over the tree-as-heap of model/MctsSem.v.  The Python code mutates Node objects in place through
   references; the translation threads one immutable tree and addresses a node by its PLACE (child indices from the
   searched node) - valid because the objects form a tree; that proviso (no aliasing) is not proved here, it is what
   C08's snapshots and C05 check.  Oracles of the theorems: o_multinomial = the choice stream (refuses a missing
   distribution), o_evaluate = the evaluator stream (next_eval), o_dirichlet = the noise vector of this call,
   o_monotonic = a clock (time_limit = 0: the deadline is float("inf"), kept symbolic, never reached).
   solve total = the solver returns (C10). *)
From TV Require Import proofs.MctsGenSearch.

(* END TO END: for time_limit = 0 and simulation_limit = limit > 0 the regenerated analyze_tree, with fuel that does
   not run out, computes exactly model/Mcts.v's analyze on the same streams (one evaluator answer per non-terminal
   leaf, one choice per descent step, the Dirichlet sample at the root's first expansion) *)
Theorem C08_source_analyze_tree_eq :
  forall F f_sqrt f_mul f_div_int (solve : list Q -> list Q -> F -> res (list Q)) (C : F) cutoff mix alpha limit,
  (forall pi q lam, exists r, solve pi q lam = Ok r) -> (0 < cutoff)%Q ->
  forall noise, is_some alpha = is_some noise ->
  forall css t evs rest fuel,
  Good cutoff t -> valid_analyze cutoff mix limit css t noise evs -> (0 < limit)%nat -> noise_ok noise t evs ->
  (length css < fuel)%nat -> Forall (fun cs => (length cs < fuel)%nat) css ->
  MctsGen.analyze_tree ostate o_multinomial o_monotonic o_evaluate o_dirichlet F f_sqrt f_mul f_div_int solve C fuel
    (search_cfg cutoff mix alpha limit) (py_of t) [] (mkOst (flat css ++ rest) evs noise) =
  Ok (py_of (fst (analyze cutoff mix limit css t noise evs)),
      mkOst (flat (unused cutoff mix limit noise css t evs) ++ rest) (snd (analyze cutoff mix limit css t noise evs)) noise).
Proof. exact gen_analyze_tree_eq. Qed.
(* descend: follows the choice stream from the node at `pl` down to a leaf; the references it returns are the places
   of the path; one sampler answer per step *)
Theorem C08_source_descend_eq :
  forall F f_sqrt f_mul f_div_int (solve : list Q -> list Q -> F -> res (list Q)) (C : F) cutoff mix alpha limit,
  (forall pi q lam, exists r, solve pi q lam = Ok r) ->
  forall cs t hp pl path0 rest evs nz fuel0 fuel,
  valid cs t -> Good cutoff t -> pt_get hp pl = Ok (py_of t) -> (length cs < fuel)%nat ->
  MctsGen.descend_while1 ostate o_multinomial F f_sqrt f_mul f_div_int solve C fuel0 fuel
    (search_cfg cutoff mix alpha limit) hp pl path0 (mkOst (zs cs ++ rest) evs nz) =
  Ok (path0 ++ prefixes pl cs, mkOst rest evs nz).
Proof. exact descend_loop_ok. Qed.
(* C08 transported to the regenerated loop (C08_analyze_good, root_visits_fresh / _reused, position_untouched) *)
Theorem C08_source_analyze_tree_good :
  forall F f_sqrt f_mul f_div_int (solve : list Q -> list Q -> F -> res (list Q)) (C : F) cutoff mix alpha limit,
  (forall pi q lam, exists r, solve pi q lam = Ok r) -> (0 < cutoff)%Q ->
  forall noise, is_some alpha = is_some noise ->
  forall css t evs rest fuel,
  Good cutoff t -> valid_analyze cutoff mix limit css t noise evs -> (0 < limit)%nat -> noise_ok noise t evs ->
  (length css < fuel)%nat -> Forall (fun cs => (length cs < fuel)%nat) css ->
  exists t' st',
    MctsGen.analyze_tree ostate o_multinomial o_monotonic o_evaluate o_dirichlet F f_sqrt f_mul f_div_int solve C fuel
      (search_cfg cutoff mix alpha limit) (py_of t) [] (mkOst (flat css ++ rest) evs noise) = Ok (py_of t', st') /\
    Good cutoff t' /\ n_sims t' = Nat.max limit (n_sims t) /\ n_pos t' = n_pos t /\
    pn_simulations (py_of t') = Z.of_nat (Nat.max limit (n_sims t)) /\ pn_position (py_of t') = n_pos t.
Proof. exact gen_analyze_tree_good. Qed.
(* analyze(p): a new tree on p *)
Theorem C08_source_analyze_eq :
  forall F f_sqrt f_mul f_div_int (solve : list Q -> list Q -> F -> res (list Q)) (C : F) cutoff mix alpha limit,
  (forall pi q lam, exists r, solve pi q lam = Ok r) -> (0 < cutoff)%Q ->
  forall noise, is_some alpha = is_some noise ->
  forall css p evs rest fuel,
  valid_analyze cutoff mix limit css (root p) noise evs -> (0 < limit)%nat -> noise_ok noise (root p) evs ->
  (length css < fuel)%nat -> Forall (fun cs => (length cs < fuel)%nat) css ->
  MctsGen.analyze ostate o_multinomial o_monotonic o_evaluate o_dirichlet F f_sqrt f_mul f_div_int solve C fuel
    (search_cfg cutoff mix alpha limit) p (mkOst (flat css ++ rest) evs noise) =
  Ok (py_of (fst (analyze cutoff mix limit css (root p) noise evs)),
      mkOst (flat (unused cutoff mix limit noise css (root p) evs) ++ rest)
            (snd (analyze cutoff mix limit css (root p) noise evs)) noise).
Proof. exact gen_analyze_eq. Qed.
