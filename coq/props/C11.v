(* C11 - a self-play transcript is a legal game with correct outcome labels.
   Property theorems only; proofs are in proofs/SelfPlayProofs.v, the vocabulary
   (resign_now, picks, terminal, over_limit, final_after, row_value, good_answer)
   in spec/SelfPlaySpec.v.  `play_one_game cfg s = Done tr e f`: the loop of
   self_play.play_one_game, run on the engine answers s (one per analysed
   position), left through exit e with loop variable `position` = f and
   produced transcript tr.  The error outcomes (stream exhausted, zero
   simulations, sampled index outside the list, illegal candidate) are excluded
   by that hypothesis; C11_errors_excluded says when they cannot occur. *)
From Coq Require Import ZArith QArith Qabs List.
From TV Require Import model.Tak model.Road model.SelfPlay spec.SelfPlaySpec proofs.SelfPlayProofs.
Import ListNotations.
Open Scope Z_scope.

(* "candidates, search probabilities and values line up one-to-one per position": equal lengths *)
Theorem C11_lists_aligned : forall cfg s tr e f, play_one_game cfg s = Done tr e f ->
  length (t_moves tr) = length (t_positions tr) /\
  length (t_probs tr) = length (t_positions tr) /\
  length (t_values tr) = length (t_positions tr) /\
  (length (t_positions tr) <= length s)%nat.
Proof. exact lists_aligned. Qed.

(* ... and row i holds exactly what the engine answered for position i *)
Theorem C11_rows_are_engine_answers : forall cfg s tr e f, play_one_game cfg s = Done tr e f -> forall i p,
  nth_error (t_positions tr) i = Some p ->
  exists a, nth_error s i = Some a /\
    nth_error (t_moves tr) i = Some (a_moves a) /\
    nth_error (t_probs tr) i = Some (a_probs a) /\
    nth_error (t_values tr) i = Some (row_value a).
Proof. exact rows_are_engine_answers. Qed.

(* "positions start at the initial position and each follows from the previous by one of that
   position's recorded candidate moves"; position i has ply i *)
Theorem C11_transcript_chain : forall cfg s tr e f, play_one_game cfg s = Done tr e f ->
  (forall p0, nth_error (t_positions tr) 0 = Some p0 -> p0 = start cfg) /\
  (forall i p q, nth_error (t_positions tr) i = Some p -> nth_error (t_positions tr) (S i) = Some q ->
     exists a m, nth_error s i = Some a /\ nth_error (t_moves tr) i = Some (a_moves a) /\
                 picks a m /\ In m (a_moves a) /\ move p m = Some q) /\
  (forall i p, nth_error (t_positions tr) i = Some p -> ply p = Z.of_nat i).
Proof. exact transcript_chain. Qed.

(* "... all legal": given that the engine's candidates are legal (C08/C09), every recorded candidate is *)
Theorem C11_candidates_legal : forall cfg s tr e f, play_one_game cfg s = Done tr e f ->
  (forall i p a, nth_error (t_positions tr) i = Some p -> nth_error s i = Some a ->
     forall m, In m (a_moves a) -> move p m <> None) ->
  forall i p ms m, nth_error (t_positions tr) i = Some p -> nth_error (t_moves tr) i = Some ms ->
    In m ms -> exists q, move p m = Some q.
Proof. exact candidates_legal. Qed.

(* "search probabilities (a distribution) and values in [-1,1]": given that of the engine (C08/C09) *)
Theorem C11_recorded_rows_good : forall cfg s tr e f, play_one_game cfg s = Done tr e f ->
  (forall a, In a s -> good_answer a) ->
  forall i ms ps v, nth_error (t_moves tr) i = Some ms -> nth_error (t_probs tr) i = Some ps ->
    nth_error (t_values tr) i = Some v ->
    length ps = length ms /\ Forall (fun p => 0 <= p)%Q ps /\ (qsum ps == 1)%Q /\ (-(1) <= v <= 1)%Q.
Proof. exact recorded_rows_good. Qed.

(* "play stops at the first terminal position, at resignation, or when the ply limit is exceeded":
   nothing recorded is over the limit or terminal and only the last answer resigns (not earlier);
   the exit taken says why it stopped there (the code tests the limit before the rules) *)
Theorem C11_stops_exactly : forall cfg s tr e f, play_one_game cfg s = Done tr e f ->
  (forall i p, nth_error (t_positions tr) i = Some p -> ~ over_limit cfg p /\ ~ terminal p) /\
  (forall i a, (S i < length (t_positions tr))%nat -> nth_error s i = Some a -> ~ resign_now cfg a) /\
  match e with
  | ExitLimit => over_limit cfg f /\ final_after cfg (start cfg) s tr f
  | ExitRules r => ~ over_limit cfg f /\ snd (winner f) = Some r /\ final_after cfg (start cfg) s tr f
  | ExitResign => exists n a, length (t_positions tr) = S n /\ nth_error (t_positions tr) n = Some f /\
                    nth_error s n = Some a /\ resign_now cfg a
  end.
Proof. exact stops_exactly. Qed.

(* "the recorded result is the actual winner when decided by the rules or by resignation and
   'no winner' for draws and games cut off by the ply limit" *)
Theorem C11_result_correct : forall cfg s tr e f, play_one_game cfg s = Done tr e f ->
  match e with
  | ExitRules r => snd (winner f) = Some r /\ t_result tr = fst (winner f)
  | ExitLimit => t_result tr = None
  | ExitResign =>
      exists n a, length (t_positions tr) = S n /\ nth_error (t_positions tr) n = Some f /\
        nth_error s n = Some a /\ resign_now cfg a /\
        ((sp_threshold cfg <= a_vzero a)%Q -> t_result tr = Some (to_move f)) /\
        (~ (sp_threshold cfg <= a_vzero a)%Q -> t_result tr = Some (flip (to_move f))) /\
        ((0 < sp_threshold cfg)%Q ->
           ((0 < a_vzero a)%Q -> t_result tr = Some (to_move f)) /\
           ((a_vzero a < 0)%Q -> t_result tr = Some (flip (to_move f))) /\
           ~ (a_vzero a == 0)%Q)
  end.
Proof. exact result_correct. Qed.

(* "labels are +1 where the winner is to move, -1 where the loser is, 0 throughout when no winner"
   (Transcript.results, for every transcript) *)
Theorem C11_labels_correct : forall tr,
  length (results tr) = length (t_positions tr) /\
  (t_result tr = None -> forall i p, nth_error (t_positions tr) i = Some p -> nth_error (results tr) i = Some 0) /\
  (forall w, t_result tr = Some w -> forall i p, nth_error (t_positions tr) i = Some p ->
     (to_move p = w -> nth_error (results tr) i = Some 1) /\
     (to_move p = flip w -> nth_error (results tr) i = Some (-1))).
Proof. exact labels_correct. Qed.

(* in a played game the labels alternate, starting with White to move *)
Theorem C11_labels_by_parity : forall cfg s tr e f w, play_one_game cfg s = Done tr e f -> t_result tr = Some w ->
  forall i, (i < length (t_positions tr))%nat ->
  nth_error (results tr) i =
    Some (if color_eqb (if Z.even (Z.of_nat i) then White else Black) w then 1 else -1).
Proof. exact labels_by_parity. Qed.

(* the error outcomes: ply_limit + 1 answers always suffice; the others need a defective answer *)
Theorem C11_errors_excluded : forall cfg s err, play_one_game cfg s = Err err ->
  match err with
  | Exhausted => Z.of_nat (length s) <= sp_ply_limit cfg
  | ZeroSims => exists a, In a s /\ a_sims a = 0
  | BadIndex => exists a, In a s /\ nthz (a_moves a) (a_pick a) = None
  | IllegalCandidate => exists a m p, In a s /\ picks a m /\ move p m = None
  end.
Proof. exact errors_excluded. Qed.

(* the functional model and the relational reading of the loop agree *)
Theorem C11_loop_is_relation : forall cfg pos s tr e f,
  play_loop cfg pos s = Done tr e f <-> run cfg pos s tr e f.
Proof. exact loop_iff_run. Qed.

(* ---- compositions (work package X; proofs/ComposeSelfPlay.v): the hypotheses of C11_candidates_legal /
   C11_recorded_rows_good discharged for the real engine.  `ComposeSelfPlay.answer_of_tree solve C t pick` is
   what the loop reads off a search tree t of model/Mcts.v (C11_answer_of_tree_reads); solve stands for
   tak_ext.solve_policy, C for Config.C ---- *)
From TV Require model.Mcts model.Solver spec.Rules spec.EncodingSpec proofs.Generator proofs.MctsProofs
  proofs.SolverProofs proofs.ComposeSelfPlay.
(* the fields of answer_of_tree: children's moves, tree_probs(tree), tree.value, tree.simulations, tree.v_zero, the sampled index *)
Theorem C11_answer_of_tree_reads : forall cutoff solve C t ks pk,
  MctsProofs.Good cutoff t -> Mcts.n_kids t = Some ks ->
  let a := ComposeSelfPlay.answer_of_tree solve C t pk in
  map Some (a_moves a) = map Mcts.n_move ks /\ a_probs a = Mcts.policy_probs solve t C /\
  a_value a = Mcts.n_value t /\ a_sims a = Z.of_nat (Mcts.n_sims t) /\ a_vzero a = Mcts.n_v0 t /\ a_pick a = pk.
Proof. exact ComposeSelfPlay.answer_of_tree_reads. Qed.
(* C11 + C08 (+ C01, C04): if every consumed answer is read off an expanded tree satisfying C08's invariant and grown for the recorded position, then (a) the hypothesis of C11_candidates_legal holds, so every recorded candidate is legal, and the candidates of a row are distinct (hypothesis of C12_dense_target); (b) the next recorded position - computed by the model as `move pos m` - is the position stored in the chosen child (closes the open item of notes/C11.md); (c) for sizes 3..8 every recorded position is well formed and "legal" is the rulebook relation of C01.  No assumption on the solver *)
Theorem C11_real_engine_transcript_legal : forall cutoff solve C cfg s tr e f,
  play_one_game cfg s = Done tr e f ->
  (forall i p, nth_error (t_positions tr) i = Some p ->
     exists t pk ks, nth_error s i = Some (ComposeSelfPlay.answer_of_tree solve C t pk) /\
                     MctsProofs.Good cutoff t /\ Mcts.n_kids t = Some ks /\ Mcts.n_pos t = p) ->
  (forall i p a, nth_error (t_positions tr) i = Some p -> nth_error s i = Some a ->
     forall m, In m (a_moves a) -> move p m <> None) /\
  (forall i p ms m, nth_error (t_positions tr) i = Some p -> nth_error (t_moves tr) i = Some ms ->
     In m ms -> exists q, move p m = Some q) /\
  (forall i ms, nth_error (t_moves tr) i = Some ms -> NoDup ms) /\
  (forall i p q, nth_error (t_positions tr) i = Some p -> nth_error (t_positions tr) (S i) = Some q ->
     exists t pk ks k m, nth_error s i = Some (ComposeSelfPlay.answer_of_tree solve C t pk) /\ Mcts.n_pos t = p /\
       Mcts.n_kids t = Some ks /\ nthz ks pk = Some k /\ Mcts.n_move k = Some m /\
       picks (ComposeSelfPlay.answer_of_tree solve C t pk) m /\ Mcts.n_pos k = q) /\
  (3 <= sp_size cfg <= 8 ->
     Forall Rules.wf_pos (t_positions tr) /\
     (forall i p ms m, nth_error (t_positions tr) i = Some p -> nth_error (t_moves tr) i = Some ms ->
        In m ms -> Generator.canonical m /\ exists q, Rules.legal_step p m q) /\
     (forall i p q, nth_error (t_positions tr) i = Some p -> nth_error (t_positions tr) (S i) = Some q ->
        exists ms m, nth_error (t_moves tr) i = Some ms /\ In m ms /\ Rules.legal_step p m q)).
Proof. exact ComposeSelfPlay.real_engine_transcript_legal. Qed.
(* C11 + C08/C09: with evaluations in [-1,1] (Bounded) every recorded row has as many probabilities as candidates and a value in [-1,1].  ASSUMES of the solver output only that it has the length of the prior it is given (partial: that the probabilities are non-negative and sum to one is the solver's, C10) *)
Theorem C11_real_engine_rows_partial : forall cutoff solve C cfg s tr e f,
  play_one_game cfg s = Done tr e f ->
  (forall i p, nth_error (t_positions tr) i = Some p ->
     exists t pk ks, nth_error s i = Some (ComposeSelfPlay.answer_of_tree solve C t pk) /\
                     MctsProofs.Good cutoff t /\ MctsProofs.Bounded t /\ Mcts.n_kids t = Some ks /\ Mcts.n_pos t = p) ->
  (forall i, length (solve i) = length (Mcts.pi_prior i)) ->
  forall i ms ps v, nth_error (t_moves tr) i = Some ms -> nth_error (t_probs tr) i = Some ps ->
    nth_error (t_values tr) i = Some v ->
    length ps = length ms /\ (-(1) <= v <= 1)%Q.
Proof. exact ComposeSelfPlay.real_engine_rows_partial. Qed.
(* ... and every consumed answer is `good_answer` (hypothesis of C11_recorded_rows_good) under the FURTHER assumption that the solver output is an exact distribution (C10 proves that only up to its tolerance, hence partial) *)
Theorem C11_real_engine_answers_good_partial : forall cutoff solve C cfg s tr e f,
  play_one_game cfg s = Done tr e f ->
  (forall i p, nth_error (t_positions tr) i = Some p ->
     exists t pk ks, nth_error s i = Some (ComposeSelfPlay.answer_of_tree solve C t pk) /\
                     MctsProofs.Good cutoff t /\ MctsProofs.Bounded t /\ Mcts.n_kids t = Some ks /\ Mcts.n_pos t = p) ->
  (forall i, length (solve i) = length (Mcts.pi_prior i)) ->
  (forall i, Forall (fun p => 0 <= p)%Q (solve i) /\ (qsum (solve i) == 1)%Q) ->
  forall i p a, nth_error (t_positions tr) i = Some p -> nth_error s i = Some a -> good_answer a.
Proof. exact ComposeSelfPlay.real_engine_answers_good_partial. Qed.
(* C11 + C09 + C10: with the Python-rule solver in exact arithmetic (multiplier lamf in (0,1024]) and the property's hypothesis `live`, no assumption is left: the recorded probabilities are the solver's returned weights on inputs meeting C10's hypothesis - positive, one per candidate, total within C10's tolerance.  Partial: exact arithmetic, not float32 *)
Theorem C11_real_engine_exact_solver_rows_partial : forall cutoff C lamf cfg s tr e f,
  (0 < cutoff)%Q -> (forall i, (0 < lamf i)%Q /\ (lamf i <= 1024)%Q) ->
  play_one_game cfg s = Done tr e f ->
  (forall i p, nth_error (t_positions tr) i = Some p ->
     exists t pk ks, nth_error s i = Some (ComposeSelfPlay.answer_of_tree (ComposeSelfPlay.exact_solver lamf) C t pk) /\
       MctsProofs.Good cutoff t /\ MctsProofs.Bounded t /\ Mcts.n_kids t = Some ks /\ Mcts.n_pos t = p /\
       Mcts.live cutoff (Mcts.n_pos t) (Mcts.n_raw t) = true) ->
  forall i ms ps v, nth_error (t_moves tr) i = Some ms -> nth_error (t_probs tr) i = Some ps ->
    nth_error (t_values tr) i = Some v ->
    length ps = length ms /\ Forall (fun x => 0 < x)%Q ps /\ (-(1) <= v <= 1)%Q /\
    exists t ks pin k a, Mcts.n_kids t = Some ks /\ Mcts.policy_inputs t C = Some pin /\
      SolverProofs.Hyp (lamf pin) (Mcts.pi_prior pin) (Mcts.pi_q pin) /\
      Solver.solve_python_Q (lamf pin) (Mcts.pi_prior pin) (Mcts.pi_q pin) = Solver.Returned k a ps /\
      SolverProofs.above (Mcts.pi_q pin) a /\
      ((Qabs (1 - SolverProofs.Qsum ps) <= Solver.EPS_Q)%Q \/
       ((forall x, SolverProofs.above (Mcts.pi_q pin) x -> (x < a - Solver.TOL_Q)%Q ->
                   (1 < SolverProofs.f (lamf pin) (Mcts.pi_prior pin) (Mcts.pi_q pin) x)%Q) /\
        (forall x, (a + Solver.TOL_Q < x)%Q ->
                   (SolverProofs.f (lamf pin) (Mcts.pi_prior pin) (Mcts.pi_q pin) x < 1)%Q))).
Proof. exact ComposeSelfPlay.exact_solver_rows. Qed.
(* C11 + C04 / C06: the recorded positions are well formed (sizes 3..8) and in the domain of the token encoding (sizes 3..6) *)
Theorem C11_transcript_positions_wf : forall cfg s tr e f, play_one_game cfg s = Done tr e f ->
  3 <= sp_size cfg <= 8 -> Forall Rules.wf_pos (t_positions tr).
Proof. exact ComposeSelfPlay.transcript_positions_wf. Qed.
Theorem C11_transcript_positions_encodable : forall cfg s tr e f, play_one_game cfg s = Done tr e f ->
  3 <= sp_size cfg <= 6 -> Forall EncodingSpec.encodable (t_positions tr).
Proof. exact ComposeSelfPlay.transcript_positions_encodable. Qed.

(* ---- the same about play_one_game / Transcript.results / Transcript.logits REGENERATED FROM THE SOURCE (gen/SelfPlayGen.v, harness/py2coq.py against model/PySem.v + SelfPlaySem.v; proofs/SelfPlayGenEq.v); the engine enters as an oracle stream ---- *)
From Coq Require Import ZArith QArith Qabs List Bool.
From TV Require gen.Consts.
From TV Require Import model.Tak model.Road model.PySem model.SelfPlay model.SelfPlaySem spec.SelfPlaySpec.
From TV Require Import proofs.GameGenEq proofs.SelfPlayGenEq.
From TV Require gen.GameGen gen.EncodingGen gen.SelfPlayGen.
(* the translated loop IS the model's loop, for every configuration with a board size whose default piece counts
   exist and every oracle stream whose children are consistent *)
Theorem C11_source_play_one_game_eq :
  forall cfg s, 0 <= sp_size cfg <= 8 -> kids_ok cfg (start cfg) s ->
  SelfPlayGen.play_one_game cfg s = embed_outcome (SelfPlay.play_one_game cfg (map answer_of s)).
Proof. exact gen_play_one_game_eq. Qed.
(* a transcript, or one of the three exceptions of the model; never OutOfFuel, never anything else *)
Theorem C11_source_play_outcomes :
  forall cfg s, 0 <= sp_size cfg <= 8 -> kids_ok cfg (start cfg) s ->
  (exists tr, SelfPlayGen.play_one_game cfg s = Ok tr) \/
  (exists e, SelfPlayGen.play_one_game cfg s = Crash e /\ (e = OracleExhausted \/ e = ZeroDivisionError \/ e = IndexError)).
Proof. exact gen_play_outcomes. Qed.
(* Transcript.results, every transcript *)
Theorem C11_source_results_eq :
  forall tr, SelfPlayGen.results tr = map inject_Z (SelfPlay.results tr).
Proof. exact gen_results_eq. Qed.
(* Transcript.logits: the same rows, or IndexError / KeyError where the model says None *)
Theorem C11_source_logits_agrees :
  forall tr,
  (forall p0, nth_error (t_positions tr) 0 = Some p0 -> 0 <= size p0 <= 6) ->
  (length (t_moves tr) <= length (t_probs tr))%nat ->
  lagrees (SelfPlayGen.logits tr) (SelfPlay.logits tr).
Proof. exact gen_logits_agrees. Qed.
(* positions start at the initial position and each follows from the previous by a recorded candidate; ply i at index i *)
Theorem C11_source_transcript_chain :
  forall cfg s tr, 0 <= sp_size cfg <= 8 -> kids_ok cfg (start cfg) s ->
  SelfPlayGen.play_one_game cfg s = Ok tr ->
  (forall p0, nth_error (t_positions tr) 0 = Some p0 -> p0 = start cfg) /\
  (forall i p q, nth_error (t_positions tr) i = Some p -> nth_error (t_positions tr) (S i) = Some q ->
     exists a m, nth_error (map answer_of s) i = Some a /\ nth_error (t_moves tr) i = Some (a_moves a) /\
                 picks a m /\ In m (a_moves a) /\ move p m = Some q) /\
  (forall i p, nth_error (t_positions tr) i = Some p -> ply p = Z.of_nat i).
Proof. exact gen_transcript_chain. Qed.
(* play stops at the first terminal position, at resignation, or when the ply limit is exceeded *)
Theorem C11_source_stops_exactly :
  forall cfg s tr, 0 <= sp_size cfg <= 8 -> kids_ok cfg (start cfg) s ->
  SelfPlayGen.play_one_game cfg s = Ok tr -> exists e f,
  (forall i p, nth_error (t_positions tr) i = Some p -> ~ over_limit cfg p /\ ~ terminal p) /\
  (forall i a, (S i < length (t_positions tr))%nat -> nth_error (map answer_of s) i = Some a -> ~ resign_now cfg a) /\
  match e with
  | ExitLimit => over_limit cfg f /\ final_after cfg (start cfg) (map answer_of s) tr f
  | ExitRules r => ~ over_limit cfg f /\ snd (winner f) = Some r /\ final_after cfg (start cfg) (map answer_of s) tr f
  | ExitResign => exists n a, length (t_positions tr) = S n /\ nth_error (t_positions tr) n = Some f /\
                    nth_error (map answer_of s) n = Some a /\ resign_now cfg a
  end.
Proof. exact gen_stops_exactly. Qed.
(* the recorded result is the winner by the rules or by resignation, None for draws and games cut off by the limit *)
Theorem C11_source_result_correct :
  forall cfg s tr, 0 <= sp_size cfg <= 8 -> kids_ok cfg (start cfg) s ->
  SelfPlayGen.play_one_game cfg s = Ok tr -> exists e f,
  SelfPlay.play_one_game cfg (map answer_of s) = Done tr e f /\
  match e with
  | ExitRules r => snd (winner f) = Some r /\ t_result tr = fst (winner f)
  | ExitLimit => t_result tr = None
  | ExitResign =>
      exists n a, length (t_positions tr) = S n /\ nth_error (t_positions tr) n = Some f /\
        nth_error (map answer_of s) n = Some a /\ resign_now cfg a /\
        ((sp_threshold cfg <= a_vzero a)%Q -> t_result tr = Some (to_move f)) /\
        (~ (sp_threshold cfg <= a_vzero a)%Q -> t_result tr = Some (flip (to_move f))) /\
        ((0 < sp_threshold cfg)%Q ->
           ((0 < a_vzero a)%Q -> t_result tr = Some (to_move f)) /\
           ((a_vzero a < 0)%Q -> t_result tr = Some (flip (to_move f))) /\
           ~ (a_vzero a == 0)%Q)
  end.
Proof. exact gen_result_correct. Qed.
(* labels: +1 where the winner is to move, -1 where the loser is, 0 throughout when there is no winner *)
Theorem C11_source_labels_correct :
  forall tr,
  length (SelfPlayGen.results tr) = length (t_positions tr) /\
  (t_result tr = None -> forall i p, nth_error (t_positions tr) i = Some p -> nth_error (SelfPlayGen.results tr) i = Some (inject_Z 0)) /\
  (forall w, t_result tr = Some w -> forall i p, nth_error (t_positions tr) i = Some p ->
     (to_move p = w -> nth_error (SelfPlayGen.results tr) i = Some (inject_Z 1)) /\
     (to_move p = flip w -> nth_error (SelfPlayGen.results tr) i = Some (inject_Z (-1)))).
Proof. exact gen_labels_correct. Qed.

(* ---- end to end for the real engine: the translated play_one_game on answers read off Good search trees ---- *)
From TV Require model.Mcts proofs.MctsProofs proofs.ComposeSelfPlay proofs.ComposeSelfPlayGen.
(* END TO END: the play_one_game translated from the source, run on the answers of a real engine, is the model's game;
   and when it returns a transcript, every recorded candidate is legal, candidates are pairwise distinct, each next
   position is the one stored in the chosen child AND the result of applying the picked candidate, the game starts at
   the initial position with ply i at index i *)
Theorem C11_source_real_engine :
  forall cutoff solve C cfg ts, 0 <= sp_size cfg <= 8 ->
  ComposeSelfPlayGen.engine_run_ok cutoff solve C cfg (start cfg) ts ->
  let s := map (fun tp => ComposeSelfPlay.answer_of_tree solve C (fst tp) (snd tp)) ts in
  SelfPlayGen.play_one_game cfg (ComposeSelfPlayGen.engine_stream solve C ts) = embed_outcome (SelfPlay.play_one_game cfg s) /\
  forall tr, SelfPlayGen.play_one_game cfg (ComposeSelfPlayGen.engine_stream solve C ts) = Ok tr ->
    exists e f, SelfPlay.play_one_game cfg s = Done tr e f /\
    (forall i p ms m, nth_error (t_positions tr) i = Some p -> nth_error (t_moves tr) i = Some ms ->
       In m ms -> exists q, move p m = Some q) /\
    (forall i ms, nth_error (t_moves tr) i = Some ms -> NoDup ms) /\
    (forall i p q, nth_error (t_positions tr) i = Some p -> nth_error (t_positions tr) (S i) = Some q ->
       exists t pk ks k m, nth_error s i = Some (ComposeSelfPlay.answer_of_tree solve C t pk) /\ Mcts.n_pos t = p /\
         Mcts.n_kids t = Some ks /\ nthz ks pk = Some k /\ Mcts.n_move k = Some m /\ Mcts.n_pos k = q /\ move p m = Some q) /\
    (forall p0, nth_error (t_positions tr) 0 = Some p0 -> p0 = start cfg) /\
    (forall i p, nth_error (t_positions tr) i = Some p -> ply p = Z.of_nat i).
Proof. exact ComposeSelfPlayGen.gen_real_engine. Qed.
