(* C11 - a self-play transcript is a legal game with correct outcome labels.
   Property theorems only; proofs are in proofs/SelfPlayProofs.v, the vocabulary
   (resign_now, picks, terminal, over_limit, final_after, row_value, good_answer)
   in spec/SelfPlaySpec.v.  `play_one_game cfg s = Done tr e f`: the loop of
   self_play.play_one_game, run on the engine answers s (one per analysed
   position), left through exit e with loop variable `position` = f and
   produced transcript tr.  The error outcomes (stream exhausted, zero
   simulations, sampled index outside the list, illegal candidate) are excluded
   by that hypothesis; C11_errors_excluded says when they cannot occur. *)
From Coq Require Import ZArith QArith Qabs List.
From TV Require Import model.Tak model.Road model.SelfPlay spec.SelfPlaySpec proofs.SelfPlayProofs.
Import ListNotations.
Open Scope Z_scope.

(* "candidates, search probabilities and values line up one-to-one per position": equal lengths *)
Theorem C11_lists_aligned : forall cfg s tr e f, play_one_game cfg s = Done tr e f ->
  length (t_moves tr) = length (t_positions tr) /\
  length (t_probs tr) = length (t_positions tr) /\
  length (t_values tr) = length (t_positions tr) /\
  (length (t_positions tr) <= length s)%nat.
Proof. exact lists_aligned. Qed.

(* ... and row i holds exactly what the engine answered for position i *)
Theorem C11_rows_are_engine_answers : forall cfg s tr e f, play_one_game cfg s = Done tr e f -> forall i p,
  nth_error (t_positions tr) i = Some p ->
  exists a, nth_error s i = Some a /\
    nth_error (t_moves tr) i = Some (a_moves a) /\
    nth_error (t_probs tr) i = Some (a_probs a) /\
    nth_error (t_values tr) i = Some (row_value a).
Proof. exact rows_are_engine_answers. Qed.

(* "positions start at the initial position and each follows from the previous by one of that
   position's recorded candidate moves"; position i has ply i *)
Theorem C11_transcript_chain : forall cfg s tr e f, play_one_game cfg s = Done tr e f ->
  (forall p0, nth_error (t_positions tr) 0 = Some p0 -> p0 = start cfg) /\
  (forall i p q, nth_error (t_positions tr) i = Some p -> nth_error (t_positions tr) (S i) = Some q ->
     exists a m, nth_error s i = Some a /\ nth_error (t_moves tr) i = Some (a_moves a) /\
                 picks a m /\ In m (a_moves a) /\ move p m = Some q) /\
  (forall i p, nth_error (t_positions tr) i = Some p -> ply p = Z.of_nat i).
Proof. exact transcript_chain. Qed.

(* "... all legal": given that the engine's candidates are legal (C08/C09), every recorded candidate is *)
Theorem C11_candidates_legal : forall cfg s tr e f, play_one_game cfg s = Done tr e f ->
  (forall i p a, nth_error (t_positions tr) i = Some p -> nth_error s i = Some a ->
     forall m, In m (a_moves a) -> move p m <> None) ->
  forall i p ms m, nth_error (t_positions tr) i = Some p -> nth_error (t_moves tr) i = Some ms ->
    In m ms -> exists q, move p m = Some q.
Proof. exact candidates_legal. Qed.

(* "search probabilities (a distribution) and values in [-1,1]": given that of the engine (C08/C09) *)
Theorem C11_recorded_rows_good : forall cfg s tr e f, play_one_game cfg s = Done tr e f ->
  (forall a, In a s -> good_answer a) ->
  forall i ms ps v, nth_error (t_moves tr) i = Some ms -> nth_error (t_probs tr) i = Some ps ->
    nth_error (t_values tr) i = Some v ->
    length ps = length ms /\ Forall (fun p => 0 <= p)%Q ps /\ (qsum ps == 1)%Q /\ (-(1) <= v <= 1)%Q.
Proof. exact recorded_rows_good. Qed.

(* "play stops at the first terminal position, at resignation, or when the ply limit is exceeded":
   nothing recorded is over the limit or terminal and only the last answer resigns (not earlier);
   the exit taken says why it stopped there (the code tests the limit before the rules) *)
Theorem C11_stops_exactly : forall cfg s tr e f, play_one_game cfg s = Done tr e f ->
  (forall i p, nth_error (t_positions tr) i = Some p -> ~ over_limit cfg p /\ ~ terminal p) /\
  (forall i a, (S i < length (t_positions tr))%nat -> nth_error s i = Some a -> ~ resign_now cfg a) /\
  match e with
  | ExitLimit => over_limit cfg f /\ final_after cfg (start cfg) s tr f
  | ExitRules r => ~ over_limit cfg f /\ snd (winner f) = Some r /\ final_after cfg (start cfg) s tr f
  | ExitResign => exists n a, length (t_positions tr) = S n /\ nth_error (t_positions tr) n = Some f /\
                    nth_error s n = Some a /\ resign_now cfg a
  end.
Proof. exact stops_exactly. Qed.

(* "the recorded result is the actual winner when decided by the rules or by resignation and
   'no winner' for draws and games cut off by the ply limit" *)
Theorem C11_result_correct : forall cfg s tr e f, play_one_game cfg s = Done tr e f ->
  match e with
  | ExitRules r => snd (winner f) = Some r /\ t_result tr = fst (winner f)
  | ExitLimit => t_result tr = None
  | ExitResign =>
      exists n a, length (t_positions tr) = S n /\ nth_error (t_positions tr) n = Some f /\
        nth_error s n = Some a /\ resign_now cfg a /\
        ((sp_threshold cfg <= a_vzero a)%Q -> t_result tr = Some (to_move f)) /\
        (~ (sp_threshold cfg <= a_vzero a)%Q -> t_result tr = Some (flip (to_move f))) /\
        ((0 < sp_threshold cfg)%Q ->
           ((0 < a_vzero a)%Q -> t_result tr = Some (to_move f)) /\
           ((a_vzero a < 0)%Q -> t_result tr = Some (flip (to_move f))) /\
           ~ (a_vzero a == 0)%Q)
  end.
Proof. exact result_correct. Qed.

(* "labels are +1 where the winner is to move, -1 where the loser is, 0 throughout when no winner"
   (Transcript.results, for every transcript) *)
Theorem C11_labels_correct : forall tr,
  length (results tr) = length (t_positions tr) /\
  (t_result tr = None -> forall i p, nth_error (t_positions tr) i = Some p -> nth_error (results tr) i = Some 0) /\
  (forall w, t_result tr = Some w -> forall i p, nth_error (t_positions tr) i = Some p ->
     (to_move p = w -> nth_error (results tr) i = Some 1) /\
     (to_move p = flip w -> nth_error (results tr) i = Some (-1))).
Proof. exact labels_correct. Qed.

(* in a played game the labels alternate, starting with White to move *)
Theorem C11_labels_by_parity : forall cfg s tr e f w, play_one_game cfg s = Done tr e f -> t_result tr = Some w ->
  forall i, (i < length (t_positions tr))%nat ->
  nth_error (results tr) i =
    Some (if color_eqb (if Z.even (Z.of_nat i) then White else Black) w then 1 else -1).
Proof. exact labels_by_parity. Qed.

(* the error outcomes: ply_limit + 1 answers always suffice; the others need a defective answer *)
Theorem C11_errors_excluded : forall cfg s err, play_one_game cfg s = Err err ->
  match err with
  | Exhausted => Z.of_nat (length s) <= sp_ply_limit cfg
  | ZeroSims => exists a, In a s /\ a_sims a = 0
  | BadIndex => exists a, In a s /\ nthz (a_moves a) (a_pick a) = None
  | IllegalCandidate => exists a m p, In a s /\ picks a m /\ move p m = None
  end.
Proof. exact errors_excluded. Qed.

(* the functional model and the relational reading of the loop agree *)
Theorem C11_loop_is_relation : forall cfg pos s tr e f,
  play_loop cfg pos s = Done tr e f <-> run cfg pos s tr e f.
Proof. exact loop_iff_run. Qed.
