(* C17 - served evaluations reach the right requester under any arrival schedule.
 Property theorems only; proofs are in proofs/ServerProofs.v and proofs/ServerProgress.v.

 PARTIAL by design: the theorems quantify over ALL event sequences (arrivals,
 wake-ups of the worker, gather-timeout expiries and model completions in any
 order and at any times)
 of the MODEL of Server.worker_loop / Server.Evaluate in model/Server.v.
 Real thread scheduling, the gRPC transport and cancellation races (a client
 that goes away while queued, a timeout that expires in the same loop
 iteration as an arrival) are runtime behaviour outside the model; the
 network enters as an abstract per-row function (C16 gives row independence
 and padding invariance; it is the hypothesis of C17_answer_is_own_partial).
 The suffix _partial marks exactly this: all schedules of the model, not of the OS. *)
From Coq Require Import ZArith List.
From TV Require gen.Consts gen.ServerIR.
From TV Require Import model.ServerDen model.Server proofs.ServerProofs proofs.ServerProgress proofs.ServerTie.
Import ListNotations.
Open Scope Z_scope.

(* A = a response (policy vector, value); frow = the network on one row (tokens, padding mask);
 f_local A frow p = evaluating position p locally, as a batch of one without padding *)

(* responses are released in arrival order and every request that arrived is - in this order -
   answered, in the worker's batch, queued, or blocked in queue.put *)
Theorem C17_service_order_partial : forall A frow evs,
  map fst (answers (run A frow evs)) ++ batch_of (run A frow evs) ++ queue (run A frow evs) ++ blocked (run A frow evs) = arrivals evs.
Proof. exact service_order. Qed.

(* "each request receives exactly one response", at-most half: no request id is answered twice *)
Theorem C17_answered_at_most_once_partial : forall A frow evs,
  NoDup (map rid (arrivals evs)) -> NoDup (map (fun a => rid (fst a)) (answers (run A frow evs))).
Proof. exact answered_at_most_once. Qed.

(* "computed from its own position and equal to evaluating that position locally with the same
   model": under padding invariance of the row function (C16) *)
Theorem C17_answer_is_own_partial : forall A frow,
  (forall p k, frow (p ++ repeat 0 k) (repeat false (length p) ++ repeat true k) = f_local A frow p) ->
  forall evs r v, In (r, v) (answers (run A frow evs)) -> v = f_local A frow (rpos r).
Proof. exact answer_is_own. Qed.

(* no arrival is lost ... *)
Theorem C17_no_loss_partial : forall A frow evs r, In r (arrivals evs) ->
  In r (map fst (answers (run A frow evs))) \/ In r (batch_of (run A frow evs)) \/ In r (queue (run A frow evs)) \/ In r (blocked (run A frow evs)).
Proof. exact no_loss. Qed.

(* ... and when the worker is idle on an empty queue everybody has been answered, in arrival order *)
Theorem C17_quiescent_all_answered_partial : forall A frow evs,
  wk (run A frow evs) = Idle -> queue (run A frow evs) = [] -> map fst (answers (run A frow evs)) = arrivals evs.
Proof. exact quiescent_all_answered. Qed.

(* "no request stays unanswered while the model keeps answering": a request with k requests ahead of
   it is answered, in its turn, by the time the model has completed k+1 further calls *)
Theorem C17_fifo_progress_partial : forall A frow evs1 evs2 k r,
  nth_error (pending (run A frow evs1)) k = Some r ->
  (completed (run A frow evs1) + k + 1 <= completed (run A frow (evs1 ++ evs2)))%nat ->
  nth_error (map fst (answers (run A frow (evs1 ++ evs2)))) (length (answers (run A frow evs1)) + k) = Some r.
Proof. exact fifo_progress. Qed.

(* the same with the tight count: 2 + k / capacity completions suffice (capacity = MAX_QUEUE_DEPTH) ... *)
Theorem C17_fifo_progress_tight_partial : forall A frow evs1 evs2 k r,
  nth_error (pending (run A frow evs1)) k = Some r ->
  (completed (run A frow evs1) + (2 + k / Z.to_nat cap) <= completed (run A frow (evs1 ++ evs2)))%nat ->
  nth_error (map fst (answers (run A frow (evs1 ++ evs2)))) (length (answers (run A frow evs1)) + k) = Some r.
Proof. exact fifo_progress_tight. Qed.

(* ... a request in the worker's batch is answered by the next completed model call ... *)
Theorem C17_in_batch_next_completion_partial : forall A frow evs1 evs2 k r,
  nth_error (batch_of (run A frow evs1)) k = Some r ->
  (completed (run A frow evs1) + 1 <= completed (run A frow (evs1 ++ evs2)))%nat ->
  nth_error (map fst (answers (run A frow (evs1 ++ evs2)))) (length (answers (run A frow evs1)) + k) = Some r.
Proof. exact in_batch_next_completion. Qed.

(* ... and a queued request by the second *)
Theorem C17_in_queue_second_completion_partial : forall A frow evs1 evs2 k r,
  nth_error (queue (run A frow evs1)) k = Some r ->
  (completed (run A frow evs1) + 2 <= completed (run A frow (evs1 ++ evs2)))%nat ->
  nth_error (map fst (answers (run A frow (evs1 ++ evs2))))
            (length (answers (run A frow evs1)) + (length (batch_of (run A frow evs1)) + k)) = Some r.
Proof. exact in_queue_second_completion. Qed.

(* batch formation: the model calls, concatenated in call order, are consecutive segments of the
   arrival order (followed by the batch being gathered, the queue and the blocked putters) *)
Theorem C17_batch_order_fifo_partial : forall A frow evs,
  concat (map snd (started (run A frow evs))) ++
    (match wk (run A frow evs) with Gathering b _ => b | _ => [] end) ++ queue (run A frow evs) ++ blocked (run A frow evs) = arrivals evs.
Proof. exact batch_order_fifo. Qed.

(* size of a model call: never empty, at most threshold - 1 + MAX_QUEUE_DEPTH = 87 requests (NOT at most the queue
   depth: up to threshold - 1 requests are gathered before a full queue is drained without suspending);
   the bound is reached: Example ex_batch_87 in proofs/ServerProofs.v *)
Theorem C17_batch_size_bound_partial : forall A frow evs t b,
  In (t, b) (started (run A frow evs)) -> b <> [] /\ qlen b <= threshold - 1 + cap.
Proof. exact batch_size_bound. Qed.

(* "the client turns the served reply back into the same policy vector": float32 words -> bytes -> words *)
Theorem C17_bytes_roundtrip : forall ws, Forall is_word ws -> decode_bytes (encode_words ws) = Some ws.
Proof. exact bytes_roundtrip. Qed.

(* tie (T): the protocol IR regenerated from the current source of Server.worker_loop (with run_model),
   Server.Evaluate, the queue factory and GRPCNetwork.evaluate (gen/ServerIR.v) has a denotation, and the queue
   capacity, batch threshold, gather timeout and the pairing "result row i -> request i" used by model/Server.v
   (hence by every theorem above) are the ones the source states *)
Theorem C17_server_ir_denotes_model :
  den ServerIR.server = Some (mkParams cap threshold gather_timeout_us ServerIR.IdxI) /\
  pairing = ServerIR.IdxI /\ 1 <= threshold /\ threshold <= cap /\ 0 < gather_timeout_us.
Proof. exact server_ir_denotes_model. Qed.

(* the gather timeout the property text names ("trickles around the 1 ms gather timeout") *)
Theorem C17_gather_timeout_is_1ms : gather_timeout_us = 1000.
Proof. exact server_ir_gather_timeout_1ms. Qed.
