(* C06 - position token encoding is lossless and mover-relative.
   Property theorems only; definitions in model/Encoding.v (encode, decode,
   encode_batch_with, swap_colours) and spec/EncodingSpec.v (encodable,
   flip_to_play, padded, mask_of, max_len, select); proofs in
   proofs/EncodingProofs.v and proofs/TieEncoding.v.

   Domain of the first two clauses: `encodable p` = size 3..6, board of size^2
   squares, reserves in [0,49], capstones in [0,1] (what Token.RESERVES /
   Token.CAPSTONES can index, without Python's negative wrap-around) and only
   the top piece of a stack Standing / Capstone.  The other clauses need no
   domain guard.  Every position reachable in a game of size 3..6 (standard
   piece sets, or any custom set with <= 49 stones and <= 1 capstone) is
   `encodable`: C06_reachable_encodable, from C04's invariant. *)
From Coq Require Import ZArith List Bool.
From TV Require gen.Consts.
From TV Require Import model.Tak model.Run model.Encoding spec.EncodingSpec proofs.TieEncoding proofs.EncodingProofs
  proofs.EncodingReach.
Import ListNotations.
Open Scope Z_scope.

(* "decoding returns the same board, side to move and reserves" (with and without the sentinel) *)
Theorem C06_decode_encode : forall s p, encodable p ->
  exists l, encode s p = Some l /\ decode l = Some (board p, to_move p, reserves p).
Proof. exact decode_encode. Qed.

(* "all positions of sizes 3-6, reachable ...": positions reached by accepted moves from the
   initial position are in the domain (custom piece sets the vocabulary can index; standard sets) *)
Theorem C06_reachable_encodable : forall cfg ms p,
  3 <= csize cfg <= 6 -> 0 <= flat_count cfg <= 49 -> 0 <= capstone_count cfg <= 1 ->
  run (from_config cfg) ms = Some p -> encodable p.
Proof. exact reachable_encodable. Qed.
Theorem C06_reachable_encodable_standard : forall n ms p,
  3 <= n <= 6 -> run (from_config (mkCfg n None None)) ms = Some p -> encodable p.
Proof. exact reachable_encodable_standard. Qed.

(* "distinct (board, side to move, reserves) triples encode to distinct token sequences" *)
Theorem C06_encode_distinct : forall s p q, encodable p -> encodable q ->
  (board p, to_move p, reserves p) <> (board q, to_move q, reserves q) ->
  encode s p <> encode s q.
Proof. exact encode_distinct. Qed.

(* the same clause as an injectivity statement *)
Theorem C06_encode_injective : forall s p q, encodable p -> encodable q ->
  encode s p = encode s q ->
  board p = board q /\ to_move p = to_move q /\ reserves p = reserves q.
Proof. exact encode_injective. Qed.

(* "swapping every piece colour, the reserves and the side to move changes only the
   side-to-move token": for every position, encodable or not *)
Theorem C06_encode_swap : forall s p,
  encode s (swap_colours p) = option_map (flip_to_play s) (encode s p).
Proof. exact encode_swap. Qed.

(* what flip_to_play does to an encoding: the token at the side-to-move index goes
   from WHITE_TO_PLAY to BLACK_TO_PLAY or back, every other index is untouched *)
Theorem C06_encode_swap_token : forall s p l,
  encode s p = Some l ->
  nth_error l (to_play_index s) =
    Some (match to_move p with White => Consts.tok_WHITE_TO_PLAY | Black => Consts.tok_BLACK_TO_PLAY end) /\
  nth_error (flip_to_play s l) (to_play_index s) =
    Some (match to_move p with White => Consts.tok_BLACK_TO_PLAY | Black => Consts.tok_WHITE_TO_PLAY end) /\
  forall i, i <> to_play_index s -> nth_error (flip_to_play s l) i = nth_error l i.
Proof. exact encode_swap_token. Qed.

(* "every token fits in a byte": every encoding that is produced at all *)
Theorem C06_tokens_byte : forall s p l, encode s p = Some l -> Forall (fun t => 0 <= t < 256) l.
Proof. exact tokens_byte. Qed.

(* "batch encoding equals per-position encoding padded under a mask that marks exactly
   the real tokens": row i = encode p_i ++ zeros, mask i = true on the encoding, false on
   the padding, common width = the longest encoding *)
Theorem C06_batch_rows : forall s ps encs,
  Forall2 (fun p e => encode s p = Some e) ps encs ->
  encode_batch_with s ps =
  Some (map (padded (max_len encs)) encs, map (mask_of (max_len encs)) encs).
Proof. exact batch_rows. Qed.

(* every result of encode_batch has that shape, for any batch in any order *)
Theorem C06_batch_rows_inv : forall s ps rows masks,
  encode_batch_with s ps = Some (rows, masks) ->
  exists encs, Forall2 (fun p e => encode s p = Some e) ps encs /\
    Forall (fun e => (length e <= max_len encs)%nat) encs /\
    rows = map (padded (max_len encs)) encs /\ masks = map (mask_of (max_len encs)) encs.
Proof. exact batch_rows_inv. Qed.

(* encode_batch raises exactly when encode raises on a member; never on encodable batches *)
Theorem C06_batch_raises : forall s ps,
  encode_batch_with s ps = None <-> exists p, In p ps /\ encode s p = None.
Proof. exact batch_raises. Qed.
Theorem C06_batch_defined : forall s ps,
  Forall encodable ps -> exists rows masks, encode_batch_with s ps = Some (rows, masks).
Proof. exact batch_defined. Qed.

(* "marks exactly the real tokens": the marked entries of a row are the encoding *)
Theorem C06_mask_selects_encoding : forall w e, select (mask_of w e) (padded w e) = e.
Proof. exact select_padded. Qed.

(* the mask clause is essential: the pad value IS Token.EMPTY, and two different
   encodable positions can have the same padded row in one batch *)
Theorem C06_pad_is_empty_token : Consts.tok_EMPTY = pad_value.
Proof. exact tie_pad_is_empty. Qed.
Theorem C06_mask_essential :
  encodable ex_e3 /\ encodable ex_e4 /\ board ex_e3 <> board ex_e4 /\
  exists r m3 m4, encode_batch [ex_e3; ex_e4] = Some ([r; r], [m3; m4]) /\ m3 <> m4.
Proof. exact mask_essential. Qed.

(* tie: the regenerated vocabulary is what the model and the domain assume *)
Theorem C06_vocabulary_tie :
  Consts.top_pieces =
    [(0, 0, top_token true Flat); (0, 1, top_token true Standing); (0, 2, top_token true Capstone);
     (1, 0, top_token false Flat); (1, 1, top_token false Standing); (1, 2, top_token false Capstone)] /\
  (zlen Consts.tok_RESERVES = 50 /\ zlen Consts.tok_CAPSTONES = 2) /\
  (hd_error Consts.tok_RESERVES = Some Consts.tok_FIRST_RESERVES_VALUE /\
   hd_error Consts.tok_CAPSTONES = Some Consts.tok_FIRST_CAPSTONES_VALUE) /\
  nodupb vocabulary = true /\ forallb byteb vocabulary = true.
Proof.
  exact (conj tie_top_pieces (conj tie_vocab_sizes (conj tie_first_values
        (conj tie_vocabulary_distinct tie_vocabulary_bytes)))).
Qed.

(* ---- the same about encode / decode REGENERATED FROM THE SOURCE (gen/EncodingGen.v, written by harness/py2coq.py from the current encoding.py on every run against model/PySem.v; proofs/EncodingGenEq.v) ---- *)
From TV Require Import model.Tak model.PySem model.Run model.Encoding spec.EncodingSpec proofs.EncodingGenEq.
From TV Require gen.GameGen gen.EncodingGen.
(* the translated encode IS the model's encode: EVERY position (any reserves, any board), both flag values *)
Theorem C06_source_encode_eq :
  forall s p, EncodingGen.encode p s = embed_index (Encoding.encode s p).
Proof. exact gen_encode_eq. Qed.
(* lossless: decoding the translated encoding returns board, side to move and reserves *)
Theorem C06_source_decode_encode :
  forall s p, encodable p ->
  exists l, EncodingGen.encode p s = Ok l /\ decode l = Some (board p, to_move p, reserves p).
Proof. exact gen_decode_encode. Qed.
(* injective on the domain *)
Theorem C06_source_encode_injective :
  forall s p q l, encodable p -> encodable q ->
  EncodingGen.encode p s = Ok l -> EncodingGen.encode q s = Ok l ->
  board p = board q /\ to_move p = to_move q /\ reserves p = reserves q.
Proof. exact gen_encode_injective. Qed.
(* mover-relative: swapping all colours, the reserves and the side to move changes only the side-to-move token
   (every position) *)
Theorem C06_source_encode_swap :
  forall s p,
  EncodingGen.encode (swap_colours p) s = res_map (flip_to_play s) (EncodingGen.encode p s).
Proof. exact gen_encode_swap. Qed.
(* every token fits in a byte *)
Theorem C06_source_tokens_byte :
  forall s p l, EncodingGen.encode p s = Ok l -> Forall (fun t => 0 <= t < 256) l.
Proof. exact gen_tokens_byte. Qed.
Theorem C06_source_decode_ok_iff :
  forall toks p, zlen toks < 2 ^ 52 ->
  (EncodingGen.decode toks = Ok p <-> decode_pos toks = Some p).
Proof. exact gen_decode_ok_iff. Qed.
(* lossless through the translated encode AND the translated decode *)
Theorem C06_source_round_trip :
  forall s p, encodable p ->
  exists l, EncodingGen.encode p s = Ok l /\
    (zlen l < 2 ^ 52 -> exists q, EncodingGen.decode l = Ok q /\ triple q = (board p, to_move p, reserves p)).
Proof. exact gen_round_trip. Qed.

(* ---- the same about _encode_batch / encode_batch REGENERATED FROM THE SOURCE (gen/EncodeBatchGen.v, harness/torch2coq.py against model/TorchLite.v; proofs/EncodeBatchGenEq.v) ---- *)
From TV Require Import model.Tak model.PySem model.TorchLite model.Encoding spec.EncodingSpec proofs.EncodeBatchGenEq.
From TV Require gen.EncodeBatchGen.
(* the translated encode_batch IS the model's, for every list of positions and every content of the lens buffer *)
Theorem C06_source_encode_batch_eq :
  forall uninit s ps, small s ps ->
  EncodeBatchGen.encode_batch uninit ps s = embed_batch (Encoding.encode_batch_with s ps).
Proof. exact gen_encode_batch_eq. Qed.
(* C06_batch_rows for the generated function: rows = encodings padded with 0 to the maximum width, mask = exactly the
   real tokens, for any batch in any order *)
Theorem C06_source_batch_rows :
  forall uninit s ps encs, small s ps ->
  Forall2 (fun p e => Encoding.encode s p = Some e) ps encs ->
  EncodeBatchGen.encode_batch uninit ps s =
  Ok (I2 (map (padded (max_len encs)) encs), B2 (map (mask_of (max_len encs)) encs)).
Proof. exact gen_batch_rows. Qed.
(* C06_batch_raises: IndexError exactly when a member is outside the vocabulary *)
Theorem C06_source_batch_raises :
  forall uninit s ps, small s ps ->
  (EncodeBatchGen.encode_batch uninit ps s = Crash IndexError <-> exists p, In p ps /\ Encoding.encode s p = None).
Proof. exact gen_batch_raises. Qed.
(* every entry of the uninitialised buffer is written before it is read *)
Theorem C06_source_uninit_irrelevant :
  forall u1 u2 s ps, small s ps ->
  EncodeBatchGen.encode_batch u1 ps s = EncodeBatchGen.encode_batch u2 ps s.
Proof. exact gen_uninit_irrelevant. Qed.
