(* C04 - every reachable position is physically consistent.  Property theorems
   only; `Inv` and the proofs are in proofs/Invariant.v.  `Inv cfg p`: per colour,
   stones on the board + stone reserve = configured stones and the same for
   capstones; reserves >= 0; only the top piece of a stack may be a wall or a
   capstone; ply >= 0; White to move iff the ply is even; nothing on the board at
   ply 0, exactly one black flat at ply 1, exactly one flat of each colour at ply 2
   (pieces never leave the board, so "the first two stones placed are one of each
   colour" is this state predicate); the board has the configured side and size^2
   squares. *)
From Coq Require Import ZArith List.
(* tie G: the regenerated DIRECTIONS / MoveType values / default piece counts equal the model's (closed by computation) *)
From TV Require gen.Consts proofs.TieGame.
From TV Require Import model.Tak model.Run spec.Rules proofs.Invariant.
Import ListNotations.
Open Scope Z_scope.

(* the initial position of every configuration (size 3..8, any non-negative counts) is consistent *)
Theorem C04_inv_init : forall cfg,
  3 <= csize cfg <= 8 -> 0 <= flat_count cfg -> 0 <= capstone_count cfg -> Inv cfg (from_config cfg).
Proof. exact inv_init. Qed.
(* every accepted move preserves consistency and raises the ply by exactly one *)
Theorem C04_inv_step : forall cfg p m p',
  Inv cfg p -> move p m = Some p' -> Inv cfg p' /\ ply p' = ply p + 1.
Proof. exact inv_step. Qed.
(* along every finite sequence of accepted moves from the initial position *)
Theorem C04_inv_reachable : forall cfg ms p,
  3 <= csize cfg <= 8 -> 0 <= flat_count cfg -> 0 <= capstone_count cfg ->
  run (from_config cfg) ms = Some p -> Inv cfg p /\ ply p = Z.of_nat (length ms).
Proof. exact inv_reachable. Qed.
(* the side to move alternates, starting with White *)
Theorem C04_to_move_alternates : forall cfg p m p',
  to_move (from_config cfg) = White /\
  (Inv cfg p -> move p m = Some p' -> to_move p' = flip (to_move p)).
Proof. exact to_move_alternation. Qed.
(* every reachable position is well-formed, i.e. C01's hypothesis holds along every game *)
Theorem C04_wf_reachable : forall cfg ms p,
  3 <= csize cfg <= 8 -> 0 <= flat_count cfg -> 0 <= capstone_count cfg ->
  run (from_config cfg) ms = Some p -> wf_pos p.
Proof. exact wf_reachable. Qed.
(* reserves derived from a board by from_squares satisfy conservation *)
Theorem C04_from_squares_reserves : forall cfg sqs pl p,
  from_squares cfg sqs pl = Some p ->
  (forall c, count_pieces (is_stone_of c) (board p) + reserve p c false = flat_count cfg) /\
  (forall c, count_pieces (is_cap_of c) (board p) + reserve p c true = capstone_count cfg) /\
  board p = sqs /\ ply p = pl /\ size p = csize cfg /\ zlen (board p) = size p * size p.
Proof. exact from_squares_reserves. Qed.

(* ---- about the function regenerated from the source (gen/GameGen.v) ---- *)
From TV Require Import model.PySem proofs.GameGenEq proofs.GameGenCor.
From TV Require gen.GameGen.
(* every move the translated Position.move accepts preserves consistency and raises the ply by one *)
Theorem C04_source_inv_step : forall cfg p m p', Inv cfg p -> GameGen.move p m = Ok p' -> Inv cfg p' /\ ply p' = ply p + 1.
Proof. exact gen_inv_step. Qed.
