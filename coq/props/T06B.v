(* T06B - encoding._encode_batch / encode_batch are REGENERATED FROM THE SOURCE (gen/EncodeBatchGen.v, written by
   harness/torch2coq.py from the current text of encoding.py against model/TorchLite.v and model/PySem.v; the `encode`
   inside encode_batch's lambda is T06's gen/EncodingGen.v) and proved equal to the hand-written model
   (model/Encoding.v encode_batch_with).  Property theorems only; proofs in proofs/EncodeBatchGenEq.v.
   `embed_batch (Some (rows, masks)) = Ok (I2 rows, B2 masks)`, `embed_batch None = Crash IndexError` (the model's None
   is the IndexError of Token.RESERVES[n] / Token.CAPSTONES[n] inside an encode call).  `uninit` is the content of the
   uninitialised torch.empty buffer `lens`.  `small s ps`: every encoding is shorter than 2^31 tokens (its length is
   stored in an int32 tensor).  Argument order of the generated function is Python's: encode_batch positions flag. *)
From Coq Require Import ZArith List Bool.
From TV Require Import model.Tak model.PySem model.TorchLite model.Encoding spec.EncodingSpec proofs.EncodeBatchGenEq.
From TV Require gen.EncodeBatchGen.
Import ListNotations.
Open Scope Z_scope.

(* the translated encode_batch IS the model's, for every list of positions and every content of the lens buffer *)
Theorem T06B_gen_encode_batch_eq : forall uninit s ps, small s ps ->
  EncodeBatchGen.encode_batch uninit ps s = embed_batch (Encoding.encode_batch_with s ps).
Proof. exact gen_encode_batch_eq. Qed.
(* C06_batch_rows for the generated function: rows = encodings padded with 0 to the maximum width, mask = exactly the
   real tokens, for any batch in any order *)
Theorem T06B_gen_batch_rows : forall uninit s ps encs, small s ps ->
  Forall2 (fun p e => Encoding.encode s p = Some e) ps encs ->
  EncodeBatchGen.encode_batch uninit ps s =
  Ok (I2 (map (padded (max_len encs)) encs), B2 (map (mask_of (max_len encs)) encs)).
Proof. exact gen_batch_rows. Qed.
(* C06_batch_raises: IndexError exactly when a member is outside the vocabulary *)
Theorem T06B_gen_batch_raises : forall uninit s ps, small s ps ->
  (EncodeBatchGen.encode_batch uninit ps s = Crash IndexError <-> exists p, In p ps /\ Encoding.encode s p = None).
Proof. exact gen_batch_raises. Qed.
(* ... and nothing else escapes *)
Theorem T06B_gen_batch_outcomes : forall uninit s ps, small s ps ->
  (exists rows masks, EncodeBatchGen.encode_batch uninit ps s = Ok (I2 rows, B2 masks)) \/
  EncodeBatchGen.encode_batch uninit ps s = Crash IndexError.
Proof. exact gen_batch_outcomes. Qed.
(* every entry of the uninitialised buffer is written before it is read *)
Theorem T06B_gen_uninit_irrelevant : forall u1 u2 s ps, small s ps ->
  EncodeBatchGen.encode_batch u1 ps s = EncodeBatchGen.encode_batch u2 ps s.
Proof. exact gen_uninit_irrelevant. Qed.
