(* T08 - MCTS.update, Node.policy_probs and the pure part of MCTS.populate are
   regenerated from python/tak/mcts.py (gen/MctsGen.v, harness/mcts2coq.py)
   and proved EQUAL to what model/Mcts.v's simulate / policy_inputs do.
   Property theorems only; proofs in proofs/MctsGenEq.v.  Trusted instead of
   the sampling of these three functions: model/PySem.v + model/MctsSem.v
   (validated against CPython / torch on every run) and the translator.
   The search loop (descend, analyze_tree, analyze, get_move, select_root_move,
   tree_probs) is translated too: second part of this file
   (proofs/MctsGenSearch.v); the time limit stays a symbolic clock. *)
From Coq Require Import ZArith QArith List Bool.
From Coq Require Import Floats.SpecFloat.
From TV Require Import model.Tak model.Road model.PySem model.Mcts model.MctsSem model.Solver model.LambdaF64.
From TV Require Import proofs.MctsProofs proofs.MctsGenEq.
From TV Require gen.MctsGen.
Import ListNotations.
Open Scope Z_scope.

(* (a) update(path): on the path as populate left it (leaf's v_zero new, values and visit counts old) the generated
   backup loop yields exactly the statistics of the same path in simulate's result *)
Theorem T08_gen_update_eq : forall cutoff mix cs n noise evs n' v evs',
  valid cs n -> simulate cutoff mix cs n noise evs = (n', v, evs') ->
  MctsGen.update (pre_update cs n n') = Ok (map stat_of (path_nodes cs n')).
Proof. exact gen_update_eq. Qed.
(* ... the loop itself: run leaf to root it hands minus the credited value upwards (the sign alternates) *)
Theorem T08_gen_update_loop : forall cutoff mix cs n noise evs n' v evs',
  valid cs n -> simulate cutoff mix cs n noise evs = (n', v, evs') ->
  MctsGen.update_for1 (ps_v_zero (last (pre_update cs n n') (pre_stat n n'))) (rev (pre_update cs n n')) =
  (Qopp v, rev (map stat_of (path_nodes cs n'))).
Proof. exact update_loop. Qed.
(* C08 transported: the searched node gets one visit and exactly the credited value; the invariant holds *)
Theorem T08_gen_update_root : forall cutoff mix cs n noise evs n' v evs',
  Good cutoff n -> valid cs n -> simulate cutoff mix cs n noise evs = (n', v, evs') ->
  exists t, MctsGen.update (pre_update cs n n') = Ok (stat_of n' :: t) /\
            ps_simulations (stat_of n') = Z.of_nat (n_sims n) + 1 /\
            (ps_value (stat_of n') == n_value n + v)%Q /\ Good cutoff n'.
Proof. exact gen_update_root. Qed.

(* (b) policy_probs(c): before any visit the prior, no solver call *)
Theorem T08_gen_policy_probs_unvisited : forall F f_sqrt f_mul f_div_int solve n c,
  n_sims n = 0%nat ->
  MctsGen.policy_probs F f_sqrt f_mul f_div_int solve (py_of n) c = Ok (pn_child_probs (py_of n)).
Proof. exact gen_policy_probs_unvisited. Qed.
(* ... at a visited node with children ONE solver call whose arguments are policy_inputs: the child priors, q =
   minus the mean value of a visited child / the node's own evaluation, and the multiplier expression
   f_div_int (f_mul c (f_sqrt N)) (N + K) on N = simulations, K = number of children *)
Theorem T08_gen_policy_probs_eq : forall F f_sqrt f_mul f_div_int solve n ks j c C i,
  n_sims n = S j -> n_kids n = Some ks -> policy_inputs n C = Some i ->
  MctsGen.policy_probs F f_sqrt f_mul f_div_int solve (py_of n) c =
  (r <- solve (pi_prior i) (pi_q i)
              (multiplier F f_sqrt f_mul f_div_int c (Z.of_nat (pi_N i)) (Z.of_nat (pi_K i))) ;; Ok (Some r)).
Proof. exact gen_policy_probs_eq. Qed.
(* ... with binary64 operations that expression is model/LambdaF64.v's bit-exact lambda64 *)
Theorem T08_multiplier_is_lambda64 : forall c N K,
  multiplier spec_float (fun z => SFsqrt prec64 emax64 (b64_of_Z z)) (SFmul prec64 emax64)
             (fun x d => SFdiv prec64 emax64 x (b64_of_Z d)) c N K = lambda64 c N K.
Proof. exact multiplier_is_lambda64. Qed.
(* ... a visited node without children (a terminal node) makes `for c in self.children` raise TypeError *)
Theorem T08_gen_policy_probs_terminal : forall F f_sqrt f_mul f_div_int solve n j c,
  n_sims n = S j -> n_kids n = None ->
  MctsGen.policy_probs F f_sqrt f_mul f_div_int solve (py_of n) c = Crash TypeError.
Proof. exact gen_policy_probs_terminal. Qed.
(* C09 transported: the arguments of that one call satisfy the solver's preconditions *)
Theorem T08_gen_policy_call_preconditions : forall F f_sqrt f_mul f_div_int solve cutoff n ks j c,
  (0 < cutoff)%Q -> Good cutoff n -> Bounded n -> n_kids n = Some ks -> n_sims n = S j ->
  live cutoff (n_pos n) (n_raw n) = true ->
  exists pi q, MctsGen.policy_probs F f_sqrt f_mul f_div_int solve (py_of n) c =
               (r <- solve pi q (multiplier F f_sqrt f_mul f_div_int c (Z.of_nat (S j)) (zlen ks)) ;; Ok (Some r)) /\
               Forall (fun x => 0 < x)%Q pi /\ (sumq pi == 1)%Q /\ length pi = length q /\
               Forall (fun x => -1 <= x <= 1)%Q q.
Proof. exact gen_policy_call_preconditions. Qed.

(* (c) populate(node, is_root) on a terminal position: v_zero = +1 / -1 / 0 for the side to move by winner(),
   nothing else changes, the network is not asked *)
Theorem T08_gen_populate_terminal : forall evaluate dirichlet cutoff mix alpha p m v0 value sims raw probs o is_root,
  terminal p = Some o ->
  MctsGen.populate evaluate dirichlet (the_cfg cutoff mix alpha) (py_of (Node p m v0 value sims raw probs None)) is_root =
  Ok (py_of (Node p m o value sims raw probs None)).
Proof. exact gen_populate_terminal. Qed.
(* ... otherwise exactly the expansion step of simulate: the evaluator's answer cut to the size's id table, the noise
   mixed in at the searched root when root_noise_alpha is set, children = ids in order with prior >= cutoff that
   Position.move accepts (child position = move parent m), their priors divided by their sum *)
Theorem T08_gen_populate_expand : forall evaluate dirichlet cutoff mix alpha p m v0 value sims raw0 probs0 raw v is_root nz,
  terminal p = None -> evaluate p = Ok (raw, v) -> (0 < cutoff)%Q ->
  (is_root && is_some alpha = true ->
   dirichlet (zlen (firstn (length (table (size p))) raw)) alpha = Ok nz /\
   length nz = length (firstn (length (table (size p))) raw)) ->
  let noise := if is_root && is_some alpha then Some nz else None in
  let pri := priors mix p noise raw in
  let acc := accepted cutoff p pri in
  MctsGen.populate evaluate dirichlet (the_cfg cutoff mix alpha) (py_of (Node p m v0 value sims raw0 probs0 None)) is_root =
  Ok (py_of (Node p m v value sims pri (renorm (map c_prior acc)) (Some (map child_of acc)))).
Proof. exact gen_populate_expand. Qed.
(* C08 transported: every child the generated populate stores is a table move the rules accept, each once, holding
   the parent's position after that move *)
Theorem T08_gen_populate_children_legal :
  forall evaluate dirichlet cutoff mix alpha p m v0 value sims raw0 probs0 raw v is_root nz,
  terminal p = None -> evaluate p = Ok (raw, v) -> (0 < cutoff)%Q ->
  (is_root && is_some alpha = true ->
   dirichlet (zlen (firstn (length (table (size p))) raw)) alpha = Ok nz /\
   length nz = length (firstn (length (table (size p))) raw)) ->
  exists r ks, MctsGen.populate evaluate dirichlet (the_cfg cutoff mix alpha)
                                (py_of (Node p m v0 value sims raw0 probs0 None)) is_root = Ok r /\
               pn_children r = Some ks /\ pn_position r = p /\ pn_v_zero r = v /\
               NoDup (map pn_move ks) /\
               forall c, In c ks -> exists mv, pn_move c = Some mv /\ In mv (table (size p)) /\
                                               Tak.move p mv = Some (pn_position c).
Proof. exact gen_populate_children_legal. Qed.

(* ====================================================================== *)
(* The search loop (proofs/MctsGenSearch.v): descend, analyze_tree, analyze, get_move, select_root_move, tree_probs
   regenerated over the tree-as-heap of model/MctsSem.v.  The Python code mutates Node objects in place through
   references; the translation threads one immutable tree and addresses a node by its PLACE (child indices from the
   searched node) - valid because the objects form a tree; that proviso (no aliasing) is not proved here, it is what
   C08's snapshots and C05 check.  Oracles of the theorems: o_multinomial = the choice stream (refuses a missing
   distribution), o_evaluate = the evaluator stream (next_eval), o_dirichlet = the noise vector of this call,
   o_monotonic = a clock (time_limit = 0: the deadline is float("inf"), kept symbolic, never reached).
   solve total = the solver returns (C10). *)
From TV Require Import proofs.MctsGenSearch.

(* END TO END: for time_limit = 0 and simulation_limit = limit > 0 the regenerated analyze_tree, with fuel that does
   not run out, computes exactly model/Mcts.v's analyze on the same streams (one evaluator answer per non-terminal
   leaf, one choice per descent step, the Dirichlet sample at the root's first expansion) *)
Theorem T08_gen_analyze_tree_eq :
  forall F f_sqrt f_mul f_div_int (solve : list Q -> list Q -> F -> res (list Q)) (C : F) cutoff mix alpha limit,
  (forall pi q lam, exists r, solve pi q lam = Ok r) -> (0 < cutoff)%Q ->
  forall noise, is_some alpha = is_some noise ->
  forall css t evs rest fuel,
  Good cutoff t -> valid_analyze cutoff mix limit css t noise evs -> (0 < limit)%nat -> noise_ok noise t evs ->
  (length css < fuel)%nat -> Forall (fun cs => (length cs < fuel)%nat) css ->
  MctsGen.analyze_tree ostate o_multinomial o_monotonic o_evaluate o_dirichlet F f_sqrt f_mul f_div_int solve C fuel
    (search_cfg cutoff mix alpha limit) (py_of t) [] (mkOst (flat css ++ rest) evs noise) =
  Ok (py_of (fst (analyze cutoff mix limit css t noise evs)),
      mkOst (flat (unused cutoff mix limit noise css t evs) ++ rest) (snd (analyze cutoff mix limit css t noise evs)) noise).
Proof. exact gen_analyze_tree_eq. Qed.
(* descend: follows the choice stream from the node at `pl` down to a leaf; the references it returns are the places
   of the path; one sampler answer per step *)
Theorem T08_gen_descend_eq :
  forall F f_sqrt f_mul f_div_int (solve : list Q -> list Q -> F -> res (list Q)) (C : F) cutoff mix alpha limit,
  (forall pi q lam, exists r, solve pi q lam = Ok r) ->
  forall cs t hp pl path0 rest evs nz fuel0 fuel,
  valid cs t -> Good cutoff t -> pt_get hp pl = Ok (py_of t) -> (length cs < fuel)%nat ->
  MctsGen.descend_while1 ostate o_multinomial F f_sqrt f_mul f_div_int solve C fuel0 fuel
    (search_cfg cutoff mix alpha limit) hp pl path0 (mkOst (zs cs ++ rest) evs nz) =
  Ok (path0 ++ prefixes pl cs, mkOst rest evs nz).
Proof. exact descend_loop_ok. Qed.
(* C08 transported to the regenerated loop (C08_analyze_good, root_visits_fresh / _reused, position_untouched) *)
Theorem T08_gen_analyze_tree_good :
  forall F f_sqrt f_mul f_div_int (solve : list Q -> list Q -> F -> res (list Q)) (C : F) cutoff mix alpha limit,
  (forall pi q lam, exists r, solve pi q lam = Ok r) -> (0 < cutoff)%Q ->
  forall noise, is_some alpha = is_some noise ->
  forall css t evs rest fuel,
  Good cutoff t -> valid_analyze cutoff mix limit css t noise evs -> (0 < limit)%nat -> noise_ok noise t evs ->
  (length css < fuel)%nat -> Forall (fun cs => (length cs < fuel)%nat) css ->
  exists t' st',
    MctsGen.analyze_tree ostate o_multinomial o_monotonic o_evaluate o_dirichlet F f_sqrt f_mul f_div_int solve C fuel
      (search_cfg cutoff mix alpha limit) (py_of t) [] (mkOst (flat css ++ rest) evs noise) = Ok (py_of t', st') /\
    Good cutoff t' /\ n_sims t' = Nat.max limit (n_sims t) /\ n_pos t' = n_pos t /\
    pn_simulations (py_of t') = Z.of_nat (Nat.max limit (n_sims t)) /\ pn_position (py_of t') = n_pos t.
Proof. exact gen_analyze_tree_good. Qed.
(* analyze(p): a new tree on p *)
Theorem T08_gen_analyze_eq :
  forall F f_sqrt f_mul f_div_int (solve : list Q -> list Q -> F -> res (list Q)) (C : F) cutoff mix alpha limit,
  (forall pi q lam, exists r, solve pi q lam = Ok r) -> (0 < cutoff)%Q ->
  forall noise, is_some alpha = is_some noise ->
  forall css p evs rest fuel,
  valid_analyze cutoff mix limit css (root p) noise evs -> (0 < limit)%nat -> noise_ok noise (root p) evs ->
  (length css < fuel)%nat -> Forall (fun cs => (length cs < fuel)%nat) css ->
  MctsGen.analyze ostate o_multinomial o_monotonic o_evaluate o_dirichlet F f_sqrt f_mul f_div_int solve C fuel
    (search_cfg cutoff mix alpha limit) p (mkOst (flat css ++ rest) evs noise) =
  Ok (py_of (fst (analyze cutoff mix limit css (root p) noise evs)),
      mkOst (flat (unused cutoff mix limit noise css (root p) evs) ++ rest)
            (snd (analyze cutoff mix limit css (root p) noise evs)) noise).
Proof. exact gen_analyze_eq. Qed.
(* C09 transported: select_root_move on an expanded root returns the sampled child's move, which is legal *)
Theorem T08_gen_select_root_move_legal :
  forall F f_sqrt f_mul f_div_int (solve : list Q -> list Q -> F -> res (list Q)) (C : F) cutoff,
  (forall pi q lam, exists r, solve pi q lam = Ok r) ->
  forall t ks c k rest evs nz,
  Good cutoff t -> n_kids t = Some ks -> nth_error ks c = Some k ->
  MctsGen.select_root_move ostate o_multinomial F f_sqrt f_mul f_div_int solve C (py_of t) []
    (mkOst (Z.of_nat c :: rest) evs nz) = Ok (n_move k, mkOst rest evs nz) /\
  exists m, n_move k = Some m /\ In m (table (size (n_pos t))) /\ Tak.move (n_pos t) m = Some (n_pos k).
Proof. exact gen_select_root_move_legal. Qed.
(* ... and get_move(p) with a budget of limit > 0 simulations returns a legal move of p whenever the searched root
   has children *)
Theorem T08_gen_get_move_legal :
  forall F f_sqrt f_mul f_div_int (solve : list Q -> list Q -> F -> res (list Q)) (C : F) cutoff mix alpha limit,
  (forall pi q lam, exists r, solve pi q lam = Ok r) -> (0 < cutoff)%Q ->
  forall noise, is_some alpha = is_some noise ->
  forall css p evs c rest fuel,
  valid_analyze cutoff mix limit css (root p) noise evs -> (0 < limit)%nat -> noise_ok noise (root p) evs ->
  (length css < fuel)%nat -> Forall (fun cs => (length cs < fuel)%nat) css ->
  unused cutoff mix limit noise css (root p) evs = [] ->
  forall ks k, n_kids (fst (analyze cutoff mix limit css (root p) noise evs)) = Some ks -> nth_error ks c = Some k ->
  exists m st',
    MctsGen.get_move ostate o_multinomial o_monotonic o_evaluate o_dirichlet F f_sqrt f_mul f_div_int solve C fuel
      (search_cfg cutoff mix alpha limit) p (mkOst (flat css ++ Z.of_nat c :: rest) evs noise) = Ok (Some m, st') /\
    In m (table (size p)) /\ Tak.move p m <> None.
Proof. exact gen_get_move_legal. Qed.
