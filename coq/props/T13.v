(* T13 - the TPS reader and writer of python/tak/ptn/tps.py are REGENERATED FROM THE SOURCE and proved equal to the
   hand-written model.  Property theorems only.  gen/TpsGen.v is written by harness/py2coq.py from the current text
   of tps.py on every run (parse_tps, parse_row, format_tps, _format_row, _format_square) against model/PySem.v; a str
   is the list of its Unicode code points; `Illegal` is `raise IllegalTPS`; proofs in proofs/TpsGenEq.v.
   `embed_tps (Accept p) = Ok p`, `embed_tps Reject = Illegal`, `embed_tps Unspecified = Crash ValueError`.
   `str_limit = 10 ^ 4300` (sys.int_max_str_digits of the interpreter: str(n) raises ValueError above it). *)
From Coq Require Import ZArith List Bool.
From TV Require Import model.Tak model.PySem model.Tps spec.TpsSpec proofs.GameGenEq proofs.TpsGenEq.
From TV Require gen.GameGen gen.TpsGen.
Import ListNotations.
Open Scope Z_scope.

(* the translated reader IS the model's reader, for EVERY string (any code points, any length) *)
Theorem T13_gen_parse_tps_eq : forall s, TpsGen.parse_tps s = embed_tps (Tps.parse_tps s).
Proof. exact gen_parse_tps_eq. Qed.
Theorem T13_gen_parse_row_eq : forall r, TpsGen.parse_row r = embed (Tps.parse_row r).
Proof. exact gen_parse_row_eq. Qed.
(* "no other error escapes": a position or IllegalTPS, nothing else, for every string *)
Theorem T13_gen_parse_total : forall s, (exists p, TpsGen.parse_tps s = Ok p) \/ TpsGen.parse_tps s = Illegal.
Proof. exact gen_parse_total. Qed.
(* the translated writer IS the model's writer whenever the numbers it prints are below the str() digit limit *)
Theorem T13_gen_format_tps_eq : forall p, size p < 10 ^ 4300 -> Z.abs (ply p / 2 + 1) < 10 ^ 4300 ->
  TpsGen.format_tps p = Ok (Tps.format_tps p).
Proof. exact gen_format_tps_eq. Qed.
(* the row writer with its two while loops: the fuel len(row) + 1 is enough (no OutOfFuel) *)
Theorem T13_gen_format_row_eq : forall row, zlen row < 10 ^ 4300 -> TpsGen._format_row row = Ok (Tps.format_row row).
Proof. exact gen_format_row_eq. Qed.
(* _format_square reads sq[0]: IndexError on an empty square, hence the guard *)
Theorem T13_gen_format_square_eq : forall sq, sq <> [] -> TpsGen._format_square sq = Ok (Tps.format_square sq).
Proof. exact gen_format_square_eq. Qed.
(* Position.from_squares / Config.flat_count / capstone_count of game.py (gen/GameGen.v), used by parse_tps *)
Theorem T13_gen_from_squares_eq : forall cfg sqs pl, config_ok cfg ->
  GameGen.from_squares cfg sqs pl = embed_value (Tak.from_squares cfg sqs pl).
Proof. exact gen_from_squares_eq. Qed.
(* PySem's string operations are the model's: split / join, isascii-and-isdigit, int() on digits, str() below the limit *)
Theorem T13_pysem_strings :
  (forall sep s, py_split1 sep s = split sep s) /\ (forall sep l, py_join sep l = join sep l) /\
  (forall s, py_isascii s && py_isdigit s = is_ascii_digits s) /\
  (forall s, is_ascii_digits s = true ->
     py_int_str s = if max_str_digits <? zlen s then Crash ValueError else Ok (int_of_digits s)) /\
  (forall n, Z.abs n < 10 ^ 4300 -> py_str_int n = Ok (str_of_Z n)).
Proof. exact pysem_strings. Qed.

(* ---- C13 transported to the translated source ---- *)
(* format then parse returns the position: through the translated writer and the translated reader *)
Theorem T13_gen_parse_format : forall p, wf p -> standard_reserves p ->
  exists t, TpsGen.format_tps p = Ok t /\ TpsGen.parse_tps t = Ok p.
Proof. exact gen_parse_format. Qed.
(* parsing canonical TPS then formatting returns the same text *)
Theorem T13_gen_format_parse_canonical : forall s p,
  TpsGen.parse_tps s = Ok p -> canonical s -> TpsGen.format_tps p = Ok s.
Proof. exact gen_format_parse_canonical. Qed.
(* the text means what the TPS standard says *)
Theorem T13_gen_parse_meaning : forall s p, TpsGen.parse_tps s = Ok p ->
  size p = text_size s /\ zlen (board p) = size p * size p /\
  (forall x y, 0 <= x < size p -> 0 <= y < size p -> sq p x y = stack_of_text (cell_text s x y)) /\
  ply p = 2 * (dec_value (move_field s) - 1) + dec_value (who_field s) - 1.
Proof. exact gen_parse_meaning. Qed.
Theorem T13_gen_parse_reserves : forall s p, TpsGen.parse_tps s = Ok p -> standard_reserves p.
Proof. exact gen_parse_reserves. Qed.
(* malformed text is refused with IllegalTPS *)
Theorem T13_gen_parse_refuses : forall s, must_refuse s -> TpsGen.parse_tps s = Illegal.
Proof. exact gen_parse_refuses. Qed.
