(* C07 - move ids are a bijection with the move universe of each board size.
   Property theorems only; proofs are in proofs/. *)
From Coq Require Import ZArith List.
From TV Require gen.Consts.
From TV Require Import model.Tak spec.MoveSpec proofs.Table proofs.MoveId proofs.C07Proofs.
Import ListNotations.
Open Scope Z_scope.

(* the id table of size n lists exactly the well-formed moves of that size ... *)
Theorem C07_table_is_universe : forall n m, 0 <= n -> (In m (table n) <-> wf_move n m).
Proof. exact table_spec. Qed.
(* ... each exactly once *)
Theorem C07_table_nodup : forall n, NoDup (table n).
Proof. exact table_nodup. Qed.
(* ids 0..|table|-1 <-> well-formed moves; encode and decode are mutual inverses *)
Theorem C07_bijection : forall n, 0 <= n ->
  (forall i, 0 <= i < zlen (table n) -> exists m, decode_move n i = Some m /\ wf_move n m /\ encode_move n m = Some i) /\
  (forall m, wf_move n m -> exists i, 0 <= i < zlen (table n) /\ encode_move n m = Some i /\ decode_move n i = Some m) /\
  (forall m i, encode_move n m = Some i <-> decode_move n i = Some m).
Proof. exact bijection. Qed.
(* every size's id range fits the policy head's width (finite: sizes 3-6) *)
Theorem C07_ids_fit_head : forall n, 3 <= n <= 6 -> zlen (table n) <= Consts.MAX_MOVE_ID.
Proof. exact ids_fit. Qed.
(* the implementation's own counts (regenerated) are the model's *)
Theorem C07_counts_tie :
  Consts.n_moves_for_size = map (fun n => zlen (table n)) [0; 1; 2; 3; 4; 5; 6] /\
  Consts.MAX_MOVE_ID = zlen (table 6).
Proof. exact counts_tie. Qed.

(* ---- about the function regenerated from the source (gen/GameGen.v, harness/py2coq.py against model/PySem.v) ---- *)
From TV Require Import model.PySem proofs.GameGenEq.
From TV Require gen.GameGen.
(* the translated all_moves_for_size (and ALL_SLIDES) IS the model's table, entry for entry, for every size up to 8:
   so the bijection above is a statement about the table the source text builds *)
Theorem C07_source_table_is_model : forall n, n <= 8 -> GameGen.all_moves_for_size n = Ok (table n).
Proof. exact gen_table_eq. Qed.
Theorem C07_source_all_slides_is_model : GameGen.ALL_SLIDES = Ok (map all_slides (seq 0 9)).
Proof. exact gen_all_slides_eq. Qed.
