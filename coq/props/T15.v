(* T15 - the model of tak/symmetry/symmetry.py is REGENERATED FROM THE SOURCE and proved equal to the hand-written
   model; the main theorems of C15 are transported to the regenerated functions.  Property theorems only.
   gen/SymmetryGen.v is written by harness/sym2coq.py from the current text of symmetry.py (and RDIRECTIONS /
   MoveType.from_direction of moves.py) on every run, against model/PySem.v (Python) and model/NumpyLite.v (numpy):
   outcomes `Ok v | Illegal | Crash kind`.  Position.__getitem__, is_slide, direction, Position.move and winner are
   the translated ones of gen/GameGen.v (T01).  Proofs: proofs/SymmetryGenEq.v, proofs/SymmetryGenCor.v.

   `wf p`              : 0 <= size p /\ zlen (board p) = size p * size p
   `1 <= size p`       : NumpyLite takes no position on arrays with an empty axis (size 0)
   `slide_has_drops m` : is_slide (mt m) = true -> mslides m <> None   (as in T01) *)
From Coq Require Import ZArith List Bool.
From TV Require gen.Consts gen.GameGen gen.SymmetryGen.
From TV Require Import model.Tak model.Road model.PySem model.Symmetry.
From TV Require Import proofs.GameGenEq proofs.TieSymmetry proofs.SymmetryProofs proofs.SymmetryExamples.
From TV Require Import proofs.SymmetryGenEq proofs.SymmetryGenCor.
Import ListNotations.
Open Scope Z_scope.

(* the module-level comprehension, evaluated with NumpyLite, yields the matrices of the running interpreter *)
Theorem T15_gen_symmetries_const : SymmetryGen.SYMMETRIES = Ok Consts.symmetries.
Proof. exact gen_symmetries_const. Qed.

(* transform_position, translated, IS the hand model's: same position and no exception (the store indices stay in
   range - C15_index_guard -, pos[i, j] is on the board, the unpackings have three values) *)
Theorem T15_gen_transform_position_eq : forall g p, wf p -> 1 <= size p -> In g syms ->
  SymmetryGen.transform_position g p = Ok (Symmetry.transform_position g p).
Proof. exact gen_transform_position_eq. Qed.
Theorem T15_gen_transform_position_never_crashes : forall g p, wf p -> 1 <= size p -> In g syms ->
  forall e, SymmetryGen.transform_position g p <> Crash e.
Proof. exact gen_transform_position_never_crashes. Qed.

(* transform_move, translated, for EVERY move value and size: the hand model's move, no KeyError *)
Theorem T15_gen_transform_move_eq : forall g m n, In g syms ->
  SymmetryGen.transform_move g m n = Ok (Symmetry.transform_move g m n).
Proof. exact gen_transform_move_eq. Qed.

(* symmetries, translated *)
Theorem T15_gen_symmetries_eq : forall p, wf p -> 1 <= size p ->
  SymmetryGen.symmetries p = Ok (Symmetry.symmetries p).
Proof. exact gen_symmetries_eq. Qed.

(* C15_move_commutes on the translated functions of symmetry.py AND game.py *)
Theorem T15_gen_move_commutes : forall g p m, wf p -> 1 <= size p -> In g syms -> slide_has_drops m ->
  exists q m', SymmetryGen.transform_position g p = Ok q /\ SymmetryGen.transform_move g m (size p) = Ok m' /\
    bind (GameGen.move p m) (SymmetryGen.transform_position g) = GameGen.move q m'.
Proof. exact gen_move_commutes. Qed.

(* C15_winner_invariant / ply_side_reserves on the translated functions *)
Theorem T15_gen_winner_invariant : forall g p, wf p -> 1 <= size p -> In g syms ->
  exists q, SymmetryGen.transform_position g p = Ok q /\ GameGen.winner q = GameGen.winner p /\
            ply q = ply p /\ to_move q = to_move p /\ pos_stones q = pos_stones p.
Proof. exact gen_winner_invariant. Qed.

(* C15_symmetries_spec on the translated functions *)
Theorem T15_gen_symmetries_spec : forall p, wf p -> 1 <= size p ->
  exists l, SymmetryGen.symmetries p = Ok l /\
    (exists rest, l = (mat_id, p) :: rest) /\
    NoDup (map snd l) /\
    (forall q, In q (map snd l) <-> exists g, In g syms /\ SymmetryGen.transform_position g p = Ok q) /\
    (forall g q, In (g, q) l -> In g syms /\ SymmetryGen.transform_position g p = Ok q).
Proof. exact gen_symmetries_spec. Qed.

(* the hypotheses are satisfiable by a non-trivial value; outside the eight matrices a KeyError is modelled *)
Theorem T15_example :
  wf ex_pos /\ 1 <= size ex_pos /\ In rot syms /\ slide_has_drops ex_crush /\
  (exists r, GameGen.move ex_pos ex_crush = Ok r) /\
  SymmetryGen.transform_move rot ex_crush 4 = Ok (mkMove 1 2 SlideDown (Some [1])) /\
  SymmetryGen.transform_position rot ex_pos <> Ok ex_pos /\
  (exists l, SymmetryGen.symmetries ex_pos = Ok l /\ length l = 8%nat).
Proof. exact gen_example. Qed.
Theorem T15_keyerror_modelled :
  SymmetryGen.transform_move [[2; 0; 0]; [0; 1; 0]; [0; 0; 1]] (mkMove 0 0 SlideRight (Some [1])) 5 = Crash KeyError /\
  transform_move_opt [[2; 0; 0]; [0; 1; 0]; [0; 0; 1]] (mkMove 0 0 SlideRight (Some [1])) 5 = None.
Proof. exact gen_transform_move_keyerror. Qed.
