(* C03 - every legal move is generated and owns a move id; nothing else is
   playable.  Property theorems only; proofs are in proofs/Generator.v and
   proofs/C03Ties.v.

   "legal" is the executable rule set: `exists p', move p m = Some p'`
   (props/C01.v proves `move` equivalent to the rulebook relation).
   `canonical m`: a placement carries no drops tuple, a slide carries one (the
   code accepts a placement with a stray tuple and ignores the tuple; that is a
   second spelling of the same move, not a move of its own).
   `wf p`: `0 <= size p` and the board has `size p * size p` squares.

   The generator is pseudo-legal by design (it lists slides on the opening
   plies, pick-ups that cannot be dropped, slides into walls and capstones):
   the property asks that every legal move is listed, exactly once - not that
   everything listed is legal - and that is what is stated. *)
From Coq Require Import ZArith List.
From TV Require gen.Consts.
From TV Require Import model.Tak spec.MoveSpec spec.Rules proofs.Generator proofs.C03Ties proofs.Compose.
Import ListNotations.
Open Scope Z_scope.

(* the generator lists every legal move ... *)
Theorem C03_gen_complete : forall p m p',
  wf p -> canonical m -> move p m = Some p' -> In m (all_moves p).
Proof. exact gen_complete. Qed.
(* ... exactly once (the whole list is repetition-free, legal or not) *)
Theorem C03_gen_nodup : forall p, NoDup (all_moves p).
Proof. exact gen_nodup. Qed.
(* ... exactly once, counted *)
Theorem C03_gen_count_once : forall p m p',
  wf p -> canonical m -> move p m = Some p' -> count_occ mv_eq_dec (all_moves p) m = 1%nat.
Proof. exact gen_count_once. Qed.
(* everything it lists is an entry of the table of that size (every size, so 3-6) *)
Theorem C03_gen_in_table : forall p, 0 <= size p -> incl (all_moves p) (table (size p)).
Proof. exact gen_in_table. Qed.
(* for sizes 3-6 everything it lists owns a move id inside the policy head's width *)
Theorem C03_generated_owns_id : forall p m, 3 <= size p <= 6 -> In m (all_moves p) ->
  exists i, encode_move (size p) m = Some i /\ decode_move (size p) i = Some m /\
            0 <= i < Consts.MAX_MOVE_ID.
Proof. exact generated_owns_id. Qed.
(* the table entries the rules accept are exactly the (canonical) legal moves *)
Theorem C03_table_legal_exact : forall p m, wf p ->
  (In m (table (size p)) /\ (exists p', move p m = Some p') <->
   canonical m /\ exists p', move p m = Some p').
Proof. exact table_legal_exact. Qed.
(* every canonical legal move owns exactly one id of its size *)
Theorem C03_legal_owns_id : forall p m, wf p -> canonical m -> (exists p', move p m = Some p') ->
  exists i, 0 <= i < zlen (table (size p)) /\ encode_move (size p) m = Some i /\
            decode_move (size p) i = Some m.
Proof. exact legal_owns_id. Qed.
(* a search that tries each table entry reaches every legal continuation, once, and only legal ones *)
Theorem C03_populate_reaches_all : forall p, wf p ->
  NoDup (filter (accepted p) (table (size p))) /\
  (forall m, In m (filter (accepted p) (table (size p))) <->
             canonical m /\ exists p', move p m = Some p').
Proof. exact populate_reaches_all. Qed.
(* filtering the generator's list by acceptance yields the same moves, each once *)
Theorem C03_legal_filter_same : forall p, wf p ->
  NoDup (filter (accepted p) (all_moves p)) /\
  (forall m, In m (filter (accepted p) (all_moves p)) <->
             In m (filter (accepted p) (table (size p)))).
Proof. exact legal_filter_same. Qed.
(* tie: the code's ALL_SLIDES (regenerated) has the lengths of the model's lists *)
Theorem C03_slides_tie :
  Consts.all_slides_lengths = map (fun n => zlen (all_slides n)) (seq 0 9).
Proof. exact slides_tie. Qed.

(* the same with "legal" read as the declarative rulebook relation of C01 (spec/Rules.v):
   every canonical move the rules allow is generated exactly once and is a table entry ... *)
Theorem C03_generator_complete_rulebook : forall p m p',
  Rules.wf_pos p -> canonical m -> legal_step p m p' ->
  In m (all_moves p) /\ count_occ mv_eq_dec (all_moves p) m = 1%nat /\ In m (table (size p)).
Proof. exact generator_complete_rulebook. Qed.
(* ... and the table entries the code accepts are exactly the canonical moves the rulebook allows, each once *)
Theorem C03_table_filter_is_rulebook : forall p, Rules.wf_pos p ->
  NoDup (filter (accepted p) (table (size p))) /\
  forall m, In m (filter (accepted p) (table (size p))) <-> canonical m /\ exists p', legal_step p m p'.
Proof. exact table_filter_is_rulebook. Qed.

(* ---- about the functions regenerated from the source (gen/GameGen.v) ---- *)
From TV Require Import model.PySem proofs.GameGenEq proofs.GameGenCor.
From TV Require gen.GameGen.
(* translated all_moves / all_moves_for_size / move: every canonical accepted move is generated once and is a table entry *)
Theorem C03_source_generator_complete : forall p m p', Rules.wf_pos p -> canonical m -> GameGen.move p m = Ok p' ->
  exists l t, GameGen.all_moves p = Ok l /\ GameGen.all_moves_for_size (size p) = Ok t /\
              In m l /\ count_occ mv_eq_dec l m = 1%nat /\ In m t /\ incl l t.
Proof. exact gen_generator_complete. Qed.
(* the translated generators ARE the model's lists (order included) *)
Theorem C03_source_lists_are_model :
  (forall p, shape p -> size p <= 8 -> GameGen.all_moves p = Ok (Tak.all_moves p)) /\
  (forall n, n <= 8 -> GameGen.all_moves_for_size n = Ok (table n)).
Proof. exact (conj gen_all_moves_eq gen_table_eq). Qed.
