(* T06 - `encode` of python/tak/model/encoding.py is REGENERATED FROM THE SOURCE and proved equal to the hand-written
   model.  Property theorems only.  gen/EncodingGen.v is written by harness/py2coq.py from the current text of
   encoding.py on every run (encode, the Token vocabulary as its class body computes it, TOP_PIECES) against
   model/PySem.v; proofs in proofs/EncodingGenEq.v.
   `embed_index (Some l) = Ok l`, `embed_index None = Crash IndexError` (the model's None is the IndexError of
   Token.RESERVES[n] / Token.CAPSTONES[n]).  Argument order of the generated function is Python's: encode p s. *)
From Coq Require Import ZArith List Bool.
From TV Require gen.Consts.
From TV Require Import model.Tak model.PySem model.Run model.Encoding spec.EncodingSpec proofs.EncodingGenEq.
From TV Require gen.GameGen gen.EncodingGen.
Import ListNotations.
Open Scope Z_scope.

(* the translated encode IS the model's encode: EVERY position (any reserves, any board), both flag values *)
Theorem T06_gen_encode_eq : forall s p, EncodingGen.encode p s = embed_index (Encoding.encode s p).
Proof. exact gen_encode_eq. Qed.
(* so it returns a token list or raises IndexError, nothing else *)
Theorem T06_gen_encode_outcomes : forall s p,
  (exists l, EncodingGen.encode p s = Ok l) \/ EncodingGen.encode p s = Crash IndexError.
Proof. exact gen_encode_outcomes. Qed.
(* the vocabulary computed by the class body of Token (range arithmetic, CAPSTONES[0], RESERVES[0]) is the
   regenerated gen/Consts.v one *)
Theorem T06_gen_vocabulary :
  EncodingGen.Token_RESERVES = Ok Consts.tok_RESERVES /\
  EncodingGen.Token_CAPSTONES = Consts.tok_CAPSTONES /\
  EncodingGen.Token_FIRST_RESERVES_VALUE = Ok Consts.tok_FIRST_RESERVES_VALUE /\
  EncodingGen.Token_FIRST_CAPSTONES_VALUE = Ok Consts.tok_FIRST_CAPSTONES_VALUE /\
  [EncodingGen.Token_EMPTY; EncodingGen.Token_MY_TOP_FLAT; EncodingGen.Token_MY_FLAT; EncodingGen.Token_MY_STANDING;
   EncodingGen.Token_MY_CAPSTONE; EncodingGen.Token_THEIR_TOP_FLAT; EncodingGen.Token_THEIR_FLAT;
   EncodingGen.Token_THEIR_STANDING; EncodingGen.Token_THEIR_CAPSTONE; EncodingGen.Token_WHITE_TO_PLAY;
   EncodingGen.Token_BLACK_TO_PLAY; EncodingGen.Token_OUTPUT_SENTINEL] =
  [Consts.tok_EMPTY; Consts.tok_MY_TOP_FLAT; Consts.tok_MY_FLAT; Consts.tok_MY_STANDING;
   Consts.tok_MY_CAPSTONE; Consts.tok_THEIR_TOP_FLAT; Consts.tok_THEIR_FLAT;
   Consts.tok_THEIR_STANDING; Consts.tok_THEIR_CAPSTONE; Consts.tok_WHITE_TO_PLAY;
   Consts.tok_BLACK_TO_PLAY; Consts.tok_OUTPUT_SENTINEL].
Proof. exact gen_vocabulary. Qed.
(* l[n] of PySem.v is the hand model's py_index *)
Theorem T06_py_getitem_is_py_index : forall (l : list Z) n, py_getitem l n = embed_index (Encoding.py_index l n).
Proof. exact (@py_getitem_py_index Z). Qed.

(* ---- C06 transported to the translated encode (decode is the hand model's) ---- *)
(* lossless: decoding the translated encoding returns board, side to move and reserves *)
Theorem T06_gen_decode_encode : forall s p, encodable p ->
  exists l, EncodingGen.encode p s = Ok l /\ decode l = Some (board p, to_move p, reserves p).
Proof. exact gen_decode_encode. Qed.
(* ... along every game of sizes 3-6 with piece sets the vocabulary can index *)
Theorem T06_gen_reachable_encodes : forall cfg ms p s,
  3 <= csize cfg <= 6 -> 0 <= flat_count cfg <= 49 -> 0 <= capstone_count cfg <= 1 ->
  run (from_config cfg) ms = Some p ->
  exists l, EncodingGen.encode p s = Ok l /\ decode l = Some (board p, to_move p, reserves p).
Proof. exact gen_reachable_encodes. Qed.
(* injective on the domain *)
Theorem T06_gen_encode_injective : forall s p q l, encodable p -> encodable q ->
  EncodingGen.encode p s = Ok l -> EncodingGen.encode q s = Ok l ->
  board p = board q /\ to_move p = to_move q /\ reserves p = reserves q.
Proof. exact gen_encode_injective. Qed.
Theorem T06_gen_encode_distinct : forall s p q, encodable p -> encodable q ->
  (board p, to_move p, reserves p) <> (board q, to_move q, reserves q) ->
  EncodingGen.encode p s <> EncodingGen.encode q s.
Proof. exact gen_encode_distinct. Qed.
(* mover-relative: swapping all colours, the reserves and the side to move changes only the side-to-move token
   (every position) *)
Theorem T06_gen_encode_swap : forall s p,
  EncodingGen.encode (swap_colours p) s = res_map (flip_to_play s) (EncodingGen.encode p s).
Proof. exact gen_encode_swap. Qed.
(* every token fits in a byte *)
Theorem T06_gen_tokens_byte : forall s p l, EncodingGen.encode p s = Ok l -> Forall (fun t => 0 <= t < 256) l.
Proof. exact gen_tokens_byte. Qed.

(* ---- decode (the tensor is the list of its entries) ---- *)
(* `agrees r o`: r = Ok p and o = Some p, or r = Crash e with e one of IndexError / AssertionError / KeyError /
   AttributeError and o = None (the hand model collapses decode()'s exceptions into None).  The guard is the range on
   which int(n ** (1 / 2)) is modelled (a tensor shorter than 2^52 entries) *)
Theorem T06_gen_decode_agrees : forall toks, zlen toks < 2 ^ 52 -> agrees (EncodingGen.decode toks) (decode_pos toks).
Proof. exact gen_decode_agrees. Qed.
Theorem T06_gen_decode_ok_iff : forall toks p, zlen toks < 2 ^ 52 ->
  (EncodingGen.decode toks = Ok p <-> decode_pos toks = Some p).
Proof. exact gen_decode_ok_iff. Qed.
(* a position or one of the four exception classes; nothing else *)
Theorem T06_gen_decode_outcomes : forall toks, zlen toks < 2 ^ 52 ->
  (exists p, EncodingGen.decode toks = Ok p) \/ (exists e, EncodingGen.decode toks = Crash e /\ decode_exn e = true).
Proof. exact gen_decode_outcomes. Qed.
(* the square loop alone, for every token list and every state of the accumulators *)
Theorem T06_gen_decode_go : forall to_play toks cur acc,
  loop_agrees (EncodingGen.decode_for2 to_play acc cur toks) (decode_go to_play toks cur acc).
Proof. exact gen_decode_go. Qed.
(* lossless through the translated encode AND the translated decode *)
Theorem T06_gen_round_trip : forall s p, encodable p ->
  exists l, EncodingGen.encode p s = Ok l /\
    (zlen l < 2 ^ 52 -> exists q, EncodingGen.decode l = Ok q /\ triple q = (board p, to_move p, reserves p)).
Proof. exact gen_round_trip. Qed.
