(* C15 - board symmetries commute with the rules.
   Property theorems only; proofs are in proofs/TieSymmetry.v (finite facts
   about the regenerated matrices), proofs/SymmetryProofs.v, proofs/SymmetryRoad.v;
   examples in proofs/SymmetryExamples.v.  `syms` is the list regenerated from
   tak.symmetry.SYMMETRIES; `wf p` = a board list of size^2 stacks, size >= 0. *)
From Coq Require Import ZArith List Bool.
From TV Require Import model.Tak model.Road model.Symmetry.
From TV Require Import proofs.TieSymmetry proofs.SymmetryProofs proofs.SymmetryRoad proofs.SymmetryExamples.
Import ListNotations.
Open Scope Z_scope.

(* "the eight board symmetries are the full rotation/reflection group of the square":
   eight, pairwise distinct (as matrices and as maps of every board with >= 2 squares
   a side), identity, closed under composition and inverse, linear parts = the eight
   signed permutation matrices *)
Theorem C15_syms_are_D4 :
  length syms = 8%nat /\ NoDup syms /\
  (forall n g h, 2 <= n -> In g syms -> In h syms ->
     (forall x y, 0 <= x < n -> 0 <= y < n -> apply_sym g n (x, y) = apply_sym h n (x, y)) -> g = h) /\
  (In mat_id syms /\ forall n v, apply_sym mat_id n v = v) /\
  (forall g h, In g syms -> In h syms ->
     In (mat_mul g h) syms /\ forall n v, apply_sym (mat_mul g h) n v = apply_sym g n (apply_sym h n v)) /\
  (forall g, In g syms ->
     In (sym_inv g) syms /\ mat_mul g (sym_inv g) = mat_id /\ mat_mul (sym_inv g) g = mat_id /\
     forall n v, apply_sym (sym_inv g) n (apply_sym g n v) = v /\ apply_sym g n (apply_sym (sym_inv g) n v) = v) /\
  (forall a b c d, In [[a; b]; [c; d]] (map lin2 syms) <-> signed_perm a b c d).
Proof. exact syms_are_D4. Qed.

(* ... and, for every board size, each is a bijection of [0,size)^2 preserving
   orthogonal adjacency; an off-board square is sent off the board *)
Theorem C15_sym_square_bijection : forall n g, In g syms ->
  (forall x y, (0 <= fst (apply_sym g n (x, y)) < n /\ 0 <= snd (apply_sym g n (x, y)) < n) <->
               (0 <= x < n /\ 0 <= y < n)) /\
  (forall v w, apply_sym g n v = apply_sym g n w -> v = w) /\
  (forall x y, 0 <= x < n -> 0 <= y < n ->
     exists u w, 0 <= u < n /\ 0 <= w < n /\ apply_sym g n (u, w) = (x, y)) /\
  (forall a b, adjacent (apply_sym g n a) (apply_sym g n b) = adjacent a b).
Proof. exact sym_square_bijection. Qed.

(* guard of the model: every store of transform_position's double loop hits an
   index in [0, size*size) (no negative indexing, no IndexError) *)
Theorem C15_index_guard : forall g n i j, In g syms -> 0 <= i < n -> 0 <= j < n ->
  0 <= fst (apply_sym g n (i, j)) + snd (apply_sym g n (i, j)) * n < n * n.
Proof. exact index_guard. Qed.

(* guard of the model: transform_move never raises KeyError for the eight matrices *)
Theorem C15_transform_move_total : forall g m n, In g syms ->
  transform_move_opt g m n = Some (transform_move g m n) /\
  transform_move g m n =
    mkMove (fst (apply_sym g n (mx m, my m))) (snd (apply_sym g n (mx m, my m))) (tdir g (mt m)) (mslides m).
Proof. exact transform_move_total. Qed.

(* "transforming a position and a move and then playing gives the same position as
   playing and then transforming" - as results, for EVERY move record m (legal,
   illegal, off-board, malformed drops): None = IllegalMove on both sides or neither *)
Theorem C15_move_commutes : forall g p m, wf p -> In g syms ->
  option_map (transform_position g) (move p m) =
  move (transform_position g p) (transform_move g m (size p)).
Proof. exact move_commutes. Qed.

(* "legality ... unchanged" *)
Theorem C15_legality_invariant : forall g p m, wf p -> In g syms ->
  (move p m = None <-> move (transform_position g p) (transform_move g m (size p)) = None).
Proof. exact legality_invariant. Qed.

(* "game outcome ... unchanged": winner and reason (road on either axis, flat
   count, board full, reserves exhausted) *)
Theorem C15_winner_invariant : forall g p, wf p -> In g syms ->
  winner (transform_position g p) = winner p.
Proof. exact winner_invariant. Qed.

(* "side to move, ply and reserves are unchanged" (true of every matrix) *)
Theorem C15_ply_side_reserves_invariant : forall g p,
  ply (transform_position g p) = ply p /\
  to_move (transform_position g p) = to_move p /\
  size (transform_position g p) = size p /\
  (wstones (transform_position g p), wcaps (transform_position g p)) = (wstones p, wcaps p) /\
  (bstones (transform_position g p), bcaps (transform_position g p)) = (bstones p, bcaps p).
Proof. exact ply_side_reserves_invariant. Qed.

(* "the list of symmetric variants starts with the position itself and contains
   each distinct variant exactly once": head, NoDup, set = orbit, pairing *)
Theorem C15_symmetries_spec : forall p, wf p ->
  (exists rest, symmetries p = (mat_id, p) :: rest) /\
  NoDup (map snd (symmetries p)) /\
  (forall q, In q (map snd (symmetries p)) <-> exists g, In g syms /\ q = transform_position g p) /\
  (forall g q, In (g, q) (symmetries p) -> In g syms /\ q = transform_position g p).
Proof. exact symmetries_spec. Qed.

(* the positions form an orbit of a group action (used to read "the orbit") *)
Theorem C15_group_action : forall g h p, wf p -> In g syms -> In h syms ->
  transform_position mat_id p = p /\
  transform_position (mat_mul g h) p = transform_position g (transform_position h p) /\
  wf (transform_position g p).
Proof. exact group_action. Qed.

(* the hypotheses are satisfiable by a non-trivial value (custom reserves, a
   crushing slide, a rotation that changes the board) *)
Theorem C15_example :
  wf ex_pos /\ In rot syms /\ rot <> mat_id /\
  move (transform_position rot ex_pos) (transform_move rot ex_crush 4) <> None /\
  transform_position rot ex_pos <> ex_pos.
Proof. exact ex_hypotheses. Qed.

(* ---- compositions (work package X; proofs/ComposeSymmetry.v) ---- *)
From TV Require spec.Rules proofs.Generator proofs.ComposeSymmetry.
(* C15 + C03: the id table of a size is closed under every symmetry, and the transform of moves is one-to-one *)
Theorem C15_table_closed_under_syms : forall g n m, In g syms -> 0 <= n ->
  (In m (table n) <-> In (transform_move g m n) (table n)).
Proof. exact ComposeSymmetry.table_closed_under_syms. Qed.
Theorem C15_transform_move_injective : forall g n m m', In g syms ->
  transform_move g m n = transform_move g m' n -> m = m'.
Proof. exact ComposeSymmetry.transform_move_injective. Qed.
(* C15 + C03: the set of legal moves (accepted table entries, C03_populate_reaches_all) of the transformed position is the transform of the set of legal moves *)
Theorem C15_legal_moves_transform : forall g p m, wf p -> In g syms ->
  (In m (filter (Generator.accepted p) (table (size p))) <->
   In (transform_move g m (size p))
      (filter (Generator.accepted (transform_position g p)) (table (size (transform_position g p))))).
Proof. exact ComposeSymmetry.legal_moves_transform. Qed.
(* ... as lists: transforming the legal moves gives a permutation of the legal moves of the transformed position *)
Theorem C15_legal_moves_transform_perm : forall g p, wf p -> In g syms ->
  Permutation.Permutation
    (map (fun m => transform_move g m (size p)) (filter (Generator.accepted p) (table (size p))))
    (filter (Generator.accepted (transform_position g p)) (table (size p))).
Proof. exact ComposeSymmetry.legal_moves_transform_perm. Qed.
(* C15 + C01 + C03: the same in rulebook terms - a rulebook step is carried to a rulebook step between the transformed positions, and the canonical rulebook-legal moves correspond *)
Theorem C15_rulebook_step_transform : forall g p m p', Rules.wf_pos p -> In g syms ->
  Rules.legal_step p m p' ->
  Rules.legal_step (transform_position g p) (transform_move g m (size p)) (transform_position g p').
Proof. exact ComposeSymmetry.rulebook_step_transform. Qed.
Theorem C15_rulebook_moves_transform : forall g p m, Rules.wf_pos p -> In g syms ->
  ((Generator.canonical m /\ exists p', Rules.legal_step p m p') <->
   (Generator.canonical (transform_move g m (size p)) /\
    exists p'', Rules.legal_step (transform_position g p) (transform_move g m (size p)) p'')).
Proof. exact ComposeSymmetry.rulebook_moves_transform. Qed.

(* ---- the same about SYMMETRIES / transform_position / transform_move / symmetries REGENERATED FROM THE SOURCE (gen/SymmetryGen.v, harness/sym2coq.py against model/NumpyLite.v + PySem.v; proofs/SymmetryGenEq.v, SymmetryGenCor.v) ---- *)
From TV Require gen.Consts gen.GameGen gen.SymmetryGen.
From TV Require Import model.Tak model.Road model.PySem model.Symmetry.
From TV Require Import proofs.GameGenEq proofs.TieSymmetry proofs.SymmetryProofs proofs.SymmetryExamples.
From TV Require Import proofs.SymmetryGenEq proofs.SymmetryGenCor.
(* the module-level comprehension, evaluated with NumpyLite, yields the matrices of the running interpreter *)
Theorem C15_source_symmetries_const :
  SymmetryGen.SYMMETRIES = Ok Consts.symmetries.
Proof. exact gen_symmetries_const. Qed.
(* transform_position, translated, IS the hand model's: same position and no exception (the store indices stay in
   range - C15_index_guard -, pos[i, j] is on the board, the unpackings have three values) *)
Theorem C15_source_transform_position_eq :
  forall g p, wf p -> 1 <= size p -> In g syms ->
  SymmetryGen.transform_position g p = Ok (Symmetry.transform_position g p).
Proof. exact gen_transform_position_eq. Qed.
Theorem C15_source_transform_position_never_crashes :
  forall g p, wf p -> 1 <= size p -> In g syms ->
  forall e, SymmetryGen.transform_position g p <> Crash e.
Proof. exact gen_transform_position_never_crashes. Qed.
(* transform_move, translated, for EVERY move value and size: the hand model's move, no KeyError *)
Theorem C15_source_transform_move_eq :
  forall g m n, In g syms ->
  SymmetryGen.transform_move g m n = Ok (Symmetry.transform_move g m n).
Proof. exact gen_transform_move_eq. Qed.
(* symmetries, translated *)
Theorem C15_source_symmetries_eq :
  forall p, wf p -> 1 <= size p ->
  SymmetryGen.symmetries p = Ok (Symmetry.symmetries p).
Proof. exact gen_symmetries_eq. Qed.
(* C15_move_commutes on the translated functions of symmetry.py AND game.py *)
Theorem C15_source_move_commutes :
  forall g p m, wf p -> 1 <= size p -> In g syms -> slide_has_drops m ->
  exists q m', SymmetryGen.transform_position g p = Ok q /\ SymmetryGen.transform_move g m (size p) = Ok m' /\
    bind (GameGen.move p m) (SymmetryGen.transform_position g) = GameGen.move q m'.
Proof. exact gen_move_commutes. Qed.
(* C15_winner_invariant / ply_side_reserves on the translated functions *)
Theorem C15_source_winner_invariant :
  forall g p, wf p -> 1 <= size p -> In g syms ->
  exists q, SymmetryGen.transform_position g p = Ok q /\ GameGen.winner q = GameGen.winner p /\
            ply q = ply p /\ to_move q = to_move p /\ pos_stones q = pos_stones p.
Proof. exact gen_winner_invariant. Qed.
(* C15_symmetries_spec on the translated functions *)
Theorem C15_source_symmetries_spec :
  forall p, wf p -> 1 <= size p ->
  exists l, SymmetryGen.symmetries p = Ok l /\
    (exists rest, l = (mat_id, p) :: rest) /\
    NoDup (map snd l) /\
    (forall q, In q (map snd l) <-> exists g, In g syms /\ SymmetryGen.transform_position g p = Ok q) /\
    (forall g q, In (g, q) l -> In g syms /\ SymmetryGen.transform_position g p = Ok q).
Proof. exact gen_symmetries_spec. Qed.
