(* T01 - the model of the rules is REGENERATED FROM THE SOURCE and proved equal to the hand-written model.
   Property theorems only.  gen/GameGen.v is written by harness/py2coq.py from the current text of
   python/tak/game.py, moves.py, pieces.py on every run, against model/PySem.v (Python's semantics of
   indexing / slicing / item assignment / exceptions: outcomes `Ok v | Illegal | Crash kind`).  The proofs are
   proofs/GameGenEq.v (equalities) and proofs/GameGenCor.v (C01-C04 transported).

   `shape p`            : zlen (board p) = size p * size p         (weaker than Rules.wf_pos)
   `slide_has_drops m`  : is_slide (mt m) = true -> mslides m <> None
                          (a slide whose slides field is Python's None raises TypeError in the code; that is
                          modelled - T01_move_slide_none - and excluded where the statement needs it)
   `embed (Some v) = Ok v`, `embed None = Illegal`. *)
From Coq Require Import ZArith List Bool.
From TV Require Import model.Tak model.Road model.PySem spec.Rules spec.MoveSpec.
From TV Require Import proofs.Generator proofs.Invariant proofs.GameGenEq proofs.GameGenCor.
From TV Require spec.RoadSpec model.RoadPy.
From TV Require gen.GameGen.
Import ListNotations.
Open Scope Z_scope.

(* Position.move, translated, IS the hand model's move on every board of size^2 squares, for EVERY move value
   (any integers as coordinates, any type, any integer list as drops): same successor, IllegalMove exactly when
   the model refuses, and no other exception (embed has no Crash) *)
Theorem T01_gen_move_eq : forall p m, shape p -> slide_has_drops m -> GameGen.move p m = embed (Tak.move p m).
Proof. exact gen_move_eq. Qed.
(* "no other error escapes", as a theorem about the translated source *)
Theorem T01_gen_move_never_crashes : forall p m, shape p -> slide_has_drops m -> forall e, GameGen.move p m <> Crash e.
Proof. exact gen_move_never_crashes. Qed.
(* outside the domain: a slide with slides = None is refused if off the board or in the opening, else TypeError *)
Theorem T01_gen_move_slide_none : forall p m, shape p -> is_slide (mt m) = true -> mslides m = None ->
  GameGen.move p m = if in_bounds (size p) (mx m) (my m) && (2 <=? ply p) then Crash TypeError else Illegal.
Proof. exact gen_move_slide_none. Qed.
(* hence, with no restriction on the move at all: a successor is returned exactly when the model returns it *)
Theorem T01_gen_move_ok_iff : forall p m p', shape p -> (GameGen.move p m = Ok p' <-> Tak.move p m = Some p').
Proof. exact gen_move_ok_iff. Qed.
(* the drop loop of _move_slide (the loop invariant is len(carry) = sum of the remaining drops, all drops >= 1) *)
Theorem T01_gen_slide_loop_eq : forall p dx dy, shape p -> forall drops nb x y carry,
  zlen nb = size p * size p -> Forall (fun d => 1 <= d) drops -> zlen carry = zsum drops ->
  res_map st_board (GameGen._move_slide_for1 p dx dy nb x y carry drops) =
  embed (slide_go p dx dy x y carry nb drops).
Proof. exact gen_slide_loop_eq. Qed.
(* Position.all_moves *)
Theorem T01_gen_all_moves_eq : forall p, shape p -> size p <= 8 -> GameGen.all_moves p = Ok (Tak.all_moves p).
Proof. exact gen_all_moves_eq. Qed.
(* moves.all_moves_for_size (ALL_SLIDES has entries 0..8; a negative size gives the empty table) *)
Theorem T01_gen_table_eq : forall n, n <= 8 -> GameGen.all_moves_for_size n = Ok (table n).
Proof. exact gen_table_eq. Qed.
(* moves.ALL_SLIDES as built by the module-level loop over _compute_slides *)
Theorem T01_gen_all_slides_eq : GameGen.ALL_SLIDES = Ok (map all_slides (seq 0 9)).
Proof. exact gen_all_slides_eq. Qed.
(* Position._walk: the translated work-list loop IS the statement-by-statement model of model/RoadPy.v for every fuel and
   every state of `seen` / `q` (walk_result: inl = the loop ended (False), inr b = `return b`) *)
Theorem T01_gen_walk_loop_eq : forall p c horiz, shape p -> forall fuel seen q,
  res_map walk_result (GameGen._walk_while1 fuel p c horiz seen q) = embed_fuel (RoadPy.walk_loop fuel p c horiz seen q).
Proof. exact gen_walk_loop_eq. Qed.
(* _walk with the fuel the translator gives it, 5*size^2 + len(seeds) + 1 *)
Theorem T01_gen_walk_eq : forall p seeds c horiz, shape p ->
  GameGen._walk p seeds c horiz =
  embed_fuel (RoadPy.walk_py (Z.to_nat (5 * size p * size p + zlen seeds + 1)) p seeds c horiz).
Proof. exact gen_walk_eq. Qed.
(* Position.has_road, translated (is_road, _walk, the four searches with short-circuit `or`): never out of fuel, no
   IndexError, and the answer of the closure model - on every position with a size^2 board of size >= 1 *)
Theorem T01_gen_has_road_eq : forall p, RoadSpec.wf_pos p -> GameGen.has_road p = Ok (Road.has_road p).
Proof. exact gen_has_road_eq. Qed.
(* ... and of size 0 (road_ok p := 0 <= size p /\ shape p) *)
Theorem T01_gen_has_road_ok : forall p, road_ok p -> GameGen.has_road p = Ok (Road.has_road p).
Proof. exact gen_has_road_ok. Qed.
(* Position.winner now calls the TRANSLATED has_road *)
Theorem T01_gen_winner_eq : forall p, RoadSpec.wf_pos p -> GameGen.winner p = Ok (Road.winner p).
Proof. exact gen_winner_eq. Qed.
Theorem T01_gen_winner_ok : forall p, road_ok p -> GameGen.winner p = Ok (Road.winner p).
Proof. exact gen_winner_ok. Qed.
(* Position.flat_counts / flats_winner; no guard *)
Theorem T01_gen_flat_counts_eq : forall p,
  GameGen.flat_counts p = Ok (flat_count_of p White, flat_count_of p Black).
Proof. exact gen_flat_counts_eq. Qed.
Theorem T01_gen_flats_winner_eq : forall p, GameGen.flats_winner p = Ok (Road.flats_winner p).
Proof. exact gen_flats_winner_eq. Qed.
(* the small functions: no guard *)
Theorem T01_gen_small_functions : forall p x y t c,
  GameGen.to_move p = Tak.to_move p /\ GameGen.in_bounds p x y = Tak.in_bounds (size p) x y /\
  GameGen.is_slide t = Tak.is_slide t /\ (Tak.is_slide t = true -> GameGen.direction t = Ok (Tak.direction t)) /\
  GameGen.flip c = Ok (Tak.flip c).
Proof. exact gen_small_functions. Qed.

(* Position.from_squares with Config.flat_count / capstone_count (used by parse_tps, T13): `config_ok cfg` = when no custom
   count is given the size indexes the nine-entry DEFAULT tables (0..8); embed_value None = the ValueError
   "Wrong board size" *)
Theorem T01_gen_from_squares_eq : forall cfg sqs pl, config_ok cfg ->
  GameGen.from_squares cfg sqs pl = embed_value (Tak.from_squares cfg sqs pl).
Proof. exact gen_from_squares_eq. Qed.

(* ---- C01 / C03 / C04 / C02 transported to the translated source ---- *)
(* C01: accepted iff the rulebook relation allows it, with exactly the prescribed successor (every move value) *)
Theorem T01_gen_move_iff : forall p m p', wf_pos p -> (GameGen.move p m = Ok p' <-> legal_step p m p').
Proof. exact gen_move_iff. Qed.
(* C01: accepted with the prescribed successor or refused exactly when the rules allow nothing; never Crash *)
Theorem T01_gen_move_total : forall p m, wf_pos p -> slide_has_drops m ->
  (exists p', GameGen.move p m = Ok p' /\ legal_step p m p') \/
  (GameGen.move p m = Illegal /\ ~ exists p', legal_step p m p').
Proof. exact gen_move_total. Qed.
(* C03: every canonical move the translated move accepts is listed by the translated generator exactly once and
   is an entry of the translated table of the size; everything listed is in that table *)
Theorem T01_gen_generator_complete : forall p m p', wf_pos p -> canonical m -> GameGen.move p m = Ok p' ->
  exists l t, GameGen.all_moves p = Ok l /\ GameGen.all_moves_for_size (size p) = Ok t /\
              In m l /\ count_occ mv_eq_dec l m = 1%nat /\ In m t /\ incl l t.
Proof. exact gen_generator_complete. Qed.
Theorem T01_gen_generator_complete_rulebook : forall p m p', wf_pos p -> canonical m -> legal_step p m p' ->
  exists l, GameGen.all_moves p = Ok l /\ In m l /\ count_occ mv_eq_dec l m = 1%nat.
Proof. exact gen_generator_complete_rulebook. Qed.
(* C04: every move the translated move accepts preserves the consistency invariant and advances the ply by one *)
Theorem T01_gen_inv_step : forall cfg p m p',
  Inv cfg p -> GameGen.move p m = Ok p' -> Inv cfg p' /\ ply p' = ply p + 1.
Proof. exact gen_inv_step. Qed.
Theorem T01_gen_wf_step : forall p m p', wf_pos p -> GameGen.move p m = Ok p' -> wf_pos p'.
Proof. exact gen_wf_step. Qed.
(* C02: the translated has_road answers the declarative road question (both roads -> the player who just moved ...) *)
Theorem T01_gen_has_road_verdict : forall p, RoadSpec.wf_pos p ->
  forall o, RoadSpec.road_verdict p o <-> GameGen.has_road p = Ok o.
Proof. exact gen_has_road_verdict. Qed.
(* C02: the translated winner reports exactly the outcome the property describes *)
Theorem T01_gen_winner_outcome : forall p, RoadSpec.wf_pos p ->
  forall r, RoadSpec.outcome p r <-> GameGen.winner p = Ok r.
Proof. exact gen_winner_outcome. Qed.
