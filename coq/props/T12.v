(* T12 - trainer.dedup_batch and self_play.encode_games are REGENERATED FROM THE SOURCE (gen/BatchGen.v, written by
   harness/torch2coq.py from the current text of trainer.py / self_play.py against model/TorchLite.v and model/PySem.v)
   and proved equal to the hand-written model (model/Batch.v); the C12 theorems are transported to the generated
   functions.  Property theorems only; proofs in proofs/BatchGenEq.v.
   `to_dict b` is the hand model's batch as the dict of tensors positions / mask / moves / values / results (floats as
   rationals in lowest terms, `nq q = Fin (Qred q)`); `well_shaped b`: the tensors are rectangular and positions and
   mask have one shape (`rect W K b`).  The callees of encode_games are the oracles `logits_oracle` (Transcript.logits of
   model/SelfPlay.v), `results_oracle` (Transcript.results), `encode_batch_oracle enc` (padding of encode_batch over the
   abstract per-position encoding `enc`). *)
From Coq Require Import ZArith QArith List.
From TV Require Import model.Tak model.PySem model.SelfPlay model.Batch model.TorchLite.
From TV Require Import spec.SelfPlaySpec spec.BatchSpec proofs.BatchGenEq.
From TV Require gen.BatchGen.
Import ListNotations.
Open Scope Z_scope.

(* the translated dedup_batch IS the model's dedup on every well-shaped batch *)
Theorem T12_gen_dedup_eq : forall b, well_shaped b -> BatchGen.dedup_batch (to_dict b) = Ok (to_dict (dedup b)).
Proof. exact gen_dedup_eq. Qed.
(* ... so no KeyError / IndexError / shape error escapes there *)
Theorem T12_gen_dedup_never_crashes : forall b, well_shaped b -> forall e, BatchGen.dedup_batch (to_dict b) <> Crash e.
Proof. exact gen_dedup_never_crashes. Qed.
(* the translated encode_games IS the model's encode_games (non-empty list of aligned transcripts whose logits exist) *)
Theorem T12_gen_encode_games_eq : forall enc logs b, logs <> [] -> Forall wf_transcript logs ->
  Batch.encode_games enc logs = Some b ->
  BatchGen.encode_games logits_oracle results_oracle (encode_batch_oracle enc) logs = Ok (to_dict b).
Proof. exact gen_encode_games_eq. Qed.

(* C12_dedup_keys for the generated function *)
Theorem T12_gen_dedup_keys : forall b, well_shaped b ->
  exists o, BatchGen.dedup_batch (to_dict b) = Ok (to_dict o) /\
    map key_of o = first_occ (map key_of b) /\ NoDup (map key_of o) /\
    (forall k, In k (map key_of o) <-> In k (map key_of b)).
Proof. exact gen_dedup_keys. Qed.
(* C12_dedup_mean *)
Theorem T12_gen_dedup_mean : forall b, well_shaped b ->
  exists o, BatchGen.dedup_batch (to_dict b) = Ok (to_dict o) /\
    forall k r, nth_error o k = Some r ->
      let occ := occurrences (key_of r) b in
      occ <> [] /\ (r_value r == qmean (map r_value occ))%Q /\ (r_label r == qmean (map r_label occ))%Q /\
      forall w, Forall (fun r' => length (r_policy r') = w) occ ->
        length (r_policy r) = w /\
        forall j, (nth j (r_policy r) 0 == qmean (map (fun r' => nth j (r_policy r') 0) occ))%Q.
Proof. exact gen_dedup_mean. Qed.
(* C12_dedup_nodup_id *)
Theorem T12_gen_dedup_nodup_id : forall b, well_shaped b -> NoDup (map key_of b) ->
  exists o, BatchGen.dedup_batch (to_dict b) = Ok (to_dict o) /\ Forall2 row_equiv o b.
Proof. exact gen_dedup_nodup_id. Qed.
(* C12_dedup_mask_positions *)
Theorem T12_gen_dedup_mask_positions : forall b, well_shaped b ->
  exists o, BatchGen.dedup_batch (to_dict b) = Ok (to_dict o) /\
    forall k r, nth_error o k = Some r ->
      exists i r0, first_at b (key_of r) i r0 /\ r_tokens r = r_tokens r0 /\ r_mask r = r_mask r0.
Proof. exact gen_dedup_mask_positions. Qed.
(* C12_rows_in_order *)
Theorem T12_gen_rows_in_order : forall enc logs, logs <> [] -> Forall wf_transcript logs ->
  (forall tr, In tr logs -> logits tr <> None) ->
  exists b, BatchGen.encode_games logits_oracle results_oracle (encode_batch_oracle enc) logs = Ok (to_dict b) /\
    let w := max_len (map enc (flat_map t_positions logs)) in
    length b = length (flat_map t_positions logs) /\
    forall g tr i p, nth_error logs g = Some tr -> nth_error (t_positions tr) i = Some p ->
      exists lg pol v, logits tr = Some lg /\ nth_error lg i = Some pol /\ nth_error (t_values tr) i = Some v /\
        nth_error b (offset logs g + i) =
          Some (mkRow (pad_tokens w (enc p)) (pad_mask w (enc p)) pol v (inject_Z (label (t_result tr) p))).
Proof. exact gen_rows_in_order. Qed.
