(* T11 - play_one_game, Transcript.results and Transcript.logits of python/tak/self_play.py are REGENERATED FROM THE
   SOURCE and proved equal to the hand-written model.  Property theorems only.  gen/SelfPlayGen.v is written by
   harness/py2coq.py from the current text of self_play.py on every run, against model/PySem.v and
   model/SelfPlaySem.v (the engine is an oracle stream of `otree`, floats are rationals); proofs in
   proofs/SelfPlayGenEq.v.
   `kids_ok cfg pos s`: along the run, every consumed answer has children (m, q) with move pos m = Some q and a
   sampled index >= 0 (the code takes the next position from the child, the model applies the move).
   `embed_outcome (Done tr _ _) = Ok tr`; `Err Exhausted / ZeroSims / BadIndex` = `Crash OracleExhausted /
   ZeroDivisionError / IndexError`. *)
From Coq Require Import ZArith QArith Qabs List Bool.
From TV Require gen.Consts.
From TV Require Import model.Tak model.Road model.PySem model.SelfPlay model.SelfPlaySem spec.SelfPlaySpec.
From TV Require Import proofs.GameGenEq proofs.SelfPlayGenEq.
From TV Require gen.GameGen gen.EncodingGen gen.SelfPlayGen.
Import ListNotations.
Open Scope Z_scope.

(* the translated loop IS the model's loop, for every configuration with a board size whose default piece counts
   exist and every oracle stream whose children are consistent *)
Theorem T11_gen_play_one_game_eq : forall cfg s, 0 <= sp_size cfg <= 8 -> kids_ok cfg (start cfg) s ->
  SelfPlayGen.play_one_game cfg s = embed_outcome (SelfPlay.play_one_game cfg (map answer_of s)).
Proof. exact gen_play_one_game_eq. Qed.
(* the `while True` loop on fuel: any fuel above ply_limit - ply + 1 is enough; max(ply_limit + 2, 1) is what is given *)
Theorem T11_gen_play_loop : forall cfg fuel pos s log, road_ok pos ->
  kids_ok cfg pos s -> (Z.to_nat (sp_ply_limit cfg - ply pos + 1) < fuel)%nat ->
  res_map st_log (SelfPlayGen.play_one_game_while1 fuel cfg s pos log) =
  match play_loop cfg pos (map answer_of s) with
  | Done tr _ _ => Ok (tr_app log tr)
  | Err e => Crash (exn_of e)
  end.
Proof. exact gen_play_loop. Qed.
(* a transcript, or one of the three exceptions of the model; never OutOfFuel, never anything else *)
Theorem T11_gen_play_outcomes : forall cfg s, 0 <= sp_size cfg <= 8 -> kids_ok cfg (start cfg) s ->
  (exists tr, SelfPlayGen.play_one_game cfg s = Ok tr) \/
  (exists e, SelfPlayGen.play_one_game cfg s = Crash e /\ (e = OracleExhausted \/ e = ZeroDivisionError \/ e = IndexError)).
Proof. exact gen_play_outcomes. Qed.
(* Transcript.results, every transcript *)
Theorem T11_gen_results_eq : forall tr, SelfPlayGen.results tr = map inject_Z (SelfPlay.results tr).
Proof. exact gen_results_eq. Qed.
(* Transcript.logits: the same rows, or IndexError / KeyError where the model says None *)
Theorem T11_gen_logits_agrees : forall tr,
  (forall p0, nth_error (t_positions tr) 0 = Some p0 -> 0 <= size p0 <= 6) ->
  (length (t_moves tr) <= length (t_probs tr))%nat ->
  lagrees (SelfPlayGen.logits tr) (SelfPlay.logits tr).
Proof. exact gen_logits_agrees. Qed.
(* encoding.encode_move / MAX_MOVE_ID / MOVES_BY_SIZE built from the translated all_moves_for_size *)
Theorem T11_gen_encode_move_eq : forall n m, 0 <= n <= 6 ->
  EncodingGen.encode_move n m = embed_key (index_of m (table n) 0).
Proof. exact gen_encode_move_eq. Qed.
Theorem T11_gen_move_tables :
  EncodingGen.MOVES_BY_SIZE = Ok (map table [0; 1; 2; 3; 4; 5; 6]) /\ EncodingGen.MAX_MOVE_ID = Ok Consts.MAX_MOVE_ID.
Proof. exact gen_move_tables. Qed.
(* Position.from_config *)
Theorem T11_gen_from_config_eq : forall cfg, config_ok cfg -> GameGen.from_config cfg = Ok (Tak.from_config cfg).
Proof. exact gen_from_config_eq. Qed.

(* ---- C11 transported to the translated source ---- *)
(* positions start at the initial position and each follows from the previous by a recorded candidate; ply i at index i *)
Theorem T11_gen_transcript_chain : forall cfg s tr, 0 <= sp_size cfg <= 8 -> kids_ok cfg (start cfg) s ->
  SelfPlayGen.play_one_game cfg s = Ok tr ->
  (forall p0, nth_error (t_positions tr) 0 = Some p0 -> p0 = start cfg) /\
  (forall i p q, nth_error (t_positions tr) i = Some p -> nth_error (t_positions tr) (S i) = Some q ->
     exists a m, nth_error (map answer_of s) i = Some a /\ nth_error (t_moves tr) i = Some (a_moves a) /\
                 picks a m /\ In m (a_moves a) /\ move p m = Some q) /\
  (forall i p, nth_error (t_positions tr) i = Some p -> ply p = Z.of_nat i).
Proof. exact gen_transcript_chain. Qed.
(* play stops at the first terminal position, at resignation, or when the ply limit is exceeded *)
Theorem T11_gen_stops_exactly : forall cfg s tr, 0 <= sp_size cfg <= 8 -> kids_ok cfg (start cfg) s ->
  SelfPlayGen.play_one_game cfg s = Ok tr -> exists e f,
  (forall i p, nth_error (t_positions tr) i = Some p -> ~ over_limit cfg p /\ ~ terminal p) /\
  (forall i a, (S i < length (t_positions tr))%nat -> nth_error (map answer_of s) i = Some a -> ~ resign_now cfg a) /\
  match e with
  | ExitLimit => over_limit cfg f /\ final_after cfg (start cfg) (map answer_of s) tr f
  | ExitRules r => ~ over_limit cfg f /\ snd (winner f) = Some r /\ final_after cfg (start cfg) (map answer_of s) tr f
  | ExitResign => exists n a, length (t_positions tr) = S n /\ nth_error (t_positions tr) n = Some f /\
                    nth_error (map answer_of s) n = Some a /\ resign_now cfg a
  end.
Proof. exact gen_stops_exactly. Qed.
(* the recorded result is the winner by the rules or by resignation, None for draws and games cut off by the limit *)
Theorem T11_gen_result_correct : forall cfg s tr, 0 <= sp_size cfg <= 8 -> kids_ok cfg (start cfg) s ->
  SelfPlayGen.play_one_game cfg s = Ok tr -> exists e f,
  SelfPlay.play_one_game cfg (map answer_of s) = Done tr e f /\
  match e with
  | ExitRules r => snd (winner f) = Some r /\ t_result tr = fst (winner f)
  | ExitLimit => t_result tr = None
  | ExitResign =>
      exists n a, length (t_positions tr) = S n /\ nth_error (t_positions tr) n = Some f /\
        nth_error (map answer_of s) n = Some a /\ resign_now cfg a /\
        ((sp_threshold cfg <= a_vzero a)%Q -> t_result tr = Some (to_move f)) /\
        (~ (sp_threshold cfg <= a_vzero a)%Q -> t_result tr = Some (flip (to_move f))) /\
        ((0 < sp_threshold cfg)%Q ->
           ((0 < a_vzero a)%Q -> t_result tr = Some (to_move f)) /\
           ((a_vzero a < 0)%Q -> t_result tr = Some (flip (to_move f))) /\
           ~ (a_vzero a == 0)%Q)
  end.
Proof. exact gen_result_correct. Qed.
(* labels: +1 where the winner is to move, -1 where the loser is, 0 throughout when there is no winner *)
Theorem T11_gen_labels_correct : forall tr,
  length (SelfPlayGen.results tr) = length (t_positions tr) /\
  (t_result tr = None -> forall i p, nth_error (t_positions tr) i = Some p -> nth_error (SelfPlayGen.results tr) i = Some (inject_Z 0)) /\
  (forall w, t_result tr = Some w -> forall i p, nth_error (t_positions tr) i = Some p ->
     (to_move p = w -> nth_error (SelfPlayGen.results tr) i = Some (inject_Z 1)) /\
     (to_move p = flip w -> nth_error (SelfPlayGen.results tr) i = Some (inject_Z (-1)))).
Proof. exact gen_labels_correct. Qed.

(* ---- the hypothesis kids_ok discharged for the real engine (proofs/ComposeSelfPlayGen.v; C08's invariant) ---- *)
From TV Require model.Mcts proofs.MctsProofs proofs.ComposeSelfPlay proofs.ComposeSelfPlayGen.
(* `otree_of_tree solve C t pick`: the oracle answer read off a search tree of model/Mcts.v - children as
   (move, position stored in the child), reported policy, value, simulations, v_zero, sampled index.
   `engine_run_ok cutoff solve C cfg pos ts`: along the run, every consumed tree is Good (C08), expanded, grown for the
   position it answers (n_pos t = that position) and its sampled index is >= 0; the next tree answers the position
   stored in the picked child. *)
Theorem T11_engine_kids_ok : forall cutoff solve C cfg ts pos,
  ComposeSelfPlayGen.engine_run_ok cutoff solve C cfg pos ts ->
  kids_ok cfg pos (ComposeSelfPlayGen.engine_stream solve C ts).
Proof. exact ComposeSelfPlayGen.engine_kids_ok. Qed.
(* END TO END: the play_one_game translated from the source, run on the answers of a real engine, is the model's game;
   and when it returns a transcript, every recorded candidate is legal, candidates are pairwise distinct, each next
   position is the one stored in the chosen child AND the result of applying the picked candidate, the game starts at
   the initial position with ply i at index i *)
Theorem T11_gen_real_engine : forall cutoff solve C cfg ts, 0 <= sp_size cfg <= 8 ->
  ComposeSelfPlayGen.engine_run_ok cutoff solve C cfg (start cfg) ts ->
  let s := map (fun tp => ComposeSelfPlay.answer_of_tree solve C (fst tp) (snd tp)) ts in
  SelfPlayGen.play_one_game cfg (ComposeSelfPlayGen.engine_stream solve C ts) = embed_outcome (SelfPlay.play_one_game cfg s) /\
  forall tr, SelfPlayGen.play_one_game cfg (ComposeSelfPlayGen.engine_stream solve C ts) = Ok tr ->
    exists e f, SelfPlay.play_one_game cfg s = Done tr e f /\
    (forall i p ms m, nth_error (t_positions tr) i = Some p -> nth_error (t_moves tr) i = Some ms ->
       In m ms -> exists q, move p m = Some q) /\
    (forall i ms, nth_error (t_moves tr) i = Some ms -> NoDup ms) /\
    (forall i p q, nth_error (t_positions tr) i = Some p -> nth_error (t_positions tr) (S i) = Some q ->
       exists t pk ks k m, nth_error s i = Some (ComposeSelfPlay.answer_of_tree solve C t pk) /\ Mcts.n_pos t = p /\
         Mcts.n_kids t = Some ks /\ nthz ks pk = Some k /\ Mcts.n_move k = Some m /\ Mcts.n_pos k = q /\ move p m = Some q) /\
    (forall p0, nth_error (t_positions tr) 0 = Some p0 -> p0 = start cfg) /\
    (forall i p, nth_error (t_positions tr) i = Some p -> ply p = Z.of_nat i).
Proof. exact ComposeSelfPlayGen.gen_real_engine. Qed.
