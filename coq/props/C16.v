(* C16 - a position's evaluation does not depend on batching or padding.
   Property theorems only; proofs are in proofs/.  Level: PARTIAL by design - every theorem
   is about the dataflow regenerated from the source (gen/XformerIR.v), under the stated
   semantics of the torch operators (model/Attention.v: masked keys get weight exactly 0,
   all other operators act per token of a row); "up to floating-point noise" and the
   behaviour of the kernels (fused paths, reduced precision) are runtime behaviour that
   harness/props/c16.py validates numerically and no theorem here covers. *)
From Coq Require Import String List Bool Arith ZArith Reals.
From TV Require gen.Consts.
From TV Require Import model.Attention gen.XformerIR proofs.AttentionProofs proofs.AttentionTie proofs.SoftmaxReals.
Import ListNotations.

(* tie: the IR regenerated from the forward methods denotes the hand model (all layers get the
   same attn_mask and padding_mask; q = k = v = attn_ln(resid); key_padding_mask = padding_mask; ...) *)
Theorem C16_ir_denotes_model : forall (tok act layer : Type) (O : ops tok act layer),
  (forall L am pm xs, run_resblock O L [VActs xs; amv am; pmv pm] = VActs (resblock O L am pm xs)) /\
  (forall layers causal pm xs, run_torso O layers causal [VActs xs; pmv pm] = VActs (torso O layers causal pm xs)) /\
  (forall pk toks, run_text_embedding O pk [VToks toks] = VActs (text_embedding O pk toks)) /\
  (forall xs, run_policy_value O [VActs xs] = pv_val (policy_value O xs)) /\
  (forall xs, run_text_unembedding O [VActs xs] = VActs (text_unembedding O xs)) /\
  (forall pk layers causal pm toks,
     run_transformer O (run_policy_value O) pk layers causal [VToks toks; pmv pm]
       = pv_val (transformer_pv O pk layers causal pm toks) /\
     run_transformer O (run_policy_value O) pk layers causal [VToks toks]
       = pv_val (transformer_pv O pk layers causal None toks)) /\
  (forall pk layers causal pm toks,
     run_transformer O (run_text_unembedding O) pk layers causal [VToks toks; pmv pm]
       = VActs (transformer_lm O pk layers causal pm toks)).
Proof. exact ir_denotes_model. Qed.
(* tie: what __init__ binds to each member (per-token classes, batch_first attention, head widths) *)
Theorem C16_init_tables_tie :
  resblock_init = [("attn_ln", KTokenOp "LayerNorm"); ("attn", KAttention true); ("mlp_ln", KTokenOp "LayerNorm");
                   ("mlp_up", KLinearOut "cfg.d_mlp"); ("mlp_act", KTokenOp "ReLU"); ("mlp_down", KLinearOut "cfg.d_model")]%string /\
  torso_init = [("autoregressive_mask", KIfCfg "autoregressive_mask" "ar_mask"); ("layers", KLayers "Resblock")]%string /\
  posenc_sin_init = [("pe", KBuffer)]%string /\ posenc_learned_init = [("pe", KBuffer)]%string /\
  text_embedding_init = [("embedding", KEmbedding);
                         ("positional_encoding", KByCfg "positional_encoding"
                            [("sin", "PositionalEncoding"); ("learned", "LearnedPositionalEncoding"); ("none", "lambda")])]%string /\
  transformer_init = [("embedding", KModule "TextEmbedding"); ("torso", KModule "Torso"); ("unembedding", KCfgHead)]%string /\
  text_unembedding_init = [("final_ln", KTokenOp "LayerNorm"); ("unembedding", KLinearOut "cfg.n_vocab")]%string /\
  policy_value_init = [("final_ln", KTokenOp "LayerNorm"); ("v_proj", KLinearOut "1"); ("move_proj", KLinearOut "encoding.MAX_MOVE_ID")]%string.
Proof. exact init_tables_tie. Qed.
(* tie: the mask is the second positional argument all the way down, and every producer passes it there *)
Theorem C16_call_sites_tie :
  map fst (m_params transformer_forward) = ["input"; "padding_mask"]%string /\
  map fst (m_params torso_forward) = ["acts"; "padding_mask"]%string /\
  map fst (m_params resblock_forward) = ["resid"; "attn_mask"; "padding_mask"]%string /\
  forallb (fun p => match pr_argpos p with Some n => Nat.eqb n 1 | None => match pr_mask p with MAbsent => true | _ => false end end)
          mask_producers = true /\
  map pr_name mask_producers =
    ["tak/model/batches.py:Position.extra_inputs"; "tak/model/batches.py:PositionValuePolicy.extra_inputs";
     "tak/alphazero/data.py:ReplayBufferBatch.extra_inputs"; "tak/model/server.py:Server.run_model";
     "tak/model/wrapper.py:ModelWrapper.evaluate"]%string.
Proof. exact call_sites_tie. Qed.
(* tie: the causal mask and every padding mask are allocated with dtype=torch.bool (a float mask would be additive in torch) *)
Theorem C16_mask_dtypes_tie :
  mask_dtypes = [("xformer/model.py:ar_mask", "torch.bool"); ("tak/model/encoding.py:_encode_batch", "torch.bool");
                 ("tak/model/server.py:Server.run_model", "torch.bool")]%string.
Proof. exact mask_dtypes_tie. Qed.
(* tie: every mask producer of the source yields true = padding at exactly the positions >= the row's real length *)
Theorem C16_producers_polarity : Forall polarity_ok mask_producers.
Proof. exact producers_polarity. Qed.

(* padded = unpadded: the real tokens' activations do not depend on the pads (any number of layers, causal or not) *)
Theorem C16_padding_invariance : forall (tok act layer : Type) (O : ops tok act layer) layers causal xs pads,
  firstn (length xs) (torso O layers causal (Some (mask_of (length xs) (length pads))) (xs ++ pads))
  = torso O layers causal None xs.
Proof. exact (@padding_invariance). Qed.
(* the same through embedding (positional encoding by index) and the PolicyValue head, for any mask with that polarity *)
Theorem C16_pv_padding_invariance : forall (tok act layer : Type) (O : ops tok act layer) pk layers causal pm toks padtoks,
  toks <> [] -> flags_padding pm (length toks) (length padtoks) ->
  transformer_pv O pk layers causal pm (toks ++ padtoks) = transformer_pv O pk layers causal None toks.
Proof. exact (@pv_padding_invariance). Qed.
(* ... and the per-token TextUnembedding head *)
Theorem C16_lm_padding_invariance : forall (tok act layer : Type) (O : ops tok act layer) pk layers causal pm toks padtoks,
  flags_padding pm (length toks) (length padtoks) ->
  firstn (length toks) (transformer_lm O pk layers causal pm (toks ++ padtoks)) = transformer_lm O pk layers causal None toks.
Proof. exact (@lm_padding_invariance). Qed.
(* rows never interact: output i of a batch is the evaluation of row i by itself *)
Theorem C16_batch_independence : forall (tok act layer : Type) (O : ops tok act layer) pk layers causal rows i,
  nth_error (batch_pv O pk layers causal rows) i
  = option_map (fun r => transformer_pv O pk layers causal (snd r) (fst r)) (nth_error rows i).
Proof. exact (@batch_independence). Qed.
(* clause 1 (alone = in a batch padded to the longest position next to any other positions, for every padding producer of
   the source).  partial: exact equality in the dataflow model; "up to floating-point noise" of the real kernels is not covered *)
Theorem C16_alone_or_batched_partial : forall p, In p mask_producers -> pr_rows p = RZeroPadded ->
  (forall W, mask_width (pr_mask p) W = W) ->
  forall (tok act layer : Type) (O : ops tok act layer) pk layers causal pad ps i q,
    nth_error ps i = Some q -> q <> [] ->
    nth_error (batch_pv O pk layers causal (padded_batch pad (denote_mask (pr_mask p)) ps)) i
    = Some (transformer_pv O pk layers causal None q).
Proof. exact producers_alone_or_batched. Qed.
(* clause 2 (causal mask: the output at token i does not depend on later tokens).  partial: in the dataflow model, as above *)
Theorem C16_causal_partial : forall (tok act layer : Type) (O : ops tok act layer) layers pm i xs ys d,
  firstn (i + 1) xs = firstn (i + 1) ys ->
  nth i (torso O layers true pm xs) d = nth i (torso O layers true pm ys) d.
Proof. exact (@causal). Qed.
(* the same without a default element: equal prefixes give equal output prefixes *)
Theorem C16_causal_prefix : forall (tok act layer : Type) (O : ops tok act layer) layers pm k xs ys,
  firstn k xs = firstn k ys -> firstn k (torso O layers true pm xs) = firstn k (torso O layers true pm ys).
Proof. exact (@causal_prefix). Qed.
(* the PolicyValue head depends only on the torso's activation at index 0 *)
Theorem C16_head_reads_token0 : forall (tok act layer : Type) (O : ops tok act layer) xs ys,
  hd_error xs = hd_error ys -> policy_value O xs = policy_value O ys.
Proof. exact (@head_reads_token0). Qed.
(* clause 3 (the single-position evaluator returns a probability vector over all move ids and a value in [-1,1]).
   partial: over the reals, for softmax/tanh of the head's outputs; float32 rounding is validated numerically *)
Theorem C16_evaluate_is_distribution_partial : forall move_logits v_pre,
  Z.of_nat (length move_logits) = Consts.MAX_MOVE_ID ->
  let (probs, value) := evaluate_R move_logits v_pre in
  Z.of_nat (length probs) = Consts.MAX_MOVE_ID /\ (forall p, In p probs -> (0 < p <= 1)%R) /\ rsum probs = 1%R /\ (-1 <= value <= 1)%R.
Proof. exact evaluate_is_distribution. Qed.
(* tie: ModelWrapper.evaluate is (softmax(out["moves"][0], dim=0), out["values"][0]) *)
Theorem C16_wrapper_evaluate_tie :
  wrapper_evaluate = {| ev_moves_key := "moves"; ev_value_key := "values"; ev_row := 0; ev_softmax_dim := 0 |}.
Proof. exact wrapper_evaluate_tie. Qed.
