(* C01 - applying a move follows the rules of Tak exactly, or the move is refused.
   Property theorems only; the rulebook relation `legal_step` is spec/Rules.v,
   the proofs are proofs/MoveRules*.v.  `move : position -> mv -> option position`
   (model/Tak.v) has the two outcomes Some successor / None (= IllegalMove) and no
   third one by construction.  Quantification: every well-formed position (size
   3..8, size^2 squares, only tops may be walls/capstones), EVERY move value
   (any integers as coordinates, any type, any integer list as drops). *)
From Coq Require Import ZArith List.
(* tie G: the regenerated DIRECTIONS / MoveType values / default piece counts equal the model's (closed by computation) *)
From TV Require gen.Consts proofs.TieGame.
From TV Require Import model.Tak spec.Rules proofs.MoveRules.
Import ListNotations.
Open Scope Z_scope.

(* whatever is accepted is allowed by the rules, and the successor is the prescribed one *)
Theorem C01_move_sound : forall p m p', wf_pos p -> move p m = Some p' -> legal_step p m p'.
Proof. exact move_sound. Qed.
(* whatever the rules allow is accepted, with exactly the prescribed successor *)
Theorem C01_move_complete : forall p m p', wf_pos p -> legal_step p m p' -> move p m = Some p'.
Proof. exact move_complete. Qed.
(* the rules prescribe at most one successor ("no other board results") *)
Theorem C01_legal_step_functional : forall p m p' p'',
  legal_step p m p' -> legal_step p m p'' -> p' = p''.
Proof. exact legal_step_functional. Qed.
(* a move is accepted if and only if the rules allow it *)
Theorem C01_move_iff : forall p m p', wf_pos p -> (move p m = Some p' <-> legal_step p m p').
Proof. exact move_iff. Qed.
(* every move is either accepted with the prescribed successor or refused (IllegalMove),
   and it is refused exactly when the rules allow no successor; there is no third outcome *)
Theorem C01_move_total : forall p m, wf_pos p ->
  (exists p', move p m = Some p' /\ legal_step p m p') \/
  (move p m = None /\ ~ exists p', legal_step p m p').
Proof. exact move_total. Qed.

(* ---- the same statements about the function REGENERATED FROM THE SOURCE (gen/GameGen.v, written by
   harness/py2coq.py from the current game.py on every run against model/PySem.v = Python's indexing /
   slicing / exception semantics; proofs/GameGenEq.v, GameGenCor.v).  A slide whose slides field is
   Python's None raises TypeError in the code; that is outside the property's domain ("any tuple of
   integer drop counts") and is excluded by slide_has_drops where needed. ---- *)
From TV Require Import model.PySem proofs.GameGenEq proofs.GameGenCor.
From TV Require gen.GameGen.
(* the translated Position.move returns a successor exactly when the rulebook allows it, and that successor *)
Theorem C01_source_move_iff : forall p m p', wf_pos p -> (GameGen.move p m = Ok p' <-> legal_step p m p').
Proof. exact gen_move_iff. Qed.
(* accepted with the prescribed successor, or refused with IllegalMove exactly when no successor is allowed *)
Theorem C01_source_move_total : forall p m, wf_pos p -> slide_has_drops m ->
  (exists p', GameGen.move p m = Ok p' /\ legal_step p m p') \/
  (GameGen.move p m = Illegal /\ ~ exists p', legal_step p m p').
Proof. exact gen_move_total. Qed.
(* "no other error escapes": no IndexError / negative-index wrap / TypeError, as a theorem about the translated source *)
Theorem C01_source_move_never_crashes : forall p m, shape p -> slide_has_drops m -> forall e, GameGen.move p m <> Crash e.
Proof. exact gen_move_never_crashes. Qed.
(* the translated source computes exactly the hand model, for every move value on every board of size^2 squares *)
Theorem C01_source_is_model : forall p m, shape p -> slide_has_drops m -> GameGen.move p m = embed (Tak.move p m).
Proof. exact gen_move_eq. Qed.
