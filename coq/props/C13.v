(* C13 - TPS position notation is faithful and round-trips.
   Property theorems only; proofs are in proofs/Tps*.v.  Strings are lists of
   code points; parse_tps : str -> Accept p | Reject (= IllegalTPS) | Unspecified. *)
From Coq Require Import ZArith List.
From TV Require gen.Consts.
From TV Require Import model.Tak model.Tps spec.TpsSpec proofs.TpsStrings proofs.TpsProofs.
Import ListNotations.
Open Scope Z_scope.

(* formatting any position (size 3..8, full board, marks only on top) with a standard piece set and parsing it
   back gives an equal position: board, side to move, move number and reserves *)
Theorem C13_parse_format : forall p, wf p -> standard_reserves p -> parse_tps (format_tps p) = Accept p.
Proof. exact parse_format. Qed.
(* parsing canonical TPS then formatting returns the same text *)
Theorem C13_format_parse_canonical : forall s p, parse_tps s = Accept p -> canonical s -> format_tps p = s.
Proof. exact format_parse_canonical. Qed.
(* ... and canonical is what the writer itself produces, so the clause is not about an empty set of texts *)
Theorem C13_canonical_format : forall p, wf p -> canonical (format_tps p).
Proof. exact canonical_format. Qed.
(* the text means what the TPS standard says: ranks from the top rank down, files left to right, stacks bottom to
   top with the mark on the top piece, x<n> for runs of empty squares; ply = 2*(move-1) + player-1
   (rules out mirrored / transposed / upside-down readings that a self round trip cannot see) *)
Theorem C13_parse_meaning : forall s p, parse_tps s = Accept p ->
  size p = text_size s /\
  zlen (board p) = size p * size p /\
  (forall x y, 0 <= x < size p -> 0 <= y < size p -> sq p x y = stack_of_text (cell_text s x y)) /\
  ply p = 2 * (dec_value (move_field s) - 1) + dec_value (who_field s) - 1.
Proof. exact parse_meaning. Qed.
(* the reserves of an accepted text are the standard piece set of its size minus the pieces on the board *)
Theorem C13_parse_reserves : forall s p, parse_tps s = Accept p -> standard_reserves p.
Proof. exact parse_reserves. Qed.
(* text that is not well-formed TPS is refused (Reject = IllegalTPS): wrong field count, player not exactly 1/2,
   move number empty / not ASCII digits / < 1 / longer than the 4300 digits int() converts, empty cell or rank,
   x followed by anything but nothing or one digit 1-8, a mark on nothing or not last, a foreign character,
   ragged ranks, size outside 3..8 *)
Theorem C13_parse_refuses : forall s, must_refuse s -> parse_tps s = Reject.
Proof. exact parse_refuses. Qed.
(* "no other error escapes": the model of the code has no outcome besides Accept and IllegalTPS (in particular
   Position.from_squares never raises "Wrong board size" inside parse_tps, and int() is guarded) *)
Theorem C13_never_unspecified : forall s, parse_tps s <> Unspecified.
Proof. exact never_unspecified. Qed.
(* the string primitives the spec is written with are characterised: split is the inverse of join on pieces
   that do not contain the separator *)
Theorem C13_split_characterised : forall sep,
  (forall s, join [sep] (split sep s) = s) /\
  (forall s a, In a (split sep s) -> ~ In sep a) /\
  (forall l, l <> [] -> Forall (fun a => ~ In sep a) l -> split sep (join [sep] l) = l).
Proof. exact split_characterised. Qed.
(* the reader and the printer of decimal numerals are inverse to each other *)
Theorem C13_decimal_round_trip :
  (forall n, 0 <= n -> int_of_digits (digits n) = n) /\
  (forall m, m <> [] -> (forall c, In c m -> is_digit_char c) -> (forall t, m <> ch_0 :: t) ->
             digits (int_of_digits m) = m).
Proof. exact decimal_round_trip. Qed.
(* tie (G): the default piece sets regenerated from the repository are the ones the model uses *)
Theorem C13_defaults_tie :
  Consts.default_pieces = Tak.default_pieces /\ Consts.default_caps = Tak.default_caps.
Proof. exact defaults_tie. Qed.

(* ---- the same about parse_tps / format_tps REGENERATED FROM THE SOURCE (gen/TpsGen.v, written by harness/py2coq.py from the current tps.py on every run against model/PySem.v; proofs/TpsGenEq.v) ---- *)
From Coq Require Import ZArith List Bool.
From TV Require Import model.Tak model.PySem model.Tps spec.TpsSpec proofs.GameGenEq proofs.TpsGenEq.
From TV Require gen.GameGen gen.TpsGen.
(* the translated reader IS the model's reader, for EVERY string (any code points, any length) *)
Theorem C13_source_parse_tps_eq :
  forall s, TpsGen.parse_tps s = embed_tps (Tps.parse_tps s).
Proof. exact gen_parse_tps_eq. Qed.
(* "no other error escapes": a position or IllegalTPS, nothing else, for every string *)
Theorem C13_source_parse_total :
  forall s, (exists p, TpsGen.parse_tps s = Ok p) \/ TpsGen.parse_tps s = Illegal.
Proof. exact gen_parse_total. Qed.
(* the translated writer IS the model's writer whenever the numbers it prints are below the str() digit limit *)
Theorem C13_source_format_tps_eq :
  forall p, size p < 10 ^ 4300 -> Z.abs (ply p / 2 + 1) < 10 ^ 4300 ->
  TpsGen.format_tps p = Ok (Tps.format_tps p).
Proof. exact gen_format_tps_eq. Qed.
(* format then parse returns the position: through the translated writer and the translated reader *)
Theorem C13_source_parse_format :
  forall p, wf p -> standard_reserves p ->
  exists t, TpsGen.format_tps p = Ok t /\ TpsGen.parse_tps t = Ok p.
Proof. exact gen_parse_format. Qed.
(* parsing canonical TPS then formatting returns the same text *)
Theorem C13_source_format_parse_canonical :
  forall s p,
  TpsGen.parse_tps s = Ok p -> canonical s -> TpsGen.format_tps p = Ok s.
Proof. exact gen_format_parse_canonical. Qed.
(* the text means what the TPS standard says *)
Theorem C13_source_parse_meaning :
  forall s p, TpsGen.parse_tps s = Ok p ->
  size p = text_size s /\ zlen (board p) = size p * size p /\
  (forall x y, 0 <= x < size p -> 0 <= y < size p -> sq p x y = stack_of_text (cell_text s x y)) /\
  ply p = 2 * (dec_value (move_field s) - 1) + dec_value (who_field s) - 1.
Proof. exact gen_parse_meaning. Qed.
(* malformed text is refused with IllegalTPS *)
Theorem C13_source_parse_refuses :
  forall s, must_refuse s -> TpsGen.parse_tps s = Illegal.
Proof. exact gen_parse_refuses. Qed.
