(* C19 - training state survives snapshots, mode switches and interruption.
   Property theorems only; proofs are in proofs/SnapshotProofs.v.  The save
   program the theorems speak about is gen/SaveIR.v, regenerated from
   saving.py / trainer.py / loading.py on every run. *)
From Coq Require Import String.
From Coq Require Import ZArith List Bool.
From TV Require Import gen.SaveIR gen.TrainIR model.Snapshot proofs.SnapshotProofs.
From TV Require proofs.SnapshotTie.
Import ListNotations.
Open Scope Z_scope.

(* tie: the generated program has the shape the proofs cover (any number >= 1 of makedirs, any list of
   writes into step_N.tmp), every file load_state reads is written under the same name from the same
   component, file names are distinct, elapsed.yaml is among the files read, resume probes `latest` *)
Theorem C19_ir_tie :
  save_prog = canon_prog the_m the_ws /\ (1 <= the_m)%nat /\ NoDup (map fst the_ws) /\
  incl load_reads the_ws /\ elapsed_file <> None /\ resume_probe = PLatest.
Proof. exact (conj tie_prog (conj tie_m (conj tie_nodup (conj tie_incl (conj tie_elapsed tie_probe))))). Qed.

(* clause 1: saving a snapshot and loading it into a fresh run restores every component exactly - the
   components being state.model.state_dict() AS IT IS AT SAVE TIME, state.opt.state_dict(),
   state.replay_buffer, state.elapsed (see C19_master_copy_in_snapshot_refuted for what that excludes) (codec
   round trip = Section hypothesis, validated bit for bit by the correspondence).  The third hypothesis is
   the skipped re-save: when `latest` already designates the step, nothing is written, so the state must be
   the one stored there (within a run the state only changes in train_step, which increments the step). *)
Theorem C19_save_load_exact :
  forall (B : Type) (step_of : B -> option Z) (V : Type) (ser : comp -> V -> B) (de : comp -> B -> option V),
  (forall c v, de c (ser c v) = Some v) ->
  forall (s : fs B) (step : Z) (mem : comp -> V),
  Inv step_of s -> step_of (ser CElapsed (mem CElapsed)) = Some step ->
  (skip step s = true -> loaded s = Some (payload (fun c => ser c (mem c)))) ->
  incl load_reads the_ws /\ NoDup (map fst the_ws) /\
  restore V de (exec (save_ops s (save_of V ser step mem)) s) =
    Some (map (fun r => (snd r, Some (mem (snd r)))) load_reads).
Proof. exact (@save_load_exact). Qed.

(* clause 1 over whole histories (periodic, on request, end of run, repeated saves of one step): after the
   last save the run directory loads exactly what that save was given *)
Theorem C19_history_load_exact :
  forall (B : Type) (step_of : B -> option Z) (h : history B) (s : fs B) (sv0 : save B),
  Inv step_of s -> wf_hist step_of h -> coherent s h -> h <> [] ->
  loaded (exec (hist_ops s h) s) = Some (payload (sv_data (last h sv0))).
Proof. exact (@history_load_exact). Qed.

(* clause 4, from an empty run directory, for ALL histories and ALL crash indices: the directory resumes
   from the last completed save or from the one in progress (complete), never Broken, and never Scratch
   once one save has completed.  PARTIAL: a crash is a prefix of the operation list (process crash,
   completed operations persist); fsync / power-loss reordering and a crash inside rmtree are outside
   the model. *)
Theorem C19_crash_safe_partial :
  forall (B : Type) (step_of : B -> option Z) (h : history B) (k : nat), wf_hist step_of h ->
  let r := resume step_of (crash k (hist_ops [] h) []) in
  In r (allowed Scratch [] h k) /\ r <> Broken /\ ((0 < completed_with save_prog [] h k)%nat -> r <> Scratch).
Proof. exact (@crash_safe). Qed.

(* the same from any run directory that satisfies the invariant - in particular the directory a crashed run
   left behind (the invariant holds at every crash point), so interrupted-and-resumed runs compose *)
Theorem C19_crash_safe_from_partial :
  forall (B : Type) (step_of : B -> option Z) (h : history B) (s : fs B) (k : nat),
  Inv step_of s -> wf_hist step_of h ->
  let r := resume step_of (crash k (hist_ops s h) s) in
  Inv step_of (crash k (hist_ops s h) s) /\
  In r (allowed (resume step_of s) s h k) /\ r <> Broken /\
  ((0 < completed_with save_prog s h k)%nat -> r <> Scratch).
Proof. exact (@crash_safe_from). Qed.

(* no file-system call of a save raises (FileExistsError, ENOTEMPTY, ...) on such a directory *)
Theorem C19_save_never_raises :
  forall (B : Type) (step_of : B -> option Z) (h : history B) (s : fs B),
  Inv step_of s -> wf_hist step_of h -> exec_ok (hist_ops s h) s = true.
Proof. exact (@save_never_raises). Qed.

(* clause 3: after k training steps of a fresh run the replay buffer is the last min k cap batches *)
Theorem C19_window_exact :
  forall (A : Type) (cap : Z) (bs : list A),
  window_run cap [] bs = lastn (Z.to_nat (Z.min (Z.of_nat (List.length bs)) cap)) bs /\
  Z.of_nat (List.length (window_run cap [] bs)) <= Z.max 0 cap.
Proof. exact (@window_exact). Qed.
(* ... and from a restored buffer within the cap *)
Theorem C19_window_exact_from :
  forall (A : Type) (cap : Z) (bs buf : list A), (List.length buf <= Z.to_nat cap)%nat ->
  window_run cap buf bs = lastn (Nat.min (List.length buf + List.length bs) (Z.to_nat cap)) (buf ++ bs) /\
  (List.length (window_run cap buf bs) <= Z.to_nat cap)%nat.
Proof. exact (@window_exact_from). Qed.

(* clause 2: serve_mode then train_mode restores every training parameter bit for bit, whatever the
   conversion does to the values and whether or not train_params aliases the live parameters *)
Theorem C19_mode_roundtrip_exact :
  forall (T : Type) (cast : dtype -> T -> T) (on_cpu : bool) (serve train : dtype) (dflt : dtype * T)
         (m : list (@pstate T)),
  Forall (wf_param train dflt) m ->
  values dflt (train_mode cast train dflt (serve_mode cast on_cpu serve dflt m)) = values dflt m.
Proof. exact (@mode_roundtrip_exact). Qed.
(* clause 2 over ALL tensors the forward pass reads (named_parameters and named_buffers): exact provided every
   tensor a conversion touches is a state_dict entry; the correspondence checks that on the real model *)
Theorem C19_mode_roundtrip_all_exact :
  forall (T : Type) (cast : dtype -> T -> T) (on_cpu : bool) (serve train : dtype) (dflt : dtype * T)
         (m : list (bool * @pstate T)),
  Forall (fun t => wf_param train dflt (snd t) /\ (fst t = true \/ dtype_eqb train serve = true)) m ->
  values_all dflt (train_mode_all cast train dflt (serve_mode_all cast on_cpu serve dflt m)) = values_all dflt m.
Proof. exact (@mode_roundtrip_all_exact). Qed.
(* ... and that hypothesis is needed: a tensor outside state_dict() comes back converted twice *)
Theorem C19_tensor_outside_state_dict_refuted :
  exists (p : @pstate Z), wf_param F32 (F32, 0) p /\
    let t' := train_tensor demo_cast F32 (F32, 0) (serve_tensor demo_cast true BF16 (F32, 0) (false, p)) in
    cell (snd t') (live (snd t')) (F32, 0) <> cell p (live p) (F32, 0).
Proof. exact tensor_outside_state_dict_refuted. Qed.
(* when exactly the master copy is the live tensor itself (validated on the implementation by data_ptr) *)
Theorem C19_master_aliases_live_iff :
  forall (T : Type) (cast : dtype -> T -> T) (on_cpu : bool) (serve train : dtype) (dflt : dtype * T)
         (p : @pstate T),
  wf_param train dflt p -> aliased (serve_param cast on_cpu serve p dflt) = on_cpu && dtype_eqb train serve.
Proof. exact (@master_aliases_live_iff). Qed.

(* clause 1 x clause 2: a snapshot is taken after train_step's closing serve_mode(); without a dtype conversion
   the stored tensor is the training parameter ... *)
Theorem C19_snapshot_after_serve_exact_same_dtype :
  forall (T : Type) (cast : dtype -> T -> T) (on_cpu : bool) (train : dtype) (dflt : dtype * T) (p : @pstate T),
  wf_param train dflt p ->
  let q := serve_param cast on_cpu train p dflt in cell q (live q) dflt = cell p (live p) dflt.
Proof. exact (@snapshot_after_serve_exact_same_dtype). Qed.
(* ... with serve_dtype <> train_dtype it is the converted tensor; the master copy is only in train_params,
   which no snapshot contains (known finding `serve-precision-snapshot`) *)
Theorem C19_master_copy_in_snapshot_refuted :
  exists (p : @pstate Z), wf_param F32 (F32, 0) p /\
    let q := serve_param demo_cast true BF16 p (F32, 0) in
    cell q (live q) (F32, 0) <> cell p (live p) (F32, 0) /\
    (match master q with Some i => cell q i (F32, 0) | None => (F32, 0) end) = cell p (live p) (F32, 0).
Proof. exact master_copy_in_snapshot_refuted. Qed.

(* F9, on the translation of saving.py before the fix: a crash between unlink(latest) and symlink resumes
   from scratch although a save had completed ... *)
Theorem C19_crash_unlink_symlink_refuted :
  exists (h : history CB) (k : nat), wf_hist cstep_of h /\
    (0 < completed_with save_prog_prefix [] h k)%nat /\
    resume cstep_of (crash k (hist_ops_with save_prog_prefix [] h) []) = Scratch.
Proof. exact crash_unlink_symlink_refuted. Qed.
(* ... and a crash inside the repeated save of one step leaves `latest` on a truncated file *)
Theorem C19_crash_resave_refuted :
  exists (h : history CB) (k : nat), wf_hist cstep_of h /\
    resume cstep_of (crash k (hist_ops_with save_prog_prefix [] h) []) = Broken.
Proof. exact crash_resave_refuted. Qed.
(* the first version of the fix (c2ddcaf, amended since): a step directory left by an interrupted run was
   kept, the resumed run's save of that step stored nothing *)
Theorem C19_resave_after_crash_stale_refuted :
  let s1 := crash 31 (hist_ops_with save_prog_c2ddcaf [] stale_run1) [] in
  resume cstep_of s1 = Resumed 1 /\
  loaded (exec (hist_ops_with save_prog_c2ddcaf s1 stale_run2) s1) <> Some (payload (sv_data (csave 2 3))).
Proof. exact resave_after_crash_stale_refuted. Qed.

(* ---- ties of the window, the mode switch and the call order to trainer.py (gen/TrainIR.v, regenerated) ---- *)
(* the replay-window statements of train_step denote window_append (comparison `>`, bound, slice [1:]) *)
Theorem C19_window_tie : forall (A : Type) (cap : Z) (buf : list A) (b : A),
  wexec window_prog cap buf b = window_append cap buf b.
Proof. exact SnapshotTie.window_tie. Qed.
(* serve_mode: capture k: v.cpu(), then convert *)
Theorem C19_serve_mode_tie : forall (T : Type) (cast : dtype -> T -> T) on_cpu serve train dflt (t : bool * @pstate T),
  mexec cast on_cpu serve train dflt serve_prog t = serve_tensor cast on_cpu serve dflt t.
Proof. exact SnapshotTie.serve_mode_tie. Qed.
(* train_mode: convert, THEN load_state_dict(train_params) *)
Theorem C19_train_mode_tie : forall (T : Type) (cast : dtype -> T -> T) on_cpu serve train dflt (t : bool * @pstate T),
  mexec cast on_cpu serve train dflt train_prog t = train_tensor cast train dflt t.
Proof. exact SnapshotTie.train_mode_tie. Qed.
Theorem C19_train_step_order_tie :
  train_step_events = [EWindow; ETrainMode; EStepInc; EOptimise; EServeMode].
Proof. exact SnapshotTie.train_step_order_tie. Qed.
(* the optimiser is constructed before load_or_init_model (load_state_dict must copy INTO its parameters) *)
Theorem C19_run_async_order_tie :
  run_async_events = [EBuildModel; EBuildOpt; ELoadOrInit; EServeMode; ETrainLoop].
Proof. exact SnapshotTie.run_async_order_tie. Qed.
Theorem C19_train_loop_order_tie :
  loop_pre = [EHook "before_run"] /\
  loop_body = [EHook "before_rollout"; EHook "before_train"; ETrainStep; EHook "after_step"; EHook "finalize"] /\
  loop_post = [EHook "after_run"].
Proof. exact SnapshotTie.train_loop_order_tie. Qed.
(* documentation of the known finding serve-precision-snapshot: every saving hook runs after serve_mode *)
Theorem C19_hooks_run_in_serving_precision :
  In ("after_step", Serving) hook_observations /\ In ("after_run", Serving) hook_observations /\
  forall h m, In (h, m) hook_observations -> (h = "after_step" \/ h = "after_run") -> m = Serving.
Proof. exact SnapshotTie.hooks_run_in_serving_precision. Qed.
(* which snapshot a start resumes from: run_dir/latest before load_model before init_weights, read from the
   regenerated branch structure of load_or_init_model *)
Theorem C19_resume_precedence_tie :
  (forall lm, choose_branch true lm true = Some ALoadState) /\
  (forall rd ex, rd && ex = false -> choose_branch rd true ex = Some ALoadInitial) /\
  (forall rd ex, rd && ex = false -> choose_branch rd false ex = Some AInitWeights).
Proof. exact SnapshotTie.resume_precedence_tie. Qed.
