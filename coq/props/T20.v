(* T20 - the Coq model of the two datasets is REGENERATED FROM THE SOURCE on every run
   (gen/DatasetGen.v, by harness/data2coq.py, written against model/TorchData.v) and PROVED equal to
   the hand model model/Dataset.v on the stated domain; C20's main theorems are transported to
   the generated functions.  Property theorems only; proofs are in proofs/DatasetGenEq.v.
   Every `= Ok ...` is also the statement that the translated code raises no exception there.
   Abbreviations (proofs/DatasetGenEq.v): dict_ok d = NoDup (map fst d); live o d g = o's data is
   d and its generator g; abs o d g = the hand model's state (config of o, erase d, g);
   wf_dict d = d non-empty, dict_ok, every tensor has nrows (erase d) rows; prepared = the loaded
   dict after uint8 -> long and v[: batches*batch_size]; hload = erase o load;
   rb_dom = non-empty window, every buffer with 2-D positions / mask of one shape and >= 1 row,
   integer / 0-1 payloads and the first buffer's other keys with its trailing shapes and dtypes. *)
From Coq Require Import ZArith List Permutation.
From TV Require Import model.Dataset model.TorchData gen.DatasetGen proofs.DatasetProofs proofs.DatasetGenEq.
Import ListNotations.
Open Scope Z_scope.

(* Dataset(path, batch_size, batches, seed) [attrs __init__ + __attrs_post_init__] = post_init *)
Theorem T20_gen_new_eq :
  forall (gen : Type) (seed_gen : Z -> gen) (load : list Z -> tdict) (path : list Z) (bs : Z) (batches : option Z) (seed : Z),
  dict_ok (load path) ->
  exists o : dsobj gen,
    ds_new gen seed_gen load path bs batches seed = Ok o /\
    live gen o (prepared load path bs batches) (seed_gen seed) /\
    cfg_of gen o = mkConfig path bs batches seed /\
    abs gen o (prepared load path bs batches) (seed_gen seed) = post_init gen seed_gen (hload load) (mkConfig path bs batches seed).
Proof. exact gen_new_eq. Qed.

(* _next_epoch = next_epoch: ONE randperm answer indexes every field *)
Theorem T20_gen_next_epoch_eq :
  forall (gen : Type) (randperm : gen -> nat -> list nat * gen),
  (forall (g : gen) (n : nat), Permutation (fst (randperm g n)) (seq 0 n)) ->
  forall (o : dsobj gen) (d : tdict) (g : gen), live gen o d g -> wf_dict d ->
  let p := fst (randperm g (nrows (erase d))) in
  let g' := snd (randperm g (nrows (erase d))) in
  ds_next_epoch gen randperm o = Ok (shuffled_dict d p, set_generator o g') /\
  (erase (shuffled_dict d p), abs gen (set_generator o g') d g') = next_epoch gen randperm (abs gen o d g).
Proof. exact gen_next_epoch_eq. Qed.

(* fastforward_epochs(n) = fastforward (any integer n; negative n: no effect) *)
Theorem T20_gen_fastforward_eq :
  forall (gen : Type) (randperm : gen -> nat -> list nat * gen),
  (forall (g : gen) (n : nat), Permutation (fst (randperm g n)) (seq 0 n)) ->
  forall (o : dsobj gen) (d : tdict) (g : gen) (n : Z), live gen o d g -> wf_dict d ->
  exists g' : gen,
    ds_fastforward_epochs gen randperm o n = Ok (set_generator o g') /\
    abs gen (set_generator o g') d g' = fastforward gen randperm (Z.to_nat n) (abs gen o d g).
Proof. exact gen_fastforward_eq. Qed.

(* list(ds) [__iter__ completely consumed] = iter, for batch_size >= 1 *)
Theorem T20_gen_iter_eq :
  forall (gen : Type) (randperm : gen -> nat -> list nat * gen),
  (forall (g : gen) (n : nat), Permutation (fst (randperm g n)) (seq 0 n)) ->
  forall (o : dsobj gen) (d : tdict) (g : gen), live gen o d g -> wf_dict d -> 1 <= o_batch_size o ->
  exists (ys : list tdict) (g' : gen),
    ds_iter gen randperm o = Ok (ys, set_generator o g') /\
    (map erase ys, abs gen (set_generator o g') d g') = iter gen randperm (abs gen o d g).
Proof. exact gen_iter_eq. Qed.

(* __getstate__ / __setstate__ = getstate / setstate *)
Theorem T20_gen_pickle_eq :
  forall (gen : Type) (seed_gen : Z -> gen) (load : list Z -> tdict) (o : dsobj gen) (d : tdict) (g : gen),
  live gen o d g -> dict_ok (load (o_path o)) ->
  exists (st : dsstate) (o' : dsobj gen),
    ds_getstate gen o = Ok st /\ ds_setstate gen seed_gen load st = Ok o' /\
    live gen o' (prepared load (o_path o) (o_batch_size o) (o_batches o)) (seed_gen (o_seed o)) /\
    cfg_of gen o' = cfg_of gen o /\
    abs gen o' (prepared load (o_path o) (o_batch_size o) (o_batches o)) (seed_gen (o_seed o))
    = setstate gen seed_gen (hload load) (getstate gen (abs gen o d g)).
Proof. exact gen_pickle_eq. Qed.

(* cat_replay_buffer = cat_replay_buffer *)
Theorem T20_gen_cat_eq : forall (bufs : list tdict) (bs : Z) (f : option tdict), rb_dom bufs ->
  exists b0 : tdict,
    hd_error bufs = Some b0 /\
    rb_cat_replay_buffer (mkRb bufs bs f) = Ok (merged b0 bufs) /\
    erase (merged b0 bufs) = cat_replay_buffer (map erase bufs) /\ dict_ok (merged b0 bufs).
Proof. exact gen_cat_eq. Qed.

(* ReplayBufferDataset(bufs, bs, "cpu") and one completely consumed __iter__ = rb_epoch *)
Theorem T20_gen_rb_iter_eq :
  forall (gen : Type) (randperm : gen -> nat -> list nat * gen),
  (forall (g : gen) (n : nat), Permutation (fst (randperm g n)) (seq 0 n)) ->
  forall (bufs : list tdict) (bs : Z) (g : gen), rb_dom bufs -> rb_wf (map erase bufs) -> 1 <= bs ->
  let n := total_rows (hpos bufs) in
  exists (o : rbobj) (ys : list tdict),
    rb_new bufs bs = Ok o /\
    rb_iter gen randperm o g = Ok (ys, snd (randperm g n)) /\
    map erase ys = rb_epoch (map erase bufs) (fst (randperm g n)) bs.
Proof. exact gen_rb_iter_eq. Qed.

(* C20 "each stored row exactly once ... keeping all fields of a row together", about the translated __iter__ *)
Theorem T20_gen_epoch_is_permutation :
  forall (gen : Type) (randperm : gen -> nat -> list nat * gen),
  (forall (g : gen) (n : nat), Permutation (fst (randperm g n)) (seq 0 n)) ->
  forall (o : dsobj gen) (d : tdict) (g : gen), live gen o d g -> wf_dict d -> 1 <= o_batch_size o ->
  exists (ys : list tdict) (g' : gen) (idx : list nat),
    ds_iter gen randperm o = Ok (ys, set_generator o g') /\
    Permutation idx (seq 0 (nrows (erase d))) /\
    (forall (j : nat) (k : fname) (t : tensor), nth_error d j = Some (k, t) ->
       length (t_rows t) = nrows (erase d) /\
       Permutation (concat (map (batch_field j) (map erase ys))) (t_rows t) /\
       concat (map (batch_field j) (map erase ys)) = map (fun i : nat => nth i (t_rows t) []) idx /\
       Forall (fun b : list (fname * tensor) => map fst b = map fst d) ys).
Proof. exact gen_epoch_is_permutation. Qed.

(* C20 "fast-forwarding n epochs equals consuming n epochs", about the translated code *)
Theorem T20_gen_fastforward_eq_consume :
  forall (gen : Type) (randperm : gen -> nat -> list nat * gen),
  (forall (g : gen) (n : nat), Permutation (fst (randperm g n)) (seq 0 n)) ->
  forall (o : dsobj gen) (d : tdict) (g : gen) (n : nat), live gen o d g -> wf_dict d -> 1 <= o_batch_size o ->
  exists o' : dsobj gen,
    ds_fastforward_epochs gen randperm o (Z.of_nat n) = Ok o' /\ gconsume gen randperm n o = Ok o'.
Proof. exact gen_fastforward_eq_consume. Qed.

(* C20 "a pickled and restored dataset restarts the same stream": unpickling IS construction *)
Theorem T20_gen_pickle_restarts :
  forall (gen : Type) (seed_gen : Z -> gen) (load : list Z -> tdict) (o : dsobj gen),
  ds_setstate gen seed_gen load (state_of o) = ds_new gen seed_gen load (o_path o) (o_batch_size o) (o_batches o) (o_seed o).
Proof. exact gen_pickle_restarts. Qed.

(* C20 "the padding is marked by the mask", about the translated cat_replay_buffer *)
Theorem T20_gen_merge_padding : forall (bufs : list tdict) (bs : Z) (f : option tdict), rb_dom bufs ->
  let W := maxwidth (hpos bufs) in
  exists (flat : tdict) (P M : tensor),
    rb_cat_replay_buffer (mkRb bufs bs f) = Ok flat /\
    d_get flat S_positions = Ok P /\ d_get flat S_mask = Ok M /\
    P = mkT INT64 [Z.of_nat W] (concat (map (map (pad W)) (hpos bufs))) /\
    M = mkT BOOL [Z.of_nat W] (concat (map (map (pad W)) (hmsk bufs))) /\
    (forall r : row, In r (concat (hpos bufs)) -> (length r <= W)%nat) /\
    erase flat = cat_replay_buffer (map erase bufs).
Proof. exact gen_merge_padding. Qed.

(* C20 for the translated ReplayBufferDataset.__iter__ *)
Theorem T20_gen_rb_epoch_is_permutation :
  forall (gen : Type) (randperm : gen -> nat -> list nat * gen),
  (forall (g : gen) (n : nat), Permutation (fst (randperm g n)) (seq 0 n)) ->
  forall (bufs : list tdict) (bs : Z) (g : gen), rb_dom bufs -> rb_wf (map erase bufs) -> 1 <= bs ->
  exists (o : rbobj) (ys : list tdict) (g' : gen),
    rb_new bufs bs = Ok o /\ rb_iter gen randperm o g = Ok (ys, g') /\
    (forall (j : nat) (k : fname) (rows : list row),
       nth_error (cat_replay_buffer (map erase bufs)) j = Some (k, rows) ->
       Permutation (concat (map (batch_field j) (map erase ys))) rows).
Proof. exact gen_rb_epoch_is_permutation. Qed.
