(* T14P - ptn.parse_move and PTN.parse are REGENERATED FROM THE SOURCE and proved equal to the hand-written model
   (model/Ptn.v).  Property theorems only.  gen/PtnParseGen.v is written by harness/ptn2coq.py from the current text of
   python/tak/ptn/ptn.py on every run (parse_move, PTN.parse, slide_map, place_map; the regular-expression literals
   as terms of spec/RegexSpec.v) against model/PySem.v + model/PtnSem.v; proofs in proofs/PtnParseGenEq.v.
   Chain for the regular expressions: pattern literal = show re_k (computation) -> re_k is a term the library knows ->
   the library function on that term is sound for the declarative semantics (proofs/TiePtnRegex.v). *)
From Coq Require Import ZArith List Bool.
From TV Require Import model.Tak model.PySem model.Ptn spec.PtnSpec spec.RegexSpec model.PtnSem.
From TV Require Import proofs.PtnProofs proofs.TiePtnRegex proofs.PtnParseGenEq.
From TV Require gen.PtnParseGen.
Import ListNotations.
Open Scope Z_scope.

(* every pattern literal of the source is the printed form of the term the translator parsed it into *)
Theorem T14P_gen_regex_text :
  show PtnParseGen.re_0 = PtnParseGen.re_0_src /\ show PtnParseGen.re_1 = PtnParseGen.re_1_src /\
  show PtnParseGen.re_2 = PtnParseGen.re_2_src /\ show PtnParseGen.re_3 = PtnParseGen.re_3_src /\
  show PtnParseGen.re_4 = PtnParseGen.re_4_src /\ show PtnParseGen.re_5 = PtnParseGen.re_5_src /\
  show PtnParseGen.re_6 = PtnParseGen.re_6_src /\
  forallb syntax_ok [PtnParseGen.re_0; PtnParseGen.re_1; PtnParseGen.re_2; PtnParseGen.re_3;
                     PtnParseGen.re_4; PtnParseGen.re_5; PtnParseGen.re_6] = true.
Proof. exact gen_regex_text. Qed.
(* the parsed terms are the ones the library knows (re.M of findall included: BolM / EolM) *)
Theorem T14P_gen_regex_known :
  PtnParseGen.re_0 = known_move /\ PtnParseGen.re_1 = known_tag /\ PtnParseGen.re_2 = known_comment /\
  PtnParseGen.re_3 = known_space /\ PtnParseGen.re_4 = known_result /\ PtnParseGen.re_5 = known_number /\
  PtnParseGen.re_6 = known_suffix.
Proof. exact gen_regex_known. Qed.
(* ... which are the terms of proofs/TiePtnRegex.v *)
Theorem T14P_known_regex_terms :
  known_move = move_re /\ known_tag = tag_re /\ known_comment = comment_re /\ known_space = space_re /\
  known_result = result_re /\ known_number = number_re /\ known_suffix = suffix_re.
Proof. exact known_regex_terms. Qed.

(* the translated parse_move IS what the model says the code does (before the lenient / Unspecified classification),
   on every string *)
Theorem T14P_gen_parse_move_eq : forall s, PtnParseGen.parse_move s = embed (Ptn.parse_move_raw s).
Proof. exact gen_parse_move_eq. Qed.
(* no other error escapes parse_move: BadMove or a move, never KeyError / TypeError / ValueError / AttributeError *)
Theorem T14P_gen_parse_move_no_crash : forall s,
  PtnParseGen.parse_move s = Illegal \/ exists m, PtnParseGen.parse_move s = Ok m.
Proof. exact gen_parse_move_no_crash. Qed.
(* the translated PTN.parse IS the model's parse_game on every text on which the model takes a position *)
Theorem T14P_gen_parse_game_eq : forall text,
  game_modelled text -> PtnParseGen.parse text = embed_game (Ptn.parse_game text).
Proof. exact gen_parse_game_eq. Qed.
(* that domain holds every text the model parses to a game or refuses for the missing blank line *)
Theorem T14P_game_ok_modelled : forall text,
  (exists tags ms, parse_game text = GameOk tags ms) \/ parse_game text = GameNoSplit -> game_modelled text.
Proof. exact game_ok_modelled. Qed.

(* C14 transported to the translated parse_move *)
Theorem T14P_gen_parse_format_move : forall m, wf_move8 m -> PtnParseGen.parse_move (format_move m) = Ok m.
Proof. exact gen_parse_format_move. Qed.
Theorem T14P_gen_parse_move_denotes : forall s m,
  (ptn_denotes s m -> PtnParseGen.parse_move s = Ok m) /\
  (PtnParseGen.parse_move s = Ok m -> ptn_denotes s m \/ ptn_lenient s).
Proof. exact gen_parse_move_denotes. Qed.
Theorem T14P_gen_parse_move_refuses : forall s, PtnParseGen.parse_move s = Illegal <-> parse_move s = Reject.
Proof. exact gen_parse_move_refuses. Qed.

(* the library's regex functions against the declarative semantics of spec/RegexSpec.v *)
Theorem T14P_re_search_groups_sound : forall r s m,
  re_search_groups r s = Ok m ->
  match m with
  | Some gs => search E r s (caps_list gs)
  | None => forall cp, ~ search E r s cp
  end.
Proof. exact re_search_groups_sound. Qed.
Theorem T14P_re_test_sound : forall anchored r s b,
  re_test anchored r s = Ok b ->
  (b = true <-> exists cp, search E r s cp) /\ (b = true <-> exists cp, rematch E r s cp).
Proof. exact re_test_sound. Qed.
Theorem T14P_re_sub_sound : forall r rep s out,
  re_sub r rep s = Ok out ->
  (r = comment_re /\ rep = [32] /\ resub E r rep [] s out) \/
  (r = suffix_re /\ rep = [] /\ ~ In 10 s /\ out = strip_suffix s).
Proof. exact re_sub_sound. Qed.
Theorem T14P_re_split_sound : forall r s out, re_split r s = Ok out -> r = space_re /\ resplit E r [] s out.
Proof. exact re_split_sound. Qed.
Theorem T14P_re_findall2_sound : forall r s out, re_findall2 r s = Ok out -> r = tag_re /\ refindall2 E r [] s out.
Proof. exact re_findall2_sound. Qed.
