(* C12 - training batches say what the transcripts say; de-duplication averages.
   Property theorems only; proofs are in proofs/BatchProofs.v, the vocabulary
   (wf_transcript, offset, occurrences, first_at, first_occ, first_idx, qmean,
   row_equiv) in spec/BatchSpec.v.  `enc` is the per-position token encoding
   (encoding.encode, property C06), abstract here. *)
From Coq Require Import ZArith QArith List.
From TV Require gen.Consts.
From TV Require Import model.Tak model.SelfPlay model.Batch spec.SelfPlaySpec spec.BatchSpec proofs.BatchProofs.
Import ListNotations.
Open Scope Z_scope.

(* "row for row in game and ply order, each recorded position's token encoding and mask, ... its value
   and its outcome label": row (offset of game g) + i carries ply i of game g *)
Theorem C12_rows_in_order : forall enc logs b, Forall wf_transcript logs -> encode_games enc logs = Some b ->
  let w := max_len (map enc (flat_map t_positions logs)) in
  length b = length (flat_map t_positions logs) /\
  forall g tr i p, nth_error logs g = Some tr -> nth_error (t_positions tr) i = Some p ->
    exists lg pol v, logits tr = Some lg /\ nth_error lg i = Some pol /\ nth_error (t_values tr) i = Some v /\
      nth_error b (offset logs g + i) =
        Some (mkRow (pad_tokens w (enc p)) (pad_mask w (enc p)) pol v (inject_Z (label (t_result tr) p))).
Proof. exact rows_in_order. Qed.

(* the padding of encode_batch: width of the longest encoding, zeros / false beyond the encoding,
   and the masked part of a row is the encoding itself *)
Theorem C12_padding_correct : forall ts t, In t ts ->
  length (pad_tokens (max_len ts) t) = max_len ts /\
  length (pad_mask (max_len ts) t) = max_len ts /\
  masked (pad_tokens (max_len ts) t) (pad_mask (max_len ts) t) = t /\
  firstn (length t) (pad_tokens (max_len ts) t) = t /\
  (forall j, (length t <= j < max_len ts)%nat ->
     nth_error (pad_tokens (max_len ts) t) j = Some 0 /\ nth_error (pad_mask (max_len ts) t) j = Some false) /\
  (forall j, (j < length t)%nat -> nth_error (pad_mask (max_len ts) t) j = Some true).
Proof. exact padding_correct. Qed.

(* "a dense policy target holding each candidate's search probability at that move's id and zero
   elsewhere" (distinct candidates: C08) *)
Theorem C12_dense_target : forall n ms ps row, logits_row n ms ps = Some row -> NoDup ms ->
  zlen row = Consts.MAX_MOVE_ID /\
  (forall j m, nth_error ms j = Some m ->
     exists p id, nth_error ps j = Some p /\ encode_move n m = Some id /\
                  0 <= id < Consts.MAX_MOVE_ID /\ nthz row id = Some p) /\
  (forall id, 0 <= id < Consts.MAX_MOVE_ID -> (forall m, In m ms -> encode_move n m <> Some id) ->
     nthz row id = Some 0%Q).
Proof. exact dense_target. Qed.

(* without distinctness the code lets the last write win; so does the model *)
Theorem C12_dense_target_last_wins : forall n ms1 m ms2 ps row id, logits_row n (ms1 ++ m :: ms2) ps = Some row ->
  encode_move n m = Some id -> (forall m', In m' ms2 -> encode_move n m' <> Some id) ->
  exists p, nth_error ps (length ms1) = Some p /\ nthz row id = Some p.
Proof. exact dense_target_last_wins. Qed.

(* "returns each distinct position once, in order of first occurrence" *)
Theorem C12_dedup_keys : forall b,
  map key_of (dedup b) = first_occ (map key_of b) /\
  NoDup (map key_of (dedup b)) /\
  (forall k, In k (map key_of (dedup b)) <-> In k (map key_of b)).
Proof. exact dedup_keys. Qed.

(* ... stated without first_occ: an earlier output row has an earlier first occurrence *)
Theorem C12_dedup_keys_order : forall b i j oi oj, (i < j)%nat ->
  nth_error (dedup b) i = Some oi -> nth_error (dedup b) j = Some oj ->
  exists a c, first_idx (map key_of b) (key_of oi) = Some a /\
              first_idx (map key_of b) (key_of oj) = Some c /\ (a < c)%nat.
Proof. exact dedup_keys_order. Qed.

(* "every target replaced by the arithmetic mean over that position's occurrences" (value, label,
   every policy entry) *)
Theorem C12_dedup_mean : forall b k o, nth_error (dedup b) k = Some o ->
  let occ := occurrences (key_of o) b in
  occ <> [] /\
  (r_value o == qmean (map r_value occ))%Q /\
  (r_label o == qmean (map r_label occ))%Q /\
  forall w, Forall (fun r => length (r_policy r) = w) occ ->
    length (r_policy o) = w /\
    forall j, (nth j (r_policy o) 0 == qmean (map (fun r => nth j (r_policy r) 0) occ))%Q.
Proof. exact dedup_mean. Qed.

(* "returns a batch without duplicates unchanged" *)
Theorem C12_dedup_nodup_id : forall b, NoDup (map key_of b) -> Forall2 row_equiv (dedup b) b.
Proof. exact dedup_nodup_id. Qed.

(* tokens and mask of an output row are those of the first occurrence of its key *)
Theorem C12_dedup_mask_positions : forall b k o, nth_error (dedup b) k = Some o ->
  exists i r, first_at b (key_of o) i r /\ r_tokens o = r_tokens r /\ r_mask o = r_mask r.
Proof. exact dedup_mask_positions. Qed.

(* ---- compositions (work package X; proofs/ComposeBatch.v): the abstract `enc` instantiated with the real
   token encoding `ComposeBatch.real_enc p` = encoding.encode(p) with the sentinel ---- *)
From TV Require model.Encoding spec.EncodingSpec proofs.ComposeBatch.
(* real_enc is C06's encode (total on the domain `encodable`) *)
Theorem C12_real_enc_is_encode : forall p, EncodingSpec.encodable p ->
  Encoding.encode true p = Some (ComposeBatch.real_enc p).
Proof. exact ComposeBatch.real_enc_defined. Qed.
(* C12 + C06: on batches of encodable positions the key of row i is the encoding of position i; two rows have the same key iff their positions have the same (board, side to move, reserves); hence dedup returns each distinct POSITION (its key decodes to the position's triple) exactly once, in order of first occurrence *)
Theorem C12_dedup_distinct_positions : forall logs b,
  Forall wf_transcript logs -> Forall EncodingSpec.encodable (flat_map t_positions logs) ->
  encode_games ComposeBatch.real_enc logs = Some b ->
  map key_of b = map ComposeBatch.real_enc (flat_map t_positions logs) /\
  (forall i j p q ri rj, nth_error (flat_map t_positions logs) i = Some p ->
     nth_error (flat_map t_positions logs) j = Some q -> nth_error b i = Some ri -> nth_error b j = Some rj ->
     (key_of ri = key_of rj <-> Encoding.triple p = Encoding.triple q)) /\
  (forall k o, nth_error (dedup b) k = Some o ->
     exists i p, ComposeBatch.first_pos_at (flat_map t_positions logs) i p /\
                 key_of o = ComposeBatch.real_enc p /\ Encoding.decode (key_of o) = Some (Encoding.triple p)) /\
  (forall p, In p (flat_map t_positions logs) ->
     exists k o, nth_error (dedup b) k = Some o /\ Encoding.decode (key_of o) = Some (Encoding.triple p)) /\
  (forall k k' o o', nth_error (dedup b) k = Some o -> nth_error (dedup b) k' = Some o' ->
     Encoding.decode (key_of o) = Encoding.decode (key_of o') -> k = k') /\
  (forall k k' o o' i i' p p', (k < k')%nat ->
     nth_error (dedup b) k = Some o -> nth_error (dedup b) k' = Some o' ->
     ComposeBatch.first_pos_at (flat_map t_positions logs) i p -> Encoding.decode (key_of o) = Some (Encoding.triple p) ->
     ComposeBatch.first_pos_at (flat_map t_positions logs) i' p' -> Encoding.decode (key_of o') = Some (Encoding.triple p') ->
     (i < i')%nat).
Proof. exact ComposeBatch.dedup_distinct_positions. Qed.
(* first_pos_at ps i p: p is at index i and no earlier position has the same (board, side to move, reserves) *)
Theorem C12_first_pos_at_reading : forall ps i p,
  ComposeBatch.first_pos_at ps i p <->
  nth_error ps i = Some p /\
  forall j q, (j < i)%nat -> nth_error ps j = Some q -> Encoding.triple q <> Encoding.triple p.
Proof. exact ComposeBatch.first_pos_at_reading. Qed.
(* C12 + C11 + C04 + C06: the two hypotheses hold for the transcripts of play_one_game on sizes 3..6 *)
Theorem C12_self_play_batches_encodable : forall cfg (games : list (list answer * transcript * exit * position)),
  3 <= sp_size cfg <= 6 ->
  Forall (fun g => let '(s, tr, e, f) := g in play_one_game cfg s = Done tr e f) games ->
  Forall wf_transcript (map (fun g => snd (fst (fst g))) games) /\
  Forall EncodingSpec.encodable (flat_map t_positions (map (fun g => snd (fst (fst g))) games)).
Proof. exact ComposeBatch.self_play_batches_encodable. Qed.

(* ---- the same about dedup_batch / encode_games REGENERATED FROM THE SOURCE (gen/BatchGen.v, harness/torch2coq.py against model/TorchLite.v; proofs/BatchGenEq.v) ---- *)
From TV Require Import model.Tak model.PySem model.SelfPlay model.Batch model.TorchLite.
From TV Require Import spec.SelfPlaySpec spec.BatchSpec proofs.BatchGenEq.
From TV Require gen.BatchGen.
(* the translated dedup_batch IS the model's dedup on every well-shaped batch *)
Theorem C12_source_dedup_eq :
  forall b, well_shaped b -> BatchGen.dedup_batch (to_dict b) = Ok (to_dict (dedup b)).
Proof. exact gen_dedup_eq. Qed.
(* ... so no KeyError / IndexError / shape error escapes there *)
Theorem C12_source_dedup_never_crashes :
  forall b, well_shaped b -> forall e, BatchGen.dedup_batch (to_dict b) <> Crash e.
Proof. exact gen_dedup_never_crashes. Qed.
(* the translated encode_games IS the model's encode_games (non-empty list of aligned transcripts whose logits exist) *)
Theorem C12_source_encode_games_eq :
  forall enc logs b, logs <> [] -> Forall wf_transcript logs ->
  Batch.encode_games enc logs = Some b ->
  BatchGen.encode_games logits_oracle results_oracle (encode_batch_oracle enc) logs = Ok (to_dict b).
Proof. exact gen_encode_games_eq. Qed.
(* C12_dedup_keys for the generated function *)
Theorem C12_source_dedup_keys :
  forall b, well_shaped b ->
  exists o, BatchGen.dedup_batch (to_dict b) = Ok (to_dict o) /\
    map key_of o = first_occ (map key_of b) /\ NoDup (map key_of o) /\
    (forall k, In k (map key_of o) <-> In k (map key_of b)).
Proof. exact gen_dedup_keys. Qed.
(* C12_dedup_mean *)
Theorem C12_source_dedup_mean :
  forall b, well_shaped b ->
  exists o, BatchGen.dedup_batch (to_dict b) = Ok (to_dict o) /\
    forall k r, nth_error o k = Some r ->
      let occ := occurrences (key_of r) b in
      occ <> [] /\ (r_value r == qmean (map r_value occ))%Q /\ (r_label r == qmean (map r_label occ))%Q /\
      forall w, Forall (fun r' => length (r_policy r') = w) occ ->
        length (r_policy r) = w /\
        forall j, (nth j (r_policy r) 0 == qmean (map (fun r' => nth j (r_policy r') 0) occ))%Q.
Proof. exact gen_dedup_mean. Qed.
(* C12_dedup_nodup_id *)
Theorem C12_source_dedup_nodup_id :
  forall b, well_shaped b -> NoDup (map key_of b) ->
  exists o, BatchGen.dedup_batch (to_dict b) = Ok (to_dict o) /\ Forall2 row_equiv o b.
Proof. exact gen_dedup_nodup_id. Qed.
(* C12_dedup_mask_positions *)
Theorem C12_source_dedup_mask_positions :
  forall b, well_shaped b ->
  exists o, BatchGen.dedup_batch (to_dict b) = Ok (to_dict o) /\
    forall k r, nth_error o k = Some r ->
      exists i r0, first_at b (key_of r) i r0 /\ r_tokens r = r_tokens r0 /\ r_mask r = r_mask r0.
Proof. exact gen_dedup_mask_positions. Qed.
(* C12_rows_in_order *)
Theorem C12_source_rows_in_order :
  forall enc logs, logs <> [] -> Forall wf_transcript logs ->
  (forall tr, In tr logs -> logits tr <> None) ->
  exists b, BatchGen.encode_games logits_oracle results_oracle (encode_batch_oracle enc) logs = Ok (to_dict b) /\
    let w := max_len (map enc (flat_map t_positions logs)) in
    length b = length (flat_map t_positions logs) /\
    forall g tr i p, nth_error logs g = Some tr -> nth_error (t_positions tr) i = Some p ->
      exists lg pol v, logits tr = Some lg /\ nth_error lg i = Some pol /\ nth_error (t_values tr) i = Some v /\
        nth_error b (offset logs g + i) =
          Some (mkRow (pad_tokens w (enc p)) (pad_mask w (enc p)) pol v (inject_Z (label (t_result tr) p))).
Proof. exact gen_rows_in_order. Qed.
