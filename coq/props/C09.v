(* C09 - search output is the regularised policy of the tree statistics; moves
   are legal.  PARTIAL by design: what is proved here, in exact arithmetic,
   is that at every expanded node of every tree C08 can grow the inputs handed
   to the solver (model/Mcts.v policy_inputs: prior = child priors, q = minus
   mean value or the node's own evaluation, lambda^2 = C^2 N/(N+K)^2) satisfy
   the solver's preconditions, and that the move returned is legal.  That the
   solver's output equals the formula "to the accuracy the solver guarantees",
   and is finite and non-negative, rests on C10 (not restated here); the
   solver is an abstract function in policy_probs. *)
From Coq Require Import ZArith QArith List.
From TV Require Import model.Tak model.Road model.Mcts proofs.MctsProofs.
Import ListNotations.
Open Scope Q_scope.

(* every q handed to the solver is in [-1,1] (evaluations in [-1,1]) *)
Theorem C09_q_in_range_partial : forall cutoff n ks,
  Good cutoff n -> Bounded n -> n_kids n = Some ks ->
  Forall (fun k => -1 <= q_of (n_v0 n) k <= 1) ks.
Proof. exact q_in_range. Qed.
(* the prior handed to the solver is a distribution with positive weights, one
   per child - under the property's hypothesis that the evaluator gave at least
   one legal move the cutoff probability at this node *)
Theorem C09_prior_is_distribution_partial : forall cutoff n ks,
  0 < cutoff -> Good cutoff n -> n_kids n = Some ks -> live cutoff (n_pos n) (n_raw n) = true ->
  Forall (fun x => 0 < x) (n_probs n) /\ sumq (n_probs n) == 1 /\
  length (n_probs n) = length ks.
Proof. exact prior_is_distribution. Qed.
(* the multiplier clause "C*sqrt(N)/(N+K)" itself is compared BIT FOR BIT by the
   correspondence (harness/props/c09.py): the binary64 value policy_probs
   computes and the binary32 value the native solver receives against
   model/LambdaF64.v (lambda_agrees), for every solver call; in exact
   arithmetic only lambda^2 is available: *)
(* the multiplier is positive at every expanded node: such a node has been
   visited, and lambda^2 = C^2 N/(N+K)^2 > 0 for N >= 1 (the square root itself is C10's) *)
Theorem C09_expanded_is_visited_partial : forall cutoff n ks,
  Good cutoff n -> n_kids n = Some ks -> exists j, n_sims n = S j.
Proof. exact good_expanded_visited. Qed.
Theorem C09_lambda_sq_pos_partial : forall C N K, 0 < C -> 0 < lambda_sq C (S N) K.
Proof. exact lambda_sq_pos. Qed.
(* "before any visit it is the prior", whatever the solver *)
Theorem C09_policy_before_visit : forall solve n C,
  n_sims n = 0%nat -> policy_probs solve n C = n_probs n.
Proof. exact policy_before_visit. Qed.
(* after a visit the reported policy is the solver applied to policy_inputs
   (missing: the solver's accuracy, C10) *)
Theorem C09_policy_after_visit_partial : forall solve n C j i,
  n_sims n = S j -> policy_inputs n C = Some i -> policy_probs solve n C = solve i.
Proof. exact policy_after_visit. Qed.
(* "the move returned for a position is always a legal move of that position".
   select_root_move is DEFINED only for expanded roots (the root has children, which by Good means at least one
   simulation): on a root without children it is None in the model, and the code raises (policy_probs returns None,
   torch.multinomial refuses it) - no move is returned.  MCTS.get_move with a budget that allows no simulation is
   therefore outside these theorems; the correspondence calls the real get_move in that situation and demands that it
   raises or returns a legal move. *)
Theorem C09_select_root_move_legal : forall cutoff n ks i k,
  Good cutoff n -> n_kids n = Some ks -> nth_error ks i = Some k ->
  exists m, n_move k = Some m /\ In m (table (size (n_pos n))) /\
            move (n_pos n) m = Some (n_pos k).
Proof. exact select_root_move_legal. Qed.
Theorem C09_select_root_move_accepted : forall cutoff n choice m,
  Good cutoff n -> select_root_move n choice = Some m -> move (n_pos n) m <> None.
Proof. exact select_root_move_accepted. Qed.

(* ---- compositions (work package X; proofs/ComposeMcts.v) ---- *)
From TV Require model.Solver proofs.SolverProofs proofs.ComposeMcts.
(* C09 + C10: at every expanded node (Good, Bounded, live) the solver inputs meet C10's hypothesis Hyp for every rational multiplier in (0,1024], hence the Python-rule solver in exact arithmetic never runs out of iterations and returns positive weights lam*pi_i/(alpha-q_i), one per child, for one alpha above every q, summing to 1 within C10's tolerance.  Missing (partial): float rounding (C10), and the multiplier's relation to C*sqrt(N)/(N+K), which the correspondence checks through lambda^2 (C09_multiplier_in_range_partial) *)
Theorem C09_policy_meets_solver_contract_partial : forall cutoff n ks C lam,
  0 < cutoff -> Good cutoff n -> Bounded n -> n_kids n = Some ks ->
  live cutoff (n_pos n) (n_raw n) = true ->
  0 < lam /\ lam <= 1024 ->
  exists i, policy_inputs n C = Some i /\
    pi_prior i = n_probs n /\ pi_q i = map (q_of (n_v0 n)) ks /\ (1 <= pi_N i)%nat /\
    SolverProofs.Hyp lam (pi_prior i) (pi_q i) /\
    Solver.solve_python_Q lam (pi_prior i) (pi_q i) <> Solver.OutOfIters /\
    exists k a w,
      Solver.solve_python_Q lam (pi_prior i) (pi_q i) = Solver.Returned k a w /\ (1 <= k <= 32)%nat /\
      SolverProofs.above (pi_q i) a /\
      w = map (fun pq => lam * fst pq / (a - snd pq)) (combine (pi_prior i) (pi_q i)) /\
      Forall (fun x => 0 < x) w /\ length w = length ks /\
      (Qabs.Qabs (1 - SolverProofs.Qsum w) <= Solver.EPS_Q \/
       ((forall x, SolverProofs.above (pi_q i) x -> x < a - Solver.TOL_Q ->
                   1 < SolverProofs.f lam (pi_prior i) (pi_q i) x) /\
        (forall x, a + Solver.TOL_Q < x -> SolverProofs.f lam (pi_prior i) (pi_q i) x < 1))).
Proof. exact ComposeMcts.policy_meets_solver_contract. Qed.
(* a positive multiplier whose square is within the correspondence's tolerance (1e-12 relative) of the model's lambda^2 = C^2 N/(N+K)^2 lies in C10's range (0,1024] for every C <= 1000 (Config.C = 4) *)
Theorem C09_multiplier_in_range_partial : forall C N K lam,
  0 < C -> C <= 1000 -> 0 < lam ->
  lam * lam <= (1 + (1 # 1000000000000)) * lambda_sq C (S N) K ->
  0 < lam /\ lam <= 1024.
Proof. exact ComposeMcts.multiplier_in_range. Qed.

(* ---- the same about Node.policy_probs REGENERATED FROM THE SOURCE (gen/MctsGen.v, harness/mcts2coq.py; proofs/MctsGenEq.v); solve_policy enters as an oracle (C10), the multiplier is the binary64 mirror of LambdaF64.v ---- *)
From Coq Require Import ZArith QArith List Bool.
From Coq Require Import Floats.SpecFloat.
From TV Require Import model.Tak model.Road model.PySem model.Mcts model.MctsSem model.Solver model.LambdaF64.
From TV Require Import proofs.MctsProofs proofs.MctsGenEq.
From TV Require gen.MctsGen.
(* (b) policy_probs(c): before any visit the prior, no solver call *)
Theorem C09_source_gen_policy_probs_unvisited :
  forall F f_sqrt f_mul f_div_int solve n c,
  n_sims n = 0%nat ->
  MctsGen.policy_probs F f_sqrt f_mul f_div_int solve (py_of n) c = Ok (pn_child_probs (py_of n)).
Proof. exact gen_policy_probs_unvisited. Qed.
(* ... at a visited node with children ONE solver call whose arguments are policy_inputs: the child priors, q =
   minus the mean value of a visited child / the node's own evaluation, and the multiplier expression
   f_div_int (f_mul c (f_sqrt N)) (N + K) on N = simulations, K = number of children *)
Theorem C09_source_gen_policy_probs_eq :
  forall F f_sqrt f_mul f_div_int solve n ks j c C i,
  n_sims n = S j -> n_kids n = Some ks -> policy_inputs n C = Some i ->
  MctsGen.policy_probs F f_sqrt f_mul f_div_int solve (py_of n) c =
  (r <- solve (pi_prior i) (pi_q i)
              (multiplier F f_sqrt f_mul f_div_int c (Z.of_nat (pi_N i)) (Z.of_nat (pi_K i))) ;; Ok (Some r)).
Proof. exact gen_policy_probs_eq. Qed.
(* ... with binary64 operations that expression is model/LambdaF64.v's bit-exact lambda64 *)
Theorem C09_source_multiplier_is_lambda64 :
  forall c N K,
  multiplier spec_float (fun z => SFsqrt prec64 emax64 (b64_of_Z z)) (SFmul prec64 emax64)
             (fun x d => SFdiv prec64 emax64 x (b64_of_Z d)) c N K = lambda64 c N K.
Proof. exact multiplier_is_lambda64. Qed.
(* ... a visited node without children (a terminal node) makes `for c in self.children` raise TypeError *)
Theorem C09_source_gen_policy_probs_terminal :
  forall F f_sqrt f_mul f_div_int solve n j c,
  n_sims n = S j -> n_kids n = None ->
  MctsGen.policy_probs F f_sqrt f_mul f_div_int solve (py_of n) c = Crash TypeError.
Proof. exact gen_policy_probs_terminal. Qed.
(* C09 transported: the arguments of that one call satisfy the solver's preconditions *)
Theorem C09_source_gen_policy_call_preconditions :
  forall F f_sqrt f_mul f_div_int solve cutoff n ks j c,
  (0 < cutoff)%Q -> Good cutoff n -> Bounded n -> n_kids n = Some ks -> n_sims n = S j ->
  live cutoff (n_pos n) (n_raw n) = true ->
  exists pi q, MctsGen.policy_probs F f_sqrt f_mul f_div_int solve (py_of n) c =
               (r <- solve pi q (multiplier F f_sqrt f_mul f_div_int c (Z.of_nat (S j)) (zlen ks)) ;; Ok (Some r)) /\
               Forall (fun x => 0 < x)%Q pi /\ (sumq pi == 1)%Q /\ length pi = length q /\
               Forall (fun x => -1 <= x <= 1)%Q q.
Proof. exact gen_policy_call_preconditions. Qed.

(* ---- the search loop regenerated from the source (proofs/MctsGenSearch.v; see props/C08.v for the end-to-end equality) ---- *)
From TV Require Import proofs.MctsGenSearch.
(* C09 transported: select_root_move on an expanded root returns the sampled child's move, which is legal *)
Theorem C09_source_select_root_move_legal :
  forall F f_sqrt f_mul f_div_int (solve : list Q -> list Q -> F -> res (list Q)) (C : F) cutoff,
  (forall pi q lam, exists r, solve pi q lam = Ok r) ->
  forall t ks c k rest evs nz,
  Good cutoff t -> n_kids t = Some ks -> nth_error ks c = Some k ->
  MctsGen.select_root_move ostate o_multinomial F f_sqrt f_mul f_div_int solve C (py_of t) []
    (mkOst (Z.of_nat c :: rest) evs nz) = Ok (n_move k, mkOst rest evs nz) /\
  exists m, n_move k = Some m /\ In m (table (size (n_pos t))) /\ Tak.move (n_pos t) m = Some (n_pos k).
Proof. exact gen_select_root_move_legal. Qed.
(* ... and get_move(p) with a budget of limit > 0 simulations returns a legal move of p whenever the searched root
   has children *)
Theorem C09_source_get_move_legal :
  forall F f_sqrt f_mul f_div_int (solve : list Q -> list Q -> F -> res (list Q)) (C : F) cutoff mix alpha limit,
  (forall pi q lam, exists r, solve pi q lam = Ok r) -> (0 < cutoff)%Q ->
  forall noise, is_some alpha = is_some noise ->
  forall css p evs c rest fuel,
  valid_analyze cutoff mix limit css (root p) noise evs -> (0 < limit)%nat -> noise_ok noise (root p) evs ->
  (length css < fuel)%nat -> Forall (fun cs => (length cs < fuel)%nat) css ->
  unused cutoff mix limit noise css (root p) evs = [] ->
  forall ks k, n_kids (fst (analyze cutoff mix limit css (root p) noise evs)) = Some ks -> nth_error ks c = Some k ->
  exists m st',
    MctsGen.get_move ostate o_multinomial o_monotonic o_evaluate o_dirichlet F f_sqrt f_mul f_div_int solve C fuel
      (search_cfg cutoff mix alpha limit) p (mkOst (flat css ++ Z.of_nat c :: rest) evs noise) = Ok (Some m, st') /\
    In m (table (size p)) /\ Tak.move p m <> None.
Proof. exact gen_get_move_legal. Qed.
