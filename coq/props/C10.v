(* C10 - the regularised-policy solver returns the distribution it is specified to.

   PARTIAL BY DESIGN.  The bisection of model/Solver.v (written once, generic in
   the arithmetic and in the exit test) is proved correct in EXACT rational
   arithmetic (instance QA); inputs of the real solvers are floats, hence
   rationals.  What no theorem here covers, and what is decided instead by the
   bit-exact binary32 mirror `native32` (correspondence (a), native solver bit
   for bit) and by the oracle sweep (c) on both real solvers:
     - the float32 exit `sum == last_sum` of tak.cpp and its isfinite fallback,
     - overflow to inf and cancellation in `alpha - q`,
     - float32 rounding of sigma and of the bracket ends in both solvers
       (solve_policy_python evaluates sigma in float32 at float32(alpha)).
   Every clause theorem below is therefore named `_partial`.
   Property theorems only; proofs are in proofs/SolverProofs.v, proofs/TieSolver.v. *)
From Coq Require Import ZArith QArith Qabs List Bool String.
From TV Require gen.Consts gen.SolverSrc.
From TV Require Import model.Solver proofs.SolverProofs proofs.TieSolver.
Import ListNotations.
Open Scope Q_scope.

(* analytic core: f alpha = sum_i lambda pi_i / (alpha - q_i) is strictly decreasing above max q *)
Theorem C10_f_strictly_decreasing : forall lam pi q a b,
  Hyp lam pi q -> above q a -> a < b -> f lam pi q b < f lam pi q a.
Proof. exact f_strictly_decreasing. Qed.

(* the initial bracket [max(q_i + lambda pi_i), max(q_i + lambda)] contains the root:
   alpha_min > max q, alpha_min <= alpha_max, width <= lambda, f alpha_min >= 1 >= f alpha_max *)
Theorem C10_bracket : forall lam pi q lo hi,
  Hyp lam pi q -> bracket QA lam pi q = (lo, hi) ->
  above q lo /\ lo <= hi /\ hi - lo <= lam /\ 1 <= f lam pi q lo /\ f lam pi q hi <= 1.
Proof. exact bracket_spec. Qed.

(* degenerate K = 1: alpha_min = alpha_max and the sum there is exactly 1 *)
Theorem C10_bracket_K1 : forall lam p x lo hi,
  Hyp lam [p] [x] -> bracket QA lam [p] [x] = (lo, hi) -> lo == hi /\ f lam [p] [x] lo == 1.
Proof. exact bracket_K1. Qed.

(* whatever the exit rule and the fuel: a result is returned by the exit test firing in a state that
   still brackets the root (St: max q < lo <= hi, f lo >= 1 >= f hi, alpha the midpoint,
   (hi - lo) * 2^(iters-1) = initial width) *)
Theorem C10_bisection_keeps_bracket : forall (X : exit_rule Q) fuel lam pi q k a w,
  Hyp lam pi q -> solve QA X fuel lam pi q = Returned k a w ->
  exists lo0 hi0 mem' mem'' lo hi alpha,
    bracket QA lam pi q = (lo0, hi0) /\
    (1 <= k <= fuel)%nat /\
    St lam pi q lo0 hi0 (k - 1) lo hi alpha /\
    x_test X mem' lo hi alpha (f lam pi q alpha) = (Some a, mem'') /\
    w = weights QA lam pi q a.
Proof. exact solve_spec. Qed.

(* width_k = width_0 / 2^k <= lambda / 2^k *)
Theorem C10_width_k : forall lam pi q lo0 hi0 k lo hi alpha,
  Hyp lam pi q -> bracket QA lam pi q = (lo0, hi0) -> St lam pi q lo0 hi0 k lo hi alpha ->
  hi - lo == (hi0 - lo0) / 2 ^ Z.of_nat k /\ hi - lo <= lam / 2 ^ Z.of_nat k.
Proof. exact width_k. Qed.

(* clause "the solver terminates", Python exit rule (|1-sigma| <= 1e-3 or hi-lo <= 1e-6), exact
   arithmetic: the loop returns within 32 iterations, the AssertionError is unreachable (lambda <= 2^10).
   Missing: float32 evaluation of sigma (cannot delay the 1e-6 bracket exit, which is a float64 test on
   exact halvings; covered by the sweep). *)
Theorem C10_python_terminates_partial : forall lam pi q,
  Hyp lam pi q -> solve_python_Q lam pi q <> OutOfIters.
Proof. exact python_terminates. Qed.

(* clause "finite non-negative weights of the form multiplier*prior/(alpha-q) for a single alpha above
   every q", Python exit rule, exact arithmetic.  Missing: float32 rounding (alpha cast to float32 may
   approach max q). *)
Theorem C10_python_output_form_partial : forall lam pi q,
  Hyp lam pi q ->
  exists k a w,
    solve_python_Q lam pi q = Returned k a w /\ (1 <= k <= 32)%nat /\
    above q a /\
    w = map (fun pq => lam * fst pq / (a - snd pq)) (combine pi q) /\
    Forall (fun x => 0 < x) w.
Proof. exact python_output_form. Qed.

(* clause "whose total is one to within the stated tolerance plus the effect of its resolution in alpha":
   |1 - sum| <= 1e-3, or f > 1 everywhere left of alpha - 1e-6 and f < 1 everywhere right of
   alpha + 1e-6 (the unique root of the strictly decreasing f is within 1e-6 of alpha).  Exact arithmetic. *)
Theorem C10_python_output_sum_partial : forall lam pi q k a w,
  Hyp lam pi q -> solve_python_Q lam pi q = Returned k a w ->
  Qabs (1 - Qsum w) <= EPS_Q \/
  ((forall x, above q x -> x < a - TOL_Q -> 1 < f lam pi q x) /\
   (forall x, a + TOL_Q < x -> f lam pi q x < 1)).
Proof. exact python_output_sum. Qed.

(* native exit rule: CONDITIONAL.  `sum == last_sum` has no counterpart in exact arithmetic, so
   termination is not claimed; whenever the loop returns, alpha lies in a bracket of the root inside the
   initial bracket and the output has the stated form.  Missing: termination and finiteness in binary32
   (decided by the mirror native32 and the sweep). *)
Theorem C10_native_if_returns_partial : forall lam pi q k a w,
  Hyp lam pi q -> solve_native_Q lam pi q = Returned k a w ->
  exists lo0 hi0 lo hi,
    bracket QA lam pi q = (lo0, hi0) /\
    above q lo /\ lo0 <= lo /\ lo <= a /\ a <= hi /\ hi <= hi0 /\
    1 <= f lam pi q lo /\ f lam pi q hi <= 1 /\
    (hi - lo) * pow2 (k - 1) == hi0 - lo0 /\
    (1 <= k <= MAX_ITERS)%nat /\
    above q a /\
    w = map (fun pq => lam * fst pq / (a - snd pq)) (combine pi q) /\
    Forall (fun x => 0 < x) w /\
    Qsum w == f lam pi q a.
Proof. exact native_if_returns. Qed.

(* tie: the regenerated tolerances and iteration bounds are the model's *)
Theorem C10_constants_tie :
  Consts.mcts_ALPHA_EPSILON_text = codes "1e-3" /\
  Consts.cpp_SIGMA_EPSILON_text = codes "1e-3" /\
  EPS_Q = (1 # 1000)%Q /\ TOL_Q = (1 # 1000000)%Q /\
  bits_of_b32 SIGMA_EPSILON32 = 981668463%Z /\
  Consts.cpp_max_loops = Z.of_nat MAX_ITERS /\ Consts.py_max_iters = Z.of_nat MAX_ITERS /\
  MAX_ITERS = 32%nat.
Proof. exact constants_tie. Qed.

(* tie: the bracket expressions and the exit tests scraped from both sources have the shape the model mirrors *)
Theorem C10_source_shape_tie :
  SolverSrc.cpp_lo_expr = codes "q_a[i] + lambda_n * pi_theta_a[i]" /\
  SolverSrc.cpp_hi_expr = codes "q_a[i] + lambda_n" /\
  SolverSrc.cpp_lo_init = codes "-std::numeric_limits<float>::infinity()" /\
  SolverSrc.cpp_hi_init = codes "-std::numeric_limits<float>::infinity()" /\
  SolverSrc.cpp_last_init = codes "std::numeric_limits<float>::infinity()" /\
  SolverSrc.cpp_error = codes "sum - 1.0" /\
  SolverSrc.cpp_ifs = [codes "abs(error) <= SIGMA_EPSILON"; codes "sum == last_sum";
                       codes "!std::isfinite(sum)"; codes "sum > 1"] /\
  SolverSrc.cpp_fallback = codes "alpha = alpha_max;" /\
  SolverSrc.py_lo_expr = codes "(q + lambda_n * pi_theta).max().item()" /\
  SolverSrc.py_hi_expr = codes "(q + lambda_n).max().item()" /\
  SolverSrc.py_ifs = [codes "iters > 32";
                      codes "np.abs(1 - sigma) <= ALPHA_EPSILON or (alpha_max - alpha_min) <= 1e-6";
                      codes "sigma > 1"].
Proof. exact source_shape_tie. Qed.

(* ====================================================================== *)
(* Float-level theorems about the binary32 mirror `native32` itself        *)
(* (proofs/SolverFloat.v, through Flocq's IEEE754.BinarySingleNaN: the     *)
(* SpecFloat operations of the mirror are the B2SF images of Flocq's       *)
(* Bplus/Bminus/Bmult/Bdiv).  They use Coq's Reals (B2R / SF2R), so        *)
(* `Print Assumptions` lists the standard Reals axioms                     *)
(* (sig_forall_dec, sig_not_dec, functional_extensionality_dep) and        *)
(* Classical_Prop.classic - nothing else.                                  *)
(* Hyp32 lam pi q: equal lengths, pi non-empty, every input a valid finite *)
(* binary32 with 2^-14 <= lam <= 2^10, 2^-20 <= pi_i <= 1, -1 <= q_i <= 1  *)
(* (the regime of the property: priors >= 1e-6 > 2^-20, multipliers        *)
(* >= 0.5/4573 > 2^-14).                                                   *)
(* ====================================================================== *)
From Coq Require Import Reals.
From Coq Require Import Floats.SpecFloat.
From Flocq Require Import Core BinarySingleNaN.
From TV Require Import proofs.SolverFloat.
Open Scope R_scope.

(* the alpha that is returned (the proof maintains this for every probe, alpha_min and alpha_max of the
   run) is a valid finite float, not below any q_i and at most 2^11: rounding is monotone, so
   q_i (+) lam (x) pi_i >= q_i, and the computed midpoint of two floats lies between them *)
Theorem C10_native32_alpha_ge_qmax : forall lam pi q k a w,
  Hyp32 lam pi q -> native32 lam pi q = Returned k a w ->
  valid_binary 24 128 a = true /\ is_finite_SF a = true /\
  Forall (fun qi => SF2R radix2 qi <= SF2R radix2 a) q /\ SF2R radix2 a <= bpow radix2 11.
Proof. exact native32_alpha_ge_qmax. Qed.

(* clause "non-negative weights" at float level: every returned weight is +inf or a finite float with sign
   bit 0 - never negative, never -0, never NaN *)
Theorem C10_native32_weights_nonneg_or_inf : forall lam pi q k a w,
  Hyp32 lam pi q -> native32 lam pi q = Returned k a w ->
  Forall (fun x => x = S754_infinity false \/ (is_finite_SF x = true /\ sign_SF x = false)) w.
Proof. exact native32_weights_nonneg_or_inf. Qed.

(* the repair of commit 189f772 is sound: alpha_max starts finite and STRICTLY above every q_i and the weights
   evaluated there are finite with sign bit 0 *)
Theorem C10_native32_fallback_finite : forall lam pi q,
  Hyp32 lam pi q ->
  let hi := snd (bracket B32 lam pi q) in
  is_finite_SF hi = true /\ Forall (fun qi => SF2R radix2 qi < SF2R radix2 hi) q /\
  Forall (fun x => valid_binary 24 128 x = true /\ is_finite_SF x = true /\ sign_SF x = false)
         (weights B32 lam pi q hi).
Proof. exact native32_fallback_finite. Qed.

(* clause "finite non-negative weights ... for a single alpha above every q", at float level, for EVERY exit
   of the loop: whenever native32 returns, alpha is finite and STRICTLY above every q_i, the weights are
   lam (x) pi_i (/) (alpha (-) q_i) and each is a finite float with sign bit 0 (F3 cannot recur).
   PARTIAL: termination (that OutOfIters is not the outcome) and the value of the sum are not claimed here;
   they rest on the correspondence and the sweep. *)
Theorem C10_native32_returns_finite_partial : forall lam pi q k a w,
  Hyp32 lam pi q -> native32 lam pi q = Returned k a w ->
  is_finite_SF a = true /\ Forall (fun qi => SF2R radix2 qi < SF2R radix2 a) q /\
  w = weights B32 lam pi q a /\
  Forall (fun x => valid_binary 24 128 x = true /\ is_finite_SF x = true /\ sign_SF x = false) w.
Proof. exact native32_returns_finite_partial. Qed.
