(* C02 - game-over adjudication is right for every position.
   Property theorems only; proofs are in proofs/RoadProofs.v (generic
   reachability in proofs/Reach.v), the declarative side in spec/RoadSpec.v. *)
From Coq Require Import ZArith List Bool.
From TV Require gen.Consts proofs.TieRoad.
From TV Require Import model.Tak model.Road model.RoadPy spec.RoadSpec proofs.RoadProofs proofs.RoadPyProofs.
Import ListNotations.
Open Scope Z_scope.

(* the flood fill from one edge reaches the opposite edge exactly when a path of
   on-board, orthogonally linked squares with road tops of colour c joins them *)
Theorem C02_walk_is_path : forall p c horiz, wf_pos p -> (walk p c horiz = true <-> spans p c horiz).
Proof. exact walk_spec. Qed.
(* a colour "has a road" in the code exactly when its top flats and capstones join two opposite edges *)
Theorem C02_color_road : forall p c, wf_pos p -> (color_has_road p c = true <-> road p c).
Proof. exact color_has_road_spec. Qed.
(* the road query: both colours -> the player who just moved, one -> that colour, none -> None *)
Theorem C02_has_road : forall p, wf_pos p -> forall o, road_verdict p o <-> has_road p = o.
Proof. exact has_road_spec. Qed.
(* the reported outcome is the one the property describes (road win / flat win or draw when the
   board is full or a reserve is empty / not over), for every well-formed position *)
Theorem C02_winner : forall p, wf_pos p -> forall r, outcome p r <-> winner p = r.
Proof. exact winner_spec. Qed.
(* the model's flat count is the number of squares whose top piece is a flat of that colour *)
Theorem C02_flat_count : forall p c, wf_pos p -> top_flats p c (flat_count_of p c).
Proof. exact flat_count_spec. Qed.
(* the road query alone answers the same road question as winner *)
Theorem C02_has_road_agrees_winner : forall p c, has_road p = Some c <-> winner p = (Some c, Some Road).
Proof. exact has_road_agrees_winner. Qed.
Theorem C02_no_road_agrees_winner : forall p, has_road p = None <-> snd (winner p) <> Some Road.
Proof. exact has_road_none_winner. Qed.
(* tie (G): Kind.is_road of the tree under test is the model's kind_is_road (walls are not road pieces) *)
Theorem C02_tie_kind_is_road : Consts.kind_is_road = map kind_is_road [Flat; Standing; Capstone].
Proof. exact TieRoad.tie_road_kinds. Qed.

(* ---- the Python work-list itself (model/RoadPy.v mirrors Position._walk / has_road statement by
   statement; fuel = loop iterations, walk_fuel p = 5*size^2 + size + 1) ---- *)
(* _walk from ANY seed list: 5*size^2 + |seeds| + 1 iterations suffice (never OutOfFuel) and the answer is
   True exactly when a chain of road squares of the colour joins a seed to the far edge *)
Theorem C02_walk_py_reach : forall p c horiz seeds0 fuel, 0 <= size p ->
  (5 * Z.to_nat (size p * size p) + length seeds0 + 1 <= fuel)%nat ->
  exists b, walk_py fuel p seeds0 c horiz = Done b /\ (b = true <-> reach_target p c horiz seeds0).
Proof. exact walk_py_reach. Qed.
(* on the code's own seed lists the work-list returns what the closure model returns *)
Theorem C02_walk_py_eq : forall p c horiz fuel, wf_pos p -> (walk_fuel p <= fuel)%nat ->
  walk_py fuel p (seeds (size p) horiz) c horiz = Done (walk p c horiz).
Proof. exact walk_py_eq. Qed.
(* ... hence it finds a road exactly when the declarative path exists *)
Theorem C02_walk_py_is_path : forall p c horiz fuel, wf_pos p -> (walk_fuel p <= fuel)%nat ->
  (walk_py fuel p (seeds (size p) horiz) c horiz = Done true <-> spans p c horiz).
Proof. exact walk_py_spec. Qed.
(* has_road as written in the code (short-circuit `or`, both/one/none) = Road.has_road *)
Theorem C02_has_road_py_eq : forall p fuel, wf_pos p -> (walk_fuel p <= fuel)%nat ->
  has_road_py fuel p = Done (has_road p).
Proof. exact has_road_py_eq. Qed.
(* ... and answers the declarative road question *)
Theorem C02_has_road_py : forall p fuel o, wf_pos p -> (walk_fuel p <= fuel)%nat ->
  (road_verdict p o <-> has_road_py fuel p = Done o).
Proof. exact has_road_py_spec. Qed.

(* ---- about the function regenerated from the source (gen/GameGen.v; has_road/_walk enter as Road.has_road) ---- *)
From TV Require Import model.PySem proofs.GameGenEq proofs.GameGenCor.
From TV Require gen.GameGen.
(* the translated Position.winner reports exactly the outcome the property describes *)
Theorem C02_source_winner_outcome : forall p, RoadSpec.wf_pos p -> forall r, RoadSpec.outcome p r <-> GameGen.winner p = Ok r.
Proof. exact gen_winner_outcome. Qed.

(* ---- _walk / is_road / has_road REGENERATED FROM THE SOURCE (gen/GameGen.v) and proved equal to the work-list model RoadPy.v, hence to the closure model and the declarative road verdict ---- *)
From TV Require Import model.Tak model.Road model.PySem spec.Rules spec.MoveSpec.
From TV Require Import proofs.Generator proofs.Invariant proofs.GameGenEq proofs.GameGenCor.
From TV Require spec.RoadSpec model.RoadPy.
(* _walk with the fuel the translator gives it, 5*size^2 + len(seeds) + 1 *)
Theorem C02_source_walk_eq :
  forall p seeds c horiz, shape p ->
  GameGen._walk p seeds c horiz =
  embed_fuel (RoadPy.walk_py (Z.to_nat (5 * size p * size p + zlen seeds + 1)) p seeds c horiz).
Proof. exact gen_walk_eq. Qed.
(* Position.has_road, translated (is_road, _walk, the four searches with short-circuit `or`): never out of fuel, no
   IndexError, and the answer of the closure model - on every position with a size^2 board of size >= 1 *)
Theorem C02_source_has_road_eq :
  forall p, RoadSpec.wf_pos p -> GameGen.has_road p = Ok (Road.has_road p).
Proof. exact gen_has_road_eq. Qed.
(* Position.winner now calls the TRANSLATED has_road *)
Theorem C02_source_winner_eq :
  forall p, RoadSpec.wf_pos p -> GameGen.winner p = Ok (Road.winner p).
Proof. exact gen_winner_eq. Qed.
(* C02: the translated has_road answers the declarative road question (both roads -> the player who just moved ...) *)
Theorem C02_source_has_road_verdict :
  forall p, RoadSpec.wf_pos p ->
  forall o, RoadSpec.road_verdict p o <-> GameGen.has_road p = Ok o.
Proof. exact gen_has_road_verdict. Qed.
