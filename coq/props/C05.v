(* C05 - positions are immutable values.  Property theorems only; proofs are in
   proofs/HeapProofs.v (generic) and proofs/HeapOblig.v (obligations generated
   from the current source through gen/HeapIR.v).
   Reading: a heap is a list of Python list objects (a position object is the
   list of its slots, `board` being slot 3); `run fuel P h args orc` executes
   one call of the translated function P; `orc` resolves everything that is not
   a heap effect (branches, loop counts, indices, slice bounds) and is
   universally quantified, as are fuel, heap and arguments. *)
From Coq Require Import List.
From TV Require Import model.HeapSem proofs.HeapProofs gen.HeapIR proofs.HeapOblig.
Import ListNotations.

(* a function all of whose in-place operations target objects it allocated itself leaves every
   pre-existing object unchanged - whether the call returns, raises part-way or gets stuck *)
Theorem C05_discipline_sound : forall P, fresh_only P = true ->
  forall fuel h args orc h' out, run fuel P h args orc = (h', out) ->
  forall l, l < length h -> nth_error h' l = nth_error h l.
Proof. exact discipline_sound. Qed.

(* the listed functions (move incl. _move_place/_move_slide, from_squares, from_config, parse_row,
   parse_tps, transform_position), as translated from the source NOW, all were translated and obey the discipline *)
Theorem C05_listed_functions_disciplined :
  all_translated = true /\ forall P, In P (map snd all_irs) -> fresh_only P = true.
Proof. exact listed_disciplined. Qed.

(* applying a move - accepted or refused, incl. a slide refused part-way - (or parsing, or transforming)
   changes no object that existed before the call: not the receiver's board list, none of its stacks,
   nothing belonging to an earlier position or to a sibling sharing stacks *)
Theorem C05_listed_functions_frame : forall P, In P (map snd all_irs) ->
  forall fuel h args orc h' out, run fuel P h args orc = (h', out) ->
  forall l, l < length h -> nth_error h' l = nth_error h l.
Proof. exact listed_frame. Qed.

(* a retained value reads the same (same objects, same contents, any depth) after any sequence of calls
   of disciplined programs *)
Theorem C05_snapshot_stable : forall cs h, closed h -> calls_ok h cs ->
  forall v, wfv (length h) v -> forall d, snap d (run_calls cs h) v = snap d h v.
Proof. exact snapshot_stable. Qed.

(* ... also for values created part-way through the history *)
Theorem C05_snapshot_stable_mid : forall pre post h, closed h -> calls_ok h (pre ++ post) ->
  forall v, wfv (length (run_calls pre h)) v ->
  forall d, snap d (run_calls (pre ++ post) h) v = snap d (run_calls pre h) v.
Proof. exact snapshot_stable_mid. Qed.

(* a position stays equal to the snapshot taken when it was created, over every interleaving of accepted
   and refused calls of the listed functions on any retained positions *)
Theorem C05_positions_immutable : forall pre post h, closed h -> calls_listed h (pre ++ post) ->
  forall v, wfv (length (run_calls pre h)) v ->
  forall d, snap d (run_calls (pre ++ post) h) v = snap d (run_calls pre h) v.
Proof. exact positions_immutable. Qed.
