#!/bin/bash
# MANIFEST.setup_cmd: build everything the checks need, offline, from files on disk.
set -e
cd "$(dirname "$0")"
export PYTHONHASHSEED=0
mkdir -p build evidence replays
/venv/bin/python -m harness.gen_consts
/venv/bin/python -m harness.pregen_all || true
/venv/bin/python -c "from harness import core; core.ensure_makefile()"
( cd coq && timeout 3000 make -j"$(nproc)" )
./harness/build_ext.sh >/dev/null
echo "setup ok"
