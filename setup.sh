#!/bin/bash
# MANIFEST.setup_cmd: build everything the checks need, offline, from files on disk.
set -e
cd "$(dirname "$0")"
export PYTHONHASHSEED=0
mkdir -p build evidence replays
/venv/bin/python -m harness.gen_consts
/venv/bin/python -m harness.pregen_all || true
/venv/bin/python -c "from harness import core; core.ensure_makefile()"
# full .vo build of the whole development; -k so that one broken file does not hide the others
( cd coq && timeout 3000 make -k -j"$(nproc)" >../build/setup_make.log 2>&1 ) || echo "warning: some files failed to build (see build/setup_make.log)"
# every property claimed in MANIFEST.json must have its theorem file built
CLAIMED=$(/venv/bin/python -c "import json;print(' '.join('props/'+c['property_id']+'.vo' for c in json.load(open('MANIFEST.json'))['checks']))")
( cd coq && timeout 3000 make -j"$(nproc)" $CLAIMED ) >>build/setup_make.log 2>&1 || { tail -30 build/setup_make.log; echo "setup FAILED: a claimed property file does not build"; exit 1; }
./harness/build_ext.sh >/dev/null
echo "setup ok"
