"""Stand-ins for packages that are absent from the sandbox (grpc, tqdm,
google.protobuf-generated tak.proto.analysis_pb2*), so that tak.mcts,
tak.self_play, tak.model.server, tak.model.grpc and tak.alphazero.trainer
import unmodified.  Importing this module installs them in sys.modules.
For spawned worker processes put /verif/shims on PYTHONPATH: the
sitecustomize.py next to this package imports it automatically."""
import importlib.machinery
import sys
import types

import numpy as np


def _module(name):
    m = types.ModuleType(name)
    # torch._dynamo probes optional packages with importlib.util.find_spec, which raises on __spec__ = None
    m.__spec__ = importlib.machinery.ModuleSpec(name, None)
    return m


def _install():
    if "grpc" not in sys.modules:
        try:
            import grpc  # noqa: F401
        except Exception:
            g = _module("grpc")
            g.aio = _module("grpc.aio")

            class _Server:
                def add_insecure_port(self, *a):
                    return 0

                async def start(self):
                    pass

                async def stop(self, *a):
                    pass

                async def wait_for_termination(self):
                    import asyncio
                    await asyncio.Event().wait()

            g.aio.Server = _Server
            g.aio.server = lambda *a, **k: _Server()

            class StatusCode:
                OK = 0
                UNAVAILABLE = 14

            g.StatusCode = StatusCode
            g.insecure_channel = lambda target: ("channel", target)
            g.RpcError = type("RpcError", (Exception,), {})
            sys.modules["grpc"] = g
            sys.modules["grpc.aio"] = g.aio
    if "tqdm" not in sys.modules:
        try:
            import tqdm  # noqa: F401
        except Exception:
            t = _module("tqdm")

            class tqdm:  # noqa
                def __init__(self, *a, **k):
                    self.n = 0

                def __enter__(self):
                    return self

                def __exit__(self, *a):
                    return False

                def update(self, n=1):
                    self.n += n

            t.tqdm = tqdm
            sys.modules["tqdm"] = t
    try:
        import google.protobuf  # noqa: F401
        have_pb = True
    except Exception:
        have_pb = False
    if not have_pb:
        pb = _module("tak.proto.analysis_pb2")

        class EvaluateRequest:
            def __init__(self, position=()):
                self.position = list(position)

        class EvaluateResponse:
            def __init__(self, move_probs=(), value=0.0, move_probs_bytes=b""):
                self.move_probs = list(move_probs)
                # a protobuf `float` field stores a float32
                self.value = float(np.float32(value))
                self.move_probs_bytes = bytes(move_probs_bytes)

        pb.EvaluateRequest = EvaluateRequest
        pb.EvaluateResponse = EvaluateResponse
        pbg = _module("tak.proto.analysis_pb2_grpc")

        class AnalysisServicer:
            pass

        class AnalysisStub:
            """the harness replaces .Evaluate with whatever transport it simulates"""
            def __init__(self, channel):
                self.channel = channel

            def Evaluate(self, request):
                raise RuntimeError("no transport installed")

        pbg.AnalysisServicer = AnalysisServicer
        pbg.AnalysisStub = AnalysisStub
        pbg.add_AnalysisServicer_to_server = lambda servicer, server: None
        sys.modules["tak.proto.analysis_pb2"] = pb
        sys.modules["tak.proto.analysis_pb2_grpc"] = pbg
        # make `from tak.proto import analysis_pb2` work without running tak/proto/__init__ lookups
        import importlib
        try:
            proto = importlib.import_module("tak.proto")
            proto.analysis_pb2 = pb
            proto.analysis_pb2_grpc = pbg
        except Exception:
            pass


_install()
