# imported automatically by any Python started with /verif/shims on PYTHONPATH
try:
    import verif_shims  # noqa: F401
except Exception:  # never break the interpreter
    pass
